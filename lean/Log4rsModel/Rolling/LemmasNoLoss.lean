import Log4rsModel.Rolling.LemmasRoller
/-
C05: ghost segmentation of the record stream into files, the invariant tying it to the disk, and
its preservation by every operation — for any trigger and any roller satisfying `RollContractE`
(every call of the roller discards at most one whole oldest archive; a call that reports `Err`
either left the log file alone or had already archived it).
-/
namespace Log4rs.Rolling
open Log4rs.Roller

variable {σ : Type}

/-- What the no-loss argument needs of a roller (`arch` = the retained archives, oldest first):
* `arch` looks only at paths other than the log file;
* success: the log file is gone, its content is the newest archive, at most ONE whole oldest
  archive was discarded;
* `Err`: either the log file is untouched and at most one whole oldest archive was discarded (a
  rotation that stopped half-way), or the roller had finished its work before reporting the error
  (log file gone, content archived, again at most one oldest archive discarded). What is excluded:
  an `Err` that leaves the content BOTH in the archive and in the log file. -/
structure RollContractE (roll : RollFn) (path : Path) (arch : Disk → List Bytes) : Prop where
  frame : ∀ d d', (∀ q, q ≠ path → d'.get? q = d.get? q) → arch d' = arch d
  ok : ∀ fault d x d' a, roll path fault d = (.ok x, d') → d.get? path = some a →
    d'.get? path = none ∧ ∃ j, j ≤ 1 ∧ arch d' = (arch d ++ [a]).drop j
  err : ∀ fault d e d' a, roll path fault d = (.error e, d') → d.get? path = some a →
    (d'.get? path = some a ∧ ∃ j, j ≤ 1 ∧ arch d' = (arch d).drop j) ∨
    (d'.get? path = none ∧ ∃ j, j ≤ 1 ∧ arch d' = (arch d ++ [a]).drop j)

theorem RollContractB.toE {roll : RollFn} {path : Path} {arch : Disk → List Bytes}
    (h : RollContractB roll path arch) : RollContractE roll path arch where
  frame := h.frame
  ok := fun fault d x d' a hr hg => ⟨(h.ok fault d x d' a hr hg).1, h.okB fault d x d' a hr hg⟩
  err := fun fault d e d' a hr hg => Or.inl ⟨by rw [(h.err fault d e d' hr).1, hg], h.errB fault d e d' hr⟩

theorem RollContractE.late {inner : RollFn} {path : Path} {arch : Disk → List Bytes}
    (h : RollContractE inner path arch) (late : Nat) : RollContractE (lateRoll inner late) path arch where
  frame := h.frame
  ok := by
    intro fault d x d' a hr hg
    unfold lateRoll at hr
    by_cases hf : fault late
    · simp only [hf, if_true] at hr
      rcases hin : inner path (fun _ => false) d with ⟨res, dd⟩
      rw [hin] at hr
      cases res with
      | ok y => simp at hr
      | error e => simp at hr
    · simp only [hf] at hr
      exact h.ok fault d x d' a hr hg
  err := by
    intro fault d e d' a hr hg
    unfold lateRoll at hr
    by_cases hf : fault late
    · simp only [hf, if_true] at hr
      rcases hin : inner path (fun _ => false) d with ⟨res, dd⟩
      rw [hin] at hr
      cases res with
      | ok y =>
        simp only at hr
        have hd : dd = d' := (Prod.mk.inj hr).2
        subst hd
        exact Or.inr (h.ok _ d y dd a hin hg)
      | error e' =>
        simp only at hr
        have hd : dd = d' := (Prod.mk.inj hr).2
        subst hd
        exact h.err _ d e' dd a hin hg
    · simp only [hf] at hr
      exact h.err fault d e d' a hr hg

/-- ghost state: the stream of written items (whole encoded records; pre-existing contents are
opaque items) cut into files — `closed` oldest first, `cur` = the active file — and the number of
times the roller has been called -/
structure Ghost where
  closed : List (List Bytes)
  cur : List Bytes
  calls : Nat := 0

/-- the operation closed the current segment: the roller succeeded, or it reported `Err` after
having archived the file (`gone` = the log file does not exist after the operation) -/
def closes (out : Out) (gone : Bool) : Bool :=
  out.rolled == some true || (out.rolled == some false && gone)

def callsOfOut (out : Out) : Nat := if out.rolled.isSome then 1 else 0

/-- how one operation moves the ghost; it reads the operation, its visible result and whether the
log file exists afterwards. A failed append (`appendFail`, or any `Err` in pre-process mode)
writes nothing; in post-process mode the record is written before the policy runs. -/
def ghostStepX (cfg : Cfg σ) (g : Ghost) (op : XOp) (o : Option Out) (gone : Bool) : Ghost :=
  match op, o with
  | .op (.append r _), some out =>
    let g := { g with calls := g.calls + callsOfOut out }
    if cfg.trig.pre then
      if closes out gone then
        { g with closed := g.closed ++ [g.cur], cur := if out.res = .ok then [encBytes r] else [] }
      else if out.res = .ok then { g with cur := g.cur ++ [encBytes r] }
      else g
    else
      if closes out gone then { g with closed := g.closed ++ [g.cur ++ [encBytes r]], cur := [] }
      else { g with cur := g.cur ++ [encBytes r] }
  | .appendFail _ _ _, some out =>
    let g := { g with calls := g.calls + callsOfOut out }
    if cfg.trig.pre ∧ closes out gone then { g with closed := g.closed ++ [g.cur], cur := [] } else g
  | .op .restart, _ => if cfg.appendMode then g else { g with cur := [] }
  | _, _ => g

def goneAfter (cfg : Cfg σ) (s : St σ) : Bool := (s.disk.get? cfg.path).isNone

/-- run a history with its ghost: outputs, final state, final ghost -/
def grunX (cfg : Cfg σ) (s : St σ) (g : Ghost) : List XOp → List (Option Out) × St σ × Ghost
  | [] => ([], s, g)
  | op :: ops =>
    let r := applyX cfg s op
    let rest := grunX cfg r.2 (ghostStepX cfg g op r.1 (goneAfter cfg r.2)) ops
    (r.1 :: rest.1, rest.2)

theorem grunX_outs (cfg : Cfg σ) (s : St σ) (g : Ghost) (ops : List XOp) :
    (grunX cfg s g ops).1 = (traceX cfg s ops).map (·.1) := by
  induction ops generalizing s g with
  | nil => rfl
  | cons op ops ih => simp [grunX, traceX, ih]

theorem traceX_length (cfg : Cfg σ) (s : St σ) (ops : List XOp) : (traceX cfg s ops).length = ops.length := by
  induction ops generalizing s with
  | nil => rfl
  | cons op ops ih => simp [traceX, ih]

theorem grunX_append (cfg : Cfg σ) (s : St σ) (g : Ghost) (ops1 ops2 : List XOp) :
    grunX cfg s g (ops1 ++ ops2) =
      ((grunX cfg s g ops1).1 ++ (grunX cfg (grunX cfg s g ops1).2.1 (grunX cfg s g ops1).2.2 ops2).1,
       (grunX cfg (grunX cfg s g ops1).2.1 (grunX cfg s g ops1).2.2 ops2).2) := by
  induction ops1 generalizing s g with
  | nil => simp [grunX]
  | cons op ops ih => simp [grunX, ih]

structure Inv (cfg : Cfg σ) (arch : Disk → List Bytes) (s : St σ) (g : Ghost) : Prop where
  wf : WF cfg s
  /-- the retained archives are a whole-file suffix of the closed segments; at most one segment
  has been discarded per call of the roller -/
  archives : ∃ k, k ≤ g.calls ∧ arch s.disk = (g.closed.drop k).map List.flatten
  /-- the active file holds exactly the current segment -/
  active : fileOf cfg s.disk = g.cur.flatten

theorem drop_map_snoc {α β : Type} (f : α → β) (l : List α) (c : α) (k j : Nat) :
    ∃ k', k' ≤ k + j ∧ (((l.drop k).map f) ++ [f c]).drop j = ((l ++ [c]).drop k').map f := by
  by_cases hk : k ≤ l.length
  · refine ⟨k + j, Nat.le_refl _, ?_⟩
    rw [← List.drop_drop, List.drop_append_of_le_length hk]
    simp [List.map_drop]
  · have : l.drop k = [] := List.drop_eq_nil_of_le (by omega)
    refine ⟨l.length + j, by omega, ?_⟩
    rw [this, ← List.drop_drop, List.drop_append_of_le_length (Nat.le_refl _)]
    simp [List.map_drop]

theorem openView_eq_cur (cfg : Cfg σ) (arch : Disk → List Bytes) (s : St σ) (g : Ghost) (inv : Inv cfg arch s g) :
    openView cfg s = g.cur.flatten := by
  rw [openView_of_opened cfg s inv.wf.1]
  exact inv.active

theorem fileOf_opened {cfg : Cfg σ} {s : St σ} {a : Bytes} (h : Opened cfg s a) : fileOf cfg s.disk = a := by
  obtain ⟨_, _, _, hg, _⟩ := h
  exact fileOf_of_get hg

theorem goneAfter_opened {cfg : Cfg σ} {s : St σ} {a : Bytes} (h : Opened cfg s a) : goneAfter cfg s = false := by
  obtain ⟨_, _, _, hg, _⟩ := h
  simp [goneAfter, hg]

/-- `restart`: the new appender finds what the old one left (append mode) or an emptied file -/
theorem restart_spec (cfg : Cfg σ) (s : St σ) (hwf : WF cfg s) :
    Opened cfg (restart cfg s) (if cfg.appendMode then fileOf cfg s.disk else []) ∧
    SameElse cfg s.disk (restart cfg s).disk := by
  have hd : fileOf cfg (dropWriter cfg s).disk = fileOf cfg s.disk ∧ SameElse cfg s.disk (dropWriter cfg s).disk := by
    unfold dropWriter
    cases hw : s.writer with
    | none => exact ⟨rfl, SameElse.refl cfg _⟩
    | some w =>
      rcases hwf.2 with h | ⟨a, w', hw', hb, hg, _⟩
      · simp [hw] at h
      · rw [hw] at hw'
        have : w' = w := (Option.some.inj hw').symm
        subst this
        simp only [flushW, hb, List.append_nil]
        exact ⟨fileOf_of_get (DiskL.get?_set_self _ _ _), SameElse.set cfg _ _⟩
  have h := getWriter_spec cfg
    { dropWriter cfg s with writer := none, tst := cfg.trig.reinit (dropWriter cfg s).tst (dropWriter cfg s).now, opened := false }
    (Or.inl rfl)
  simp only [openView, Bool.or_false] at h
  rw [hd.1] at h
  exact ⟨h.1, hd.2.trans h.2.2.1⟩


theorem Inv.restartStep {cfg : Cfg σ} {arch : Disk → List Bytes} {s : St σ} {g : Ghost}
    (hframe : ∀ d d', (∀ q, q ≠ cfg.path → d'.get? q = d.get? q) → arch d' = arch d)
    (inv : Inv cfg arch s g) (gone : Bool) :
    Inv cfg arch (restart cfg s) (ghostStepX cfg g (.op .restart) none gone) := by
  obtain ⟨ho, hse⟩ := restart_spec cfg s inv.wf
  obtain ⟨k, hkc, hk⟩ := inv.archives
  refine ⟨WF_restart cfg s, ⟨k, ?_, ?_⟩, ?_⟩
  · simp only [ghostStepX]; split <;> exact hkc
  · rw [hframe _ _ hse, hk]
    simp only [ghostStepX]
    split <;> rfl
  · rw [fileOf_opened ho]
    simp only [ghostStepX]
    cases ha : cfg.appendMode with
    | true => simpa using inv.active
    | false => simp

/-- the three shapes of a roller outcome, as the ghost sees them -/
theorem closes_true (gone : Bool) (out : Out) (h : out.rolled = some true) : closes out gone = true := by
  simp [closes, h]
theorem closes_none (gone : Bool) (out : Out) (h : out.rolled = none) : closes out gone = false := by
  simp [closes, h]
theorem closes_false (gone : Bool) (out : Out) (h : out.rolled = some false) : closes out gone = gone := by
  simp [closes, h]

theorem Inv.appendStep {cfg : Cfg σ} {arch : Disk → List Bytes} {s : St σ} {g : Ghost}
    (hc : RollContractE cfg.roll cfg.path arch)
    (inv : Inv cfg arch s g) (r : Rec) (f : Option Nat) :
    Inv cfg arch (append cfg s r (faultFn f)).2
      (ghostStepX cfg g (.op (.append r f)) (some (append cfg s r (faultFn f)).1)
        (goneAfter cfg (append cfg s r (faultFn f)).2)) := by
  have hov := openView_eq_cur cfg arch s g inv
  obtain ⟨k, hkc, hk⟩ := inv.archives
  have hwf' := (append_wf cfg s r (faultFn f) inv.wf).1
  cases hpre : cfg.trig.pre with
  | true =>
    obtain ⟨_, _, _, _, hno, herr, hyes⟩ := append_pre_spec cfg s r (faultFn f) inv.wf hpre _ _
      (append cfg s r (faultFn f)).1 (append cfg s r (faultFn f)).2 rfl rfl rfl
    cases hans : (cfg.trig.fire s.tst (openView cfg s).length s.now).1 with
    | no =>
      obtain ⟨hr, hro, ho, hse⟩ := hno hans
      have hg : ghostStepX cfg g (.op (.append r f)) (some (append cfg s r (faultFn f)).1)
          (goneAfter cfg (append cfg s r (faultFn f)).2) = { g with cur := g.cur ++ [encBytes r] } := by
        simp [ghostStepX, hpre, closes_none _ _ hro, hr, callsOfOut, hro]
      rw [hg]
      refine ⟨hwf', ⟨k, hkc, by rw [hc.frame _ _ hse, hk]⟩, ?_⟩
      rw [fileOf_opened ho, hov]
      simp
    | err =>
      obtain ⟨hr, hro, ho, hse⟩ := herr hans
      have hg : ghostStepX cfg g (.op (.append r f)) (some (append cfg s r (faultFn f)).1)
          (goneAfter cfg (append cfg s r (faultFn f)).2) = g := by
        simp [ghostStepX, hpre, closes_none _ _ hro, hr, callsOfOut, hro]
      rw [hg]
      refine ⟨hwf', ⟨k, hkc, by rw [hc.frame _ _ hse, hk]⟩, ?_⟩
      rw [fileOf_opened ho, hov]
    | yes =>
      obtain ⟨d1, hg1, hse1, h⟩ := hyes hans
      rcases h with ⟨x, hx, hr, hro, ho, hse⟩ | ⟨e, he, hr, hro, hw, hd⟩
      · have hroll : cfg.roll cfg.path (faultFn f) d1 = (.ok x, (cfg.roll cfg.path (faultFn f) d1).2) := by
          rw [← hx]
        obtain ⟨hgone, j, hj, harch⟩ := hc.ok _ d1 x _ _ hroll hg1
        have hfile : fileOf cfg (cfg.roll cfg.path (faultFn f) d1).2 = [] := by simp [fileOf, hgone]
        rw [hfile] at ho
        have hg : ghostStepX cfg g (.op (.append r f)) (some (append cfg s r (faultFn f)).1)
            (goneAfter cfg (append cfg s r (faultFn f)).2) =
            { closed := g.closed ++ [g.cur], cur := [encBytes r], calls := g.calls + 1 } := by
          simp [ghostStepX, hpre, closes_true _ _ hro, hr, callsOfOut, hro]
        rw [hg]
        obtain ⟨k', hk', hkk⟩ := drop_map_snoc List.flatten g.closed g.cur k j
        refine ⟨hwf', ⟨k', by simp only; omega, ?_⟩, ?_⟩
        · rw [hc.frame _ _ hse, harch, hc.frame _ _ hse1, hk, hov]
          exact hkk
        · rw [fileOf_opened ho]
          simp
      · have hroll : cfg.roll cfg.path (faultFn f) d1 = (.error e, (cfg.roll cfg.path (faultFn f) d1).2) := by
          rw [← he]
        rcases hc.err _ d1 e _ _ hroll hg1 with ⟨hsame, j, hj, harch⟩ | ⟨hgone, j, hj, harch⟩
        · have hgn : goneAfter cfg (append cfg s r (faultFn f)).2 = false := by
            simp [goneAfter, hd, hsame]
          have hg : ghostStepX cfg g (.op (.append r f)) (some (append cfg s r (faultFn f)).1)
              (goneAfter cfg (append cfg s r (faultFn f)).2) = { g with calls := g.calls + 1 } := by
            simp [ghostStepX, hpre, closes_false _ _ hro, hgn, hr, callsOfOut, hro]
          rw [hg]
          refine ⟨hwf', ⟨k + j, by simp only; omega, ?_⟩, ?_⟩
          · rw [hd, harch, hc.frame _ _ hse1, hk, ← List.map_drop, List.drop_drop]
          · rw [hd, fileOf, hsame, hov]
            rfl
        · have hgn : goneAfter cfg (append cfg s r (faultFn f)).2 = true := by
            simp [goneAfter, hd, hgone]
          have hg : ghostStepX cfg g (.op (.append r f)) (some (append cfg s r (faultFn f)).1)
              (goneAfter cfg (append cfg s r (faultFn f)).2) =
              { closed := g.closed ++ [g.cur], cur := [], calls := g.calls + 1 } := by
            simp [ghostStepX, hpre, closes_false _ _ hro, hgn, hr, callsOfOut, hro]
          rw [hg]
          obtain ⟨k', hk', hkk⟩ := drop_map_snoc List.flatten g.closed g.cur k j
          refine ⟨hwf', ⟨k', by simp only; omega, ?_⟩, ?_⟩
          · rw [hd, harch, hc.frame _ _ hse1, hk, hov]
            exact hkk
          · rw [hd]
            simp [fileOf, hgone]
  | false =>
    obtain ⟨_, _, _, _, hno, herr, hyes⟩ := append_post_spec cfg s r (faultFn f) inv.wf hpre _ _
      (append cfg s r (faultFn f)).1 (append cfg s r (faultFn f)).2 rfl rfl rfl
    cases hans : (cfg.trig.fire s.tst (openView cfg s ++ encBytes r).length s.now).1 with
    | no =>
      obtain ⟨hr, hro, ho, hse⟩ := hno hans
      have hg : ghostStepX cfg g (.op (.append r f)) (some (append cfg s r (faultFn f)).1)
          (goneAfter cfg (append cfg s r (faultFn f)).2) = { g with cur := g.cur ++ [encBytes r] } := by
        simp [ghostStepX, hpre, closes_none _ _ hro, callsOfOut, hro]
      rw [hg]
      refine ⟨hwf', ⟨k, hkc, by rw [hc.frame _ _ hse, hk]⟩, ?_⟩
      rw [fileOf_opened ho, hov]
      simp
    | err =>
      obtain ⟨hr, hro, ho, hse⟩ := herr hans
      have hg : ghostStepX cfg g (.op (.append r f)) (some (append cfg s r (faultFn f)).1)
          (goneAfter cfg (append cfg s r (faultFn f)).2) = { g with cur := g.cur ++ [encBytes r] } := by
        simp [ghostStepX, hpre, closes_none _ _ hro, callsOfOut, hro]
      rw [hg]
      refine ⟨hwf', ⟨k, hkc, by rw [hc.frame _ _ hse, hk]⟩, ?_⟩
      rw [fileOf_opened ho, hov]
      simp
    | yes =>
      obtain ⟨d1, hg1, hse1, hw, hd, h⟩ := hyes hans
      rcases h with ⟨x, hx, hr, hro⟩ | ⟨e, he, hr, hro⟩
      · have hroll : cfg.roll cfg.path (faultFn f) d1 = (.ok x, (cfg.roll cfg.path (faultFn f) d1).2) := by
          rw [← hx]
        obtain ⟨hgone, j, hj, harch⟩ := hc.ok _ d1 x _ _ hroll hg1
        have hg : ghostStepX cfg g (.op (.append r f)) (some (append cfg s r (faultFn f)).1)
            (goneAfter cfg (append cfg s r (faultFn f)).2) =
            { closed := g.closed ++ [g.cur ++ [encBytes r]], cur := [], calls := g.calls + 1 } := by
          simp [ghostStepX, hpre, closes_true _ _ hro, callsOfOut, hro]
        rw [hg]
        obtain ⟨k', hk', hkk⟩ := drop_map_snoc List.flatten g.closed (g.cur ++ [encBytes r]) k j
        refine ⟨hwf', ⟨k', by simp only; omega, ?_⟩, ?_⟩
        · rw [hd, harch, hc.frame _ _ hse1, hk, hov]
          simpa using hkk
        · rw [hd]
          simp [fileOf, hgone]
      · have hroll : cfg.roll cfg.path (faultFn f) d1 = (.error e, (cfg.roll cfg.path (faultFn f) d1).2) := by
          rw [← he]
        rcases hc.err _ d1 e _ _ hroll hg1 with ⟨hsame, j, hj, harch⟩ | ⟨hgone, j, hj, harch⟩
        · have hgn : goneAfter cfg (append cfg s r (faultFn f)).2 = false := by
            simp [goneAfter, hd, hsame]
          have hg : ghostStepX cfg g (.op (.append r f)) (some (append cfg s r (faultFn f)).1)
              (goneAfter cfg (append cfg s r (faultFn f)).2) =
              { g with cur := g.cur ++ [encBytes r], calls := g.calls + 1 } := by
            simp [ghostStepX, hpre, closes_false _ _ hro, hgn, callsOfOut, hro]
          rw [hg]
          refine ⟨hwf', ⟨k + j, by simp only; omega, ?_⟩, ?_⟩
          · rw [hd, harch, hc.frame _ _ hse1, hk, ← List.map_drop, List.drop_drop]
          · rw [hd, fileOf, hsame, hov]
            simp
        · have hgn : goneAfter cfg (append cfg s r (faultFn f)).2 = true := by
            simp [goneAfter, hd, hgone]
          have hg : ghostStepX cfg g (.op (.append r f)) (some (append cfg s r (faultFn f)).1)
              (goneAfter cfg (append cfg s r (faultFn f)).2) =
              { closed := g.closed ++ [g.cur ++ [encBytes r]], cur := [], calls := g.calls + 1 } := by
            simp [ghostStepX, hpre, closes_false _ _ hro, hgn, callsOfOut, hro]
          rw [hg]
          obtain ⟨k', hk', hkk⟩ := drop_map_snoc List.flatten g.closed (g.cur ++ [encBytes r]) k j
          refine ⟨hwf', ⟨k', by simp only; omega, ?_⟩, ?_⟩
          · rw [hd, harch, hc.frame _ _ hse1, hk, hov]
            simpa using hkk
          · rw [hd]
            simp [fileOf, hgone]

theorem Inv.appendFailStep {cfg : Cfg σ} {arch : Disk → List Bytes} {s : St σ} {g : Ghost}
    (hc : RollContractE cfg.roll cfg.path arch) (inv : Inv cfg arch s g) (r : Rec) (n : Nat) (f : Option Nat) :
    Inv cfg arch (appendFail cfg s r n (faultFn f)).2
      (ghostStepX cfg g (.appendFail r n f) (some (appendFail cfg s r n (faultFn f)).1)
        (goneAfter cfg (appendFail cfg s r n (faultFn f)).2)) := by
  have hov := openView_eq_cur cfg arch s g inv
  obtain ⟨k, hkc, hk⟩ := inv.archives
  have hwf' := appendFail_wf cfg s r n (faultFn f) inv.wf
  cases hpre : cfg.trig.pre with
  | true =>
    obtain ⟨_, _, _, _, hno, herr, hyes⟩ := appendFail_pre_spec cfg s r n (faultFn f) inv.wf hpre _ _
      (appendFail cfg s r n (faultFn f)).1 (appendFail cfg s r n (faultFn f)).2 rfl rfl rfl
    cases hans : (cfg.trig.fire s.tst (openView cfg s).length s.now).1 with
    | no =>
      obtain ⟨hr, hro, ho, hse⟩ := hno hans
      have hg : ghostStepX cfg g (.appendFail r n f) (some (appendFail cfg s r n (faultFn f)).1)
          (goneAfter cfg (appendFail cfg s r n (faultFn f)).2) = g := by
        simp [ghostStepX, closes_none _ _ hro, callsOfOut, hro]
      rw [hg]
      refine ⟨hwf', ⟨k, hkc, by rw [hc.frame _ _ hse, hk]⟩, ?_⟩
      rw [fileOf_opened ho, hov]
    | err =>
      obtain ⟨hr, hro, ho, hse⟩ := herr hans
      have hg : ghostStepX cfg g (.appendFail r n f) (some (appendFail cfg s r n (faultFn f)).1)
          (goneAfter cfg (appendFail cfg s r n (faultFn f)).2) = g := by
        simp [ghostStepX, closes_none _ _ hro, callsOfOut, hro]
      rw [hg]
      refine ⟨hwf', ⟨k, hkc, by rw [hc.frame _ _ hse, hk]⟩, ?_⟩
      rw [fileOf_opened ho, hov]
    | yes =>
      obtain ⟨d1, hg1, hse1, h⟩ := hyes hans
      rcases h with ⟨x, hx, hr, hro, ho, hse⟩ | ⟨e, he, hr, hro, hw, hd⟩
      · have hroll : cfg.roll cfg.path (faultFn f) d1 = (.ok x, (cfg.roll cfg.path (faultFn f) d1).2) := by
          rw [← hx]
        obtain ⟨hgone, j, hj, harch⟩ := hc.ok _ d1 x _ _ hroll hg1
        have hfile : fileOf cfg (cfg.roll cfg.path (faultFn f) d1).2 = [] := by simp [fileOf, hgone]
        rw [hfile] at ho
        have hg : ghostStepX cfg g (.appendFail r n f) (some (appendFail cfg s r n (faultFn f)).1)
            (goneAfter cfg (appendFail cfg s r n (faultFn f)).2) =
            { closed := g.closed ++ [g.cur], cur := [], calls := g.calls + 1 } := by
          simp [ghostStepX, hpre, closes_true _ _ hro, callsOfOut, hro]
        rw [hg]
        obtain ⟨k', hk', hkk⟩ := drop_map_snoc List.flatten g.closed g.cur k j
        refine ⟨hwf', ⟨k', by simp only; omega, ?_⟩, ?_⟩
        · rw [hc.frame _ _ hse, harch, hc.frame _ _ hse1, hk, hov]
          exact hkk
        · rw [fileOf_opened ho]
          simp
      · have hroll : cfg.roll cfg.path (faultFn f) d1 = (.error e, (cfg.roll cfg.path (faultFn f) d1).2) := by
          rw [← he]
        rcases hc.err _ d1 e _ _ hroll hg1 with ⟨hsame, j, hj, harch⟩ | ⟨hgone, j, hj, harch⟩
        · have hgn : goneAfter cfg (appendFail cfg s r n (faultFn f)).2 = false := by
            simp [goneAfter, hd, hsame]
          have hg : ghostStepX cfg g (.appendFail r n f) (some (appendFail cfg s r n (faultFn f)).1)
              (goneAfter cfg (appendFail cfg s r n (faultFn f)).2) = { g with calls := g.calls + 1 } := by
            simp [ghostStepX, closes_false _ _ hro, hgn, callsOfOut, hro]
          rw [hg]
          refine ⟨hwf', ⟨k + j, by simp only; omega, ?_⟩, ?_⟩
          · rw [hd, harch, hc.frame _ _ hse1, hk, ← List.map_drop, List.drop_drop]
          · rw [hd, fileOf, hsame, hov]
            rfl
        · have hgn : goneAfter cfg (appendFail cfg s r n (faultFn f)).2 = true := by
            simp [goneAfter, hd, hgone]
          have hg : ghostStepX cfg g (.appendFail r n f) (some (appendFail cfg s r n (faultFn f)).1)
              (goneAfter cfg (appendFail cfg s r n (faultFn f)).2) =
              { closed := g.closed ++ [g.cur], cur := [], calls := g.calls + 1 } := by
            simp [ghostStepX, hpre, closes_false _ _ hro, hgn, callsOfOut, hro]
          rw [hg]
          obtain ⟨k', hk', hkk⟩ := drop_map_snoc List.flatten g.closed g.cur k j
          refine ⟨hwf', ⟨k', by simp only; omega, ?_⟩, ?_⟩
          · rw [hd, harch, hc.frame _ _ hse1, hk, hov]
            exact hkk
          · rw [hd]
            simp [fileOf, hgone]
  | false =>
    obtain ⟨hout, ho, hse, _, _, _⟩ := appendFail_post_spec cfg s r n (faultFn f) inv.wf hpre
    have hg : ghostStepX cfg g (.appendFail r n f) (some (appendFail cfg s r n (faultFn f)).1)
        (goneAfter cfg (appendFail cfg s r n (faultFn f)).2) = g := by
      simp [ghostStepX, hpre, hout, callsOfOut]
    rw [hg]
    refine ⟨hwf', ⟨k, hkc, by rw [hc.frame _ _ hse, hk]⟩, ?_⟩
    rw [fileOf_opened ho, hov]

theorem Inv.stepX {cfg : Cfg σ} {arch : Disk → List Bytes} {s : St σ} {g : Ghost}
    (hc : RollContractE cfg.roll cfg.path arch) (inv : Inv cfg arch s g) (op : XOp) :
    Inv cfg arch (applyX cfg s op).2 (ghostStepX cfg g op (applyX cfg s op).1 (goneAfter cfg (applyX cfg s op).2)) := by
  cases op with
  | appendFail r n f => exact inv.appendFailStep hc r n f
  | op o =>
    cases o with
    | append r f => exact inv.appendStep hc r f
    | restart => exact inv.restartStep hc.frame _
    | tick dt => exact ⟨inv.wf, inv.archives, inv.active⟩

/-- the ghost the first appender starts with: every pre-existing archive is one opaque closed
segment, the pre-existing active content (append mode) is the first item of the current one -/
def Ghost.init (cfg : Cfg σ) (arch : Disk → List Bytes) (d : Disk) : Ghost :=
  { closed := (arch d).map (fun x => [x]), cur := if cfg.appendMode then [fileOf cfg d] else [] }

theorem Inv.atInit (cfg : Cfg σ) (arch : Disk → List Bytes)
    (hframe : ∀ d d', (∀ q, q ≠ cfg.path → d'.get? q = d.get? q) → arch d' = arch d)
    (d : Disk) (t0 : σ) (now : Nat) : Inv cfg arch (init cfg d t0 now) (Ghost.init cfg arch d) := by
  have h := getWriter_spec cfg { disk := d, writer := none, tst := cfg.trig.reinit t0 now, now := now, opened := false } (Or.inl rfl)
  have ho : Opened cfg (init cfg d t0 now) (if cfg.appendMode then fileOf cfg d else []) := by
    simpa [openView, init, build] using h.1
  have hse : SameElse cfg d (init cfg d t0 now).disk := by
    simpa [init, build] using h.2.2.1
  refine ⟨WF_init cfg d t0 now, ⟨0, Nat.zero_le _, ?_⟩, ?_⟩
  · rw [hframe _ _ hse]
    simp [Ghost.init, Function.comp_def]
  · rw [fileOf_opened ho]
    simp only [Ghost.init]
    split <;> simp

theorem Inv.historyX {cfg : Cfg σ} {arch : Disk → List Bytes}
    (hc : RollContractE cfg.roll cfg.path arch)
    (ops : List XOp) {s : St σ} {g : Ghost} (inv : Inv cfg arch s g) :
    Inv cfg arch (grunX cfg s g ops).2.1 (grunX cfg s g ops).2.2 := by
  induction ops generalizing s g with
  | nil => exact inv
  | cons op ops ih => exact ih (inv.stepX hc op)

/-! ### the ghost is the stream of written records -/

/-- how often the roller was called in a run -/
def rollCalls (outs : List (Option Out)) : Nat :=
  (outs.map (fun o => match o with | some out => callsOfOut out | none => 0)).sum

theorem ghostStepX_calls (cfg : Cfg σ) (s : St σ) (g : Ghost) (op : XOp) (gone : Bool) :
    (ghostStepX cfg g op (applyX cfg s op).1 gone).calls =
      g.calls + (match (applyX cfg s op).1 with | some out => callsOfOut out | none => 0) := by
  cases op with
  | appendFail r n f =>
    simp only [applyX, ghostStepX]
    split <;> rfl
  | op oo =>
    cases oo with
    | append r f =>
      simp only [applyX, applyOp, ghostStepX]
      split <;> (try split) <;> (try split) <;> rfl
    | restart =>
      simp only [applyX, applyOp, ghostStepX]
      split <;> rfl
    | tick dt => rfl

theorem grunX_calls (cfg : Cfg σ) (ops : List XOp) (s : St σ) (g : Ghost) :
    (grunX cfg s g ops).2.2.calls = g.calls + rollCalls (grunX cfg s g ops).1 := by
  induction ops generalizing s g with
  | nil => simp [grunX, rollCalls]
  | cons op ops ih =>
    simp only [grunX]
    rw [ih, ghostStepX_calls]
    simp only [rollCalls, List.map_cons, List.sum_cons]
    omega

def Op.isRestart : Op → Bool
  | .restart => true
  | _ => false

def XOp.isRestart : XOp → Bool
  | .op o => o.isRestart
  | .appendFail _ _ _ => false

/-- did the record of this (successful-encoder) append reach the file? post-process: always (the
policy runs after the flush); pre-process: iff the append returned `Ok` -/
def wrote (pre : Bool) (out : Out) : Bool :=
  if pre then out.res == .ok else true

/-- the items written by a history, in write order; an append whose encoder failed contributes
nothing -/
def writtenItemsX (pre : Bool) : List XOp → List (Option Out) → List Bytes
  | .op (.append r _) :: ops, some out :: outs => (if wrote pre out then [encBytes r] else []) ++ writtenItemsX pre ops outs
  | _ :: ops, _ :: outs => writtenItemsX pre ops outs
  | _, _ => []

/-- the items whose append returned `Ok` (the acknowledged stream), in call order -/
def ackedItemsX : List XOp → List (Option Out) → List Bytes
  | .op (.append r _) :: ops, some out :: outs => (if out.res = .ok then [encBytes r] else []) ++ ackedItemsX ops outs
  | _ :: ops, _ :: outs => ackedItemsX ops outs
  | _, _ => []

def Ghost.stream (g : Ghost) : List Bytes := (g.closed ++ [g.cur]).flatten

theorem ghostStepX_stream_append (cfg : Cfg σ) (g : Ghost) (r : Rec) (f : Option Nat) (out : Out) (gone : Bool) :
    (ghostStepX cfg g (.op (.append r f)) (some out) gone).stream =
      g.stream ++ (if wrote cfg.trig.pre out then [encBytes r] else []) := by
  simp only [ghostStepX, wrote, Ghost.stream]
  cases hpre : cfg.trig.pre with
  | true =>
    by_cases h1 : closes out gone = true
    · by_cases h2 : out.res = .ok <;> simp [h1, h2]
    · by_cases h2 : out.res = .ok <;> simp [h1, h2]
  | false =>
    by_cases h1 : closes out gone = true <;> simp [h1]

theorem ghostStepX_stream_appendFail (cfg : Cfg σ) (g : Ghost) (r : Rec) (n : Nat) (f : Option Nat) (o : Option Out) (gone : Bool) :
    (ghostStepX cfg g (.appendFail r n f) o gone).stream = g.stream := by
  cases o with
  | none => rfl
  | some out =>
    simp only [ghostStepX, Ghost.stream]
    split <;> simp

/-- the ghost is the written stream, in order, each item once — as long as no restart happens in
truncate mode (which discards the active segment; see `grunX_stream_sublist` and
`grunX_stream_after_restart` for that case) -/
theorem grunX_stream (cfg : Cfg σ) (ops : List XOp) (s : St σ) (g : Ghost)
    (hnr : cfg.appendMode = true ∨ ∀ op ∈ ops, op.isRestart = false) :
    (grunX cfg s g ops).2.2.stream = g.stream ++ writtenItemsX cfg.trig.pre ops (grunX cfg s g ops).1 := by
  induction ops generalizing s g with
  | nil => simp [grunX, writtenItemsX]
  | cons op ops ih =>
    have hnr' : cfg.appendMode = true ∨ ∀ op ∈ ops, op.isRestart = false := by
      rcases hnr with h | h
      · exact Or.inl h
      · exact Or.inr (fun o ho => h o (List.mem_cons_of_mem _ ho))
    simp only [grunX]
    rw [ih _ _ hnr']
    cases op with
    | appendFail r n f =>
      rw [ghostStepX_stream_appendFail]
      simp [writtenItemsX]
    | op o =>
      cases o with
      | append r f =>
        simp only [applyX, applyOp, writtenItemsX]
        rw [ghostStepX_stream_append]
        simp
      | restart =>
        have : ghostStepX cfg g (.op .restart) (applyX cfg s (.op .restart)).1
            (goneAfter cfg (applyX cfg s (.op .restart)).2) = g := by
          rcases hnr with h | h
          · simp [ghostStepX, h]
          · have := h (.op .restart) (List.mem_cons_self ..)
            simp [XOp.isRestart, Op.isRestart] at this
        rw [this]
        simp [applyX, applyOp, writtenItemsX]
      | tick dt => simp [applyX, applyOp, writtenItemsX, ghostStepX]

/-- without any hypothesis on restarts: the ghost stream is a subsequence of the pre-existing
items followed by the written ones — nothing invented, nothing duplicated, nothing reordered; what
may be missing is what a truncate-mode restart discarded -/
theorem grunX_stream_sublist (cfg : Cfg σ) (ops : List XOp) (s : St σ) (g : Ghost) :
    (grunX cfg s g ops).2.2.stream.Sublist (g.stream ++ writtenItemsX cfg.trig.pre ops (grunX cfg s g ops).1) := by
  induction ops generalizing s g with
  | nil => simp [grunX, writtenItemsX]
  | cons op ops ih =>
    simp only [grunX]
    refine (ih _ _).trans ?_
    cases op with
    | appendFail r n f =>
      rw [ghostStepX_stream_appendFail]
      simp [writtenItemsX]
    | op o =>
      cases o with
      | append r f =>
        simp only [applyX, applyOp, writtenItemsX]
        rw [ghostStepX_stream_append]
        simp
      | restart =>
        have hsub : ∀ gone, (ghostStepX cfg g (.op .restart) none gone).stream.Sublist g.stream := by
          intro gone
          simp only [ghostStepX, Ghost.stream]
          split
          · exact List.Sublist.refl _
          · simp
        simp only [applyX, applyOp, writtenItemsX]
        exact List.Sublist.append (hsub _) (List.Sublist.refl _)
      | tick dt => simp [applyX, applyOp, writtenItemsX, ghostStepX]

/-- … and exactly what it discards: after a restart (truncate mode: the active segment is dropped
at open, the archives are untouched) followed by a restart-free history, the stream is what had
been archived before, followed by everything written since -/
theorem grunX_stream_after_restart (cfg : Cfg σ) (ops1 ops2 : List XOp) (s : St σ) (g : Ghost)
    (ham : cfg.appendMode = false) (hnr : ∀ op ∈ ops2, op.isRestart = false) :
    let mid := grunX cfg s g ops1
    let fin := grunX cfg s g (ops1 ++ .op .restart :: ops2)
    fin.2.2.stream = mid.2.2.closed.flatten ++
      writtenItemsX cfg.trig.pre ops2 (fin.1.drop (ops1.length + 1)) := by
  intro mid fin
  have hlen : mid.1.length = ops1.length := by
    simp only [mid]
    rw [grunX_outs]
    simp [traceX_length]
  have hfin : fin = _ := grunX_append cfg s g ops1 (.op .restart :: ops2)
  rw [hfin]
  simp only [grunX]
  rw [grunX_stream cfg ops2 _ _ (Or.inr hnr)]
  have hdrop : ∀ (a b : List (Option Out)) (x : Option Out), a.length = ops1.length →
      (a ++ x :: b).drop (ops1.length + 1) = b := by
    intro a b x ha
    rw [← ha, ← List.drop_drop, List.drop_left]
    rfl
  rw [hdrop _ _ _ hlen]
  simp [ghostStepX, ham, Ghost.stream, mid]

theorem ackedX_sublist_writtenX (pre : Bool) (ops : List XOp) (outs : List (Option Out)) :
    (ackedItemsX ops outs).Sublist (writtenItemsX pre ops outs) := by
  induction ops generalizing outs with
  | nil => simp [ackedItemsX, writtenItemsX]
  | cons op ops ih =>
    cases outs with
    | nil => cases op with
      | op o => cases o <;> simp [ackedItemsX, writtenItemsX]
      | appendFail r n f => simp [ackedItemsX, writtenItemsX]
    | cons o outs =>
      cases op with
      | appendFail r n f => simpa [ackedItemsX, writtenItemsX] using ih outs
      | op oo =>
        cases oo with
        | append r f =>
          cases o with
          | none => simpa [ackedItemsX, writtenItemsX] using ih outs
          | some out =>
            simp only [ackedItemsX, writtenItemsX]
            apply List.Sublist.append _ (ih outs)
            by_cases hok : out.res = .ok
            · have : wrote pre out = true := by cases pre <;> simp [wrote, hok]
              simp [hok, this]
            · simp [hok]
        | restart => simpa [ackedItemsX, writtenItemsX] using ih outs
        | tick dt => simpa [ackedItemsX, writtenItemsX] using ih outs

end Log4rs.Rolling
