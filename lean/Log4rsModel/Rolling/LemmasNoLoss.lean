import Log4rsModel.Rolling.LemmasRoller
/-
C05: ghost segmentation of the record stream into files, the invariant tying it to the disk, and
its preservation by every operation — for any trigger and any roller satisfying `RollContract`.
-/
namespace Log4rs.Rolling
open Log4rs.Roller

variable {σ : Type}

/-- ghost state: the stream of written items (whole encoded records; pre-existing contents are
opaque items) cut into files — `closed` oldest first, `cur` = the active file -/
structure Ghost where
  closed : List (List Bytes)
  cur : List Bytes

/-- how one operation moves the ghost (reads only the operation and its visible result) -/
def ghostStep (cfg : Cfg σ) (g : Ghost) (op : Op) (o : Option Out) : Ghost :=
  match op, o with
  | .append r _, some out =>
    if cfg.trig.pre then
      if out.rolled = some true then { closed := g.closed ++ [g.cur], cur := [encBytes r] }
      else if out.res = .ok then { g with cur := g.cur ++ [encBytes r] }
      else g
    else
      if out.rolled = some true then { closed := g.closed ++ [g.cur ++ [encBytes r]], cur := [] }
      else { g with cur := g.cur ++ [encBytes r] }
  | .restart, _ => if cfg.appendMode then g else { g with cur := [] }
  | _, _ => g

/-- run a history with its ghost -/
def grun (cfg : Cfg σ) (s : St σ) (g : Ghost) : List Op → List (Option Out) × St σ × Ghost
  | [] => ([], s, g)
  | op :: ops =>
    let r := applyOp cfg s op
    let rest := grun cfg r.2 (ghostStep cfg g op r.1) ops
    (r.1 :: rest.1, rest.2)

theorem grun_fst_snd (cfg : Cfg σ) (s : St σ) (g : Ghost) (ops : List Op) :
    ((grun cfg s g ops).1, (grun cfg s g ops).2.1) = run cfg s ops := by
  induction ops generalizing s g with
  | nil => rfl
  | cons op ops ih =>
    have := ih (applyOp cfg s op).2 (ghostStep cfg g op (applyOp cfg s op).1)
    simp only [grun, run]
    rw [← this]

structure Inv (cfg : Cfg σ) (arch : Disk → List Bytes) (s : St σ) (g : Ghost) : Prop where
  wf : WF cfg s
  /-- the retained archives are a whole-file suffix of the closed segments -/
  archives : ∃ k, arch s.disk = (g.closed.drop k).map List.flatten
  /-- the active file holds exactly the current segment -/
  active : fileOf cfg s.disk = g.cur.flatten

theorem drop_map_snoc {α β : Type} (f : α → β) (l : List α) (c : α) (k j : Nat) :
    ∃ k', (((l.drop k).map f) ++ [f c]).drop j = ((l ++ [c]).drop k').map f := by
  by_cases hk : k ≤ l.length
  · refine ⟨k + j, ?_⟩
    rw [← List.drop_drop, List.drop_append_of_le_length hk]
    simp [List.map_drop]
  · have : l.drop k = [] := List.drop_eq_nil_of_le (by omega)
    refine ⟨l.length + j, ?_⟩
    rw [this, ← List.drop_drop, List.drop_append_of_le_length (Nat.le_refl _)]
    simp [List.map_drop]

theorem openView_eq_cur (cfg : Cfg σ) (arch : Disk → List Bytes) (s : St σ) (g : Ghost) (inv : Inv cfg arch s g) :
    openView cfg s = g.cur.flatten := by
  rw [openView_of_opened cfg s inv.wf.1]
  exact inv.active

theorem fileOf_opened {cfg : Cfg σ} {s : St σ} {a : Bytes} (h : Opened cfg s a) : fileOf cfg s.disk = a := by
  obtain ⟨_, _, _, hg, _⟩ := h
  exact fileOf_of_get hg

/-- `restart`: the new appender finds what the old one left (append mode) or an emptied file -/
theorem restart_spec (cfg : Cfg σ) (s : St σ) (hwf : WF cfg s) :
    Opened cfg (restart cfg s) (if cfg.appendMode then fileOf cfg s.disk else []) ∧
    SameElse cfg s.disk (restart cfg s).disk := by
  have hd : fileOf cfg (dropWriter cfg s).disk = fileOf cfg s.disk ∧ SameElse cfg s.disk (dropWriter cfg s).disk := by
    unfold dropWriter
    cases hw : s.writer with
    | none => exact ⟨rfl, SameElse.refl cfg _⟩
    | some w =>
      rcases hwf.2 with h | ⟨a, w', hw', hb, hg, _⟩
      · simp [hw] at h
      · rw [hw] at hw'
        have : w' = w := (Option.some.inj hw').symm
        subst this
        simp only [flushW, hb, List.append_nil]
        exact ⟨fileOf_of_get (DiskL.get?_set_self _ _ _), SameElse.set cfg _ _⟩
  have h := getWriter_spec cfg
    { dropWriter cfg s with writer := none, tst := cfg.trig.reinit (dropWriter cfg s).tst (dropWriter cfg s).now, opened := false }
    (Or.inl rfl)
  simp only [openView, Bool.or_false] at h
  rw [hd.1] at h
  exact ⟨h.1, hd.2.trans h.2.2.1⟩

theorem Inv.restartStep {cfg : Cfg σ} {arch : Disk → List Bytes} {s : St σ} {g : Ghost}
    (hframe : ∀ d d', (∀ q, q ≠ cfg.path → d'.get? q = d.get? q) → arch d' = arch d)
    (inv : Inv cfg arch s g) : Inv cfg arch (restart cfg s) (ghostStep cfg g .restart none) := by
  obtain ⟨ho, hse⟩ := restart_spec cfg s inv.wf
  refine ⟨WF_restart cfg s, ?_, ?_⟩
  · obtain ⟨k, hk⟩ := inv.archives
    refine ⟨k, ?_⟩
    rw [hframe _ _ hse, hk]
    simp only [ghostStep]
    split <;> rfl
  · rw [fileOf_opened ho]
    simp only [ghostStep]
    cases ha : cfg.appendMode with
    | true => simpa using inv.active
    | false => simp

theorem Inv.appendStep {cfg : Cfg σ} {arch : Disk → List Bytes} {s : St σ} {g : Ghost}
    (hc : RollContract cfg.roll cfg.path arch)
    (inv : Inv cfg arch s g) (r : Rec) (f : Option Nat) :
    Inv cfg arch (append cfg s r (faultFn f)).2 (ghostStep cfg g (.append r f) (some (append cfg s r (faultFn f)).1)) := by
  have hov := openView_eq_cur cfg arch s g inv
  obtain ⟨k, hk⟩ := inv.archives
  have hwf' := (append_wf cfg s r (faultFn f) inv.wf).1
  cases hpre : cfg.trig.pre with
  | true =>
    obtain ⟨_, _, _, _, hno, herr, hyes⟩ := append_pre_spec cfg s r (faultFn f) inv.wf hpre _ _
      (append cfg s r (faultFn f)).1 (append cfg s r (faultFn f)).2 rfl rfl rfl
    cases hans : (cfg.trig.fire s.tst (openView cfg s).length s.now).1 with
    | no =>
      obtain ⟨hr, hro, ho, hse⟩ := hno hans
      have hg : ghostStep cfg g (.append r f) (some (append cfg s r (faultFn f)).1) = { g with cur := g.cur ++ [encBytes r] } := by
        simp [ghostStep, hpre, hro, hr]
      rw [hg]
      refine ⟨hwf', ⟨k, by rw [hc.frame _ _ hse, hk]⟩, ?_⟩
      rw [fileOf_opened ho, hov]
      simp
    | err =>
      obtain ⟨hr, hro, ho, hse⟩ := herr hans
      have hg : ghostStep cfg g (.append r f) (some (append cfg s r (faultFn f)).1) = g := by
        simp [ghostStep, hpre, hro, hr]
      rw [hg]
      refine ⟨hwf', ⟨k, by rw [hc.frame _ _ hse, hk]⟩, ?_⟩
      rw [fileOf_opened ho, hov]
    | yes =>
      obtain ⟨d1, hg1, hse1, h⟩ := hyes hans
      rcases h with ⟨x, hx, hr, hro, ho, hse⟩ | ⟨e, he, hr, hro, hw, hd⟩
      · have hroll : cfg.roll cfg.path (faultFn f) d1 = (.ok x, (cfg.roll cfg.path (faultFn f) d1).2) := by
          rw [← hx]
        obtain ⟨hgone, j, harch⟩ := hc.ok _ d1 x _ _ hroll hg1
        have hfile : fileOf cfg (cfg.roll cfg.path (faultFn f) d1).2 = [] := by simp [fileOf, hgone]
        rw [hfile] at ho
        have hg : ghostStep cfg g (.append r f) (some (append cfg s r (faultFn f)).1) = { closed := g.closed ++ [g.cur], cur := [encBytes r] } := by
          simp [ghostStep, hpre, hro]
        rw [hg]
        refine ⟨hwf', ?_, ?_⟩
        · rw [hc.frame _ _ hse, harch, hc.frame _ _ hse1, hk, hov]
          exact drop_map_snoc List.flatten g.closed g.cur k j
        · rw [fileOf_opened ho]
          simp
      · have hroll : cfg.roll cfg.path (faultFn f) d1 = (.error e, (cfg.roll cfg.path (faultFn f) d1).2) := by
          rw [← he]
        obtain ⟨hsame, j, harch⟩ := hc.err _ d1 e _ hroll
        have hg : ghostStep cfg g (.append r f) (some (append cfg s r (faultFn f)).1) = g := by
          simp [ghostStep, hpre, hro, hr]
        rw [hg]
        refine ⟨hwf', ⟨k + j, ?_⟩, ?_⟩
        · rw [hd, harch, hc.frame _ _ hse1, hk, ← List.map_drop, List.drop_drop]
        · rw [hd, fileOf, hsame, hg1, hov]
          rfl
  | false =>
    obtain ⟨_, _, _, _, hno, herr, hyes⟩ := append_post_spec cfg s r (faultFn f) inv.wf hpre _ _
      (append cfg s r (faultFn f)).1 (append cfg s r (faultFn f)).2 rfl rfl rfl
    cases hans : (cfg.trig.fire s.tst (openView cfg s ++ encBytes r).length s.now).1 with
    | no =>
      obtain ⟨hr, hro, ho, hse⟩ := hno hans
      have hg : ghostStep cfg g (.append r f) (some (append cfg s r (faultFn f)).1) = { g with cur := g.cur ++ [encBytes r] } := by
        simp [ghostStep, hpre, hro]
      rw [hg]
      refine ⟨hwf', ⟨k, by rw [hc.frame _ _ hse, hk]⟩, ?_⟩
      rw [fileOf_opened ho, hov]
      simp
    | err =>
      obtain ⟨hr, hro, ho, hse⟩ := herr hans
      have hg : ghostStep cfg g (.append r f) (some (append cfg s r (faultFn f)).1) = { g with cur := g.cur ++ [encBytes r] } := by
        simp [ghostStep, hpre, hro]
      rw [hg]
      refine ⟨hwf', ⟨k, by rw [hc.frame _ _ hse, hk]⟩, ?_⟩
      rw [fileOf_opened ho, hov]
      simp
    | yes =>
      obtain ⟨d1, hg1, hse1, hw, hd, h⟩ := hyes hans
      rcases h with ⟨x, hx, hr, hro⟩ | ⟨e, he, hr, hro⟩
      · have hroll : cfg.roll cfg.path (faultFn f) d1 = (.ok x, (cfg.roll cfg.path (faultFn f) d1).2) := by
          rw [← hx]
        obtain ⟨hgone, j, harch⟩ := hc.ok _ d1 x _ _ hroll hg1
        have hg : ghostStep cfg g (.append r f) (some (append cfg s r (faultFn f)).1) = { closed := g.closed ++ [g.cur ++ [encBytes r]], cur := [] } := by
          simp [ghostStep, hpre, hro]
        rw [hg]
        refine ⟨hwf', ?_, ?_⟩
        · rw [hd, harch, hc.frame _ _ hse1, hk, hov]
          have := drop_map_snoc List.flatten g.closed (g.cur ++ [encBytes r]) k j
          simpa using this
        · rw [hd]
          simp [fileOf, hgone]
      · have hroll : cfg.roll cfg.path (faultFn f) d1 = (.error e, (cfg.roll cfg.path (faultFn f) d1).2) := by
          rw [← he]
        obtain ⟨hsame, j, harch⟩ := hc.err _ d1 e _ hroll
        have hg : ghostStep cfg g (.append r f) (some (append cfg s r (faultFn f)).1) = { g with cur := g.cur ++ [encBytes r] } := by
          simp [ghostStep, hpre, hro]
        rw [hg]
        refine ⟨hwf', ⟨k + j, ?_⟩, ?_⟩
        · rw [hd, harch, hc.frame _ _ hse1, hk, ← List.map_drop, List.drop_drop]
        · rw [hd, fileOf, hsame, hg1, hov]
          simp

theorem Inv.step {cfg : Cfg σ} {arch : Disk → List Bytes} {s : St σ} {g : Ghost}
    (hc : RollContract cfg.roll cfg.path arch)
    (inv : Inv cfg arch s g) (op : Op) :
    Inv cfg arch (applyOp cfg s op).2 (ghostStep cfg g op (applyOp cfg s op).1) := by
  cases op with
  | append r f => exact inv.appendStep hc r f
  | restart => exact inv.restartStep hc.frame
  | tick dt => exact ⟨inv.wf, inv.archives, inv.active⟩

/-- the ghost the first appender starts with: every pre-existing archive is one opaque closed
segment, the pre-existing active content (append mode) is the first item of the current one -/
def Ghost.init (cfg : Cfg σ) (arch : Disk → List Bytes) (d : Disk) : Ghost :=
  { closed := (arch d).map (fun x => [x]), cur := if cfg.appendMode then [fileOf cfg d] else [] }

theorem Inv.atInit (cfg : Cfg σ) (arch : Disk → List Bytes)
    (hframe : ∀ d d', (∀ q, q ≠ cfg.path → d'.get? q = d.get? q) → arch d' = arch d)
    (d : Disk) (t0 : σ) (now : Nat) : Inv cfg arch (init cfg d t0 now) (Ghost.init cfg arch d) := by
  have h := getWriter_spec cfg { disk := d, writer := none, tst := cfg.trig.reinit t0 now, now := now, opened := false } (Or.inl rfl)
  have ho : Opened cfg (init cfg d t0 now) (if cfg.appendMode then fileOf cfg d else []) := by
    simpa [openView, init, build] using h.1
  have hse : SameElse cfg d (init cfg d t0 now).disk := by
    simpa [init, build] using h.2.2.1
  refine ⟨WF_init cfg d t0 now, ⟨0, ?_⟩, ?_⟩
  · rw [hframe _ _ hse]
    simp [Ghost.init, Function.comp_def]
  · rw [fileOf_opened ho]
    simp only [Ghost.init]
    split <;> simp

theorem Inv.history {cfg : Cfg σ} {arch : Disk → List Bytes}
    (hc : RollContract cfg.roll cfg.path arch)
    (ops : List Op) {s : St σ} {g : Ghost} (inv : Inv cfg arch s g) :
    Inv cfg arch (grun cfg s g ops).2.1 (grun cfg s g ops).2.2 := by
  induction ops generalizing s g with
  | nil => exact inv
  | cons op ops ih => exact ih (inv.step hc op)

end Log4rs.Rolling

namespace Log4rs.Rolling
open Log4rs.Roller

variable {σ : Type}

def Op.isRestart : Op → Bool
  | .restart => true
  | _ => false

/-- did the record of this append reach the file? post-process: always (the policy runs after the
flush); pre-process: iff the append returned `Ok` (after a successful roll it always does) -/
def wrote (pre : Bool) (out : Out) : Bool :=
  if pre then (out.rolled == some true || out.res == .ok) else true

/-- the items written by a history, in write order -/
def writtenItems (pre : Bool) : List Op → List (Option Out) → List Bytes
  | .append r _ :: ops, some out :: outs => (if wrote pre out then [encBytes r] else []) ++ writtenItems pre ops outs
  | _ :: ops, _ :: outs => writtenItems pre ops outs
  | _, _ => []

/-- the items whose append returned `Ok` (the acknowledged stream), in call order -/
def ackedItems : List Op → List (Option Out) → List Bytes
  | .append r _ :: ops, some out :: outs => (if out.res = .ok then [encBytes r] else []) ++ ackedItems ops outs
  | _ :: ops, _ :: outs => ackedItems ops outs
  | _, _ => []

def Ghost.stream (g : Ghost) : List Bytes := (g.closed ++ [g.cur]).flatten

theorem ghostStep_stream_append (cfg : Cfg σ) (g : Ghost) (r : Rec) (f : Option Nat) (out : Out) :
    (ghostStep cfg g (.append r f) (some out)).stream =
      g.stream ++ (if wrote cfg.trig.pre out then [encBytes r] else []) := by
  simp only [ghostStep, wrote, Ghost.stream]
  cases hpre : cfg.trig.pre with
  | true =>
    by_cases h1 : out.rolled = some true
    · simp [h1]
    · by_cases h2 : out.res = .ok
      · simp [h1, h2]
      · simp [h1, h2]
  | false =>
    by_cases h1 : out.rolled = some true <;> simp [h1]

/-- the ghost is the written stream, in order, each item once -/
theorem grun_stream (cfg : Cfg σ) (ops : List Op) (s : St σ) (g : Ghost)
    (hnr : cfg.appendMode = true ∨ ∀ op ∈ ops, op.isRestart = false) :
    (grun cfg s g ops).2.2.stream = g.stream ++ writtenItems cfg.trig.pre ops (grun cfg s g ops).1 := by
  induction ops generalizing s g with
  | nil => simp [grun, writtenItems]
  | cons op ops ih =>
    have hnr' : cfg.appendMode = true ∨ ∀ op ∈ ops, op.isRestart = false := by
      rcases hnr with h | h
      · exact Or.inl h
      · exact Or.inr (fun o ho => h o (List.mem_cons_of_mem _ ho))
    simp only [grun]
    rw [ih _ _ hnr']
    cases op with
    | append r f =>
      simp only [applyOp, writtenItems]
      rw [ghostStep_stream_append]
      simp
    | restart =>
      have : ghostStep cfg g .restart (applyOp cfg s .restart).1 = g := by
        rcases hnr with h | h
        · simp [ghostStep, h]
        · have := h .restart (List.mem_cons_self ..)
          simp [Op.isRestart] at this
      rw [this]
      simp [applyOp, writtenItems]
    | tick dt => simp [applyOp, writtenItems, ghostStep]

theorem acked_sublist_written (pre : Bool) (ops : List Op) (outs : List (Option Out)) :
    (ackedItems ops outs).Sublist (writtenItems pre ops outs) := by
  induction ops generalizing outs with
  | nil => simp [ackedItems, writtenItems]
  | cons op ops ih =>
    cases outs with
    | nil => cases op <;> simp [ackedItems, writtenItems]
    | cons o outs =>
      cases op with
      | append r f =>
        cases o with
        | none => simpa [ackedItems, writtenItems] using ih outs
        | some out =>
          simp only [ackedItems, writtenItems]
          apply List.Sublist.append _ (ih outs)
          by_cases hok : out.res = .ok
          · have : wrote pre out = true := by cases pre <;> simp [wrote, hok]
            simp [hok, this]
          · simp [hok]
      | restart => simpa [ackedItems, writtenItems] using ih outs
      | tick dt => simpa [ackedItems, writtenItems] using ih outs


/-! ### histories with failing encoders (`XOp`) -/

/-- a failed append writes nothing; in pre-process mode the policy has run before the encoder, so a
rotation may have closed the current segment -/
def ghostStepX (cfg : Cfg σ) (g : Ghost) (op : XOp) (o : Option Out) : Ghost :=
  match op, o with
  | .op op, o => ghostStep cfg g op o
  | .appendFail _ _ _, some out =>
    if cfg.trig.pre ∧ out.rolled = some true then { closed := g.closed ++ [g.cur], cur := [] } else g
  | .appendFail _ _ _, none => g

def grunX (cfg : Cfg σ) (s : St σ) (g : Ghost) : List XOp → List (Option Out) × St σ × Ghost
  | [] => ([], s, g)
  | op :: ops =>
    let r := applyX cfg s op
    let rest := grunX cfg r.2 (ghostStepX cfg g op r.1) ops
    (r.1 :: rest.1, rest.2)

theorem grunX_outs_state (cfg : Cfg σ) (s : St σ) (g : Ghost) (ops : List XOp) :
    ((grunX cfg s g ops).1.zip ((traceX cfg s ops).map (·.2))) = (traceX cfg s ops).map (fun e => (e.1, e.2)) ∧
    (grunX cfg s g ops).1 = (traceX cfg s ops).map (·.1) := by
  induction ops generalizing s g with
  | nil => exact ⟨rfl, rfl⟩
  | cons op ops ih =>
    obtain ⟨h1, h2⟩ := ih (applyX cfg s op).2 (ghostStepX cfg g op (applyX cfg s op).1)
    simp only [grunX, traceX, List.map_cons, List.zip_cons_cons]
    exact ⟨by rw [h1], by rw [h2]⟩

theorem Inv.appendFailStep {cfg : Cfg σ} {arch : Disk → List Bytes} {s : St σ} {g : Ghost}
    (hc : RollContract cfg.roll cfg.path arch) (inv : Inv cfg arch s g) (r : Rec) (n : Nat) (f : Option Nat) :
    Inv cfg arch (appendFail cfg s r n (faultFn f)).2
      (ghostStepX cfg g (.appendFail r n f) (some (appendFail cfg s r n (faultFn f)).1)) := by
  have hov := openView_eq_cur cfg arch s g inv
  obtain ⟨k, hk⟩ := inv.archives
  have hwf' := appendFail_wf cfg s r n (faultFn f) inv.wf
  cases hpre : cfg.trig.pre with
  | true =>
    obtain ⟨_, _, _, _, hno, herr, hyes⟩ := appendFail_pre_spec cfg s r n (faultFn f) inv.wf hpre _ _
      (appendFail cfg s r n (faultFn f)).1 (appendFail cfg s r n (faultFn f)).2 rfl rfl rfl
    cases hans : (cfg.trig.fire s.tst (openView cfg s).length s.now).1 with
    | no =>
      obtain ⟨hr, hro, ho, hse⟩ := hno hans
      have hg : ghostStepX cfg g (.appendFail r n f) (some (appendFail cfg s r n (faultFn f)).1) = g := by
        simp [ghostStepX, hro]
      rw [hg]
      refine ⟨hwf', ⟨k, by rw [hc.frame _ _ hse, hk]⟩, ?_⟩
      rw [fileOf_opened ho, hov]
    | err =>
      obtain ⟨hr, hro, ho, hse⟩ := herr hans
      have hg : ghostStepX cfg g (.appendFail r n f) (some (appendFail cfg s r n (faultFn f)).1) = g := by
        simp [ghostStepX, hro]
      rw [hg]
      refine ⟨hwf', ⟨k, by rw [hc.frame _ _ hse, hk]⟩, ?_⟩
      rw [fileOf_opened ho, hov]
    | yes =>
      obtain ⟨d1, hg1, hse1, h⟩ := hyes hans
      rcases h with ⟨x, hx, hr, hro, ho, hse⟩ | ⟨e, he, hr, hro, hw, hd⟩
      · have hroll : cfg.roll cfg.path (faultFn f) d1 = (.ok x, (cfg.roll cfg.path (faultFn f) d1).2) := by
          rw [← hx]
        obtain ⟨hgone, j, harch⟩ := hc.ok _ d1 x _ _ hroll hg1
        have hfile : fileOf cfg (cfg.roll cfg.path (faultFn f) d1).2 = [] := by simp [fileOf, hgone]
        rw [hfile] at ho
        have hg : ghostStepX cfg g (.appendFail r n f) (some (appendFail cfg s r n (faultFn f)).1) =
            { closed := g.closed ++ [g.cur], cur := [] } := by
          simp [ghostStepX, hpre, hro]
        rw [hg]
        refine ⟨hwf', ?_, ?_⟩
        · rw [hc.frame _ _ hse, harch, hc.frame _ _ hse1, hk, hov]
          exact drop_map_snoc List.flatten g.closed g.cur k j
        · rw [fileOf_opened ho]
          simp
      · have hroll : cfg.roll cfg.path (faultFn f) d1 = (.error e, (cfg.roll cfg.path (faultFn f) d1).2) := by
          rw [← he]
        obtain ⟨hsame, j, harch⟩ := hc.err _ d1 e _ hroll
        have hg : ghostStepX cfg g (.appendFail r n f) (some (appendFail cfg s r n (faultFn f)).1) = g := by
          simp [ghostStepX, hro]
        rw [hg]
        refine ⟨hwf', ⟨k + j, ?_⟩, ?_⟩
        · rw [hd, harch, hc.frame _ _ hse1, hk, ← List.map_drop, List.drop_drop]
        · rw [hd, fileOf, hsame, hg1, hov]
          rfl
  | false =>
    obtain ⟨hout, ho, hse, _, _, _⟩ := appendFail_post_spec cfg s r n (faultFn f) inv.wf hpre
    have hg : ghostStepX cfg g (.appendFail r n f) (some (appendFail cfg s r n (faultFn f)).1) = g := by
      simp [ghostStepX, hpre]
    rw [hg]
    refine ⟨hwf', ⟨k, by rw [hc.frame _ _ hse, hk]⟩, ?_⟩
    rw [fileOf_opened ho, hov]

theorem Inv.stepX {cfg : Cfg σ} {arch : Disk → List Bytes} {s : St σ} {g : Ghost}
    (hc : RollContract cfg.roll cfg.path arch) (inv : Inv cfg arch s g) (op : XOp) :
    Inv cfg arch (applyX cfg s op).2 (ghostStepX cfg g op (applyX cfg s op).1) := by
  cases op with
  | op o => exact inv.step hc o
  | appendFail r n f => exact inv.appendFailStep hc r n f

theorem Inv.historyX {cfg : Cfg σ} {arch : Disk → List Bytes}
    (hc : RollContract cfg.roll cfg.path arch)
    (ops : List XOp) {s : St σ} {g : Ghost} (inv : Inv cfg arch s g) :
    Inv cfg arch (grunX cfg s g ops).2.1 (grunX cfg s g ops).2.2 := by
  induction ops generalizing s g with
  | nil => exact inv
  | cons op ops ih => exact ih (inv.stepX hc op)

def XOp.isRestart : XOp → Bool
  | .op o => o.isRestart
  | .appendFail _ _ _ => false

/-- the items written by a history with failing encoders: a failed append contributes nothing -/
def writtenItemsX (pre : Bool) : List XOp → List (Option Out) → List Bytes
  | .op (.append r _) :: ops, some out :: outs => (if wrote pre out then [encBytes r] else []) ++ writtenItemsX pre ops outs
  | _ :: ops, _ :: outs => writtenItemsX pre ops outs
  | _, _ => []

def ackedItemsX : List XOp → List (Option Out) → List Bytes
  | .op (.append r _) :: ops, some out :: outs => (if out.res = .ok then [encBytes r] else []) ++ ackedItemsX ops outs
  | _ :: ops, _ :: outs => ackedItemsX ops outs
  | _, _ => []

theorem ghostStepX_stream_appendFail (cfg : Cfg σ) (g : Ghost) (r : Rec) (n : Nat) (f : Option Nat) (o : Option Out) :
    (ghostStepX cfg g (.appendFail r n f) o).stream = g.stream := by
  cases o with
  | none => rfl
  | some out =>
    simp only [ghostStepX, Ghost.stream]
    split <;> simp

theorem grunX_stream (cfg : Cfg σ) (ops : List XOp) (s : St σ) (g : Ghost)
    (hnr : cfg.appendMode = true ∨ ∀ op ∈ ops, op.isRestart = false) :
    (grunX cfg s g ops).2.2.stream = g.stream ++ writtenItemsX cfg.trig.pre ops (grunX cfg s g ops).1 := by
  induction ops generalizing s g with
  | nil => simp [grunX, writtenItemsX]
  | cons op ops ih =>
    have hnr' : cfg.appendMode = true ∨ ∀ op ∈ ops, op.isRestart = false := by
      rcases hnr with h | h
      · exact Or.inl h
      · exact Or.inr (fun o ho => h o (List.mem_cons_of_mem _ ho))
    simp only [grunX]
    rw [ih _ _ hnr']
    cases op with
    | appendFail r n f =>
      rw [ghostStepX_stream_appendFail]
      simp [writtenItemsX]
    | op o =>
      cases o with
      | append r f =>
        simp only [applyX, applyOp, writtenItemsX, ghostStepX]
        rw [ghostStep_stream_append]
        simp
      | restart =>
        have : ghostStepX cfg g (.op .restart) (applyX cfg s (.op .restart)).1 = g := by
          rcases hnr with h | h
          · simp [ghostStepX, ghostStep, h]
          · have := h (.op .restart) (List.mem_cons_self ..)
            simp [XOp.isRestart, Op.isRestart] at this
        rw [this]
        simp [applyX, applyOp, writtenItemsX]
      | tick dt => simp [applyX, applyOp, writtenItemsX, ghostStepX, ghostStep]

theorem ackedX_sublist_writtenX (pre : Bool) (ops : List XOp) (outs : List (Option Out)) :
    (ackedItemsX ops outs).Sublist (writtenItemsX pre ops outs) := by
  induction ops generalizing outs with
  | nil => simp [ackedItemsX, writtenItemsX]
  | cons op ops ih =>
    cases outs with
    | nil => cases op with
      | op o => cases o <;> simp [ackedItemsX, writtenItemsX]
      | appendFail r n f => simp [ackedItemsX, writtenItemsX]
    | cons o outs =>
      cases op with
      | appendFail r n f => simpa [ackedItemsX, writtenItemsX] using ih outs
      | op oo =>
        cases oo with
        | append r f =>
          cases o with
          | none => simpa [ackedItemsX, writtenItemsX] using ih outs
          | some out =>
            simp only [ackedItemsX, writtenItemsX]
            apply List.Sublist.append _ (ih outs)
            by_cases hok : out.res = .ok
            · have : wrote pre out = true := by cases pre <;> simp [wrote, hok]
              simp [hok, this]
            · simp [hok]
        | restart => simpa [ackedItemsX, writtenItemsX] using ih outs
        | tick dt => simpa [ackedItemsX, writtenItemsX] using ih outs

end Log4rs.Rolling
