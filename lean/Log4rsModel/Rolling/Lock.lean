import Log4rsModel.Rolling.Model
/-
The mutex of the rolling appender, coarse grained: `RollingFileAppender::append` takes
`self.writer.lock()` in its first line and the guard lives to the end of the function, so the whole
body (get_writer, policy, roller, encode, flush) is one critical section. The machine below states
exactly that assumption: a thread first acquires the lock (enabled iff it is free), then runs the
body and releases. Any scheduler; a disabled pick is skipped. A guard narrowed in the code is not
visible here — it is looked for by the harness's multi-thread runs with the amplifier hook.
-/
namespace Log4rs.Rolling

structure LThread (Job : Type) where
  todo : List Job
  holding : Bool
  done : List Job

structure LState (Sh Job : Type) where
  shared : Sh
  threads : List (LThread Job)
  /-- ghost: the order in which critical sections ran -/
  log : List (Nat × Job)

variable {Sh Job : Type}

def LState.lockFree (s : LState Sh Job) : Bool := s.threads.all (fun t => !t.holding)

def LState.init (sh : Sh) (progs : List (List Job)) : LState Sh Job :=
  { shared := sh, threads := progs.map (fun p => { todo := p, holding := false, done := [] }), log := [] }

def lstep (body : Job → Sh → Sh) (i : Nat) (s : LState Sh Job) : Option (LState Sh Job) :=
  match s.threads[i]? with
  | none => none
  | some t =>
    match t.todo with
    | [] => none
    | j :: rest =>
      if t.holding then
        some { shared := body j s.shared, threads := s.threads.set i { todo := rest, holding := false, done := t.done ++ [j] },
               log := s.log ++ [(i, j)] }
      else if s.lockFree then
        some { s with threads := s.threads.set i { t with holding := true } }
      else none

def lrun (body : Job → Sh → Sh) (s : LState Sh Job) : List Nat → LState Sh Job
  | [] => s
  | i :: rest => lrun body ((lstep body i s).getD s) rest

end Log4rs.Rolling
