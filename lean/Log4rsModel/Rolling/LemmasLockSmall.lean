import Log4rsModel.Rolling.LockSmall
/-
Every state the small-step lock machine can reach: finishing the holder's remaining micro-steps
gives the serial execution of the committed critical sections plus the holder's; with the lock free
the shared state IS that serial execution; the commit order is a merge of the threads' programs.
-/
namespace Log4rs.Rolling

variable {Sh Job : Type}

def serialOf (micro : Job → List (Sh → Sh)) (sh0 : Sh) (log : List (Nat × Job)) : Sh :=
  (log.map (·.2)).foldl (fun sh j => runJob micro j sh) sh0

structure MInv (micro : Job → List (Sh → Sh)) (sh0 : Sh) (progs : List (List Job)) (s : MState Sh Job) : Prop where
  threads : ∀ i t, s.threads[i]? = some t →
    (s.log.filter (fun e => e.1 == i)).map (·.2) = t.done ∧ ∃ p, progs[i]? = some p ∧ t.done ++ t.todo = p
  lock : match s.holder with
    | none => (∀ (i : Nat) (t : MThread Sh Job), s.threads[i]? = some t → t.pc = none) ∧
              s.shared = serialOf micro sh0 s.log
    | some h => ∃ (t : MThread Sh Job) (rest : List (Sh → Sh)) (j : Job) (tl : List Job),
        s.threads[h]? = some t ∧ t.pc = some rest ∧ t.todo = j :: tl ∧
        (∀ (i : Nat) (t' : MThread Sh Job), i ≠ h → s.threads[i]? = some t' → t'.pc = none) ∧
        rest.foldl (fun sh f => f sh) s.shared = runJob micro j (serialOf micro sh0 s.log)

theorem MInv.init (micro : Job → List (Sh → Sh)) (sh0 : Sh) (progs : List (List Job)) :
    MInv micro sh0 progs (MState.init sh0 progs) := by
  constructor
  · intro i t h
    simp only [MState.init, List.getElem?_map, Option.map_eq_some_iff] at h
    obtain ⟨p, hp, rfl⟩ := h
    exact ⟨rfl, p, hp, rfl⟩
  · simp only [MState.init]
    refine ⟨?_, rfl⟩
    intro i t h
    simp only [List.getElem?_map, Option.map_eq_some_iff] at h
    obtain ⟨p, _, rfl⟩ := h
    rfl

private theorem mget_set {ts : List (MThread Sh Job)} {i k : Nat} {t t' : MThread Sh Job}
    (h : (ts.set i t')[k]? = some t) (hi : i < ts.length) : (k = i ∧ t = t') ∨ (k ≠ i ∧ ts[k]? = some t) := by
  by_cases hki : k = i
  · subst hki
    rw [List.getElem?_set_self hi] at h
    exact Or.inl ⟨rfl, (Option.some.inj h).symm⟩
  · rw [List.getElem?_set_ne (fun e => hki e.symm)] at h
    exact Or.inr ⟨hki, h⟩

theorem MInv.step {micro : Job → List (Sh → Sh)} {sh0 : Sh} {progs : List (List Job)} {s s' : MState Sh Job} {i : Nat}
    (inv : MInv micro sh0 progs s) (h : mstep micro i s = some s') : MInv micro sh0 progs s' := by
  unfold mstep at h
  cases hti : s.threads[i]? with
  | none => simp [hti] at h
  | some t =>
    have hi : i < s.threads.length := (List.getElem?_eq_some_iff.mp hti).1
    simp only [hti] at h
    obtain ⟨hlog, p, hp1, hp2⟩ := inv.threads i t hti
    have lk := inv.lock
    cases hpc : t.pc with
    | none =>
      cases htodo : t.todo with
      | nil => simp [hpc, htodo] at h
      | cons j tl =>
        simp only [hpc, htodo] at h
        cases hh : s.holder with
        | some x => simp [hh] at h
        | none =>
          simp only [hh] at h lk
          have := (Option.some.inj h).symm
          subst this
          constructor
          · intro k t1 h1
            rcases mget_set h1 hi with ⟨rfl, rfl⟩ | ⟨_, h2⟩
            · exact ⟨hlog, p, hp1, by simpa [htodo] using hp2⟩
            · exact inv.threads k t1 h2
          · simp only
            refine ⟨_, micro j, j, tl, List.getElem?_set_self hi, rfl, rfl, ?_, ?_⟩
            · intro k t1 hne h1
              rw [List.getElem?_set_ne (fun e => hne e.symm)] at h1
              exact lk.1 k t1 h1
            · rw [lk.2]; rfl
    | some rest =>
      -- the thread holds the lock
      have hold : s.holder = some i := by
        cases hh : s.holder with
        | none =>
          simp only [hh] at lk
          have := lk.1 i t hti
          simp [hpc] at this
        | some x =>
          simp only [hh] at lk
          obtain ⟨_, _, _, _, _, _, _, hoth, _⟩ := lk
          by_cases hix : i = x
          · rw [hix]
          · have := hoth i t hix hti
            simp [hpc] at this
      simp only [hold] at lk
      obtain ⟨th, rest', j, tl, hth, hpc', htodo, hoth, hfin⟩ := lk
      have hte : th = t := by
        rw [hti] at hth
        exact (Option.some.inj hth).symm
      subst hte
      rw [hpc] at hpc'
      have hr : rest' = rest := (Option.some.inj hpc').symm
      subst hr
      cases hrest : rest' with
      | cons f fs =>
        simp only [hpc, hrest] at h
        have := (Option.some.inj h).symm
        subst this
        constructor
        · intro k t1 h1
          rcases mget_set h1 hi with ⟨rfl, rfl⟩ | ⟨_, h2⟩
          · exact ⟨hlog, p, hp1, hp2⟩
          · exact inv.threads k t1 h2
        · simp only [hold]
          refine ⟨_, fs, j, tl, List.getElem?_set_self hi, rfl, htodo, ?_, ?_⟩
          · intro k t1 hne h1
            rw [List.getElem?_set_ne (fun e => hne e.symm)] at h1
            exact hoth k t1 hne h1
          · rw [← hfin, hrest]; rfl
      | nil =>
        simp only [hpc, hrest, htodo] at h
        have := (Option.some.inj h).symm
        subst this
        rw [hrest] at hfin
        simp only [List.foldl_nil] at hfin
        constructor
        · intro k t1 h1
          rcases mget_set h1 hi with ⟨rfl, rfl⟩ | ⟨hne, h2⟩
          · refine ⟨by simp [List.filter_append, hlog], p, hp1, ?_⟩
            rw [← hp2, htodo]
            simp
          · obtain ⟨hl, hp⟩ := inv.threads k t1 h2
            have hik : (i == k) = false := by
              simp only [beq_eq_false_iff_ne, ne_eq]
              exact fun e => hne e.symm
            exact ⟨by simp [List.filter_append, hik, hl], hp⟩
        · simp only
          refine ⟨?_, ?_⟩
          · intro k t1 h1
            rcases mget_set h1 hi with ⟨rfl, rfl⟩ | ⟨hne, h2⟩
            · rfl
            · exact hoth k t1 hne h2
          · rw [hfin]
            simp [serialOf]

theorem MInv.run {micro : Job → List (Sh → Sh)} {sh0 : Sh} {progs : List (List Job)} (sched : List Nat)
    {s : MState Sh Job} (inv : MInv micro sh0 progs s) : MInv micro sh0 progs (mrun micro s sched) := by
  induction sched generalizing s with
  | nil => exact inv
  | cons i rest ih =>
    simp only [mrun]
    cases h : mstep micro i s with
    | none => simpa [h] using ih inv
    | some s' => simpa [h] using ih (inv.step h)

/-! ### the three micro-steps of `append` compose to `append` -/

variable {σ : Type}

theorem appendMicro_eq (cfg : Cfg σ) (r : Rec) (m : Mid σ) :
    runJob (appendMicro cfg) r m =
      { st := (append cfg m.st r (fun _ => false)).2, outs := m.outs ++ [some (append cfg m.st r (fun _ => false)).1] } := by
  simp only [runJob, appendMicro, List.foldl_cons, List.foldl_nil, phaseA, phaseB, phaseC, append]
  rcases hg : getWriter cfg m.st with ⟨s1, w⟩
  simp only
  cases hpre : cfg.trig.pre with
  | true =>
    simp only [if_true]
    rcases hp : process cfg s1 w.len (fun _ => false) with ⟨res, rolled, s2⟩
    simp only
    cases res <;> rfl
  | false =>
    simp only [Bool.false_eq_true, if_false]

end Log4rs.Rolling
