import Log4rsModel.Rolling.Model
/-
C06 — the byte counter of `LogWriter`, not by definition.

  impl io::Write for LogWriter {
      fn write(&mut self, buf: &[u8]) -> io::Result<usize> {
          self.file.write(buf).map(|n| { self.len += n as u64; n })      // counts what was ACCEPTED
      }
  }
  // `write_all` is the default of `io::Write`:
  //   while !buf.is_empty() { match self.write(buf) { Ok(0) => Err(WriteZero), Ok(n) => buf = &buf[n..], … } }
  // `BufWriter::write(buf)`: buf.len() < spare ⇒ buffer everything, return buf.len();
  //   otherwise flush the buffer if buf does not fit, then buf.len() >= capacity ⇒ ONE `File::write(buf)`,
  //   which may accept fewer bytes than offered (a short write), else buffer everything.

`Rolling/Model.lean` adds `|record|` to `len` in one step (`writeRec`). Here `write` returns the
accepted count, decided for the write-through case by an oracle `acc : call number → bytes offered →
bytes accepted`, `len` grows by exactly that count, and `writeAll` is the loop. `writeAndFlushX` /
`appendX` are `writeAndFlush` / `append` of the model with this writer in place of `writeRec`;
`Ext06WriteLemmas.lean` proves that for every oracle that accepts at least one byte they coincide
with the model — so the model's one-step accounting is a theorem about the loop.
-/
namespace Log4rs.Rolling.Write06
open Log4rs.Rolling

structure LW where
  bf : BufFile
  len : Nat
  /-- direct `File::write` calls made so far (index into the oracle) -/
  calls : Nat
  deriving Repr, DecidableEq

abbrev Accept := Nat → Nat → Nat

/-- `LogWriter::write` -/
def write (acc : Accept) (w : LW) (data : Bytes) : Nat × LW :=
  if data.length < CAP - w.bf.buf.length then
    (data.length, { w with bf := { w.bf with buf := w.bf.buf ++ data }, len := w.len + data.length })
  else
    let bf1 := if data.length > CAP - w.bf.buf.length then w.bf.flush else w.bf
    if data.length ≥ CAP then
      let n := acc w.calls data.length
      (n, { bf := { bf1 with disk := bf1.disk ++ data.take n }, len := w.len + n, calls := w.calls + 1 })
    else
      (data.length, { w with bf := { bf1 with buf := bf1.buf ++ data }, len := w.len + data.length })

/-- the default `Write::write_all` loop; `none` = `Err(WriteZero)` (or fuel exhausted) -/
def writeAll (acc : Accept) : Nat → LW → Bytes → Option LW
  | 0, w, data => if data.isEmpty then some w else none
  | fuel + 1, w, data =>
    if data.isEmpty then some w
    else
      let r := write acc w data
      if r.1 = 0 then none else writeAll acc fuel r.2 (data.drop r.1)

variable {σ : Type}

/-- `write_all(&encode_whole(record))` + `flush()` through the counting writer -/
def writeAndFlushX (acc : Accept) (cfg : Cfg σ) (s : St σ) (w : Writer) (r : Rec) : Option (St σ × Writer) :=
  match writeAll acc (encBytes r).length { bf := { disk := fileOf cfg s.disk, buf := w.buf }, len := w.len, calls := 0 } (encBytes r) with
  | none => none
  | some lw =>
    let d1 := s.disk.set cfg.path lw.bf.disk
    let d2 := d1.set cfg.path (lw.bf.disk ++ lw.bf.buf)
    let w2 : Writer := { buf := [], len := lw.len }
    some ({ s with disk := d2, writer := some w2 }, w2)

/-- `RollingFileAppender::append` with the counting writer; `none` = an I/O error of the write -/
def appendX (acc : Accept) (cfg : Cfg σ) (s : St σ) (r : Rec) (fault : Nat → Bool) : Option (Out × St σ) :=
  let gw := getWriter cfg s
  if cfg.trig.pre then
    let consult := (gw.2.len, (fileOf cfg gw.1.disk).length)
    let p := process cfg gw.1 gw.2.len fault
    match p.1 with
    | .ok =>
      let gw2 := getWriter cfg p.2.2
      match writeAndFlushX acc cfg gw2.1 gw2.2 r with
      | none => none
      | some wf => some ({ res := .ok, consult := some consult, rolled := p.2.1 }, wf.1)
    | e => some ({ res := e, consult := some consult, rolled := p.2.1 }, p.2.2)
  else
    match writeAndFlushX acc cfg gw.1 gw.2 r with
    | none => none
    | some wf =>
      let consult := (wf.2.len, (fileOf cfg wf.1.disk).length)
      let p := process cfg wf.1 wf.2.len fault
      some ({ res := p.1, consult := some consult, rolled := p.2.1 }, p.2.2)

/-- a counter that forgets the bytes written through (the seeded change `C06_2`: count at flush) —
for the negative witness -/
def writeForgetful (acc : Accept) (w : LW) (data : Bytes) : Nat × LW :=
  let r := write acc w data
  (r.1, { r.2 with len := if data.length ≥ CAP then w.len else r.2.len })

end Log4rs.Rolling.Write06
