import Log4rsModel.Roller.Model
/-
Lookup lemmas for the shared association-list `Disk` (own copies in an own namespace; the roller
area proves its own under `Log4rs.Roller.Disk`).
-/
namespace Log4rs.Rolling.DiskL
open Log4rs.Roller

theorem get?_erase_self (d : Disk) (p : Path) : (d.erase p).get? p = none := by
  simp only [Disk.get?, Disk.erase, Option.map_eq_none_iff, List.find?_eq_none]
  intro e he
  simp only [List.mem_filter] at he
  simpa using he.2

theorem get?_erase_ne (d : Disk) (p q : Path) (h : q ≠ p) : (d.erase p).get? q = d.get? q := by
  simp only [Disk.get?, Disk.erase]
  congr 1
  rw [List.find?_filter]
  congr 1
  funext a
  by_cases h1 : a.1 = q
  · have : a.1 ≠ p := fun h' => h (h1 ▸ h')
    simp [h1, this]
    exact fun h' => this (h1 ▸ h')
  · simp [h1]

theorem get?_set_self (d : Disk) (p : Path) (c : Bytes) : (d.set p c).get? p = some c := by
  have h := get?_erase_self d p
  simp only [Disk.get?, Option.map_eq_none_iff] at h
  simp [Disk.get?, Disk.set, List.find?_append, h]

theorem get?_set_ne (d : Disk) (p q : Path) (c : Bytes) (h : q ≠ p) : (d.set p c).get? q = d.get? q := by
  have h1 := get?_erase_ne d p q h
  simp only [Disk.get?] at h1 ⊢
  simp only [Disk.set, List.find?_append]
  have hpq : ¬ (p = q) := fun h' => h h'.symm
  have : ([(p, c)] : List (Path × Bytes)).find? (fun e => decide (e.1 = q)) = none := by
    simp [List.find?_cons, hpq]
  rw [this, Option.or_none]
  exact h1

end Log4rs.Rolling.DiskL
