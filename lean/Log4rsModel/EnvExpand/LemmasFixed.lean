import Log4rsModel.EnvExpand.LemmasScan
/-
C19: the model of the proposed single-pass patch (`expandFixed`, byte offsets and partial slices as
in the patched Rust) equals the specification on every path, for every `alnum`, every environment.
-/
namespace Log4rs.EnvExpand
open Log4rs Log4rs.Str

/-- the patched loop from state `st` over the remaining match offsets, then the final push -/
def runFixed (alnum : Char → Bool) (env : Env) (path : Text) (st : FixState) (ms : List Nat) :
    Outcome Unit Text :=
  match ms.foldl (fun (acc : Outcome Unit FixState) m => match acc with
      | .ok st => stepFixed alnum env path st m
      | other => other) (.ok st) with
  | .ok st =>
    match sliceFrom st.copied path with
    | some t => .ok (st.out ++ t)
    | none => .panic "slice: not a char boundary"
  | .err e => .err e
  | .panic w => .panic w

theorem expandFixed_eq_run (alnum : Char → Bool) (env : Env) (path : Text) :
    expandFixed alnum env path =
      runFixed alnum env path { out := [], copied := 0 } (matchIndices envPrefix path) := rfl

theorem runFixed_cons {alnum : Char → Bool} {env : Env} {path : Text} {st st' : FixState} {m : Nat}
    (ms : List Nat) (h : stepFixed alnum env path st m = .ok st') :
    runFixed alnum env path st (m :: ms) = runFixed alnum env path st' ms := by
  simp [runFixed, List.foldl_cons, h]

/-- offsets of the occurrences in `s`, when `s` is preceded by `p` -/
def occsShift (p s : Text) : List Nat := (occs s).map (fun o => utf8Len (p ++ o.1))

theorem occsShift_cons (p : Text) (c : Char) (rest : Text) :
    occsShift p (c :: rest) =
      (if isPrefix envPrefix (c :: rest) then [utf8Len p] else []) ++ occsShift (p ++ [c]) rest := by
  simp only [occsShift, occs, List.map_append, List.map_map]
  congr 1
  · split <;> simp
  · apply List.map_congr_left
    intro o _
    simp

/-- an occurrence inside an already replaced reference is skipped -/
theorem stepFixed_skip {alnum : Char → Bool} {env : Env} {path : Text} {st : FixState} {m : Nat}
    (h : m < st.copied) : stepFixed alnum env path st m = .ok st := by
  simp [stepFixed, h]

/-- at an occurrence not before `copied`, every slice of the patched loop body succeeds -/
theorem stepFixed_at (alnum : Char → Bool) (env : Env) (cp pend tail out : Text) :
    stepFixed alnum env ((cp ++ pend) ++ (envPrefix ++ tail)) { out := out, copied := utf8Len cp }
        (utf8Len (cp ++ pend)) =
      .ok (match scanRef alnum tail with
        | none => { out := out, copied := utf8Len cp }
        | some name =>
          match lookup env name with
          | none => { out := out, copied := utf8Len cp }
          | some value =>
            { out := out ++ pend ++ value, copied := utf8Len (cp ++ pend) + utf8Len (refLit name) }) := by
  have hguard : ¬ utf8Len (cp ++ pend) < utf8Len cp := by rw [utf8Len_append]; omega
  have hsplit : splitAtByte (utf8Len (cp ++ pend) + ENV_PREFIX_LEN) ((cp ++ pend) ++ (envPrefix ++ tail)) =
      some ((cp ++ pend) ++ envPrefix, tail) := by
    have := splitAtByte_append ((cp ++ pend) ++ envPrefix) tail
    rw [utf8Len_append _ envPrefix, utf8Len_envPrefix] at this
    simpa [ENV_PREFIX_LEN] using this
  unfold stepFixed
  simp only [hguard, if_false, hsplit]
  cases hs : scanRef alnum tail with
  | none => rfl
  | some name =>
    simp only
    cases hl : lookup env name with
    | none => rfl
    | some value =>
      simp only
      have hslice : sliceBytes (utf8Len cp) (utf8Len (cp ++ pend)) ((cp ++ pend) ++ (envPrefix ++ tail)) =
          some pend := by
        have := sliceBytes_mid cp pend (envPrefix ++ tail)
        rw [← utf8Len_append] at this
        simpa using this
      simp only [hslice, utf8Len_refLit, ENV_PREFIX_LEN, ENV_SUFFIX_LEN, Nat.add_assoc]

theorem substAt_of_occ (alnum : Char → Bool) (env : Env) (t : Text) :
    substAt alnum env (envPrefix ++ t) =
      match scanRef alnum t with
      | none => none
      | some name =>
        match lookup env name with
        | none => none
        | some value => some (name, value) := by
  have hd : (envPrefix ++ t).drop envPrefix.length = t := by simp
  simp only [substAt, isPrefix_append, if_true, hd, scanRef_eq_refAt]
  cases refAt alnum t with
  | none => rfl
  | some name => simp only; cases lookup env name <;> rfl

theorem substAt_of_not_occ (alnum : Char → Bool) (env : Env) (s : Text)
    (h : isPrefix envPrefix s = false) : substAt alnum env s = none := by
  simp [substAt, h]

theorem runFixed_spec (alnum : Char → Bool) (env : Env) (path : Text) :
    ∀ (s p : Text), path = p ++ s →
      (∀ (cp pend out : Text), p = cp ++ pend →
        runFixed alnum env path { out := out, copied := utf8Len cp } (occsShift p s) =
          .ok (out ++ pend ++ specGo alnum env 0 s)) ∧
      (∀ (j : Nat) (out : Text), 1 ≤ j → j ≤ s.length →
        runFixed alnum env path { out := out, copied := utf8Len p + utf8Len (s.take j) } (occsShift p s) =
          .ok (out ++ specGo alnum env j s)) := by
  intro s
  induction s with
  | nil =>
    intro p hp
    refine ⟨?_, ?_⟩
    · intro cp pend out hcp
      have : path = cp ++ pend := by rw [hp, hcp]; simp
      simp [occsShift, occs, runFixed, this, sliceFrom_append, specGo]
    · intro j out h1 h2
      simp at h2; omega
  | cons c rest ih =>
    intro p hp
    have hp' : path = (p ++ [c]) ++ rest := by rw [hp]; simp
    obtain ⟨ihA, ihB⟩ := ih (p ++ [c]) hp'
    refine ⟨?_, ?_⟩
    · intro cp pend out hcp
      rw [occsShift_cons]
      by_cases hocc : isPrefix envPrefix (c :: rest) = true
      · obtain ⟨t, ht⟩ := (isPrefix_iff _ _).1 hocc
        simp only [hocc, if_true, List.singleton_append]
        have hpath : path = (cp ++ pend) ++ (envPrefix ++ t) := by rw [hp, hcp, ht]
        have hstep := stepFixed_at alnum env cp pend t out
        rw [← hpath, ← hcp] at hstep
        rw [runFixed_cons _ hstep]
        have hsub := substAt_of_occ alnum env t
        rw [← ht] at hsub
        have hc : c = '$' ∧ rest = 'E' :: 'N' :: 'V' :: '{' :: t := by
          simpa [envPrefix] using ht
        cases hs : scanRef alnum t with
        | none =>
          rw [hs] at hsub
          rw [ihA cp (pend ++ [c]) out (by rw [hcp]; simp)]
          simp [specGo, hsub]
        | some name =>
          cases hl : lookup env name with
          | none =>
            rw [hs] at hsub; simp only [hl] at hsub
            simp only [hl]
            rw [ihA cp (pend ++ [c]) out (by rw [hcp]; simp)]
            simp [specGo, hsub]
          | some value =>
            rw [hs] at hsub; simp only [hl] at hsub
            simp only [hl]
            obtain ⟨_, r, hr⟩ := scanRef_some hs
            have hrest : rest = ('E' :: 'N' :: 'V' :: '{' :: name ++ [envSuffix]) ++ r := by
              rw [hc.2, hr]; simp
            have hj : (refLit name).length - 1 = ('E' :: 'N' :: 'V' :: '{' :: name ++ [envSuffix]).length := by
              simp [refLit, envPrefix]
            have htake : rest.take ((refLit name).length - 1) = 'E' :: 'N' :: 'V' :: '{' :: name ++ [envSuffix] := by
              rw [hj, hrest, List.take_left]
            have hcopied : utf8Len p + utf8Len (refLit name) =
                utf8Len (p ++ [c]) + utf8Len (rest.take ((refLit name).length - 1)) := by
              rw [htake, utf8Len_append, hc.1]
              simp only [refLit, envPrefix, utf8Len_append, utf8Len, List.cons_append]
              have e1 : ('$' : Char).utf8Size = 1 := by decide
              omega
            rw [hcopied]
            rw [ihB ((refLit name).length - 1) (out ++ pend ++ value)
              (by simp [refLit, envPrefix]) (by rw [hrest]; simp [refLit, envPrefix])]
            simp [specGo, hsub]
      · have hocc' : isPrefix envPrefix (c :: rest) = false := by simpa using hocc
        simp only [hocc', Bool.false_eq_true, if_false, List.nil_append]
        rw [ihA cp (pend ++ [c]) out (by rw [hcp]; simp)]
        simp [specGo, substAt_of_not_occ alnum env _ hocc']
    · intro j out h1 h2
      rw [occsShift_cons]
      obtain ⟨j', rfl⟩ : ∃ j', j = j' + 1 := ⟨j - 1, by omega⟩
      have hlt : utf8Len p < utf8Len p + utf8Len ((c :: rest).take (j' + 1)) := by
        have := Char.utf8Size_pos c
        simp only [List.take_succ_cons, utf8Len]; omega
      have hdrop : runFixed alnum env path
            { out := out, copied := utf8Len p + utf8Len ((c :: rest).take (j' + 1)) }
            ((if isPrefix envPrefix (c :: rest) then [utf8Len p] else []) ++ occsShift (p ++ [c]) rest) =
          runFixed alnum env path
            { out := out, copied := utf8Len p + utf8Len ((c :: rest).take (j' + 1)) }
            (occsShift (p ++ [c]) rest) := by
        split
        · simp only [List.singleton_append]
          exact runFixed_cons _ (stepFixed_skip hlt)
        · rfl
      rw [hdrop]
      have hcop : utf8Len p + utf8Len ((c :: rest).take (j' + 1)) =
          utf8Len (p ++ [c]) + utf8Len (rest.take j') := by
        simp only [List.take_succ_cons, utf8Len, utf8Len_append]; omega
      rw [hcop]
      cases j' with
      | zero =>
        have := ihA (p ++ [c]) [] out (by simp)
        simp only [List.take_zero, utf8Len, Nat.add_zero]
        rw [this]
        simp [specGo]
      | succ j'' =>
        rw [ihB (j'' + 1) out (by omega) (by simp at h2; omega)]
        simp [specGo]

/-- the patched algorithm is the single pass -/
theorem expandFixed_eq_spec (alnum : Char → Bool) (env : Env) (path : Text) :
    expandFixed alnum env path = .ok (specExpand alnum env path) := by
  rw [expandFixed_eq_run, matchIndices_occs]
  have := (runFixed_spec alnum env path path [] (by simp)).1 [] [] [] (by simp)
  simpa [occsShift, utf8Len, specExpand] using this

end Log4rs.EnvExpand
