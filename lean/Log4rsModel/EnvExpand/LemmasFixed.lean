import Log4rsModel.EnvExpand.LemmasScan
/-
C19: the code (`expand`: single pass, byte offsets and partial slices as in the Rust) equals the
specification on every path, for every `alnum`, every environment; every slice it takes succeeds
(the `copied` cursor stays on character boundaries); untouched paths.
-/
namespace Log4rs.EnvExpand
open Log4rs Log4rs.Str

/-- the loop from state `st` over the remaining match offsets, then the final push -/
def run (alnum : Char → Bool) (env : Env) (path : Text) (st : ScanState) (ms : List Nat) :
    Outcome Unit Text :=
  match ms.foldl (fun (acc : Outcome Unit ScanState) m => match acc with
      | .ok st => step alnum env path st m
      | other => other) (.ok st) with
  | .ok st =>
    match sliceFrom st.copied path with
    | some t => .ok (st.out ++ t)
    | none => .panic "slice: not a char boundary"
  | .err e => .err e
  | .panic w => .panic w

theorem expand_eq_run (alnum : Char → Bool) (env : Env) (path : Text) :
    expand alnum env path =
      run alnum env path { out := [], copied := 0 } (matchIndices envPrefix path) := rfl

theorem run_cons {alnum : Char → Bool} {env : Env} {path : Text} {st st' : ScanState} {m : Nat}
    (ms : List Nat) (h : step alnum env path st m = .ok st') :
    run alnum env path st (m :: ms) = run alnum env path st' ms := by
  simp [run, List.foldl_cons, h]

/-- offsets of the occurrences in `s`, when `s` is preceded by `p` -/
def occsShift (p s : Text) : List Nat := (occs s).map (fun o => utf8Len (p ++ o.1))

theorem occsShift_cons (p : Text) (c : Char) (rest : Text) :
    occsShift p (c :: rest) =
      (if isPrefix envPrefix (c :: rest) then [utf8Len p] else []) ++ occsShift (p ++ [c]) rest := by
  simp only [occsShift, occs, List.map_append, List.map_map]
  congr 1
  · split <;> simp
  · apply List.map_congr_left
    intro o _
    simp

/-- an occurrence inside an already replaced reference is skipped -/
theorem step_skip {alnum : Char → Bool} {env : Env} {path : Text} {st : ScanState} {m : Nat}
    (h : m < st.copied) : step alnum env path st m = .ok st := by
  simp [step, h]

/-- at an occurrence not before `copied`, every slice of the loop body succeeds -/
theorem step_at (alnum : Char → Bool) (env : Env) (cp pend tail out : Text) :
    step alnum env ((cp ++ pend) ++ (envPrefix ++ tail)) { out := out, copied := utf8Len cp }
        (utf8Len (cp ++ pend)) =
      .ok (match scanRef alnum tail with
        | none => { out := out, copied := utf8Len cp }
        | some name =>
          match lookup env name with
          | none => { out := out, copied := utf8Len cp }
          | some value =>
            { out := out ++ pend ++ value, copied := utf8Len (cp ++ pend) + utf8Len (refLit name) }) := by
  have hguard : ¬ utf8Len (cp ++ pend) < utf8Len cp := by rw [utf8Len_append]; omega
  have hsplit : splitAtByte (utf8Len (cp ++ pend) + ENV_PREFIX_LEN) ((cp ++ pend) ++ (envPrefix ++ tail)) =
      some ((cp ++ pend) ++ envPrefix, tail) := by
    have := splitAtByte_append ((cp ++ pend) ++ envPrefix) tail
    rw [utf8Len_append _ envPrefix, utf8Len_envPrefix] at this
    simpa [ENV_PREFIX_LEN] using this
  unfold step
  simp only [hguard, if_false, hsplit]
  cases hs : scanRef alnum tail with
  | none => rfl
  | some name =>
    simp only
    cases hl : lookup env name with
    | none => rfl
    | some value =>
      simp only
      have hslice : sliceBytes (utf8Len cp) (utf8Len (cp ++ pend)) ((cp ++ pend) ++ (envPrefix ++ tail)) =
          some pend := by
        have := sliceBytes_mid cp pend (envPrefix ++ tail)
        rw [← utf8Len_append] at this
        simpa using this
      simp only [hslice, utf8Len_refLit, ENV_PREFIX_LEN, ENV_SUFFIX_LEN, Nat.add_assoc]

theorem substAt_of_occ (alnum : Char → Bool) (env : Env) (t : Text) :
    substAt alnum env (envPrefix ++ t) =
      match scanRef alnum t with
      | none => none
      | some name =>
        match lookup env name with
        | none => none
        | some value => some (name, value) := by
  have hd : (envPrefix ++ t).drop envPrefix.length = t := by simp
  simp only [substAt, isPrefix_append, if_true, hd, scanRef_eq_refAt]
  cases refAt alnum t with
  | none => rfl
  | some name => simp only; cases lookup env name <;> rfl

theorem substAt_of_not_occ (alnum : Char → Bool) (env : Env) (s : Text)
    (h : isPrefix envPrefix s = false) : substAt alnum env s = none := by
  simp [substAt, h]

theorem run_spec (alnum : Char → Bool) (env : Env) (path : Text) :
    ∀ (s p : Text), path = p ++ s →
      (∀ (cp pend out : Text), p = cp ++ pend →
        run alnum env path { out := out, copied := utf8Len cp } (occsShift p s) =
          .ok (out ++ pend ++ specGo alnum env 0 s)) ∧
      (∀ (j : Nat) (out : Text), 1 ≤ j → j ≤ s.length →
        run alnum env path { out := out, copied := utf8Len p + utf8Len (s.take j) } (occsShift p s) =
          .ok (out ++ specGo alnum env j s)) := by
  intro s
  induction s with
  | nil =>
    intro p hp
    refine ⟨?_, ?_⟩
    · intro cp pend out hcp
      have : path = cp ++ pend := by rw [hp, hcp]; simp
      simp [occsShift, occs, run, this, sliceFrom_append, specGo]
    · intro j out h1 h2
      simp at h2; omega
  | cons c rest ih =>
    intro p hp
    have hp' : path = (p ++ [c]) ++ rest := by rw [hp]; simp
    obtain ⟨ihA, ihB⟩ := ih (p ++ [c]) hp'
    refine ⟨?_, ?_⟩
    · intro cp pend out hcp
      rw [occsShift_cons]
      by_cases hocc : isPrefix envPrefix (c :: rest) = true
      · obtain ⟨t, ht⟩ := (isPrefix_iff _ _).1 hocc
        simp only [hocc, if_true, List.singleton_append]
        have hpath : path = (cp ++ pend) ++ (envPrefix ++ t) := by rw [hp, hcp, ht]
        have hstep := step_at alnum env cp pend t out
        rw [← hpath, ← hcp] at hstep
        rw [run_cons _ hstep]
        have hsub := substAt_of_occ alnum env t
        rw [← ht] at hsub
        have hc : c = '$' ∧ rest = 'E' :: 'N' :: 'V' :: '{' :: t := by
          simpa [envPrefix] using ht
        cases hs : scanRef alnum t with
        | none =>
          rw [hs] at hsub
          rw [ihA cp (pend ++ [c]) out (by rw [hcp]; simp)]
          simp [specGo, hsub]
        | some name =>
          cases hl : lookup env name with
          | none =>
            rw [hs] at hsub; simp only [hl] at hsub
            simp only [hl]
            rw [ihA cp (pend ++ [c]) out (by rw [hcp]; simp)]
            simp [specGo, hsub]
          | some value =>
            rw [hs] at hsub; simp only [hl] at hsub
            simp only [hl]
            obtain ⟨_, r, hr⟩ := scanRef_some hs
            have hrest : rest = ('E' :: 'N' :: 'V' :: '{' :: name ++ [envSuffix]) ++ r := by
              rw [hc.2, hr]; simp
            have hj : (refLit name).length - 1 = ('E' :: 'N' :: 'V' :: '{' :: name ++ [envSuffix]).length := by
              simp [refLit, envPrefix]
            have htake : rest.take ((refLit name).length - 1) = 'E' :: 'N' :: 'V' :: '{' :: name ++ [envSuffix] := by
              rw [hj, hrest, List.take_left]
            have hcopied : utf8Len p + utf8Len (refLit name) =
                utf8Len (p ++ [c]) + utf8Len (rest.take ((refLit name).length - 1)) := by
              rw [htake, utf8Len_append, hc.1]
              simp only [refLit, envPrefix, utf8Len_append, utf8Len, List.cons_append]
              have e1 : ('$' : Char).utf8Size = 1 := by decide
              omega
            rw [hcopied]
            rw [ihB ((refLit name).length - 1) (out ++ pend ++ value)
              (by simp [refLit, envPrefix]) (by rw [hrest]; simp [refLit, envPrefix])]
            simp [specGo, hsub]
      · have hocc' : isPrefix envPrefix (c :: rest) = false := by simpa using hocc
        simp only [hocc', Bool.false_eq_true, if_false, List.nil_append]
        rw [ihA cp (pend ++ [c]) out (by rw [hcp]; simp)]
        simp [specGo, substAt_of_not_occ alnum env _ hocc']
    · intro j out h1 h2
      rw [occsShift_cons]
      obtain ⟨j', rfl⟩ : ∃ j', j = j' + 1 := ⟨j - 1, by omega⟩
      have hlt : utf8Len p < utf8Len p + utf8Len ((c :: rest).take (j' + 1)) := by
        have := Char.utf8Size_pos c
        simp only [List.take_succ_cons, utf8Len]; omega
      have hdrop : run alnum env path
            { out := out, copied := utf8Len p + utf8Len ((c :: rest).take (j' + 1)) }
            ((if isPrefix envPrefix (c :: rest) then [utf8Len p] else []) ++ occsShift (p ++ [c]) rest) =
          run alnum env path
            { out := out, copied := utf8Len p + utf8Len ((c :: rest).take (j' + 1)) }
            (occsShift (p ++ [c]) rest) := by
        split
        · simp only [List.singleton_append]
          exact run_cons _ (step_skip hlt)
        · rfl
      rw [hdrop]
      have hcop : utf8Len p + utf8Len ((c :: rest).take (j' + 1)) =
          utf8Len (p ++ [c]) + utf8Len (rest.take j') := by
        simp only [List.take_succ_cons, utf8Len, utf8Len_append]; omega
      rw [hcop]
      cases j' with
      | zero =>
        have := ihA (p ++ [c]) [] out (by simp)
        simp only [List.take_zero, utf8Len, Nat.add_zero]
        rw [this]
        simp [specGo]
      | succ j'' =>
        rw [ihB (j'' + 1) out (by omega) (by simp at h2; omega)]
        simp [specGo]

/-- the code is the single pass -/
theorem expand_eq_spec (alnum : Char → Bool) (env : Env) (path : Text) :
    expand alnum env path = .ok (specExpand alnum env path) := by
  rw [expand_eq_run, matchIndices_occs]
  have := (run_spec alnum env path path [] (by simp)).1 [] [] [] (by simp)
  simpa [occsShift, utf8Len, specExpand] using this

/-! ### the `copied` cursor -/

theorem utf8Len_eq_zero {a : Text} (h : utf8Len a = 0) : a = [] := by
  cases a with
  | nil => rfl
  | cons c a =>
    have := Char.utf8Size_pos c
    simp only [utf8Len] at h; omega

/-- of two prefixes of the same text, the one with fewer bytes is a prefix of the other -/
theorem prefix_of_utf8Len_le {a b x y : Text} (h : a ++ x = b ++ y) (hle : utf8Len a ≤ utf8Len b) :
    ∃ pend, b = a ++ pend := by
  rcases List.append_eq_append_iff.1 h with ⟨a', hb, _⟩ | ⟨c', ha, _⟩
  · exact ⟨a', hb⟩
  · rw [ha, utf8Len_append] at hle
    have : c' = [] := utf8Len_eq_zero (by omega)
    subst this
    exact ⟨[], by simpa using ha.symm⟩

/-- the loop from a given state over a list of match offsets -/
def scanFrom (alnum : Char → Bool) (env : Env) (path : Text) (st : ScanState) (ms : List Nat) :
    Outcome Unit ScanState :=
  ms.foldl (fun (acc : Outcome Unit ScanState) m => match acc with
    | .ok st => step alnum env path st m
    | other => other) (.ok st)

theorem scan_eq_scanFrom (alnum : Char → Bool) (env : Env) (path : Text) :
    scan alnum env path = scanFrom alnum env path { out := [], copied := 0 } (matchIndices envPrefix path) :=
  rfl

/-- one iteration at an occurrence keeps `copied` on a character boundary, and takes no panic branch -/
theorem step_inv (alnum : Char → Bool) (env : Env) (p tail : Text) (st : ScanState)
    (hst : IsCharBoundary (p ++ (envPrefix ++ tail)) st.copied) :
    ∃ st', step alnum env (p ++ (envPrefix ++ tail)) st (utf8Len p) = .ok st' ∧
      IsCharBoundary (p ++ (envPrefix ++ tail)) st'.copied := by
  by_cases hlt : utf8Len p < st.copied
  · exact ⟨st, step_skip hlt, hst⟩
  · obtain ⟨cp, x, hpx, hcp⟩ := hst
    obtain ⟨pend, rfl⟩ := prefix_of_utf8Len_le hpx.symm (by omega)
    obtain ⟨out, copied⟩ := st
    simp only at hcp
    subst hcp
    refine ⟨_, step_at alnum env cp pend tail out, ?_⟩
    cases hs : scanRef alnum tail with
    | none => exact ⟨cp, x, hpx, rfl⟩
    | some name =>
      cases hl : lookup env name with
      | none => simp only [hl]; exact ⟨cp, x, hpx, rfl⟩
      | some value =>
        simp only [hl]
        obtain ⟨_, r, hr⟩ := scanRef_some hs
        refine ⟨(cp ++ pend) ++ refLit name, r, ?_, by rw [utf8Len_append]⟩
        rw [hr]; simp [refLit]

theorem scanFrom_ok (alnum : Char → Bool) (env : Env) (path : Text) :
    ∀ (ms : List Nat) (st : ScanState),
      (∀ m ∈ ms, ∃ p tail, path = p ++ (envPrefix ++ tail) ∧ m = utf8Len p) →
      IsCharBoundary path st.copied →
      ∃ st', scanFrom alnum env path st ms = .ok st' ∧ IsCharBoundary path st'.copied := by
  intro ms
  induction ms with
  | nil => intro st _ hst; exact ⟨st, rfl, hst⟩
  | cons m ms ih =>
    intro st hms hst
    obtain ⟨p, tail, hpath, rfl⟩ := hms m (by simp)
    have := step_inv alnum env p tail st (hpath ▸ hst)
    rw [← hpath] at this
    obtain ⟨st1, h1, h2⟩ := this
    obtain ⟨st', h3, h4⟩ := ih st1 (fun m hm => hms m (by simp [hm])) h2
    refine ⟨st', ?_, h4⟩
    simp only [scanFrom, List.foldl_cons, h1] at h3 ⊢
    exact h3

theorem matchIndices_mem {path : Text} {m : Nat} (h : m ∈ matchIndices envPrefix path) :
    ∃ p tail, path = p ++ (envPrefix ++ tail) ∧ m = utf8Len p := by
  rw [matchIndices_occs, List.mem_map] at h
  obtain ⟨o, ho, rfl⟩ := h
  exact ⟨o.1, o.2, occs_sound ho, rfl⟩

/-! ### paths without a well-formed reference to a set variable -/

theorem specGo_untouched (alnum : Char → Bool) (env : Env) (path : Text)
    (h : ∀ a t n, path = a ++ (envPrefix ++ t) → refAt alnum t = some n → lookup env n = none) :
    ∀ s a, path = a ++ s → specGo alnum env 0 s = s := by
  intro s
  induction s with
  | nil => intro a _; rfl
  | cons c rest ih =>
    intro a hp
    have hnone : substAt alnum env (c :: rest) = none := by
      by_cases hocc : isPrefix envPrefix (c :: rest) = true
      · obtain ⟨t, ht⟩ := (isPrefix_iff _ _).1 hocc
        rw [ht, substAt_of_occ]
        cases hs : scanRef alnum t with
        | none => rfl
        | some n =>
          have := h a t n (by rw [hp, ht]) (by rw [← scanRef_eq_refAt]; exact hs)
          simp [this]
      · exact substAt_of_not_occ _ _ _ (by simpa using hocc)
    rw [specGo]
    simp only [hnone]
    rw [ih (a ++ [c]) (by rw [hp]; simp)]

/-! ### the expansion depends only on the variables the path references -/

theorem specGo_congr (alnum : Char → Bool) (env₁ env₂ : Env) (path : Text)
    (h : ∀ a t n, path = a ++ (envPrefix ++ t) → refAt alnum t = some n → lookup env₁ n = lookup env₂ n) :
    ∀ s a, path = a ++ s → ∀ k, specGo alnum env₁ k s = specGo alnum env₂ k s := by
  intro s
  induction s with
  | nil => intro a _ k; cases k <;> rfl
  | cons c rest ih =>
    intro a hp k
    have hp' : path = (a ++ [c]) ++ rest := by rw [hp]; simp
    cases k with
    | succ k => simp only [specGo]; exact ih _ hp' k
    | zero =>
      have hsub : substAt alnum env₁ (c :: rest) = substAt alnum env₂ (c :: rest) := by
        by_cases hocc : isPrefix envPrefix (c :: rest) = true
        · obtain ⟨t, ht⟩ := (isPrefix_iff _ _).1 hocc
          rw [ht, substAt_of_occ, substAt_of_occ]
          cases hs : scanRef alnum t with
          | none => rfl
          | some n =>
            have := h a t n (by rw [hp, ht]) (by rw [← scanRef_eq_refAt]; exact hs)
            simp only [this]
        · have hocc' : isPrefix envPrefix (c :: rest) = false := by simpa using hocc
          rw [substAt_of_not_occ _ _ _ hocc', substAt_of_not_occ _ _ _ hocc']
      rw [specGo, specGo, hsub]
      cases substAt alnum env₂ (c :: rest) with
      | none => simp only; rw [ih _ hp' 0]
      | some p => obtain ⟨n, v⟩ := p; simp only; rw [ih _ hp' _]

theorem lookup_remove (x y : Env) (m v n : Text) (h : m ≠ n) :
    lookup (x ++ (m, v) :: y) n = lookup (x ++ y) n := by
  induction x with
  | nil => simp [lookup, h]
  | cons e x ih =>
    obtain ⟨k, w⟩ := e
    simp only [List.cons_append, lookup, ih]

theorem unicodeView_append (a b : OsEnv) : unicodeView (a ++ b) = unicodeView a ++ unicodeView b := by
  simp [unicodeView, List.filterMap_append]

/-- a variable that is not the one asked for — in particular one whose name or value is not valid
Unicode — does not change what `std::env::var(n)` returns -/
theorem lookup_unicodeView_remove (os₁ os₂ : OsEnv) (b : Bytes × Bytes) (n : Text)
    (hb : decodeUtf8 b.1 ≠ some n) :
    lookup (unicodeView (os₁ ++ b :: os₂)) n = lookup (unicodeView (os₁ ++ os₂)) n := by
  have hsplit : os₁ ++ b :: os₂ = os₁ ++ ([b] ++ os₂) := by simp
  rw [hsplit, unicodeView_append, unicodeView_append, unicodeView_append]
  cases h1 : decodeUtf8 b.1 with
  | none => simp [unicodeView, h1]
  | some m =>
    cases h2 : decodeUtf8 b.2 with
    | none => simp [unicodeView, h1, h2]
    | some v =>
      have hm : m ≠ n := fun e => hb (by rw [h1, e])
      have : unicodeView [b] = [(m, v)] := by simp [unicodeView, h1, h2]
      rw [this]
      exact lookup_remove _ _ m v n hm

end Log4rs.EnvExpand
