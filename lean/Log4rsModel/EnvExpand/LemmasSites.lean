import Log4rsModel.EnvExpand.LemmasPos
/-
C19: the call-site model (EnvExpand/CallSites.lean: code-shaped, with the argument, the expanded
local, the stored field and the descriptor as separate variables) refines the specification
"everything happens at `specExpand given`" (EnvExpand/Spec.lean), on every file system and for
every outcome (errors included).
-/
namespace Log4rs.EnvExpand
open Log4rs Log4rs.Str

theorem bindO_ok {ε α β : Type} (a : α) (f : α → Outcome ε β) : bindO (.ok a) f = f a := rfl

theorem bindO_assoc {ε α β γ : Type} (x : Outcome ε α) (f : α → Outcome ε β) (g : β → Outcome ε γ) :
    bindO (bindO x f) g = bindO x (fun a => bindO (f a) g) := by
  cases x <;> rfl

theorem bindO_congr {ε α β : Type} (x : Outcome ε α) (f g : α → Outcome ε β) (h : ∀ a, f a = g a) :
    bindO x f = bindO x g := by
  cases x <;> simp [bindO, h]

/-! ### the index -/

theorem replaceAllGo_braces (idx : Text) : ∀ (n : Nat) (t : Text), t.length ≤ n →
    replaceAllGo ['{', '}'] idx 0 t = fillIndex idx t := by
  intro n
  induction n with
  | zero =>
    intro t ht
    have : t = [] := List.eq_nil_of_length_eq_zero (by omega)
    subst this; simp [replaceAllGo, fillIndex]
  | succ n ih =>
    intro t ht
    match t with
    | [] => simp [replaceAllGo, fillIndex]
    | [c] =>
      by_cases hc : c = '{'
      · subst hc; simp [replaceAllGo, fillIndex, isPrefix]
      · simp [replaceAllGo, fillIndex, isPrefix, Ne.symm hc]
    | c :: d :: rest =>
      by_cases hc : c = '{' ∧ d = '}'
      · obtain ⟨rfl, rfl⟩ := hc
        have hlen : rest.length ≤ n := by simp at ht; omega
        simp [replaceAllGo, fillIndex, isPrefix, ih rest hlen]
      · have hlen : (d :: rest).length ≤ n := by simp at ht ⊢; omega
        have hp : isPrefix ['{', '}'] (c :: d :: rest) = false := by
          simp only [isPrefix, Bool.and_true, Bool.and_eq_false_imp, decide_eq_true_eq, decide_eq_false_iff_not]
          intro h1 h2; exact hc ⟨h1.symm, h2.symm⟩
        rw [replaceAllGo_nomatch _ _ _ _ hp, ih _ hlen]
        refine (fillIndex.eq_2 idx c (d :: rest) ?_).symm
        intro r h1 h2
        simp only [List.cons.injEq] at h2
        exact hc ⟨h1, h2.1⟩

/-- the specification's own index substitution is the code's `pattern.replace("{}", …)` -/
theorem fillIndex_eq_slotText (t : Text) (i : Nat) : fillIndex (decimal i) t = slotText t i := by
  simp only [slotText, replaceAll]
  exact (replaceAllGo_braces (decimal i) t.length t (Nat.le_refl _)).symm

/-! ### plumbing -/

theorem toStringLossy_utf8 (t : Text) : toStringLossy (utf8 t) = t := by
  simp [toStringLossy, decodeUtf8_complete]

theorem expandAt_eq (alnum : Char → Bool) (env : Env) (t : Text) :
    expandAt alnum env t = .ok (specExpand alnum env t) := by
  simp [expandAt, expand_eq_spec]

theorem slotName_eq (alnum : Char → Bool) (env : Env) (pattern : Text) (i : Nat) :
    slotName alnum env pattern i = .ok (specSlot alnum env pattern i) := by
  simp [slotName, expandAt_eq, specSlot, fillIndex_eq_slotText]

/-! ### file appender -/

theorem fileBuildFs_eq (alnum : Char → Bool) (env : Env) (cwd : Comps) (given : Text) (fs : Fs) :
    fileBuildFs alnum env cwd (utf8 given) fs =
      bindO (specFileBuild cwd (specExpand alnum env given) fs) fun (fd, fs') =>
        .ok ({ path := specExpand alnum env given, file := fd }, fs') := by
  simp only [fileBuildFs, toStringLossy_utf8, expandAt_eq, bindO_ok, specFileBuild, bindO_assoc]

/-! ### rolling appender -/

theorem getWriter_eq (cwd : Comps) (st : RollingSt) (fs : Fs) :
    getWriter cwd st fs =
      bindO (specWriter cwd st.path st.writer fs) fun (fd, len, fs') =>
        .ok ({ path := st.path, writer := some (fd, len) }, fd, len, fs') := by
  obtain ⟨path, writer⟩ := st
  cases writer with
  | some w => obtain ⟨fd, len⟩ := w; rfl
  | none =>
    simp only [getWriter, specWriter, bindO_assoc]
    apply bindO_congr
    intro a; rfl

theorem processPolicy_eq (roller : RollerFn) (st : RollingSt) (len : Nat) (op : AppendOp) (fs : Fs) :
    processPolicy roller st len op fs =
      bindO (specProcess roller st.path st.writer len op fs) fun (w, fs') =>
        .ok ({ path := st.path, writer := w }, fs') := by
  simp only [processPolicy, specProcess]
  split
  · simp only [bindO_assoc]; apply bindO_congr; intro a; rfl
  · rfl

theorem rollingAppendFs_eq (cwd : Comps) (pre : Bool) (roller : RollerFn) (st : RollingSt) (op : AppendOp) (fs : Fs) :
    rollingAppendFs cwd pre roller st op fs =
      bindO (specRollingAppend cwd pre roller st.path st.writer op fs) fun (w, fs') =>
        .ok ({ path := st.path, writer := w }, fs') := by
  simp only [rollingAppendFs, specRollingAppend, getWriter_eq, bindO_assoc, bindO_ok]
  apply bindO_congr
  intro a
  obtain ⟨fd, len, fs1⟩ := a
  cases pre with
  | true =>
    simp only [if_true, processPolicy_eq, bindO_assoc, bindO_ok]
  | false =>
    simp only [Bool.false_eq_true, if_false, processPolicy_eq]

theorem rollingHistoryFs_eq (cwd : Comps) (pre : Bool) (roller : RollerFn) :
    ∀ (ops : List AppendOp) (st : RollingSt) (fs : Fs),
      rollingHistoryFs cwd pre roller st ops fs =
        bindO (specRollingHistory cwd pre roller st.path st.writer ops fs) fun (w, fs') =>
          .ok ({ path := st.path, writer := w }, fs') := by
  intro ops
  induction ops with
  | nil => intro st fs; obtain ⟨p, w⟩ := st; rfl
  | cons op ops ih =>
    intro st fs
    simp only [rollingHistoryFs, specRollingHistory, rollingAppendFs_eq, bindO_assoc, bindO_ok]
    apply bindO_congr
    intro a
    obtain ⟨w, fs'⟩ := a
    exact ih _ _

theorem rollingBuildFs_eq (alnum : Char → Bool) (env : Env) (cwd : Comps) (given : Text) (fs : Fs) :
    rollingBuildFs alnum env cwd (utf8 given) fs =
      bindO (specRollingBuild cwd (specExpand alnum env given) fs) fun (w, fs') =>
        .ok ({ path := specExpand alnum env given, writer := w }, fs') := by
  simp only [rollingBuildFs, toStringLossy_utf8, expandAt_eq, bindO_ok, specRollingBuild, getWriter_eq,
    bindO_assoc]

/-! ### fixed-window roller -/

theorem shiftLoop_eq (alnum : Char → Bool) (env : Env) (cwd : Comps) (pattern : Text) (parent0 : Option RPath) :
    ∀ (todo : List Nat) (fs : Fs),
      shiftLoop alnum env cwd pattern parent0 todo fs =
        specShift cwd (specSlot alnum env pattern) parent0 todo fs := by
  intro todo
  induction todo with
  | nil => intro fs; rfl
  | cons i rest ih =>
    intro fs
    simp only [shiftLoop, specShift, slotName_eq, bindO_ok]
    apply bindO_congr
    intro fs1
    apply bindO_congr
    intro fs2
    exact ih fs2

theorem rollFs_eq (alnum : Char → Bool) (env : Env) (cwd : Comps) (pattern : Text) (base count : Nat) :
    rollFs alnum env cwd pattern base count = specRoll cwd (specSlot alnum env pattern) base count := by
  funext file fs
  simp only [rollFs, specRoll, rotateFs, slotName_eq, bindO_ok, shiftLoop_eq]

/-! ### `std::env::var` as `getenv` -/

/-- what the code makes of `std::env::var(name)`: `if let Ok(value)` -/
def varOk (os : OsEnv) (n : Text) : Option Text :=
  match osVar os n with
  | .ok v => some v
  | .error _ => none

theorem lookup_unicodeView_name {os : OsEnv} {n v : Text} (h : lookup (unicodeView os) n = some v) :
    ∃ e ∈ os, e.1 = utf8 n := by
  have hm := lookup_mem h
  simp only [unicodeView, List.mem_filterMap] at hm
  obtain ⟨e, he, hv⟩ := hm
  refine ⟨e, he, ?_⟩
  cases h1 : decodeUtf8 e.1 with
  | none => simp [h1] at hv
  | some m =>
    cases h2 : decodeUtf8 e.2 with
    | none => simp [h1, h2] at hv
    | some w =>
      simp only [h1, h2, Option.some.injEq, Prod.mk.injEq] at hv
      rw [← hv.1]
      exact decodeUtf8_sound _ _ h1

/-- on an environment block with unique names (what `setenv` maintains), first-match `getenv`
followed by the Unicode check is the lookup in the Unicode view -/
theorem varOk_eq_lookup : ∀ (os : OsEnv), (os.map (·.1)).Nodup → ∀ n, varOk os n = lookup (unicodeView os) n := by
  intro os
  induction os with
  | nil => intro _ n; rfl
  | cons e os ih =>
    intro hnd n
    simp only [List.map_cons, List.nodup_cons] at hnd
    obtain ⟨hnot, hnd'⟩ := hnd
    have ih' := ih hnd' n
    by_cases hname : e.1 = utf8 n
    · have hfind : (e :: os).find? (fun x => x.1 == utf8 n) = some e := by simp [List.find?, hname]
      have hdec : decodeUtf8 e.1 = some n := by rw [hname]; exact decodeUtf8_complete n
      have hrest : lookup (unicodeView os) n = none := by
        cases hl : lookup (unicodeView os) n with
        | none => rfl
        | some v =>
          obtain ⟨e', he', hn'⟩ := lookup_unicodeView_name hl
          exact absurd (List.mem_map.2 ⟨e', he', by rw [hn', hname]⟩) hnot
      cases h2 : decodeUtf8 e.2 with
      | none =>
        simp only [varOk, osVar, hfind, h2]
        have : unicodeView (e :: os) = unicodeView os := by simp [unicodeView, hdec, h2]
        rw [this, hrest]
      | some v =>
        simp only [varOk, osVar, hfind, h2]
        have : unicodeView (e :: os) = (n, v) :: unicodeView os := by simp [unicodeView, hdec, h2]
        rw [this]; simp [lookup]
    · have hfind : (e :: os).find? (fun x => x.1 == utf8 n) = os.find? (fun x => x.1 == utf8 n) := by
        have hb : (e.1 == utf8 n) = false := by simpa using hname
        simp only [List.find?, hb]
      have hv : varOk (e :: os) n = varOk os n := by simp only [varOk, osVar, hfind]
      rw [hv, ih']
      cases h1 : decodeUtf8 e.1 with
      | none => simp [unicodeView, h1]
      | some m =>
        cases h2 : decodeUtf8 e.2 with
        | none => simp [unicodeView, h1, h2]
        | some w =>
          have hm : m ≠ n := fun em => hname (by rw [← em]; exact decodeUtf8_sound _ _ h1)
          have : unicodeView (e :: os) = (m, w) :: unicodeView os := by simp [unicodeView, h1, h2]
          rw [this]; simp [lookup, hm]

theorem nodup_map_inj {α β : Type} (f : α → β) : ∀ (l : List α), (l.map f).Nodup →
    ∀ a ∈ l, ∀ b ∈ l, f a = f b → a = b := by
  intro l
  induction l with
  | nil => intro _ a ha; simp at ha
  | cons x l ih =>
    intro hnd a ha b hb hab
    simp only [List.map_cons, List.nodup_cons] at hnd
    obtain ⟨hx, hl⟩ := hnd
    rcases List.mem_cons.1 ha with rfl | ha'
    · rcases List.mem_cons.1 hb with rfl | hb'
      · rfl
      · exact absurd (List.mem_map.2 ⟨b, hb', hab.symm⟩) hx
    · rcases List.mem_cons.1 hb with rfl | hb'
      · exact absurd (List.mem_map.2 ⟨a, ha', hab⟩) hx
      · exact ih hl a ha' b hb' hab

/-! ### the effect on a fresh directory, spelled out -/

/-- `cur/c₁`, `cur/c₁/c₂`, … -/
def dirChain (cur : Comps) (cs : List Text) : List Comps :=
  (List.range cs.length).map (fun k => cur ++ cs.take (k + 1))

theorem dirChain_cons (cur : Comps) (c : Text) (cs : List Text) :
    dirChain cur (c :: cs) = (cur ++ [c]) :: dirChain (cur ++ [c]) cs := by
  simp only [dirChain, List.length_cons, List.range_succ_eq_map, List.map_cons, List.map_map,
    List.take_succ_cons, List.take_zero]
  refine congrArg _ ?_
  apply List.map_congr_left
  intro k _
  simp

theorem contains_false_of_length {dirs : List Comps} {d : Comps} (h : ∀ x ∈ dirs, x.length < d.length) :
    dirs.contains d = false := by
  cases hc : dirs.contains d with
  | false => rfl
  | true =>
    have := List.contains_iff_mem.1 hc
    have := h d this
    omega

theorem isEmpty_snoc {α : Type} (l : List α) (x : α) : (l ++ [x]).isEmpty = false := by
  cases l <;> rfl

theorem mkdirAllFrom_fresh : ∀ (cs cur : List Text) (fs : Fs), fs.files = [] →
    (∀ d ∈ fs.dirs, d.length ≤ cur.length) → dotdot ∉ cs →
    mkdirAllFrom fs cur cs = .ok { fs with dirs := fs.dirs ++ dirChain cur cs } := by
  intro cs
  induction cs with
  | nil => intro cur fs _ _ _; simp [mkdirAllFrom, dirChain]
  | cons c cs ih =>
    intro cur fs hf hd hdd
    have hc : c ≠ dotdot := fun e => hdd (by simp [e])
    have hnd : fs.isDir (cur ++ [c]) = false := by
      simp only [Fs.isDir, isEmpty_snoc, Bool.false_or]
      apply contains_false_of_length
      intro x hx
      have := hd x hx
      simp only [List.length_append, List.length_singleton]; omega
    have hnf : fs.isFile (cur ++ [c]) = false := by simp [Fs.isFile, hf]
    have hrec := ih (cur ++ [c]) { fs with dirs := fs.dirs ++ [cur ++ [c]] } hf (by
      intro d hd'
      simp only [List.mem_append, List.mem_singleton] at hd'
      rcases hd' with h | h
      · have := hd d h
        simp only [List.length_append, List.length_singleton]; omega
      · subst h; exact Nat.le_refl _) (fun h => hdd (by simp [h]))
    rw [mkdirAllFrom]
    simp only [hc, if_false, hnd, hnf, Bool.false_eq_true]
    rw [hrec, dirChain_cons]
    simp

theorem walkDirs_chain (fs : Fs) : ∀ (cs cur : List Text), (∀ d ∈ dirChain cur cs, d ∈ fs.dirs) → dotdot ∉ cs →
    walkDirs fs cur cs = .ok (cur ++ cs) := by
  intro cs
  induction cs with
  | nil => intro cur _ _; simp [walkDirs]
  | cons c cs ih =>
    intro cur h hdd
    have hc : c ≠ dotdot := fun e => hdd (by simp [e])
    rw [dirChain_cons] at h
    have hd : fs.isDir (cur ++ [c]) = true := by
      simp only [Fs.isDir, Bool.or_eq_true]
      right
      exact List.contains_iff_mem.2 (h _ (by simp))
    rw [walkDirs]
    simp only [hc, if_false, hd, if_true]
    rw [ih (cur ++ [c]) (fun d hd' => h d (by simp [hd'])) (fun h' => hdd (by simp [h']))]
    simp

/-- a file appender for a plain relative location `d₁/…/dₖ/name` in an empty directory: exactly the
directories `d₁`, `d₁/d₂`, …, and exactly the one empty file -/
theorem specFileBuild_fresh (loc : Text) (ds : List Text) (name : Text)
    (hr : rpath loc = { abs := false, comps := ds ++ [name], trailing := false })
    (hdd : dotdot ∉ ds ++ [name]) :
    specFileBuild [] loc Fs.empty =
      .ok (ds ++ [name], { files := [(ds ++ [name], [])], dirs := dirChain [] ds }) := by
  have hds : dotdot ∉ ds := fun h => hdd (by simp [h])
  have hname : name ≠ dotdot := fun e => hdd (by simp [e])
  have he : (ds ++ [name]).isEmpty = false := isEmpty_snoc ds name
  have hmk : mkParent [] Fs.empty loc = .ok { files := [], dirs := dirChain [] ds } := by
    have h1 := mkdirAllFrom_fresh ds [] Fs.empty rfl (by simp [Fs.empty]) hds
    simp only [mkParent, hr, RPath.parent, he, Bool.false_eq_true, if_false, createDirAll, relComps,
      List.dropLast_concat, h1, liftFs]
    simp [Fs.empty]
  have hwalk : walkDirs { files := [], dirs := dirChain [] ds } [] ds = .ok ds := by
    have := walkDirs_chain { files := [], dirs := dirChain [] ds } ds [] (fun d hd => hd) hds
    simpa using this
  have hnotdir : Fs.isDir { files := [], dirs := dirChain [] ds } (ds ++ [name]) = false := by
    simp only [Fs.isDir, isEmpty_snoc, Bool.false_or]
    apply contains_false_of_length
    intro x hx
    simp only [dirChain, List.mem_map, List.mem_range, List.nil_append] at hx
    obtain ⟨k, hk, rfl⟩ := hx
    simp only [List.length_take, List.length_append, List.length_singleton]; omega
  simp only [specFileBuild, hmk, bindO_ok, openCreate, resolveFile, hr, relComps, Bool.false_eq_true,
    if_false, List.getLast?_concat, List.dropLast_concat, hwalk, hname, hnotdir, liftFs, Fs.addFile,
    Fs.isFile, List.any_nil, List.nil_append]

end Log4rs.EnvExpand
