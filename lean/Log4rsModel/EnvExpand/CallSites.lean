import Log4rsModel.EnvExpand.Model
/-
C19, third clause: "the file appender, rolling appender and fixed-window roller all create their
files at the expanded location". Model of the call sites of `expand_env_vars` WITH the variables
the Rust code has (argument, expanded local, stored field, open descriptor) and a file system with
directories, so that a call site that uses the wrong one of them is a different function:

  FileAppenderBuilder::build          file.rs:97-117      `fileBuildFs`, `fileAppendFs`
  RollingFileAppenderBuilder::build   rolling_file/mod.rs:291-320   `rollingBuildFs`
  RollingFileAppender::append / get_writer   :167-257     `rollingAppendFs`, `getWriter`
  FixedWindowRollerBuilder::build     fixed_window.rs:283-310       `rollerBuild` (error outcomes)
  FixedWindowRoller::roll / rotate    fixed_window.rs:115-137,209-250   `rollFs`, `rotateFs`
  the three configuration deserializers (hand the configured text to `build` as written)

File system (`Fs`): the directory the process runs in is the root; a path is resolved component
by component as the kernel does (`..` steps up, a missing directory is ENOENT, a file in a
directory position ENOTDIR); `create_dir_all` creates every missing directory on the way; an
absolute path is accepted when it lies below `cwd` (the harness puts the scratch directory there).
`Path::components` drops empty and `.` components and a trailing `/`; `Path::parent` drops the
last component. Files are opened in append mode (truncate mode belongs to C08).
-/
namespace Log4rs.EnvExpand
open Log4rs Log4rs.Str

/-! ### file system -/

/-- a resolved location: directory names from the root, then the entry's name -/
abbrev Comps := List Text

structure Fs where
  files : List (Comps × Bytes)
  dirs : List Comps
  deriving Repr, DecidableEq

inductive FsErr where
  | notFound | notDir | isDir | outside | build (why : String)
  deriving Repr, DecidableEq

namespace Fs
def empty : Fs := ⟨[], []⟩
def isDir (fs : Fs) (d : Comps) : Bool := d.isEmpty || fs.dirs.contains d
def isFile (fs : Fs) (p : Comps) : Bool := fs.files.any (fun e => e.1 == p)
def content (fs : Fs) (p : Comps) : Option Bytes := (fs.files.find? (fun e => e.1 == p)).map (·.2)
def addFile (fs : Fs) (p : Comps) : Fs := if fs.isFile p then fs else { fs with files := fs.files ++ [(p, [])] }
def removeFile (fs : Fs) (p : Comps) : Fs := { fs with files := fs.files.filter (fun e => e.1 != p) }
/-- `write` through an open descriptor in append mode (nothing visible if the file was unlinked) -/
def appendTo (fs : Fs) (p : Comps) (data : Bytes) : Fs :=
  { fs with files := fs.files.map (fun e => if e.1 == p then (e.1, e.2 ++ data) else e) }
end Fs

/-- `std::path::Path` as the code uses it -/
structure RPath where
  abs : Bool
  comps : List Text
  /-- the text ends in `/` or `/.`: it can only name a directory (matters to `open`, not to `Path`) -/
  trailing : Bool
  deriving Repr, DecidableEq

def dotdot : Text := ['.', '.']

/-- `Path::new(text)` / `Path::components` -/
def rpath (p : Text) : RPath :=
  { abs := p.head? == some '/',
    comps := (splitOn ['/'] p).filter (fun c => !c.isEmpty && c != ['.']),
    trailing := p.getLast? == some '/' || (splitOn ['/'] p).getLast? == some ['.'] }

/-- `Path::parent` -/
def RPath.parent (r : RPath) : Option RPath :=
  if r.comps.isEmpty then none else some { abs := r.abs, comps := r.comps.dropLast, trailing := false }

/-- components below the root of `Fs` (the working directory `cwd`) -/
def relComps (cwd : Comps) (r : RPath) : Except FsErr (List Text) :=
  if r.abs then
    (if cwd.isPrefixOf r.comps then .ok (r.comps.drop cwd.length) else .error .outside)
  else .ok r.comps

/-- walk existing directories -/
def walkDirs (fs : Fs) : Comps → List Text → Except FsErr Comps
  | cur, [] => .ok cur
  | cur, c :: rest =>
    if c = dotdot then (if cur.isEmpty then .error .outside else walkDirs fs cur.dropLast rest)
    else
      let d := cur ++ [c]
      if fs.isDir d then walkDirs fs d rest
      else if fs.isFile d then .error .notDir
      else .error .notFound

/-- `create_dir_all`, component by component -/
def mkdirAllFrom (fs : Fs) : Comps → List Text → Except FsErr Fs
  | _, [] => .ok fs
  | cur, c :: rest =>
    if c = dotdot then (if cur.isEmpty then .error .outside else mkdirAllFrom fs cur.dropLast rest)
    else
      let d := cur ++ [c]
      if fs.isDir d then mkdirAllFrom fs d rest
      else if fs.isFile d then .error .notDir
      else mkdirAllFrom { fs with dirs := fs.dirs ++ [d] } d rest

/-- `fs::create_dir_all(path)` (`""` is `Ok(())`) -/
def createDirAll (cwd : Comps) (fs : Fs) (r : RPath) : Except FsErr Fs :=
  match relComps cwd r with
  | .error e => .error e
  | .ok comps => mkdirAllFrom fs [] comps

/-- resolve the directory part and the final name of a path that names a file -/
def resolveFile (cwd : Comps) (fs : Fs) (p : Text) : Except FsErr Comps :=
  let r := rpath p
  match relComps cwd r with
  | .error e => .error e
  | .ok comps =>
    match comps.getLast? with
    | none => .error (if p.isEmpty then .notFound else .isDir)
    | some last =>
      match walkDirs fs [] comps.dropLast with
      | .error e => .error e
      | .ok d =>
        if last = dotdot then .error .isDir
        else if r.trailing then .error .isDir
        else .ok (d ++ [last])

/-- `OpenOptions::new().write(true).append(true).create(true).open(path)`: the descriptor -/
def openCreate (cwd : Comps) (fs : Fs) (p : Text) : Except FsErr (Comps × Fs) :=
  match resolveFile cwd fs p with
  | .error e => .error e
  | .ok target => if fs.isDir target then .error .isDir else .ok (target, fs.addFile target)

/-- `fs::rename(src, dst)` for a regular file -/
def rename (cwd : Comps) (fs : Fs) (src dst : Text) : Except FsErr Fs :=
  match resolveFile cwd fs src with
  | .error e => .error e
  | .ok s =>
    match fs.content s with
    | none => .error .notFound
    | some data =>
      match resolveFile cwd fs dst with
      | .error e => .error e
      | .ok d =>
        if fs.isDir d then .error .isDir
        else if s = d then .ok fs
        else .ok { (fs.removeFile d).removeFile s with files := ((fs.removeFile d).removeFile s).files ++ [(d, data)] }

/-- `fs::remove_file(path)` -/
def removeFileAt (cwd : Comps) (fs : Fs) (p : Text) : Except FsErr Fs :=
  match resolveFile cwd fs p with
  | .error e => .error e
  | .ok s => if fs.isFile s then .ok (fs.removeFile s) else .error .notFound

/-- `fixed_window::move_file`: rename; `NotFound` is `Ok` (nothing moved); any other failure also
fails in the copy-and-delete fallback -/
def moveFile (cwd : Comps) (fs : Fs) (src dst : Text) : Except FsErr Fs :=
  match rename cwd fs src dst with
  | .ok fs' => .ok fs'
  | .error .notFound => .ok fs
  | .error e => .error e

/-! ### plumbing -/

def liftFs {α : Type} : Except FsErr α → Outcome FsErr α
  | .ok a => .ok a
  | .error e => .err e

/-- `expand_env_vars` at a call site -/
def expandAt (alnum : Char → Bool) (env : Env) (t : Text) : Outcome FsErr Text :=
  match expand alnum env t with
  | .ok p => .ok p
  | .err _ => .err (.build "expand")
  | .panic w => .panic w

def bindO {ε α β : Type} (x : Outcome ε α) (f : α → Outcome ε β) : Outcome ε β :=
  match x with
  | .ok a => f a
  | .err e => .err e
  | .panic w => .panic w

/-- `if let Some(parent) = path.parent() { fs::create_dir_all(parent)?; }` -/
def mkParent (cwd : Comps) (fs : Fs) (path : Text) : Outcome FsErr Fs :=
  match (rpath path).parent with
  | some parent => liftFs (createDirAll cwd fs parent)
  | none => .ok fs

/-! ### `to_string_lossy` -/

/-- the character at the head of `b` (strict UTF-8: shortest form, no surrogates) and its length -/
def headChar (b : Bytes) : Option (Char × Nat) :=
  [1, 2, 3, 4].findSome? (fun k =>
    if k ≤ b.length then
      match decodeUtf8 (b.take k) with
      | some [c] => some (c, k)
      | _ => none
    else none)

/-- bytes of the ill-formed sequence at the head, as `Utf8Chunks` cuts it (`Utf8Error::error_len`,
an incomplete sequence at the end counts whole) -/
def invalidLen : Bytes → Nat
  | [] => 0
  | b :: rest =>
    let cont (x : Nat) : Bool := 0x80 ≤ x && x ≤ 0xBF
    if 0xE0 ≤ b && b ≤ 0xEF then
      match rest with
      | s :: _ =>
        let ok2 := if b = 0xE0 then (0xA0 ≤ s && s ≤ 0xBF) else if b = 0xED then (0x80 ≤ s && s ≤ 0x9F) else cont s
        if ok2 then 2 else 1
      | [] => 1
    else if 0xF0 ≤ b && b ≤ 0xF4 then
      match rest with
      | s :: rest' =>
        let ok2 := if b = 0xF0 then (0x90 ≤ s && s ≤ 0xBF) else if b = 0xF4 then (0x80 ≤ s && s ≤ 0x8F) else cont s
        if !ok2 then 1 else
          match rest' with
          | t :: _ => if cont t then 3 else 2
          | [] => 2
      | [] => 1
    else 1

/-- `String::from_utf8_lossy`: every maximal ill-formed sequence becomes one U+FFFD -/
def lossyFuel : Nat → Bytes → Text
  | 0, _ => []
  | _ + 1, [] => []
  | fuel + 1, b :: rest =>
    match headChar (b :: rest) with
    | some (c, len) => c :: lossyFuel fuel ((b :: rest).drop len)
    | none => Char.ofNat 0xFFFD :: lossyFuel fuel ((b :: rest).drop (max 1 (invalidLen (b :: rest))))

/-- `OsStr::to_string_lossy`: the identity on valid UTF-8 -/
def toStringLossy (b : Bytes) : Text :=
  match decodeUtf8 b with
  | some t => t
  | none => lossyFuel b.length b

/-! ### `FileAppender` -/

structure FileAppenderSt where
  /-- the field `path` -/
  path : Text
  /-- the field `file`: the descriptor opened in `build` -/
  file : Comps
  deriving Repr, DecidableEq

/-- `FileAppenderBuilder::build(path)`; `given` = the bytes of the `AsRef<Path>` argument -/
def fileBuildFs (alnum : Char → Bool) (env : Env) (cwd : Comps) (given : Bytes) (fs : Fs) :
    Outcome FsErr (FileAppenderSt × Fs) :=
  let pathCow := toStringLossy given
  bindO (expandAt alnum env pathCow) fun path =>
  bindO (mkParent cwd fs path) fun fs1 =>
  bindO (liftFs (openCreate cwd fs1 path)) fun (fd, fs2) =>
  .ok ({ path := path, file := fd }, fs2)

/-- `FileAppender::append`: the encoded record goes to the descriptor -/
def fileAppendFs (a : FileAppenderSt) (data : Bytes) (fs : Fs) : Fs := fs.appendTo a.file data

/-- `FileAppenderDeserializer::deserialize`: `appender.build(&config.path)` -/
def fileDeserializeFs (alnum : Char → Bool) (env : Env) (cwd : Comps) (configured : Text) (fs : Fs) :
    Outcome FsErr (FileAppenderSt × Fs) :=
  fileBuildFs alnum env cwd (utf8 configured) fs

/-! ### `RollingFileAppender` -/

structure RollingSt where
  /-- the field `path` -/
  path : Text
  /-- the `Option<LogWriter>`: descriptor and `len` -/
  writer : Option (Comps × Nat)
  deriving Repr, DecidableEq

/-- a roller: `Roll::roll(&self, file: &Path)` -/
abbrev RollerFn := Text → Fs → Outcome FsErr Fs

/-- `get_writer`: opens `&self.path` when there is no writer (append mode: `len` = file size) -/
def getWriter (cwd : Comps) (st : RollingSt) (fs : Fs) : Outcome FsErr (RollingSt × Comps × Nat × Fs) :=
  match st.writer with
  | some (fd, len) => .ok (st, fd, len, fs)
  | none =>
    bindO (liftFs (openCreate cwd fs st.path)) fun (fd, fs1) =>
    let len := ((fs1.content fd).getD []).length
    .ok ({ st with writer := some (fd, len) }, fd, len, fs1)

/-- `RollingFileAppenderBuilder::build(path, policy)` -/
def rollingBuildFs (alnum : Char → Bool) (env : Env) (cwd : Comps) (given : Bytes) (fs : Fs) :
    Outcome FsErr (RollingSt × Fs) :=
  bindO (expandAt alnum env (toStringLossy given)) fun path =>
  let appender : RollingSt := { path := path, writer := none }
  bindO (mkParent cwd fs appender.path) fun fs1 =>
  bindO (getWriter cwd appender fs1) fun (st, _, _, fs2) =>
  .ok (st, fs2)

def rollingDeserializeFs (alnum : Char → Bool) (env : Env) (cwd : Comps) (configured : Text) (fs : Fs) :
    Outcome FsErr (RollingSt × Fs) :=
  rollingBuildFs alnum env cwd (utf8 configured) fs

/-- one record: its encoded bytes and the trigger's decision as a function of `LogFile::len_estimate` -/
structure AppendOp where
  data : Bytes
  rollIf : Nat → Bool

/-- `CompoundPolicy::process(log)`: `if trigger(log) { log.roll(); roller.roll(log.path()) }` with
`log = LogFile { writer, path: &self.path, len }` -/
def processPolicy (roller : RollerFn) (st : RollingSt) (len : Nat) (op : AppendOp) (fs : Fs) :
    Outcome FsErr (RollingSt × Fs) :=
  if op.rollIf len then
    let st' : RollingSt := { st with writer := none }
    bindO (roller st.path fs) fun fs' => .ok (st', fs')
  else .ok (st, fs)

/-- `RollingFileAppender::append`; `pre` = `policy.is_pre_process()` (time trigger). An `Err` leaves
the state as it was when the error occurred. -/
def rollingAppendFs (cwd : Comps) (pre : Bool) (roller : RollerFn) (st : RollingSt) (op : AppendOp) (fs : Fs) :
    Outcome FsErr (RollingSt × Fs) :=
  bindO (getWriter cwd st fs) fun (st1, fd, len, fs1) =>
  if pre then
    bindO (processPolicy roller st1 len op fs1) fun (st2, fs2) =>
    bindO (getWriter cwd st2 fs2) fun (st3, fd3, len3, fs3) =>
    .ok ({ st3 with writer := some (fd3, len3 + op.data.length) }, fs3.appendTo fd3 op.data)
  else
    let fs2 := fs1.appendTo fd op.data
    let len' := len + op.data.length
    let st2 : RollingSt := { st1 with writer := some (fd, len') }
    processPolicy roller st2 len' op fs2

/-- a history of appends, up to the first append that fails -/
def rollingHistoryFs (cwd : Comps) (pre : Bool) (roller : RollerFn) :
    RollingSt → List AppendOp → Fs → Outcome FsErr (RollingSt × Fs)
  | st, [], fs => .ok (st, fs)
  | st, op :: ops, fs =>
    bindO (rollingAppendFs cwd pre roller st op fs) fun (st', fs') =>
    rollingHistoryFs cwd pre roller st' ops fs'

/-! ### `FixedWindowRoller` -/

def U32_MAX : Nat := 4294967295

def hasInfix (pat : Text) : Text → Bool
  | [] => pat.isEmpty
  | c :: rest => isPrefix pat (c :: rest) || hasInfix pat rest

/-- `FixedWindowRollerBuilder::base(b).build(pattern, count)`: the stored pattern, or the error -/
def rollerBuild (pattern : Text) (base count : Nat) : Outcome FsErr Text :=
  if !hasInfix ['{', '}'] pattern then .err (.build "pattern does not contain `{}`")
  else if count > 0 && base + (count - 1) > U32_MAX then .err (.build "base + count - 1 exceeds u32::MAX")
  else .ok pattern

/-- `FixedWindowRollerDeserializer::deserialize`: `builder.build(&config.pattern, config.count)` -/
def rollerDeserialize (configured : Text) (base count : Nat) : Outcome FsErr Text :=
  rollerBuild configured base count

/-- `expand_env_vars(pattern.replace("{}", &i.to_string()))` -/
def slotName (alnum : Char → Bool) (env : Env) (stored : Text) (i : Nat) : Outcome FsErr Text :=
  expandAt alnum env (slotText stored i)

/-- the shifting loop of `rotate()`, highest slot first; `todo` = the indices `i` still to shift -/
def shiftLoop (alnum : Char → Bool) (env : Env) (cwd : Comps) (stored : Text) (parent0 : Option RPath) :
    List Nat → Fs → Outcome FsErr Fs
  | [], fs => .ok fs
  | i :: rest, fs =>
    bindO (slotName alnum env stored i) fun src =>
    bindO (slotName alnum env stored (i + 1)) fun dst =>
    let parent := (rpath dst).parent
    bindO (if parent != parent0 then
        (match parent with
          | some p => liftFs (createDirAll cwd fs p)
          | none => .ok fs)
      else .ok fs) fun fs1 =>
    bindO (liftFs (moveFile cwd fs1 src dst)) fun fs2 =>
    shiftLoop alnum env cwd stored parent0 rest fs2

/-- `rotate(pattern, Compression::None, base, count, file)` -/
def rotateFs (alnum : Char → Bool) (env : Env) (cwd : Comps) (stored : Text) (base count : Nat)
    (file : Text) (fs : Fs) : Outcome FsErr Fs :=
  bindO (slotName alnum env stored base) fun dst0 =>
  bindO (mkParent cwd fs dst0) fun fs1 =>
  let parent0 := (rpath dst0).parent
  bindO (shiftLoop alnum env cwd stored parent0 ((List.range (count - 1)).reverse.map (· + base)) fs1) fun fs2 =>
  liftFs (moveFile cwd fs2 file dst0)

/-- `FixedWindowRoller::roll(file)` (foreground): `count = 0` only removes the file -/
def rollFs (alnum : Char → Bool) (env : Env) (cwd : Comps) (stored : Text) (base count : Nat) : RollerFn :=
  fun file fs =>
    if count = 0 then liftFs (removeFileAt cwd fs file)
    else rotateFs alnum env cwd stored base count file fs

/-- `DeleteRoller::roll(file)` -/
def deleteRollFs (cwd : Comps) : RollerFn := fun file fs => liftFs (removeFileAt cwd fs file)

end Log4rs.EnvExpand
