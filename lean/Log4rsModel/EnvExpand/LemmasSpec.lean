import Log4rsModel.EnvExpand.LemmasFixed
/-
C19, HISTORICAL: the code before the fix of finding F7 (`expand_unfixed`: replace-all on the
accumulating output) against the single pass; also the decomposition lemmas (`parse`, `Complete`)
the current theorems use.

State of the loop = the segments of the single-pass decomposition together with the set `D` of
names already replaced (`render D`): the replace-all for name `n` turns `render D` into
`render (n :: D)` provided no occurrence of `$ENV{n}` is *constructed* across a junction of
literal text and a substituted value — which `junctionFree` excludes.
-/
set_option linter.unusedSectionVars false
namespace Log4rs.EnvExpand
open Log4rs Log4rs.Str

/-! ### decomposition lemmas -/

/-- `$ENV{` without the `$` -/
def envBody : Text := ['E', 'N', 'V', '{']

theorem refLit_ne_nil (n : Text) : refLit n ≠ [] := by simp [refLit, envPrefix]

theorem refLit_eq (n : Text) : refLit n = '$' :: (envBody ++ (n ++ [envSuffix])) := by
  simp [refLit, envPrefix, envBody]

theorem refLit_eq' (n : Text) : refLit n = envPrefix ++ (n ++ [envSuffix]) := by
  simp [refLit]

theorem substAt_some {alnum : Char → Bool} {env : Env} {s n v : Text}
    (h : substAt alnum env s = some (n, v)) :
    ∃ t, s = envPrefix ++ t ∧ scanRef alnum t = some n ∧ lookup env n = some v := by
  by_cases hp : isPrefix envPrefix s = true
  · obtain ⟨t, rfl⟩ := (isPrefix_iff _ _).1 hp
    rw [substAt_of_occ] at h
    refine ⟨t, rfl, ?_⟩
    cases hs : scanRef alnum t with
    | none => simp [hs] at h
    | some m =>
      simp only [hs] at h
      cases hl : lookup env m with
      | none => simp [hl] at h
      | some w =>
        simp only [hl, Option.some.injEq, Prod.mk.injEq] at h
        obtain ⟨rfl, rfl⟩ := h
        exact ⟨rfl, hl⟩
  · have hp' : isPrefix envPrefix s = false := by simpa using hp
    simp [substAt_of_not_occ _ _ _ hp'] at h

theorem substAt_some_lit {alnum : Char → Bool} {env : Env} {s n v : Text}
    (h : substAt alnum env s = some (n, v)) :
    (∃ r, s = refLit n ++ r) ∧ WfName alnum n ∧ lookup env n = some v := by
  obtain ⟨t, rfl, hs, hl⟩ := substAt_some h
  obtain ⟨hw, r, rfl⟩ := scanRef_some hs
  exact ⟨⟨r, by simp [refLit]⟩, hw, hl⟩

theorem origRender_parseGo (alnum : Char → Bool) (env : Env) (s : Text) :
    ∀ k, origRender (parseGo alnum env k s) = s.drop k := by
  induction s with
  | nil => intro k; simp [parseGo, origRender]
  | cons c rest ih =>
    intro k
    cases k with
    | succ k => simp [parseGo, ih]
    | zero =>
      rw [parseGo]
      cases hs : substAt alnum env (c :: rest) with
      | none => simp [origRender, ih]
      | some p =>
        obtain ⟨n, v⟩ := p
        obtain ⟨⟨r, hr⟩, _, _⟩ := substAt_some_lit hs
        simp only [origRender, ih, List.drop_zero]
        rw [hr]
        have : rest = (refLit n).tail ++ r := by
          have := congrArg List.tail hr
          simpa [refLit_eq] using this
        rw [this]
        have hlen : (refLit n).length - 1 = (refLit n).tail.length := by simp
        rw [hlen, List.drop_left]

theorem origRender_parse (alnum : Char → Bool) (env : Env) (path : Text) :
    origRender (parse alnum env path) = path := by
  simpa [parse] using origRender_parseGo alnum env path 0

theorem specGo_eq_final (alnum : Char → Bool) (env : Env) (s : Text) :
    ∀ k, specGo alnum env k s = finalRender (parseGo alnum env k s) := by
  induction s with
  | nil => intro k; simp [specGo, parseGo, finalRender]
  | cons c rest ih =>
    intro k
    cases k with
    | succ k => simp [specGo, parseGo, ih]
    | zero =>
      rw [specGo, parseGo]
      cases hs : substAt alnum env (c :: rest) with
      | none => simp [finalRender, ih]
      | some p => obtain ⟨n, v⟩ := p; simp [finalRender, ih]

/-- the decomposition is the one the statement describes: every substituted segment is a
well-formed reference to a set variable with that variable's value, and no literal character
starts such a reference (nothing that should have been replaced is left over) -/
def Complete (alnum : Char → Bool) (env : Env) : List Seg → Prop
  | [] => True
  | .chr c :: r => substAt alnum env (c :: origRender r) = none ∧ Complete alnum env r
  | .sub n v :: r => WfName alnum n ∧ lookup env n = some v ∧ Complete alnum env r

theorem complete_parseGo (alnum : Char → Bool) (env : Env) (s : Text) :
    ∀ k, Complete alnum env (parseGo alnum env k s) := by
  induction s with
  | nil => intro k; simp [parseGo, Complete]
  | cons c rest ih =>
    intro k
    cases k with
    | succ k => simp only [parseGo]; exact ih k
    | zero =>
      rw [parseGo]
      cases hs : substAt alnum env (c :: rest) with
      | none =>
        simp only [Complete]
        exact ⟨by rw [origRender_parseGo]; simpa using hs, ih 0⟩
      | some p =>
        obtain ⟨n, v⟩ := p
        obtain ⟨_, hw, hl⟩ := substAt_some_lit hs
        exact ⟨hw, hl, ih _⟩

/-- what the decomposition guarantees at every segment of a junction-free path -/
def Good (alnum : Char → Bool) (env : Env) : List Seg → Prop
  | [] => True
  | .chr c :: r => (c = '$' → substAt alnum env (c :: finalRender r) = none) ∧ Good alnum env r
  | .sub n v :: r => WfName alnum n ∧ lookup env n = some v ∧ Good alnum env r

theorem good_parseGo (alnum : Char → Bool) (env : Env) (s : Text) :
    ∀ k, junctionFreeSegs alnum env (parseGo alnum env k s) = true →
      Good alnum env (parseGo alnum env k s) := by
  induction s with
  | nil => intro k _; simp [parseGo, Good]
  | cons c rest ih =>
    intro k hj
    cases k with
    | succ k => simp only [parseGo] at hj ⊢; exact ih k hj
    | zero =>
      rw [parseGo] at hj ⊢
      cases hs : substAt alnum env (c :: rest) with
      | none =>
        simp only [hs, junctionFreeSegs, Bool.and_eq_true, Bool.or_eq_true, bne_iff_ne, ne_eq,
          Option.isNone_iff_eq_none] at hj
        simp only [Good]
        refine ⟨?_, ih 0 hj.2⟩
        intro hc
        rcases hj.1 with h | h
        · exact absurd hc h
        · exact h
      | some p =>
        obtain ⟨n, v⟩ := p
        simp only [hs, junctionFreeSegs] at hj
        obtain ⟨_, hw, hl⟩ := substAt_some_lit hs
        exact ⟨hw, hl, ih _ hj⟩

theorem junctionFreeSegs_of_no_dollar (alnum : Char → Bool) (env : Env) (segs : List Seg)
    (h : ∀ s ∈ segs, s ≠ Seg.chr '$') : junctionFreeSegs alnum env segs = true := by
  induction segs with
  | nil => rfl
  | cons s r ih =>
    have ihr := ih (fun s hs => h s (by simp [hs]))
    cases s with
    | chr c =>
      have : c ≠ '$' := fun e => h (.chr c) (by simp) (by rw [e])
      simp [junctionFreeSegs, this, ihr]
    | sub n v => simpa [junctionFreeSegs] using ihr

/-- every substituted segment stems from an occurrence of `$ENV{` the loop visits -/
theorem sub_mem_parseGo {alnum : Char → Bool} {env : Env} {n v : Text} (s : Text) :
    ∀ k, Seg.sub n v ∈ parseGo alnum env k s →
      ∃ a t, s = a ++ (envPrefix ++ t) ∧ scanRef alnum t = some n ∧ lookup env n = some v := by
  induction s with
  | nil => intro k h; simp [parseGo] at h
  | cons c rest ih =>
    intro k h
    have lift : (∃ a t, rest = a ++ (envPrefix ++ t) ∧ scanRef alnum t = some n ∧ lookup env n = some v) →
        ∃ a t, c :: rest = a ++ (envPrefix ++ t) ∧ scanRef alnum t = some n ∧ lookup env n = some v := by
      rintro ⟨a, t, h1, h2, h3⟩
      exact ⟨c :: a, t, by rw [h1]; rfl, h2, h3⟩
    cases k with
    | succ k => simp only [parseGo] at h; exact lift (ih k h)
    | zero =>
      rw [parseGo] at h
      cases hs : substAt alnum env (c :: rest) with
      | none =>
        simp only [hs, List.mem_cons, reduceCtorEq, false_or] at h
        exact lift (ih 0 h)
      | some p =>
        obtain ⟨m, w⟩ := p
        simp only [hs, List.mem_cons, Seg.sub.injEq] at h
        rcases h with ⟨rfl, rfl⟩ | h
        · obtain ⟨t, ht, h2, h3⟩ := substAt_some hs
          exact ⟨[], t, by simpa using ht, h2, h3⟩
        · exact lift (ih _ h)

/-! ### the state of the loop -/

/-- the accumulating output when exactly the names in `D` have been replaced -/
def render (D : List Text) : List Seg → Text
  | [] => []
  | .chr c :: r => c :: render D r
  | .sub n v :: r => (if n ∈ D then v else refLit n) ++ render D r

theorem render_nil (segs : List Seg) : render [] segs = origRender segs := by
  induction segs with
  | nil => rfl
  | cons s r ih => cases s <;> simp [render, origRender, ih]

theorem render_all (D : List Text) (segs : List Seg) (h : ∀ n v, Seg.sub n v ∈ segs → n ∈ D) :
    render D segs = finalRender segs := by
  induction segs with
  | nil => rfl
  | cons s r ih =>
    have ihr := ih (fun n v hm => h n v (by simp [hm]))
    cases s with
    | chr c => simp [render, finalRender, ihr]
    | sub n v =>
      have : n ∈ D := h n v (by simp)
      simp [render, finalRender, ihr, this]

/-- text free of `$` that is a prefix of some loop state is a prefix of the final expansion:
it cannot reach a reference that is still unreplaced -/
theorem prefix_render_final (D : List Text) :
    ∀ (segs : List Seg) (p : Text), '$' ∉ p → isPrefix p (render D segs) = true →
      isPrefix p (finalRender segs) = true := by
  intro segs
  induction segs with
  | nil => intro p _ h; simpa [render, finalRender] using h
  | cons s r ih =>
    intro p hp h
    cases s with
    | chr c =>
      cases p with
      | nil => simp [isPrefix]
      | cons e p =>
        simp only [render, finalRender, isPrefix, Bool.and_eq_true, decide_eq_true_eq] at h ⊢
        exact ⟨h.1, ih p (fun hm => hp (by simp [hm])) h.2⟩
    | sub n v =>
      simp only [render, finalRender] at h ⊢
      by_cases hn : n ∈ D
      · simp only [hn, if_true] at h
        rcases isPrefix_append_cases h with hin | ⟨q, _, rfl, hq⟩
        · obtain ⟨t, ht⟩ := (isPrefix_iff _ _).1 hin
          rw [ht, List.append_assoc]; exact isPrefix_append _ _
        · have hq' := ih q (fun hm => hp (by simp [hm])) hq
          obtain ⟨t, ht⟩ := (isPrefix_iff _ _).1 hq'
          rw [ht, ← List.append_assoc]; exact isPrefix_append _ _
      · simp only [hn, if_false] at h
        cases p with
        | nil => simp [isPrefix]
        | cons e p =>
          have : e = '$' := by
            simp only [refLit, envPrefix, List.cons_append, isPrefix, Bool.and_eq_true,
              decide_eq_true_eq] at h
            exact h.1
          exact absurd (by simp [this]) hp

/-! ### facts about names under the two table hypotheses -/

theorem isPart_dollar {alnum : Char → Bool} (hd : alnum '$' = false) : isPart alnum '$' = false := by
  simp [isPart, hd]
theorem isPart_suffix {alnum : Char → Bool} (hc : alnum '}' = false) : isPart alnum envSuffix = false := by
  simp [isPart, envSuffix, hc]

section
variable {alnum : Char → Bool} (hd : alnum '$' = false) (hc : alnum '}' = false)
include hd hc

theorem WfName.no_dollar {n : Text} (h : WfName alnum n) : '$' ∉ n := by
  intro hm
  have := h.all_part _ hm
  rw [isPart_dollar hd] at this
  exact absurd this (by simp)

theorem WfName.no_suffix {n : Text} (h : WfName alnum n) : envSuffix ∉ n := by
  intro hm
  have := h.all_part _ hm
  rw [isPart_suffix hc] at this
  exact absurd this (by simp)

theorem refLit_tail_no_dollar {n : Text} (h : WfName alnum n) :
    '$' ∉ envBody ++ (n ++ [envSuffix]) := by
  have := h.no_dollar hd hc
  simp [envBody, envSuffix, this]

end

theorem append_sep_inj {d : Char} : ∀ {a b x y : Text}, a ++ d :: x = b ++ d :: y → d ∉ a → d ∉ b → a = b := by
  intro a
  induction a with
  | nil =>
    intro b x y h _ hb
    cases b with
    | nil => rfl
    | cons e b =>
      simp only [List.nil_append, List.cons_append, List.cons.injEq] at h
      exact absurd (by simp [h.1]) hb
  | cons e a ih =>
    intro b x y h ha hb
    cases b with
    | nil =>
      simp only [List.nil_append, List.cons_append, List.cons.injEq] at h
      exact absurd (by simp [h.1]) ha
    | cons f b =>
      simp only [List.cons_append, List.cons.injEq] at h
      have := ih h.2 (fun hm => ha (by simp [hm])) (fun hm => hb (by simp [hm]))
      rw [h.1, this]

section
variable {alnum : Char → Bool} {env : Env} (hd : alnum '$' = false) (hc : alnum '}' = false)
include hd hc

/-- two reference literals: one a prefix of text starting with the other ⇒ same name -/
theorem refLit_prefix_refLit {n m x : Text} (hn : WfName alnum n) (hm : WfName alnum m)
    (h : isPrefix (refLit n) (refLit m ++ x) = true) : n = m := by
  obtain ⟨t, ht⟩ := (isPrefix_iff _ _).1 h
  simp only [refLit_eq', List.append_assoc, List.append_cancel_left_eq, List.singleton_append] at ht
  exact (append_sep_inj ht (hm.no_suffix hd hc) (hn.no_suffix hd hc)).symm

/-- a reference literal occurring at the head of `s` is a substitution point of the single pass -/
theorem substAt_of_refLit {n v r : Text} (hn : WfName alnum n) (hl : lookup env n = some v) :
    substAt alnum env (refLit n ++ r) = some (n, v) := by
  have : refLit n ++ r = envPrefix ++ (n ++ envSuffix :: r) := by simp [refLit]
  rw [this, substAt_of_occ, scanRef_of_wf r hn (isPart_suffix hc)]
  simp [hl]

/-- at a literal character no occurrence of a set variable's literal starts, in any loop state -/
theorem no_match_at_chr {c : Char} {r : List Seg} {D : List Text} {n v : Text}
    (hg : Good alnum env (.chr c :: r)) (hn : WfName alnum n) (hl : lookup env n = some v) :
    isPrefix (refLit n) (c :: render D r) = false := by
  obtain ⟨h1, _⟩ := hg
  cases hcase : isPrefix (refLit n) (c :: render D r) with
  | false => rfl
  | true =>
    exfalso
    rw [refLit_eq] at hcase
    simp only [isPrefix, Bool.and_eq_true, decide_eq_true_eq] at hcase
    obtain ⟨hc', hbody⟩ := hcase
    have hfin := prefix_render_final D r _ (refLit_tail_no_dollar hd hc hn) hbody
    obtain ⟨t, ht⟩ := (isPrefix_iff _ _).1 hfin
    have h1' := h1 hc'.symm
    have : c :: finalRender r = refLit n ++ t := by
      rw [ht, refLit_eq, ← hc']; simp
    rw [this, substAt_of_refLit hd hc hn hl] at h1'
    exact absurd h1' (by simp)

/-- one replace-all = marking the name as replaced -/
theorem replace_render (hv : ∀ n v, lookup env n = some v → '$' ∉ v) {n v : Text}
    (hn : WfName alnum n) (hl : lookup env n = some v) (D : List Text) :
    ∀ segs, Good alnum env segs →
      replaceAllGo (refLit n) v 0 (render D segs) = render (n :: D) segs := by
  intro segs
  induction segs with
  | nil => intro _; simp [render, replaceAllGo]
  | cons s r ih =>
    intro hg
    cases s with
    | chr c =>
      have hr : Good alnum env r := hg.2
      rw [render, replaceAllGo_nomatch _ _ _ _ (no_match_at_chr hd hc hg hn hl), ih hr, render]
    | sub m w =>
      obtain ⟨hm, hlm, hr⟩ := hg
      simp only [render]
      by_cases hmD : m ∈ D
      · have hw : '$' ∉ w := hv m w hlm
        have hmem : m ∈ n :: D := by simp [hmD]
        simp only [hmD, hmem, if_true]
        rw [refLit_eq, replaceAllGo_block_free '$' _ v w _ hw, ← refLit_eq, ih hr]
      · by_cases hmn : m = n
        · subst hmn
          have hwv : w = v := by rw [hlm] at hl; exact Option.some.inj hl
          simp only [hmD, if_false, List.mem_cons, true_or, if_true]
          rw [replaceAllGo_match _ _ _ (refLit_ne_nil m), ih hr, hwv]
        · have hmem : ¬ m ∈ n :: D := by simp [hmn, hmD]
          simp only [hmD, hmem, if_false]
          rw [replaceAllGo_block, ih hr]
          intro a b hab hb
          cases a with
          | nil =>
            simp only [List.nil_append] at hab
            subst hab
            cases hp : isPrefix (refLit n) (refLit m ++ render D r) with
            | false => rfl
            | true => exact absurd (refLit_prefix_refLit hd hc hn hm hp).symm hmn
          | cons e a =>
            rw [refLit_eq] at hab
            simp only [List.cons_append, List.cons.injEq] at hab
            cases b with
            | nil => exact absurd rfl hb
            | cons f b =>
              have hf : f ∈ envBody ++ (m ++ [envSuffix]) := by rw [hab.2]; simp
              have hne : '$' ≠ f := fun e => refLit_tail_no_dollar hd hc hm (e ▸ hf)
              rw [refLit_eq]
              exact isPrefix_false_of_head_ne _ _ hne

/-- the whole loop: after visiting the occurrences `ts`, every visited set name is replaced -/
theorem fold_render (hv : ∀ n v, lookup env n = some v → '$' ∉ v) (segs : List Seg)
    (hg : Good alnum env segs) :
    ∀ (ts : List (Text × Text)) (D : List Text),
      ∃ D', ts.foldl (fun out o => stepChars alnum env out o.2) (render D segs) = render D' segs ∧
        (∀ o ∈ ts, ∀ n v, scanRef alnum o.2 = some n → lookup env n = some v → n ∈ D') ∧
        ∀ x ∈ D, x ∈ D' := by
  intro ts
  induction ts with
  | nil => intro D; exact ⟨D, rfl, by simp, fun x hx => hx⟩
  | cons o ts ih =>
    intro D
    simp only [List.foldl_cons]
    cases hs : scanRef alnum o.2 with
    | none =>
      obtain ⟨D', h1, h2, h3⟩ := ih D
      refine ⟨D', by simpa [stepChars, hs] using h1, ?_, h3⟩
      intro o' ho' n v hn hl
      rcases List.mem_cons.1 ho' with rfl | ho'
      · rw [hs] at hn; exact absurd hn (by simp)
      · exact h2 o' ho' n v hn hl
    | some m =>
      cases hl : lookup env m with
      | none =>
        obtain ⟨D', h1, h2, h3⟩ := ih D
        refine ⟨D', by simpa [stepChars, hs, hl] using h1, ?_, h3⟩
        intro o' ho' n v hn hl'
        rcases List.mem_cons.1 ho' with rfl | ho'
        · rw [hs] at hn
          obtain rfl := Option.some.inj hn
          rw [hl] at hl'; exact absurd hl' (by simp)
        · exact h2 o' ho' n v hn hl'
      | some w =>
        have hm : WfName alnum m := (scanRef_some hs).1
        have hstep : stepChars alnum env (render D segs) o.2 = render (m :: D) segs := by
          simp only [stepChars, hs, hl]
          rw [replaceAll_eq _ _ _ (refLit_ne_nil m)]
          exact replace_render hd hc hv hm hl D segs hg
        rw [hstep]
        obtain ⟨D', h1, h2, h3⟩ := ih (m :: D)
        refine ⟨D', h1, ?_, fun x hx => h3 x (by simp [hx])⟩
        intro o' ho' n v hn hl'
        rcases List.mem_cons.1 ho' with rfl | ho'
        · rw [hs] at hn
          obtain rfl := Option.some.inj hn
          exact h3 _ (by simp)
        · exact h2 o' ho' n v hn hl'

/-- the historical code equals the single pass on junction-free paths -/
theorem expandChars_eq_spec (hv : ∀ n v, lookup env n = some v → '$' ∉ v) (path : Text)
    (hj : junctionFree alnum env path = true) :
    expandChars alnum env path = specExpand alnum env path := by
  have hg : Good alnum env (parse alnum env path) := good_parseGo alnum env path 0 hj
  obtain ⟨D', h1, h2, _⟩ := fold_render hd hc hv (parse alnum env path) hg (occs path) []
  rw [render_nil, origRender_parse] at h1
  unfold expandChars
  rw [h1, specExpand, specGo_eq_final]
  apply render_all
  intro n v hm
  obtain ⟨a, t, hpath, hs, hl⟩ := sub_mem_parseGo path 0 hm
  have hocc : (a, t) ∈ occs path := by rw [hpath]; exact occs_complete a t
  exact h2 (a, t) hocc n v hs hl

end

end Log4rs.EnvExpand
