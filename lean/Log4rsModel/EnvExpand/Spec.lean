import Log4rsModel.EnvExpand.CallSites
/-
Executable specification of C19, read off the English statement: ONE left-to-right pass over the
path. Text is copied; where a well-formed, terminated reference `$ENV{NAME}` to a SET variable
starts, the variable's value is emitted and the whole reference is skipped; everything else
(references to unset variables, malformed or unterminated references, stray `$ { }`) is copied
character by character. Values are never re-scanned.

A reference is well formed when NAME is the maximal run of name characters after `$ENV{`, is not
empty, starts with a start character and is followed by `}` (formulated with `takeWhile`, i.e.
independently of the model's scanning loop).
-/
namespace Log4rs.EnvExpand
open Log4rs Log4rs.Str

/-- `s` is the text right after `$ENV{`: the name of the well-formed, terminated reference, if any -/
def refAt (alnum : Char → Bool) (s : Text) : Option Text :=
  let name := s.takeWhile (isPart alnum)
  match name, s.dropWhile (isPart alnum) with
  | c :: _, t :: _ => if isStart alnum c && t == envSuffix then some name else none
  | _, _ => none

/-- the reference `$ENV{name}` as written -/
def refLit (name : Text) : Text := envPrefix ++ name ++ [envSuffix]

/-- the well-formed reference to a set variable starting at the head of `s`, if there is one:
its name and the value it is replaced by -/
def substAt (alnum : Char → Bool) (env : Env) (s : Text) : Option (Text × Text) :=
  if isPrefix envPrefix s then
    match refAt alnum (s.drop envPrefix.length) with
    | some name =>
      match lookup env name with
      | some value => some (name, value)
      | none => none
    | none => none
  else none

/-- the single pass; `skip` = characters of an already substituted reference still to be skipped -/
def specGo (alnum : Char → Bool) (env : Env) : Nat → Text → Text
  | _, [] => []
  | skip + 1, _ :: rest => specGo alnum env skip rest
  | 0, c :: rest =>
    match substAt alnum env (c :: rest) with
    | some (name, value) => value ++ specGo alnum env ((refLit name).length - 1) rest
    | none => c :: specGo alnum env 0 rest

def specExpand (alnum : Char → Bool) (env : Env) (path : Text) : Text := specGo alnum env 0 path

/-! ### The single pass as a decomposition of the path

`parse` cuts the path into literal characters and substituted references (exactly as `specExpand`
walks it). It is used to describe the result, and to *state* where the historical code (replace-all on the
accumulating output, `expand_unfixed`)
went wrong: `junctionFree` says that no literal `$` of the path becomes the start of a
well-formed reference to a set variable once the references to its right have been replaced by
their values — i.e. no substituted value (with its neighbouring literal text) spells a new
reference. -/

inductive Seg where
  | chr (c : Char)
  | sub (name value : Text)
  deriving Repr, DecidableEq

def parseGo (alnum : Char → Bool) (env : Env) : Nat → Text → List Seg
  | _, [] => []
  | skip + 1, _ :: rest => parseGo alnum env skip rest
  | 0, c :: rest =>
    match substAt alnum env (c :: rest) with
    | some (name, value) => Seg.sub name value :: parseGo alnum env ((refLit name).length - 1) rest
    | none => Seg.chr c :: parseGo alnum env 0 rest

def parse (alnum : Char → Bool) (env : Env) (path : Text) : List Seg := parseGo alnum env 0 path

/-- the path the segments were cut from -/
def origRender : List Seg → Text
  | [] => []
  | .chr c :: r => c :: origRender r
  | .sub n _ :: r => refLit n ++ origRender r

/-- the expansion: every reference replaced by its value -/
def finalRender : List Seg → Text
  | [] => []
  | .chr c :: r => c :: finalRender r
  | .sub _ v :: r => v ++ finalRender r

def junctionFreeSegs (alnum : Char → Bool) (env : Env) : List Seg → Bool
  | [] => true
  | .chr c :: r =>
    (c != '$' || (substAt alnum env (c :: finalRender r)).isNone) && junctionFreeSegs alnum env r
  | .sub _ _ :: r => junctionFreeSegs alnum env r

/-- no literal `$`, read together with the *expanded* text to its right, starts a well-formed
reference to a set variable -/
def junctionFree (alnum : Char → Bool) (env : Env) (path : Text) : Bool :=
  junctionFreeSegs alnum env (parse alnum env path)

/-! ### The call sites: everything happens at the expanded location

The statement's third clause, made executable on the file system of EnvExpand/CallSites.lean
(`Fs` and its operations are the *environment*; nothing below mentions the model's appender
states). `loc` is the text of the location; the theorems instantiate it with
`specExpand given`. -/

/-- the roller's pattern with the index filled in: every `{}`, left to right (own definition, not
the model's `str::replace`) -/
def fillIndex (idx : Text) : Text → Text
  | '{' :: '}' :: rest => idx ++ fillIndex idx rest
  | c :: rest => c :: fillIndex idx rest
  | [] => []

/-- archive of slot `i`: the pattern with the index filled in, expanded ONCE. (Reading decision,
listed as an assumption: index first, expansion second, as the code does.) -/
def specSlot (alnum : Char → Bool) (env : Env) (pattern : Text) (i : Nat) : Text :=
  specExpand alnum env (fillIndex (decimal i) pattern)

/-- a file appender at `loc`: its directory exists, the file exists, the descriptor refers to it -/
def specFileBuild (cwd : Comps) (loc : Text) (fs : Fs) : Outcome FsErr (Comps × Fs) :=
  bindO (mkParent cwd fs loc) fun fs1 => liftFs (openCreate cwd fs1 loc)

/-- (re)open the log file at `loc` when it is not open -/
def specWriter (cwd : Comps) (loc : Text) (w : Option (Comps × Nat)) (fs : Fs) :
    Outcome FsErr (Comps × Nat × Fs) :=
  match w with
  | some (fd, len) => .ok (fd, len, fs)
  | none =>
    bindO (liftFs (openCreate cwd fs loc)) fun (fd, fs1) => .ok (fd, ((fs1.content fd).getD []).length, fs1)

def specRollingBuild (cwd : Comps) (loc : Text) (fs : Fs) : Outcome FsErr (Option (Comps × Nat) × Fs) :=
  bindO (mkParent cwd fs loc) fun fs1 =>
  bindO (specWriter cwd loc none fs1) fun (fd, len, fs2) => .ok (some (fd, len), fs2)

/-- the policy rolls the file AT `loc` -/
def specProcess (roller : RollerFn) (loc : Text) (w : Option (Comps × Nat)) (len : Nat) (op : AppendOp) (fs : Fs) :
    Outcome FsErr (Option (Comps × Nat) × Fs) :=
  if op.rollIf len then bindO (roller loc fs) fun fs' => .ok (none, fs') else .ok (w, fs)

/-- one record of a rolling appender living at `loc` -/
def specRollingAppend (cwd : Comps) (pre : Bool) (roller : RollerFn) (loc : Text)
    (w : Option (Comps × Nat)) (op : AppendOp) (fs : Fs) : Outcome FsErr (Option (Comps × Nat) × Fs) :=
  bindO (specWriter cwd loc w fs) fun (fd, len, fs1) =>
  if pre then
    bindO (specProcess roller loc (some (fd, len)) len op fs1) fun (w2, fs2) =>
    bindO (specWriter cwd loc w2 fs2) fun (fd3, len3, fs3) =>
    .ok (some (fd3, len3 + op.data.length), fs3.appendTo fd3 op.data)
  else
    specProcess roller loc (some (fd, len + op.data.length)) (len + op.data.length) op (fs1.appendTo fd op.data)

def specRollingHistory (cwd : Comps) (pre : Bool) (roller : RollerFn) (loc : Text) :
    Option (Comps × Nat) → List AppendOp → Fs → Outcome FsErr (Option (Comps × Nat) × Fs)
  | w, [], fs => .ok (w, fs)
  | w, op :: ops, fs =>
    bindO (specRollingAppend cwd pre roller loc w op fs) fun (w', fs') =>
    specRollingHistory cwd pre roller loc w' ops fs'

/-- shifting archives `name i → name (i+1)`, highest first; the directory of a destination is
created when it is not the directory of slot `base` -/
def specShift (cwd : Comps) (name : Nat → Text) (parent0 : Option RPath) : List Nat → Fs → Outcome FsErr Fs
  | [], fs => .ok fs
  | i :: rest, fs =>
    let parent := (rpath (name (i + 1))).parent
    bindO (if parent != parent0 then
        (match parent with
          | some p => liftFs (createDirAll cwd fs p)
          | none => .ok fs)
      else .ok fs) fun fs1 =>
    bindO (liftFs (moveFile cwd fs1 (name i) (name (i + 1)))) fun fs2 =>
    specShift cwd name parent0 rest fs2

/-- one roll of a fixed window whose slot `i` is the file `name i` -/
def specRoll (cwd : Comps) (name : Nat → Text) (base count : Nat) : RollerFn :=
  fun file fs =>
    if count = 0 then liftFs (removeFileAt cwd fs file)
    else
      bindO (mkParent cwd fs (name base)) fun fs1 =>
      bindO (specShift cwd name (rpath (name base)).parent ((List.range (count - 1)).reverse.map (· + base)) fs1) fun fs2 =>
      liftFs (moveFile cwd fs2 file (name base))

end Log4rs.EnvExpand
