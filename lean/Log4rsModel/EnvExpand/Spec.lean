import Log4rsModel.EnvExpand.Model
/-
Executable specification of C19, read off the English statement: ONE left-to-right pass over the
path. Text is copied; where a well-formed, terminated reference `$ENV{NAME}` to a SET variable
starts, the variable's value is emitted and the whole reference is skipped; everything else
(references to unset variables, malformed or unterminated references, stray `$ { }`) is copied
character by character. Values are never re-scanned.

A reference is well formed when NAME is the maximal run of name characters after `$ENV{`, is not
empty, starts with a start character and is followed by `}` (formulated with `takeWhile`, i.e.
independently of the model's scanning loop).
-/
namespace Log4rs.EnvExpand
open Log4rs Log4rs.Str

/-- `s` is the text right after `$ENV{`: the name of the well-formed, terminated reference, if any -/
def refAt (alnum : Char → Bool) (s : Text) : Option Text :=
  let name := s.takeWhile (isPart alnum)
  match name, s.dropWhile (isPart alnum) with
  | c :: _, t :: _ => if isStart alnum c && t == envSuffix then some name else none
  | _, _ => none

/-- the reference `$ENV{name}` as written -/
def refLit (name : Text) : Text := envPrefix ++ name ++ [envSuffix]

/-- the well-formed reference to a set variable starting at the head of `s`, if there is one:
its name and the value it is replaced by -/
def substAt (alnum : Char → Bool) (env : Env) (s : Text) : Option (Text × Text) :=
  if isPrefix envPrefix s then
    match refAt alnum (s.drop envPrefix.length) with
    | some name =>
      match lookup env name with
      | some value => some (name, value)
      | none => none
    | none => none
  else none

/-- the single pass; `skip` = characters of an already substituted reference still to be skipped -/
def specGo (alnum : Char → Bool) (env : Env) : Nat → Text → Text
  | _, [] => []
  | skip + 1, _ :: rest => specGo alnum env skip rest
  | 0, c :: rest =>
    match substAt alnum env (c :: rest) with
    | some (name, value) => value ++ specGo alnum env ((refLit name).length - 1) rest
    | none => c :: specGo alnum env 0 rest

def specExpand (alnum : Char → Bool) (env : Env) (path : Text) : Text := specGo alnum env 0 path

/-! ### The single pass as a decomposition of the path

`parse` cuts the path into literal characters and substituted references (exactly as `specExpand`
walks it). It is used to describe the result, and to *state* where the historical code (replace-all on the
accumulating output, `expand_unfixed`)
went wrong: `junctionFree` says that no literal `$` of the path becomes the start of a
well-formed reference to a set variable once the references to its right have been replaced by
their values — i.e. no substituted value (with its neighbouring literal text) spells a new
reference. -/

inductive Seg where
  | chr (c : Char)
  | sub (name value : Text)
  deriving Repr, DecidableEq

def parseGo (alnum : Char → Bool) (env : Env) : Nat → Text → List Seg
  | _, [] => []
  | skip + 1, _ :: rest => parseGo alnum env skip rest
  | 0, c :: rest =>
    match substAt alnum env (c :: rest) with
    | some (name, value) => Seg.sub name value :: parseGo alnum env ((refLit name).length - 1) rest
    | none => Seg.chr c :: parseGo alnum env 0 rest

def parse (alnum : Char → Bool) (env : Env) (path : Text) : List Seg := parseGo alnum env 0 path

/-- the path the segments were cut from -/
def origRender : List Seg → Text
  | [] => []
  | .chr c :: r => c :: origRender r
  | .sub n _ :: r => refLit n ++ origRender r

/-- the expansion: every reference replaced by its value -/
def finalRender : List Seg → Text
  | [] => []
  | .chr c :: r => c :: finalRender r
  | .sub _ v :: r => v ++ finalRender r

def junctionFreeSegs (alnum : Char → Bool) (env : Env) : List Seg → Bool
  | [] => true
  | .chr c :: r =>
    (c != '$' || (substAt alnum env (c :: finalRender r)).isNone) && junctionFreeSegs alnum env r
  | .sub _ _ :: r => junctionFreeSegs alnum env r

/-- no literal `$`, read together with the *expanded* text to its right, starts a well-formed
reference to a set variable -/
def junctionFree (alnum : Char → Bool) (env : Env) (path : Text) : Bool :=
  junctionFreeSegs alnum env (parse alnum env path)

/-- where the statement puts the file of a call site: the given text (for the roller: the pattern
with the index filled in) expanded exactly ONCE -/
def specLocation (alnum : Char → Bool) (env : Env) (site : CallSite) (given : Text) : Text :=
  specExpand alnum env (site.submitted given)

end Log4rs.EnvExpand
