import Log4rsModel.Base.Str
import Log4rsModel.Base.Outcome
import Log4rsModel.Base.Bytes
/-
Model of `src/append/mod.rs::env_util::expand_env_vars` (C19), function by function, as the code is
(single-pass expansion, /repo 3840597):

    let outpath = path;  let path = outpath.clone();
    let mut expanded = String::new();  let mut copied = 0;
    for (match_start, _) in path.match_indices("$ENV{") {
        if match_start < copied { continue; }                       -- inside a replaced reference
        let env_name_start = match_start + 5;
        let (_, tail) = path.split_at(env_name_start);              -- panics off a char boundary
        first char: is_env_var_start, following: is_env_var_part*, then '}'   (else: next match)
        if let Ok(env_value) = std::env::var(&env_name) {
            let match_end = env_name_start + env_name.len() + 1;    -- UTF-8 length of the name
            expanded.push_str(&path[copied..match_start]);          -- panics off a char boundary
            expanded.push_str(&env_value);  copied = match_end;
        } }
    if copied == 0 { return outpath }
    expanded.push_str(&path[copied..]);  expanded

`expand` is this code. `expand_unfixed` is the historical code (before the fix of finding F7):
`outpath = outpath.replace(&path[match_start..match_end], &env_value)` — a replace-ALL on the
accumulating output; it is kept with its witness theorems.

Text is `List Char`; every offset the code computes is a *byte* offset, so offsets here are byte
offsets as well (`Char.utf8Size`), and `split_at` / `&path[a..b]` are partial (`none` = the Rust
panic "byte index is not a char boundary / out of range"). The model returns an `Outcome`, so that
"never panics" is a theorem about explicit bounds and not an artefact of totality.

`char::is_alphanumeric` is a Unicode table: the model is parametric in `alnum : Char → Bool`.
The environment is an association list `name ↦ value` (first entry wins; the harness installs
exactly these variables and removes every other one).

The process environment as the operating system holds it (`OsEnv`: byte strings, not necessarily
UTF-8) and `std::env::var` on it are modelled by `unicodeView`: a variable whose name or value is
not valid Unicode is invisible to `std::env::var(name)` (`Err(NotUnicode)` / never asked for), so
the code treats a reference to it as a reference to an unset variable.

The call sites (builders, configuration deserializers, `rotate()`, and the appenders over their
whole life, on a file system with directories) are modelled in EnvExpand/CallSites.lean.
-/
namespace Log4rs.EnvExpand
open Log4rs Log4rs.Str

abbrev Text := List Char
abbrev Env := List (Text × Text)

/-- `ENV_PREFIX` -/
def envPrefix : Text := ['$', 'E', 'N', 'V', '{']
/-- `ENV_PREFIX_LEN = ENV_PREFIX.len()` (bytes) -/
def ENV_PREFIX_LEN : Nat := 5
/-- `ENV_SUFFIX` -/
def envSuffix : Char := '}'
/-- `ENV_SUFFIX_LEN` -/
def ENV_SUFFIX_LEN : Nat := 1

/-- `is_env_var_start` -/
def isStart (alnum : Char → Bool) (c : Char) : Bool := alnum c || c == '_'
/-- `is_env_var_part` -/
def isPart (alnum : Char → Bool) (c : Char) : Bool := alnum c || c == '_' || c == '.'

/-- `char::is_alphanumeric` restricted to ASCII (the instance used in examples and, extended by a
finite table of classified non-ASCII samples, by the driver) -/
def asciiAlnum (c : Char) : Bool :=
  let n := c.toNat
  (48 ≤ n && n ≤ 57) || (65 ≤ n && n ≤ 90) || (97 ≤ n && n ≤ 122)

/-- `str::len` : length in UTF-8 bytes -/
def utf8Len : Text → Nat
  | [] => 0
  | c :: cs => c.utf8Size + utf8Len cs

/-- `str::split_at(mid)`: `none` is the panic (mid past the end or inside a character). -/
def splitAtByte : Nat → Text → Option (Text × Text)
  | 0, s => some ([], s)
  | _ + 1, [] => none
  | n + 1, c :: rest =>
    if c.utf8Size ≤ n + 1 then
      match splitAtByte (n + 1 - c.utf8Size) rest with
      | some (a, b) => some (c :: a, b)
      | none => none
    else none

/-- `&s[a..b]`: `none` is the panic (`a > b`, out of range, or not on char boundaries). -/
def sliceBytes (a b : Nat) (s : Text) : Option Text :=
  if a ≤ b then
    match splitAtByte a s with
    | some (_, t) =>
      match splitAtByte (b - a) t with
      | some (m, _) => some m
      | none => none
    | none => none
  else none

/-- `&s[a..]` -/
def sliceFrom (a : Nat) (s : Text) : Option Text :=
  match splitAtByte a s with
  | some (_, t) => some t
  | none => none

/-- `str::match_indices(pat)` for a non-empty pattern: byte offsets of the leftmost,
non-overlapping matches. `skip` counts the characters of the current match still to be passed. -/
def matchIndicesGo (pat : Text) : Nat → Nat → Text → List Nat
  | _, _, [] => []
  | skip + 1, off, c :: rest => matchIndicesGo pat skip (off + c.utf8Size) rest
  | 0, off, c :: rest =>
    if isPrefix pat (c :: rest) then off :: matchIndicesGo pat (pat.length - 1) (off + c.utf8Size) rest
    else matchIndicesGo pat 0 (off + c.utf8Size) rest

def matchIndices (pat s : Text) : List Nat := matchIndicesGo pat 0 0 s

/-- `str::replace(pat, val)` for a non-empty pattern: every leftmost, non-overlapping occurrence. -/
def replaceAllGo (pat val : Text) : Nat → Text → Text
  | _, [] => []
  | skip + 1, _ :: rest => replaceAllGo pat val skip rest
  | 0, c :: rest =>
    if isPrefix pat (c :: rest) then val ++ replaceAllGo pat val (pat.length - 1) rest
    else c :: replaceAllGo pat val 0 rest

/-- (the empty pattern never occurs here: the replaced literal always starts with `$ENV{`) -/
def replaceAll (pat val s : Text) : Text := if pat.isEmpty then s else replaceAllGo pat val 0 s

/-- the `loop { match cs.next() { part => push, '}' => break true, _ => break false } }` -/
def scanRest (alnum : Char → Bool) : Text → Option Text
  | [] => none
  | c :: cs =>
    if isPart alnum c then
      match scanRest alnum cs with
      | some n => some (c :: n)
      | none => none
    else if c = envSuffix then some []
    else none

/-- name of the properly terminated reference whose name starts at the head of `tail` -/
def scanRef (alnum : Char → Bool) : Text → Option Text
  | [] => none
  | c :: cs =>
    if isStart alnum c then
      match scanRest alnum cs with
      | some n => some (c :: n)
      | none => none
    else none

/-- `std::env::var(name).ok()` -/
def lookup (env : Env) (name : Text) : Option Text :=
  match env with
  | [] => none
  | (k, v) :: rest => if k = name then some v else lookup rest name

/-! ### The operating system's environment -/

/-- the environment block of the process: names and values are byte strings. `setenv` keeps names
unique; a block handed to `execve` need not be — `osVar` is first-match as `getenv` is, and the
theorems that go through `unicodeView` carry the `Nodup` hypothesis explicitly. -/
abbrev OsEnv := List (Bytes × Bytes)

/-- what `std::env::var` can see: `var(name)` returns `Ok(value)` iff a variable with the bytes of
`name` exists and its value is valid Unicode (`Err(NotUnicode)` otherwise, `Err(NotPresent)` if
absent); a variable whose name is not valid Unicode can never be asked for. -/
def unicodeView (os : OsEnv) : Env :=
  os.filterMap (fun e =>
    match decodeUtf8 e.1, decodeUtf8 e.2 with
    | some n, some v => some (n, v)
    | _, _ => none)

/-- `std::env::VarError` -/
inductive VarError where
  | notPresent | notUnicode
  deriving Repr, DecidableEq

/-- `std::env::var(name)` as libc answers it: `getenv` returns the FIRST entry of the block whose
name is `name`; its value must then be valid Unicode. (A name that is empty or contains `=` or NUL
is never found: `Err(NotPresent)`; `std::env::var` has no panicking path.) -/
def osVar (os : OsEnv) (name : Text) : Except VarError Text :=
  match os.find? (fun e => e.1 == utf8 name) with
  | some e =>
    match decodeUtf8 e.2 with
    | some v => .ok v
    | none => .error .notUnicode
  | none => .error .notPresent

/-- body of the `for` loop for one match, historical code (before the F7 fix) -/
def stepUnfixed (alnum : Char → Bool) (env : Env) (path out : Text) (matchStart : Nat) : Outcome Unit Text :=
  let nameStart := matchStart + ENV_PREFIX_LEN
  match splitAtByte nameStart path with
  | none => .panic "split_at: not a char boundary"
  | some (_, tail) =>
    match scanRef alnum tail with
    | none => .ok out
    | some name =>
      match lookup env name with
      | none => .ok out
      | some value =>
        let matchEnd := nameStart + utf8Len name + ENV_SUFFIX_LEN
        match sliceBytes matchStart matchEnd path with
        | none => .panic "slice: not a char boundary"
        | some lit => .ok (replaceAll lit value out)

/-- `expand_env_vars`, historical code: replace-all on the accumulating output, in order of
appearance (finding F7) -/
def expand_unfixed (alnum : Char → Bool) (env : Env) (path : Text) : Outcome Unit Text :=
  (matchIndices envPrefix path).foldl
    (fun acc m => match acc with
      | .ok out => stepUnfixed alnum env path out m
      | other => other)
    (.ok path)

/-! ### The code: the output is built in one pass while scanning -/

structure ScanState where
  out : Text
  /-- everything before this byte offset of `path` has been emitted -/
  copied : Nat
  deriving Repr, DecidableEq

def step (alnum : Char → Bool) (env : Env) (path : Text) (st : ScanState) (matchStart : Nat) :
    Outcome Unit ScanState :=
  if matchStart < st.copied then .ok st else
  let nameStart := matchStart + ENV_PREFIX_LEN
  match splitAtByte nameStart path with
  | none => .panic "split_at: not a char boundary"
  | some (_, tail) =>
    match scanRef alnum tail with
    | none => .ok st
    | some name =>
      match lookup env name with
      | none => .ok st
      | some value =>
        let matchEnd := nameStart + utf8Len name + ENV_SUFFIX_LEN
        match sliceBytes st.copied matchStart path with
        | none => .panic "slice: not a char boundary"
        | some head => .ok { out := st.out ++ head ++ value, copied := matchEnd }

/-- the `for` loop -/
def scan (alnum : Char → Bool) (env : Env) (path : Text) : Outcome Unit ScanState :=
  (matchIndices envPrefix path).foldl
    (fun acc m => match acc with
      | .ok st => step alnum env path st m
      | other => other)
    (.ok { out := [], copied := 0 })

/-- `expand_env_vars`: the loop, then `expanded.push_str(&path[copied..])` (for `copied = 0` the
early `return outpath` yields the same text) -/
def expand (alnum : Char → Bool) (env : Env) (path : Text) : Outcome Unit Text :=
  match scan alnum env path with
  | .ok st =>
    match sliceFrom st.copied path with
    | some t => .ok (st.out ++ t)
    | none => .panic "slice: not a char boundary"
  | .err e => .err e
  | .panic w => .panic w

/-! ### What the call sites submit -/

/-- the text `rotate()` expands for slot `i`: `pattern.replace("{}", &i.to_string())` — the index is
substituted *before* the expansion -/
def slotText (stored : Text) (i : Nat) : Text := replaceAll ['{', '}'] (decimal i) stored

/-- `expand_env_vars` in a process whose environment block is `os` -/
def expandOs (alnum : Char → Bool) (os : OsEnv) (path : Text) : Outcome Unit Text :=
  expand alnum (unicodeView os) path

end Log4rs.EnvExpand
