import Log4rsModel.EnvExpand.LemmasStr
/-
C19: the name scanner (shared by the current and the historical code), the explicit bounds of the
slices at an occurrence, and the byte-offset model of the HISTORICAL code `expand_unfixed` reduced to a fold over the occurrences of
`$ENV{` on characters (`expandChars`). Every `split_at` / slice the code takes is shown to succeed.
-/
namespace Log4rs.EnvExpand
open Log4rs Log4rs.Str

/-- a well-formed variable name: a start character followed by part characters -/
def WfName (alnum : Char → Bool) (n : Text) : Prop :=
  ∃ c r, n = c :: r ∧ isStart alnum c = true ∧ ∀ x ∈ r, isPart alnum x = true

theorem isPart_of_isStart {alnum : Char → Bool} {c : Char} (h : isStart alnum c = true) :
    isPart alnum c = true := by
  simp only [isStart, isPart, Bool.or_eq_true] at *
  rcases h with h | h
  · exact Or.inl (Or.inl h)
  · exact Or.inl (Or.inr h)

theorem WfName.all_part {alnum : Char → Bool} {n : Text} (h : WfName alnum n) :
    ∀ x ∈ n, isPart alnum x = true := by
  obtain ⟨c, r, rfl, hc, hr⟩ := h
  intro x hx
  rcases List.mem_cons.1 hx with rfl | hx
  · exact isPart_of_isStart hc
  · exact hr x hx

theorem WfName.ne_nil {alnum : Char → Bool} {n : Text} (h : WfName alnum n) : n ≠ [] := by
  obtain ⟨c, r, rfl, _, _⟩ := h; simp

theorem scanRest_some {alnum : Char → Bool} {s n : Text} (h : scanRest alnum s = some n) :
    (∃ r, s = n ++ envSuffix :: r) ∧ ∀ x ∈ n, isPart alnum x = true := by
  induction s generalizing n with
  | nil => simp [scanRest] at h
  | cons c cs ih =>
    rw [scanRest] at h
    split at h
    · rename_i hc
      cases hr : scanRest alnum cs with
      | none => simp [hr] at h
      | some m =>
        simp only [hr, Option.some.injEq] at h
        subst h
        obtain ⟨⟨r, hr1⟩, hr2⟩ := ih hr
        refine ⟨⟨r, by rw [hr1]; rfl⟩, ?_⟩
        intro x hx
        rcases List.mem_cons.1 hx with rfl | hx
        · exact hc
        · exact hr2 x hx
    · split at h
      · rename_i hc
        simp only [Option.some.injEq] at h
        subst h
        exact ⟨⟨cs, by simp [hc]⟩, by simp⟩
      · simp at h

theorem scanRef_some {alnum : Char → Bool} {t n : Text} (h : scanRef alnum t = some n) :
    WfName alnum n ∧ ∃ r, t = n ++ envSuffix :: r := by
  cases t with
  | nil => simp [scanRef] at h
  | cons c cs =>
    rw [scanRef] at h
    split at h
    · rename_i hc
      cases hr : scanRest alnum cs with
      | none => simp [hr] at h
      | some m =>
        simp only [hr, Option.some.injEq] at h
        subst h
        obtain ⟨⟨r, hr1⟩, hr2⟩ := scanRest_some hr
        exact ⟨⟨c, m, rfl, hc, hr2⟩, ⟨r, by rw [hr1]; rfl⟩⟩
    · simp at h

theorem scanRest_of_parts {alnum : Char → Bool} (n r : Text)
    (hn : ∀ x ∈ n, isPart alnum x = true) (hs : isPart alnum envSuffix = false) :
    scanRest alnum (n ++ envSuffix :: r) = some n := by
  induction n with
  | nil => simp [scanRest, hs]
  | cons c n ih =>
    have hc : isPart alnum c = true := hn c (by simp)
    have := ih (fun x hx => hn x (by simp [hx]))
    simp [scanRest, hc, this]

theorem scanRef_of_wf {alnum : Char → Bool} {n : Text} (r : Text) (hn : WfName alnum n)
    (hs : isPart alnum envSuffix = false) : scanRef alnum (n ++ envSuffix :: r) = some n := by
  obtain ⟨c, m, rfl, hc, hm⟩ := hn
  simp [scanRef, hc, scanRest_of_parts m r hm hs]

/-- the model's scanning loop and the specification's `takeWhile` formulation agree on every text -/
theorem scanRest_eq (alnum : Char → Bool) (s : Text) :
    scanRest alnum s =
      match s.dropWhile (isPart alnum) with
      | t :: _ => if t = envSuffix then some (s.takeWhile (isPart alnum)) else none
      | [] => none := by
  induction s with
  | nil => simp [scanRest]
  | cons c cs ih =>
    rw [scanRest]
    by_cases hc : isPart alnum c = true
    · simp only [hc, if_true, List.dropWhile_cons_of_pos, List.takeWhile_cons_of_pos, ih]
      cases cs.dropWhile (isPart alnum) with
      | nil => rfl
      | cons t _ => by_cases ht : t = envSuffix <;> simp [ht]
    · have hc' : isPart alnum c = false := by simpa using hc
      simp [hc']

theorem scanRef_eq_refAt (alnum : Char → Bool) (t : Text) : scanRef alnum t = refAt alnum t := by
  cases t with
  | nil => simp [scanRef, refAt]
  | cons c cs =>
    rw [scanRef, refAt]
    by_cases hs : isStart alnum c = true
    · have hp := isPart_of_isStart hs
      simp only [hs, if_true, scanRest_eq, List.takeWhile_cons_of_pos, hp, List.dropWhile_cons_of_pos]
      cases cs.dropWhile (isPart alnum) with
      | nil => rfl
      | cons t _ => by_cases ht : t = envSuffix <;> simp [ht, hs]
    · have hs' : isStart alnum c = false := by simpa using hs
      by_cases hp : isPart alnum c = true
      · simp only [hs', Bool.false_eq_true, if_false, List.takeWhile_cons_of_pos, hp,
          List.dropWhile_cons_of_pos]
        cases cs.dropWhile (isPart alnum) <;> simp [hs']
      · have hp' : isPart alnum c = false := by simpa using hp
        simp [hs', hp']

/-! ### the loop body on characters -/

/-- one iteration of the `for` loop (historical code `expand_unfixed`), `tail` = the text after this `$ENV{` -/
def stepChars (alnum : Char → Bool) (env : Env) (out tail : Text) : Text :=
  match scanRef alnum tail with
  | none => out
  | some name =>
    match lookup env name with
    | none => out
    | some value => replaceAll (refLit name) value out

/-- `expand_unfixed` without byte offsets: fold over the occurrences of `$ENV{` in order of appearance -/
def expandChars (alnum : Char → Bool) (env : Env) (path : Text) : Text :=
  (occs path).foldl (fun out o => stepChars alnum env out o.2) path

theorem utf8Len_refLit (n : Text) : utf8Len (refLit n) = 5 + utf8Len n + 1 := by
  simp only [refLit, utf8Len_append, utf8Len_envPrefix, utf8Len, envSuffix]
  have : ('}' : Char).utf8Size = 1 := by decide
  omega

/-- at an occurrence `path = p ++ "$ENV{" ++ tail` every slice of the loop body succeeds -/
theorem stepUnfixed_eq (alnum : Char → Bool) (env : Env) (p tail out : Text) :
    stepUnfixed alnum env (p ++ (envPrefix ++ tail)) out (utf8Len p) = .ok (stepChars alnum env out tail) := by
  have hsplit : splitAtByte (utf8Len p + ENV_PREFIX_LEN) (p ++ (envPrefix ++ tail)) =
      some (p ++ envPrefix, tail) := by
    have := splitAtByte_append (p ++ envPrefix) tail
    rw [utf8Len_append, utf8Len_envPrefix] at this
    simpa [ENV_PREFIX_LEN] using this
  unfold stepUnfixed stepChars
  simp only [hsplit]
  cases hs : scanRef alnum tail with
  | none => rfl
  | some name =>
    simp only
    cases hl : lookup env name with
    | none => rfl
    | some value =>
      simp only
      obtain ⟨_, r, hr⟩ := scanRef_some hs
      have hslice : sliceBytes (utf8Len p) (utf8Len p + ENV_PREFIX_LEN + utf8Len name + ENV_SUFFIX_LEN)
          (p ++ (envPrefix ++ tail)) = some (refLit name) := by
        have := sliceBytes_mid p (refLit name) r
        rw [utf8Len_refLit] at this
        have e : p ++ (envPrefix ++ tail) = p ++ (refLit name ++ r) := by
          rw [hr]; simp [refLit]
        rw [e]
        simpa [ENV_PREFIX_LEN, ENV_SUFFIX_LEN, Nat.add_assoc] using this
      simp only [hslice]

/-- explicit bounds of every slice taken at an occurrence `path = p ++ "$ENV{" ++ tail` -/
theorem occ_slices {alnum : Char → Bool} (p tail : Text) :
    let path := p ++ (envPrefix ++ tail)
    let m := utf8Len p
    IsCharBoundary path m ∧ IsCharBoundary path (m + ENV_PREFIX_LEN) ∧
    sliceFrom (m + ENV_PREFIX_LEN) path = some tail ∧
    ∀ name, scanRef alnum tail = some name →
      m + ENV_PREFIX_LEN + utf8Len name + ENV_SUFFIX_LEN ≤ utf8Len path ∧
      IsCharBoundary path (m + ENV_PREFIX_LEN + utf8Len name + ENV_SUFFIX_LEN) ∧
      sliceBytes m (m + ENV_PREFIX_LEN + utf8Len name + ENV_SUFFIX_LEN) path = some (refLit name) := by
  intro path m
  have h5 : utf8Len (p ++ envPrefix) = m + ENV_PREFIX_LEN := by
    rw [utf8Len_append, utf8Len_envPrefix]; rfl
  have hb2 : IsCharBoundary path (m + ENV_PREFIX_LEN) :=
    ⟨p ++ envPrefix, tail, by simp [path], h5⟩
  refine ⟨⟨p, envPrefix ++ tail, rfl, rfl⟩, hb2, ?_, ?_⟩
  · have := sliceFrom_append (p ++ envPrefix) tail
    rw [h5] at this
    simpa [path] using this
  · intro name hs
    obtain ⟨_, r, hr⟩ := scanRef_some hs
    have hpath : path = p ++ (refLit name ++ r) := by simp [path, hr, refLit]
    have he : m + ENV_PREFIX_LEN + utf8Len name + ENV_SUFFIX_LEN = m + utf8Len (refLit name) := by
      rw [utf8Len_refLit]; simp [ENV_PREFIX_LEN, ENV_SUFFIX_LEN]; omega
    have hb3 : IsCharBoundary path (m + utf8Len (refLit name)) :=
      ⟨p ++ refLit name, r, by rw [hpath]; simp, by rw [utf8Len_append]⟩
    rw [he]
    refine ⟨hb3.le, hb3, ?_⟩
    rw [hpath]
    exact sliceBytes_mid p (refLit name) r

theorem foldl_congr_mem {α β : Type} (f g : β → α → β) (l : List α) (b : β)
    (h : ∀ b, ∀ a ∈ l, f b a = g b a) : l.foldl f b = l.foldl g b := by
  induction l generalizing b with
  | nil => rfl
  | cons a l ih =>
    simp only [List.foldl_cons]
    rw [h b a (by simp)]
    exact ih _ (fun b a ha => h b a (by simp [ha]))

theorem foldl_ok {α : Type} (f : Text → α → Text) (l : List α) (b : Text) :
    l.foldl (fun (acc : Outcome Unit Text) a => match acc with
      | .ok out => .ok (f out a)
      | other => other) (.ok b) = .ok (l.foldl f b) := by
  induction l generalizing b with
  | nil => rfl
  | cons a l ih => simp only [List.foldl_cons]; exact ih _

/-- the byte-offset model never takes the panic branches and equals the character-level fold -/
theorem expand_unfixed_eq_chars (alnum : Char → Bool) (env : Env) (path : Text) :
    expand_unfixed alnum env path = .ok (expandChars alnum env path) := by
  unfold expand_unfixed expandChars
  rw [matchIndices_occs, List.foldl_map, ← foldl_ok]
  apply foldl_congr_mem
  intro acc o ho
  cases acc with
  | ok out =>
    have := occs_sound ho
    simp only
    conv => lhs; rw [this]
    exact stepUnfixed_eq alnum env o.1 o.2 out
  | err e => rfl
  | panic w => rfl

theorem foldl_const {α β : Type} (l : List α) (b : β) : l.foldl (fun out _ => out) b = b := by
  induction l with
  | nil => rfl
  | cons a l ih => simpa using ih

/-- a path without any well-formed reference to a set variable is returned unchanged -/
theorem expandChars_untouched (alnum : Char → Bool) (env : Env) (path : Text)
    (h : ∀ a t n, path = a ++ (envPrefix ++ t) → refAt alnum t = some n → lookup env n = none) :
    expandChars alnum env path = path := by
  unfold expandChars
  rw [foldl_congr_mem _ (fun out _ => out) _ _ ?_, foldl_const]
  intro out o ho
  have hpath := occs_sound ho
  unfold stepChars
  cases hs : scanRef alnum o.2 with
  | none => rfl
  | some n =>
    have := h o.1 o.2 n hpath (by rw [← scanRef_eq_refAt]; exact hs)
    simp [this]

theorem lookup_mem {env : Env} {n v : Text} (h : lookup env n = some v) : (n, v) ∈ env := by
  induction env with
  | nil => simp [lookup] at h
  | cons e env ih =>
    obtain ⟨k, w⟩ := e
    rw [lookup] at h
    split at h
    · rename_i hk
      simp only [Option.some.injEq] at h
      simp [hk, h]
    · simp [ih h]

end Log4rs.EnvExpand
