import Log4rsModel.EnvExpand.Spec
/-
String-level lemmas for C19: prefixes, `replaceAll`, UTF-8 byte offsets / `split_at` / slicing,
and `match_indices("$ENV{")` as the list of all occurrences.
-/
namespace Log4rs.EnvExpand
open Log4rs Log4rs.Str

/-! ### `isPrefix` -/

theorem isPrefix_iff (p s : Text) : isPrefix p s = true ↔ ∃ t, s = p ++ t := by
  induction p generalizing s with
  | nil => simp [isPrefix]
  | cons a p ih =>
    cases s with
    | nil => simp [isPrefix]
    | cons b s =>
      simp only [isPrefix, Bool.and_eq_true, decide_eq_true_eq, ih, List.cons_append, List.cons.injEq]
      constructor
      · rintro ⟨rfl, t, rfl⟩; exact ⟨t, rfl, rfl⟩
      · rintro ⟨t, rfl, rfl⟩; exact ⟨rfl, t, rfl⟩

theorem isPrefix_append (p t : Text) : isPrefix p (p ++ t) = true := (isPrefix_iff _ _).2 ⟨t, rfl⟩

theorem isPrefix_false_of_head_ne {a b : Char} (p s : Text) (h : a ≠ b) :
    isPrefix (a :: p) (b :: s) = false := by
  simp [isPrefix, h]

/-- a prefix of `x ++ y` either lies inside `x` or covers `x` and continues into `y` -/
theorem isPrefix_append_cases {p x y : Text} (h : isPrefix p (x ++ y) = true) :
    isPrefix p x = true ∨ ∃ q, q ≠ [] ∧ p = x ++ q ∧ isPrefix q y = true := by
  obtain ⟨t, ht⟩ := (isPrefix_iff _ _).1 h
  rcases List.append_eq_append_iff.1 ht with ⟨c, rfl, rfl⟩ | ⟨a, rfl, rfl⟩
  · by_cases hc : c = []
    · subst hc; left; simpa using isPrefix_append x []
    · exact Or.inr ⟨c, hc, rfl, isPrefix_append _ _⟩
  · exact Or.inl (isPrefix_append _ _)

/-! ### `replaceAll` -/

theorem replaceAllGo_skip (pat val : Text) (k : Nat) (s : Text) :
    replaceAllGo pat val k s = replaceAllGo pat val 0 (s.drop k) := by
  induction s generalizing k with
  | nil => cases k <;> simp [replaceAllGo]
  | cons c rest ih =>
    cases k with
    | zero => simp
    | succ k => simp [replaceAllGo, ih k]

theorem replaceAllGo_match (pat val t : Text) (hp : pat ≠ []) :
    replaceAllGo pat val 0 (pat ++ t) = val ++ replaceAllGo pat val 0 t := by
  cases pat with
  | nil => exact absurd rfl hp
  | cons a p =>
    have h : isPrefix (a :: p) (a :: (p ++ t)) = true := isPrefix_append (a :: p) t
    simp only [List.cons_append, replaceAllGo, h, if_true, List.length_cons, Nat.add_sub_cancel]
    rw [replaceAllGo_skip]
    simp

theorem replaceAllGo_nomatch (pat val : Text) (c : Char) (rest : Text)
    (h : isPrefix pat (c :: rest) = false) :
    replaceAllGo pat val 0 (c :: rest) = c :: replaceAllGo pat val 0 rest := by
  simp [replaceAllGo, h]

/-- a block in which no occurrence starts is copied -/
theorem replaceAllGo_block (pat val w x : Text)
    (h : ∀ a b, w = a ++ b → b ≠ [] → isPrefix pat (b ++ x) = false) :
    replaceAllGo pat val 0 (w ++ x) = w ++ replaceAllGo pat val 0 x := by
  induction w with
  | nil => simp
  | cons c w ih =>
    have h0 : isPrefix pat (c :: (w ++ x)) = false := h [] (c :: w) rfl (by simp)
    rw [List.cons_append, replaceAllGo_nomatch _ _ _ _ h0, ih]
    · rfl
    · intro a b hab hb
      exact h (c :: a) b (by simp [hab]) hb

theorem replaceAll_eq (pat val s : Text) (hp : pat ≠ []) :
    replaceAll pat val s = replaceAllGo pat val 0 s := by
  cases pat with
  | nil => exact absurd rfl hp
  | cons a p => simp [replaceAll]

/-- a pattern starting with `d` never matches inside a block free of `d` -/
theorem replaceAllGo_block_free (d : Char) (p val w x : Text) (hw : d ∉ w) :
    replaceAllGo (d :: p) val 0 (w ++ x) = w ++ replaceAllGo (d :: p) val 0 x := by
  apply replaceAllGo_block
  intro a b hab hb
  cases b with
  | nil => exact absurd rfl hb
  | cons c b =>
    have hc : c ∈ w := by rw [hab]; simp
    have : d ≠ c := fun e => hw (e ▸ hc)
    simp [isPrefix, this]

theorem replaceAllGo_free (d : Char) (p val w : Text) (hw : d ∉ w) :
    replaceAllGo (d :: p) val 0 w = w := by
  have := replaceAllGo_block_free d p val w [] hw
  simpa [replaceAllGo] using this

/-! ### UTF-8 byte offsets -/

theorem utf8Len_append (a b : Text) : utf8Len (a ++ b) = utf8Len a + utf8Len b := by
  induction a with
  | nil => simp [utf8Len]
  | cons c a ih => simp [utf8Len, ih, Nat.add_assoc]

theorem utf8Len_envPrefix : utf8Len envPrefix = 5 := by decide

theorem splitAtByte_zero (s : Text) : splitAtByte 0 s = some ([], s) := by
  cases s <;> rfl

theorem splitAtByte_cons (c : Char) (k : Nat) (b : Text) :
    splitAtByte (c.utf8Size + k) (c :: b) = (splitAtByte k b).map (fun q => (c :: q.1, q.2)) := by
  have hpos : 0 < c.utf8Size := Char.utf8Size_pos c
  obtain ⟨m, hm⟩ : ∃ m, c.utf8Size + k = m + 1 := ⟨c.utf8Size + k - 1, by omega⟩
  rw [hm, splitAtByte]
  have h1 : c.utf8Size ≤ m + 1 := by omega
  have h2 : m + 1 - c.utf8Size = k := by omega
  simp only [h1, h2, if_true]
  cases splitAtByte k b with
  | none => rfl
  | some q => rfl

/-- `split_at` at the end of a prefix `a`, plus `k` more bytes -/
theorem splitAtByte_add (a b : Text) (k : Nat) :
    splitAtByte (utf8Len a + k) (a ++ b) = (splitAtByte k b).map (fun q => (a ++ q.1, q.2)) := by
  induction a with
  | nil => simp [utf8Len]
  | cons c a ih =>
    rw [utf8Len, Nat.add_assoc, List.cons_append, splitAtByte_cons, ih]
    cases splitAtByte k b with
    | none => rfl
    | some p => rfl

theorem splitAtByte_append (a b : Text) : splitAtByte (utf8Len a) (a ++ b) = some (a, b) := by
  have := splitAtByte_add a b 0
  simpa [splitAtByte_zero] using this

theorem splitAtByte_sound {n : Nat} {s a b : Text} (h : splitAtByte n s = some (a, b)) :
    s = a ++ b ∧ utf8Len a = n := by
  induction s generalizing n a b with
  | nil =>
    cases n with
    | zero => simp [splitAtByte] at h; obtain ⟨rfl, rfl⟩ := h; simp [utf8Len]
    | succ n => simp [splitAtByte] at h
  | cons c rest ih =>
    cases n with
    | zero => simp [splitAtByte] at h; obtain ⟨rfl, rfl⟩ := h; simp [utf8Len]
    | succ n =>
      rw [splitAtByte] at h
      split at h
      · rename_i hle
        split at h
        · rename_i x y hxy
          simp only [Option.some.injEq, Prod.mk.injEq] at h
          obtain ⟨rfl, rfl⟩ := h
          obtain ⟨h1, h2⟩ := ih hxy
          refine ⟨by rw [h1]; rfl, ?_⟩
          simp only [utf8Len, h2]; omega
        · exact absurd h (by simp)
      · exact absurd h (by simp)

/-- byte offset `n` is within `s` and on a character boundary -/
def IsCharBoundary (s : Text) (n : Nat) : Prop := ∃ a b, s = a ++ b ∧ utf8Len a = n

theorem splitAtByte_isSome_iff (n : Nat) (s : Text) :
    (splitAtByte n s).isSome = true ↔ IsCharBoundary s n := by
  constructor
  · intro h
    cases hs : splitAtByte n s with
    | none => simp [hs] at h
    | some p => exact ⟨p.1, p.2, splitAtByte_sound hs⟩
  · rintro ⟨a, b, rfl, rfl⟩
    simp [splitAtByte_append]

theorem IsCharBoundary.le {s : Text} {n : Nat} (h : IsCharBoundary s n) : n ≤ utf8Len s := by
  obtain ⟨a, b, rfl, rfl⟩ := h
  rw [utf8Len_append]; omega

/-- the slice between two prefixes -/
theorem sliceBytes_mid (a m b : Text) :
    sliceBytes (utf8Len a) (utf8Len a + utf8Len m) (a ++ (m ++ b)) = some m := by
  simp [sliceBytes, splitAtByte_append]

theorem sliceFrom_append (a b : Text) : sliceFrom (utf8Len a) (a ++ b) = some b := by
  simp [sliceFrom, splitAtByte_append]

/-! ### occurrences of `$ENV{` -/

/-- every occurrence of `$ENV{` in `s`: (text before it, text after it) -/
def occs : Text → List (Text × Text)
  | [] => []
  | c :: rest =>
    (if isPrefix envPrefix (c :: rest) then [([], rest.drop 4)] else []) ++
      (occs rest).map (fun o => (c :: o.1, o.2))

theorem occs_sound {s : Text} {o : Text × Text} (h : o ∈ occs s) : s = o.1 ++ (envPrefix ++ o.2) := by
  induction s generalizing o with
  | nil => simp [occs] at h
  | cons c rest ih =>
    simp only [occs, List.mem_append, List.mem_map] at h
    rcases h with h | ⟨o', ho', rfl⟩
    · split at h
      · rename_i hp
        simp only [List.mem_singleton] at h
        subst h
        obtain ⟨t, ht⟩ := (isPrefix_iff _ _).1 hp
        simp only [envPrefix, List.cons_append, List.cons.injEq] at ht
        obtain ⟨rfl, rfl⟩ := ht
        simp [envPrefix]
      · simp at h
    · simp only [List.cons_append, List.cons.injEq, true_and]
      exact ih ho'

theorem occs_complete (a t : Text) : (a, t) ∈ occs (a ++ (envPrefix ++ t)) := by
  induction a with
  | nil =>
    simp only [List.nil_append]
    show _ ∈ occs ('$' :: ('E' :: 'N' :: 'V' :: '{' :: t))
    rw [occs]
    have : isPrefix envPrefix ('$' :: 'E' :: 'N' :: 'V' :: '{' :: t) = true := isPrefix_append envPrefix t
    simp [this]
  | cons c a ih =>
    simp only [List.cons_append, occs, List.mem_append, List.mem_map]
    exact Or.inr ⟨(a, t), ih, rfl⟩

/-- after a match the four characters `ENV{` cannot start another one -/
theorem occs_body (t : Text) :
    occs ('E' :: 'N' :: 'V' :: '{' :: t) = (occs t).map (fun o => ('E' :: 'N' :: 'V' :: '{' :: o.1, o.2)) := by
  simp [occs, envPrefix, isPrefix, List.map_map, Function.comp_def]

theorem matchIndicesGo_occs (n : Nat) :
    ∀ (s p : Text), s.length ≤ n →
      matchIndicesGo envPrefix 0 (utf8Len p) s = (occs s).map (fun o => utf8Len (p ++ o.1)) := by
  induction n with
  | zero =>
    intro s p hs
    have : s = [] := List.eq_nil_of_length_eq_zero (by omega)
    subst this; simp [matchIndicesGo, occs]
  | succ n ih =>
    intro s p hs
    simp only [envPrefix] at ih
    cases s with
    | nil => simp [matchIndicesGo, occs]
    | cons c rest =>
      by_cases hp : isPrefix envPrefix (c :: rest) = true
      · obtain ⟨t, ht⟩ := (isPrefix_iff _ _).1 hp
        simp only [envPrefix, List.cons_append, List.cons.injEq, List.nil_append] at ht
        obtain ⟨rfl, rfl⟩ := ht
        have hlen : t.length ≤ n := by simp at hs; omega
        have e1 : ('$' : Char).utf8Size = 1 := by decide
        have e2 : ('E' : Char).utf8Size = 1 := by decide
        have e3 : ('N' : Char).utf8Size = 1 := by decide
        have e4 : ('V' : Char).utf8Size = 1 := by decide
        have e5 : ('{' : Char).utf8Size = 1 := by decide
        have hoff : utf8Len p + 1 + 1 + 1 + 1 + 1 = utf8Len (p ++ ['$', 'E', 'N', 'V', '{']) := by
          rw [utf8Len_append]; simp [utf8Len, e1, e2, e3, e4, e5]
        rw [matchIndicesGo]
        simp only [hp, if_true]
        simp only [envPrefix, List.length_cons, List.length_nil, Nat.zero_add, Nat.add_sub_cancel, e1]
        simp only [matchIndicesGo, e2, e3, e4, e5]
        rw [hoff, ih t _ hlen]
        rw [occs]
        simp only [hp, if_true, occs_body, List.map_map, List.map_cons,
          List.append_nil, List.singleton_append, List.cons.injEq]
        refine ⟨by simp, ?_⟩
        apply List.map_congr_left
        intro o _
        simp [Function.comp_def]
      · have hp' : isPrefix envPrefix (c :: rest) = false := by simpa using hp
        have hlen : rest.length ≤ n := by simp at hs; omega
        have hoff : utf8Len p + c.utf8Size = utf8Len (p ++ [c]) := by
          rw [utf8Len_append]; simp [utf8Len]
        rw [matchIndicesGo]
        simp only [hp', Bool.false_eq_true, if_false]
        rw [hoff]
        refine (ih rest _ hlen).trans ?_
        rw [occs]
        simp only [hp', Bool.false_eq_true, if_false, List.nil_append, List.map_map]
        apply List.map_congr_left
        intro o _
        simp

theorem matchIndices_occs (s : Text) :
    matchIndices envPrefix s = (occs s).map (fun o => utf8Len o.1) := by
  have := matchIndicesGo_occs s.length s [] (Nat.le_refl _)
  simpa [matchIndices, utf8Len] using this

end Log4rs.EnvExpand
