import Log4rsModel.EnvExpand.LemmasSpec
/-
C19: positional (per-occurrence) laws of the single pass, stated without the decomposition
`parse`, and uniqueness of that decomposition.

  * a `$` is always a cut point:      spec (a ++ '$' :: y) = spec a ++ spec ('$' :: y)
  * text free of `$` is copied:       spec (t ++ r)        = t ++ spec r
  * at an occurrence of `$ENV{`:      replaced by the value if the reference is well formed and set,
                                      else the five characters are kept and scanning resumes after them
-/
namespace Log4rs.EnvExpand
open Log4rs Log4rs.Str

theorem specGo_skip (alnum : Char → Bool) (env : Env) (s : Text) :
    ∀ k, specGo alnum env k s = specGo alnum env 0 (s.drop k) := by
  induction s with
  | nil => intro k; cases k <;> simp [specGo]
  | cons c rest ih =>
    intro k
    cases k with
    | zero => simp
    | succ k => simp [specGo, ih k]

theorem parseGo_skip (alnum : Char → Bool) (env : Env) (s : Text) :
    ∀ k, parseGo alnum env k s = parseGo alnum env 0 (s.drop k) := by
  induction s with
  | nil => intro k; cases k <;> simp [parseGo]
  | cons c rest ih =>
    intro k
    cases k with
    | zero => simp
    | succ k => simp [parseGo, ih k]

/-- one step of the pass at a substituted reference -/
theorem specGo_at_ref {alnum : Char → Bool} {env : Env} {n v r : Text}
    (h : substAt alnum env (refLit n ++ r) = some (n, v)) :
    specGo alnum env 0 (refLit n ++ r) = v ++ specGo alnum env 0 r := by
  have hcons : refLit n ++ r = '$' :: ((refLit n).tail ++ r) := by simp [refLit_eq]
  rw [hcons] at h ⊢
  rw [specGo]
  simp only [h]
  rw [specGo_skip]
  have hlen : (refLit n).length - 1 = (refLit n).tail.length := by simp
  rw [hlen, List.drop_left]

theorem parseGo_at_ref {alnum : Char → Bool} {env : Env} {n v r : Text}
    (h : substAt alnum env (refLit n ++ r) = some (n, v)) :
    parseGo alnum env 0 (refLit n ++ r) = Seg.sub n v :: parseGo alnum env 0 r := by
  have hcons : refLit n ++ r = '$' :: ((refLit n).tail ++ r) := by simp [refLit_eq]
  rw [hcons] at h ⊢
  rw [parseGo]
  simp only [h]
  rw [parseGo_skip]
  have hlen : (refLit n).length - 1 = (refLit n).tail.length := by simp
  rw [hlen, List.drop_left]

/-! ### `$` is a cut point -/

theorem isStart_dollar {alnum : Char → Bool} (hd : alnum '$' = false) : isStart alnum '$' = false := by
  simp [isStart, hd]

theorem scanRest_dollar {alnum : Char → Bool} (hd : alnum '$' = false) (x y : Text) :
    scanRest alnum (x ++ '$' :: y) = scanRest alnum x := by
  induction x with
  | nil => simp [scanRest, isPart_dollar hd, envSuffix]
  | cons c x ih => simp only [List.cons_append, scanRest, ih]

theorem scanRef_dollar {alnum : Char → Bool} (hd : alnum '$' = false) (x y : Text) :
    scanRef alnum (x ++ '$' :: y) = scanRef alnum x := by
  cases x with
  | nil => simp [scanRef, isStart_dollar hd]
  | cons c x => simp only [List.cons_append, scanRef, scanRest_dollar hd]

theorem not_occ_before_dollar {a y : Text} (ha : a ≠ []) (h : isPrefix envPrefix a = false) :
    isPrefix envPrefix (a ++ '$' :: y) = false := by
  cases hp : isPrefix envPrefix (a ++ '$' :: y) with
  | false => rfl
  | true =>
    exfalso
    obtain ⟨z, hz⟩ := (isPrefix_iff _ _).1 hp
    rcases List.append_eq_append_iff.1 hz with ⟨c', hc', _⟩ | ⟨a'', ha'', hz'⟩
    · -- envPrefix = a ++ c', c' ++ z = '$' :: y … wait: a ++ '$'::y = envPrefix ++ z
      -- first alternative: envPrefix = a ++ c'
      cases c' with
      | nil =>
        simp only [List.append_nil] at hc'
        have := isPrefix_append envPrefix []
        simp only [List.append_nil] at this
        rw [← hc', this] at h
        exact absurd h (by simp)
      | cons e c' =>
        rename_i hrest
        simp only [List.cons_append, List.cons.injEq] at hrest
        obtain ⟨he, _⟩ := hrest
        subst he
        cases a with
        | nil => exact ha rfl
        | cons f a =>
          simp only [envPrefix, List.cons_append, List.cons.injEq] at hc'
          have : '$' ∈ ['E', 'N', 'V', '{'] := by rw [hc'.2]; simp
          exact absurd this (by decide)
    · -- a = envPrefix ++ a''
      rw [ha'', isPrefix_append] at h
      exact absurd h (by simp)

theorem substAt_dollar {alnum : Char → Bool} (hd : alnum '$' = false) (env : Env) {a : Text} (y : Text)
    (ha : a ≠ []) : substAt alnum env (a ++ '$' :: y) = substAt alnum env a := by
  by_cases hp : isPrefix envPrefix a = true
  · obtain ⟨t, rfl⟩ := (isPrefix_iff _ _).1 hp
    rw [List.append_assoc, substAt_of_occ, substAt_of_occ, scanRef_dollar hd]
  · have hp' : isPrefix envPrefix a = false := by simpa using hp
    rw [substAt_of_not_occ _ _ _ hp', substAt_of_not_occ _ _ _ (not_occ_before_dollar ha hp')]

/-- the pass never looks across a `$`: it is a cut point of the expansion -/
theorem specGo_cut_dollar {alnum : Char → Bool} (hd : alnum '$' = false) (env : Env) (y : Text) :
    ∀ (n : Nat) (a : Text), a.length ≤ n →
      specGo alnum env 0 (a ++ '$' :: y) = specGo alnum env 0 a ++ specGo alnum env 0 ('$' :: y) := by
  intro n
  induction n with
  | zero =>
    intro a ha
    have : a = [] := List.eq_nil_of_length_eq_zero (by omega)
    subst this; simp [specGo]
  | succ n ih =>
    intro a ha
    cases a with
    | nil => simp [specGo]
    | cons c rest =>
      have hsub := substAt_dollar hd env y (a := c :: rest) (by simp)
      cases hs : substAt alnum env (c :: rest) with
      | none =>
        rw [hs] at hsub
        have hlen : rest.length ≤ n := by simp at ha; omega
        have hsub' : substAt alnum env (c :: (rest ++ '$' :: y)) = none := hsub
        rw [List.cons_append, specGo, specGo]
        simp only [hsub', hs]
        rw [ih rest hlen]; rfl
      | some p =>
        obtain ⟨m, w⟩ := p
        rw [hs] at hsub
        obtain ⟨⟨r', hr'⟩, _, _⟩ := substAt_some_lit hs
        have hlen : r'.length ≤ n := by
          have := congrArg List.length hr'
          simp [refLit, envPrefix] at this ha
          omega
        rw [hr'] at hs hsub ⊢
        rw [List.append_assoc] at hsub ⊢
        rw [specGo_at_ref hsub, specGo_at_ref hs, ih r' hlen, List.append_assoc]

theorem specExpand_cut_dollar {alnum : Char → Bool} (hd : alnum '$' = false) (env : Env) (a y : Text) :
    specExpand alnum env (a ++ '$' :: y) = specExpand alnum env a ++ specExpand alnum env ('$' :: y) :=
  specGo_cut_dollar hd env y a.length a (Nat.le_refl _)

/-- text free of `$` is copied -/
theorem specExpand_no_dollar_prefix (alnum : Char → Bool) (env : Env) (t r : Text) (ht : '$' ∉ t) :
    specExpand alnum env (t ++ r) = t ++ specExpand alnum env r := by
  induction t with
  | nil => rfl
  | cons c t ih =>
    have hc : '$' ≠ c := fun e => ht (by rw [e]; simp)
    have hocc : isPrefix envPrefix (c :: (t ++ r)) = false := by
      simp [envPrefix, isPrefix, hc]
    have := ih (fun hm => ht (by simp [hm]))
    simp only [specExpand] at this ⊢
    rw [List.cons_append, specGo]
    simp only [substAt_of_not_occ _ _ _ hocc, this, List.cons_append]

/-- an occurrence of `$ENV{` that is not a well-formed reference to a set variable: the five
characters are kept and the pass resumes right after them -/
theorem specExpand_occ_kept (alnum : Char → Bool) (env : Env) (t : Text)
    (h : substAt alnum env (envPrefix ++ t) = none) :
    specExpand alnum env (envPrefix ++ t) = envPrefix ++ specExpand alnum env t := by
  have h1 : specExpand alnum env (envPrefix ++ t) = '$' :: specExpand alnum env (['E', 'N', 'V', '{'] ++ t) := by
    simp only [specExpand]
    show specGo alnum env 0 ('$' :: ('E' :: 'N' :: 'V' :: '{' :: t)) = _
    rw [specGo]
    have h' : substAt alnum env ('$' :: 'E' :: 'N' :: 'V' :: '{' :: t) = none := h
    simp only [h']
    rfl
  rw [h1, specExpand_no_dollar_prefix alnum env _ t (by decide)]
  rfl

/-! ### uniqueness of the decomposition -/

theorem parse_unique {alnum : Char → Bool} {env : Env} (hc : alnum '}' = false) :
    ∀ segs : List Seg, Complete alnum env segs → parse alnum env (origRender segs) = segs := by
  intro segs
  induction segs with
  | nil => intro _; rfl
  | cons s r ih =>
    intro hcomp
    cases s with
    | chr c =>
      obtain ⟨h1, h2⟩ := hcomp
      simp only [parse, origRender] at ih ⊢
      rw [parseGo]
      simp only [h1]
      rw [ih h2]
    | sub n v =>
      obtain ⟨hw, hl, h2⟩ := hcomp
      have hsub : substAt alnum env (refLit n ++ origRender r) = some (n, v) := by
        have : refLit n ++ origRender r = envPrefix ++ (n ++ envSuffix :: origRender r) := by simp [refLit]
        rw [this, substAt_of_occ, scanRef_of_wf _ hw (isPart_suffix hc)]
        simp [hl]
      simp only [parse, origRender] at ih ⊢
      rw [parseGo_at_ref hsub, ih h2]

end Log4rs.EnvExpand
