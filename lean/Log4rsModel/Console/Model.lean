import Log4rsModel.Base.Outcome
import Log4rsModel.Base.Style
/-
Executable model of the console path of log4rs (unix), function by function, as the code *is*:

  encode/writer/console.rs   COLOR_MODE (env → ColorMode), imp::Writer::stdout/stderr
  append/console.rs          Writer::{Tty,Raw}, is_tty, ConsoleAppenderBuilder::build (do_write),
                             ConsoleAppender::append
  encode/writer/ansi.rs      AnsiWriter::set_style (fixed byte buffer, explicit indices)
  encode/writer/simple.rs    SimpleWriter (set_style is the trait's default no-op)
  encode/pattern/mod.rs      FormattedChunk::Highlight (style per level, chunks, reset)

Two parameters keep the two defects that were found with this model (and repaired in /repo by
2b701f0 and 1bc24e0) expressible; their values are the CURRENT code:
  `bufLen`             length of the stack buffer in `AnsiWriter::set_style`   (13; before the fix: 12)
  `ttyOnlyUsesIsatty`  `do_write` decided from an isatty test of the target stream (true; before the
                       fix `false`: decided from "a colour ConsoleWriter was obtained")
Every function that depends on one of them also exists with it as an explicit argument
(`setStyleN`, `doWriteWith`, `appendWith`, …); the `Hist_C18_*` theorems speak about the old values.
unix only: on other platforms `target_is_tty` still is `writer.is_tty()` (append/console.rs).
Bytes are `Nat`s (`List Nat`), as everywhere in this project.
-/
namespace Log4rs.Console

/-! ### parameters (values = current code) -/

/-- `let mut buf = [0; 13];` in `AnsiWriter::set_style` -/
def bufLen : Nat := 13

/-- `true`: `do_write = target_is_tty(target) || !tty_only` (isatty of the target's descriptor).
`false` (the code before 1bc24e0): `do_write = writer.is_tty() || !tty_only`, where `is_tty` means
"`Writer::Tty`", i.e. a colour `ConsoleWriter` was obtained. -/
def ttyOnlyUsesIsatty : Bool := true

/-! ### environment → colour mode (`static COLOR_MODE`) -/

/-- what the code can distinguish about one environment variable: absent, the string `0`, any
other valid-Unicode string (`1`, the empty string, `00`, `false`, … — the harness drives several),
and a value that is not valid Unicode (`env::var` answers `Err(NotUnicode)`, which `unwrap_or`
treats like an absent variable). The property quantifies over `unset`, `zero`, `one` only. -/
inductive EnvVal where
  | unset | zero | one | nonUnicode
  deriving Repr, DecidableEq

/-- `std::env::var(NAME).map(|var| var != "0").unwrap_or(dflt)` -/
def EnvVal.test (v : EnvVal) (dflt : Bool) : Bool :=
  match v with
  | .unset => dflt
  | .zero => false
  | .one => true
  | .nonUnicode => dflt

structure Env where
  noColor : EnvVal := .unset
  clicolor : EnvVal := .unset
  clicolorForce : EnvVal := .unset
  deriving Repr, DecidableEq

inductive ColorMode where
  | auto | always | never
  deriving Repr, DecidableEq

def colorMode (e : Env) : ColorMode :=
  let noColor := e.noColor.test false
  let clicolorForce := e.clicolorForce.test false
  if noColor then .never
  else if clicolorForce then .always
  else
    let clicolor := e.clicolor.test true
    if clicolor then .auto else .never

/-! ### writer choice and `do_write` -/

inductive Target where
  | stdout | stderr
  deriving Repr, DecidableEq

/-- `append::console::Writer` -/
inductive WriterKind where
  | tty   -- `Writer::Tty(ConsoleWriter)`: an `AnsiWriter` over the stream
  | raw   -- `Writer::Raw(StdWriter)`, locked as a `SimpleWriter`
  deriving Repr, DecidableEq

/-- `imp::Writer::stdout()/stderr()` (unix): is a `ConsoleWriter` obtained? `isatty` is the
result of `libc::isatty` on the file descriptor *of that stream*. -/
def consoleWriterObtained (m : ColorMode) (isatty : Bool) : Bool :=
  match m with
  | .auto => isatty
  | .always => true
  | .never => false

def writerKind (m : ColorMode) (isatty : Bool) : WriterKind :=
  if consoleWriterObtained m isatty then .tty else .raw

/-- `Writer::is_tty` -/
def WriterKind.isTty : WriterKind → Bool
  | .tty => true
  | .raw => false

/-- `do_write` of `ConsoleAppenderBuilder::build`, with the repair flag explicit -/
def doWriteWith (usesIsatty : Bool) (kind : WriterKind) (isatty ttyOnly : Bool) : Bool :=
  if usesIsatty then isatty || !ttyOnly else kind.isTty || !ttyOnly

def doWrite (kind : WriterKind) (isatty ttyOnly : Bool) : Bool :=
  doWriteWith ttyOnlyUsesIsatty kind isatty ttyOnly

/-! ### `AnsiWriter::set_style` -/

abbrev Bytes := List Nat

def obind {ε α β} (x : Outcome ε α) (f : α → Outcome ε β) : Outcome ε β :=
  match x with
  | .ok a => f a
  | .err e => .err e
  | .panic w => .panic w

/-- `buf[i] = v` on a fixed-size array: a bounds-checked store -/
def put (buf : Bytes) (i v : Nat) : Outcome Unit Bytes :=
  if i < buf.length then .ok (buf.set i v) else .panic "index out of bounds"

/-- `&buf[..=idx]` -/
def sliceToIncl (buf : Bytes) (idx : Nat) : Outcome Unit Bytes :=
  if idx < buf.length then .ok (buf.take (idx + 1)) else .panic "range end index out of range"

/-- `color_byte`: `b'0' + discriminant` -/
def colorByte (c : Nat) : Nat := 48 + c

def ESC : Nat := 27

/-- `AnsiWriter::set_style` with a buffer of `n` bytes; the result is what is handed to
`write_all`. Statement order and index arithmetic follow the source line by line. -/
def setStyleN (n : Nat) (s : Style) : Outcome Unit Bytes :=
  let buf : Bytes := List.replicate n 0
  obind (put buf 0 ESC) fun buf =>
  obind (put buf 1 91) fun buf =>            -- '['
  obind (put buf 2 48) fun buf =>            -- '0'
  let idx := 3
  -- if let Some(text) = style.text
  obind (match s.text with
    | some c =>
      obind (put buf idx 59) fun buf =>                 -- ';'
      obind (put buf (idx + 1) 51) fun buf =>           -- '3'
      obind (put buf (idx + 2) (colorByte c)) fun buf =>
      .ok (buf, idx + 3)
    | none => .ok (buf, idx)) fun (buf, idx) =>
  -- if let Some(background) = style.background
  obind (match s.background with
    | some c =>
      obind (put buf idx 59) fun buf =>
      obind (put buf (idx + 1) 52) fun buf =>           -- '4'
      obind (put buf (idx + 2) (colorByte c)) fun buf =>
      .ok (buf, idx + 3)
    | none => .ok (buf, idx)) fun (buf, idx) =>
  -- if let Some(intense) = style.intense
  obind (match s.intense with
    | some true =>
      obind (put buf idx 59) fun buf =>
      obind (put buf (idx + 1) 49) fun buf =>           -- '1'
      .ok (buf, idx + 2)
    | some false =>
      obind (put buf idx 59) fun buf =>
      obind (put buf (idx + 1) 50) fun buf =>           -- '2'
      obind (put buf (idx + 2) 50) fun buf =>           -- '2'
      .ok (buf, idx + 3)
    | none => .ok (buf, idx)) fun (buf, idx) =>
  obind (put buf idx 109) fun buf =>                    -- 'm'
  sliceToIncl buf idx

def setStyle (s : Style) : Outcome Unit Bytes := setStyleN bufLen s

/-- `encode::Write::set_style` of the locked appender writer: the `AnsiWriter` for `Tty`, the
default no-op of `SimpleWriter` for `Raw` -/
def writerSetStyleN (n : Nat) (kind : WriterKind) (s : Style) : Outcome Unit Bytes :=
  match kind with
  | .tty => setStyleN n s
  | .raw => .ok []

/-! ### `FormattedChunk::Highlight` over arbitrarily nested chunk lists -/

/-- A list of pattern chunks as far as this property cares: literal output (`text`, standing for
any chunk that only writes bytes) and `{h( … )}` groups, nested to any depth. A plain (non-nested)
inductive: `text bs rest` / `highlight inner rest` are "cons" cells. -/
inductive Chunks where
  | nil
  | text (bs : Bytes) (rest : Chunks)
  | highlight (inner : Chunks) (rest : Chunks)
  deriving Repr, DecidableEq

/-- `for chunk in chunks { chunk.encode(w, record)? }` for a record of level `level`
(1=Error 2=Warn 3=Info 4=Debug 5=Trace) on a writer of kind `kind`. -/
def encodeChunksN (n : Nat) (kind : WriterKind) (level : Nat) : Chunks → Outcome Unit Bytes
  | .nil => .ok []
  | .text bs rest =>
    obind (encodeChunksN n kind level rest) fun r => .ok (bs ++ r)
  | .highlight inner rest =>
    -- match record.level() { Error => set_style(red, intense) … _ => {} }
    obind (match highlightStyle level with
      | some st => writerSetStyleN n kind st
      | none => .ok []) fun pre =>
    obind (encodeChunksN n kind level inner) fun body =>
    -- match record.level() { Error | Warn | Info | Trace => set_style(&Style::new()) … }
    obind (match highlightStyle level with
      | some _ => writerSetStyleN n kind Style.plain
      | none => .ok []) fun post =>
    obind (encodeChunksN n kind level rest) fun r =>
    .ok (pre ++ body ++ post ++ r)

def encodeChunks (kind : WriterKind) (level : Nat) (cs : Chunks) : Outcome Unit Bytes :=
  encodeChunksN bufLen kind level cs

/-! ### the appender: build + append -/

structure Setup where
  env : Env
  /-- `isatty(STDOUT_FILENO) == 1`, `isatty(STDERR_FILENO) == 1` -/
  ttyOut : Bool
  ttyErr : Bool
  target : Target
  ttyOnly : Bool
  deriving Repr, DecidableEq

def Setup.targetIsatty (s : Setup) : Bool :=
  match s.target with
  | .stdout => s.ttyOut
  | .stderr => s.ttyErr

/-- bytes that reached stdout and stderr -/
structure Streams where
  out : Bytes := []
  err : Bytes := []
  deriving Repr, DecidableEq

def Streams.on (t : Target) (bs : Bytes) : Streams :=
  match t with
  | .stdout => { out := bs }
  | .stderr => { err := bs }

/-- the appender's encoder, abstractly: the bytes it writes for a record of the given level into a
writer of the given kind (the pattern is fixed per appender) -/
abbrev Enc := WriterKind → Nat → Outcome Unit Bytes

/-- `ConsoleAppenderBuilder::build` followed by one `append` of a record of level `level` -/
def appendEnc (usesIsatty : Bool) (s : Setup) (enc : Enc) (level : Nat) : Outcome Unit Streams :=
  let kind := writerKind (colorMode s.env) s.targetIsatty
  if doWriteWith usesIsatty kind s.targetIsatty s.ttyOnly then
    obind (enc kind level) fun bs => .ok (Streams.on s.target bs)
  else .ok {}

/-- several records, one after the other -/
def appendAllEnc (usesIsatty : Bool) (s : Setup) (enc : Enc) : List Nat → Outcome Unit Streams
  | [] => .ok {}
  | l :: ls =>
    obind (appendEnc usesIsatty s enc l) fun a =>
    obind (appendAllEnc usesIsatty s enc ls) fun b =>
    .ok { out := a.out ++ b.out, err := a.err ++ b.err }

/-- the encoder of a pattern without width parameters (`cs l` = the pattern, with `{l}`/`{m}`
already resolved for level `l`) -/
def chunksEnc (n : Nat) (cs : Nat → Chunks) : Enc := fun kind l => encodeChunksN n kind l (cs l)

def appendWith (n : Nat) (usesIsatty : Bool) (s : Setup) (level : Nat) (cs : Chunks) :
    Outcome Unit Streams :=
  appendEnc usesIsatty s (fun kind l => encodeChunksN n kind l cs) level

def append (s : Setup) (level : Nat) (cs : Chunks) : Outcome Unit Streams :=
  appendWith bufLen ttyOnlyUsesIsatty s level cs

def appendAllWith (n : Nat) (usesIsatty : Bool) (s : Setup) (cs : Nat → Chunks) (levels : List Nat) :
    Outcome Unit Streams :=
  appendAllEnc usesIsatty s (chunksEnc n cs) levels

def appendAll (s : Setup) (cs : Nat → Chunks) (levels : List Nat) : Outcome Unit Streams :=
  appendAllWith bufLen ttyOnlyUsesIsatty s cs levels

/-! ### several appenders in one process (a PLAN)

What is process-wide in the code: the environment, the two file descriptors, and
`static COLOR_MODE: Lazy<ColorMode>` (initialised from the environment by whoever dereferences it
first, never re-read). What is per appender: the builder's two fields and the three values `build`
computes. The model keeps the lazy cell explicit, the builder's setter calls explicit, and lets the
environment differ from build to build (`buildAllEnvs`), so that both "an appender depends on
nothing but its own target's terminal status, the environment and its own tty_only flag — as long
as the environment does not change after the first console writer" (`C18_appenders_independent`)
and "a later change of the environment is ignored" (`C18_color_mode_read_once`) are theorems. -/

/-- in which order the builder's setters are called / whether the config deserializer calls them -/
inductive CallOrder where
  | targetThenTtyOnly   -- `.target(t).tty_only(b)`
  | ttyOnlyThenTarget   -- `.tty_only(b).target(t)`
  | viaConfig           -- `ConsoleAppenderDeserializer`, both keys present: `target`, then `tty_only`
  | viaConfigOmitDefaults  -- the same, a key is left out when its value is the default (stdout / false)
  deriving Repr, DecidableEq

structure PlanItem where
  target : Target
  ttyOnly : Bool
  order : CallOrder
  deriving Repr, DecidableEq

/-- `ConsoleAppenderBuilder` (the encoder field is the pattern, fixed per run);
defaults of `ConsoleAppender::builder()` -/
structure Builder where
  target : Target := .stdout
  ttyOnly : Bool := false
  deriving Repr, DecidableEq

/-- `fn target(mut self, target)`: stores, nothing else -/
def Builder.setTarget (b : Builder) (t : Target) : Builder := { b with target := t }

/-- `fn tty_only(mut self, tty_only)`: stores, nothing else -/
def Builder.setTtyOnly (b : Builder) (x : Bool) : Builder := { b with ttyOnly := x }

/-- `ConsoleAppenderDeserializer::deserialize`: `if let Some(target)`, `if let Some(tty_only)` -/
def Builder.fromConfig (target : Option Target) (ttyOnly : Option Bool) : Builder :=
  let b : Builder := {}
  let b := match target with
    | some t => b.setTarget t
    | none => b
  match ttyOnly with
  | some x => b.setTtyOnly x
  | none => b

/-- the setter calls an item stands for, starting from `ConsoleAppender::builder()` -/
def builderOf (it : PlanItem) : Builder :=
  match it.order with
  | .targetThenTtyOnly => (({} : Builder).setTarget it.target).setTtyOnly it.ttyOnly
  | .ttyOnlyThenTarget => (({} : Builder).setTtyOnly it.ttyOnly).setTarget it.target
  | .viaConfig => Builder.fromConfig (some it.target) (some it.ttyOnly)
  | .viaConfigOmitDefaults =>
    Builder.fromConfig (if it.target = .stdout then none else some it.target)
      (if it.ttyOnly then some true else none)

/-- process-wide facts -/
structure Global where
  env : Env
  ttyOut : Bool
  ttyErr : Bool
  deriving Repr, DecidableEq

def Global.isatty (g : Global) : Target → Bool
  | .stdout => g.ttyOut
  | .stderr => g.ttyErr

/-- process-wide mutable state: the `Lazy` cell of `COLOR_MODE` -/
structure Proc where
  colorCell : Option ColorMode := none
  deriving Repr, DecidableEq

/-- `*COLOR_MODE` with the environment as it is at this moment -/
def Proc.derefColorMode (p : Proc) (env : Env) : ColorMode × Proc :=
  match p.colorCell with
  | some m => (m, p)
  | none => (colorMode env, { colorCell := some (colorMode env) })

/-- a built `ConsoleAppender`: `writer` (kind + stream) and `do_write` -/
structure Built where
  target : Target
  kind : WriterKind
  doWrite : Bool
  deriving Repr, DecidableEq

/-- `ConsoleAppenderBuilder::build` while the environment is `g.env`: `ConsoleWriter::stdout()/
stderr()` (dereferences COLOR_MODE, asks `isatty` of THAT stream's descriptor), then `do_write` -/
def buildWith (usesIsatty : Bool) (g : Global) (p : Proc) (b : Builder) : Built × Proc :=
  let r := p.derefColorMode g.env
  let kind := writerKind r.1 (g.isatty b.target)
  ({ target := b.target, kind := kind,
     doWrite := doWriteWith usesIsatty kind (g.isatty b.target) b.ttyOnly }, r.2)

/-- builds in order; each step comes with the environment at the time of that build -/
def buildAllEnvs (usesIsatty : Bool) (ttyOut ttyErr : Bool) :
    Proc → List (Env × PlanItem) → List Built × Proc
  | p, [] => ([], p)
  | p, (env, it) :: its =>
    let r := buildWith usesIsatty { env := env, ttyOut := ttyOut, ttyErr := ttyErr } p (builderOf it)
    let rs := buildAllEnvs usesIsatty ttyOut ttyErr r.2 its
    (r.1 :: rs.1, rs.2)

/-- the environment does not change during the process -/
def buildAllWith (usesIsatty : Bool) (g : Global) (p : Proc) (items : List PlanItem) : List Built × Proc :=
  buildAllEnvs usesIsatty g.ttyOut g.ttyErr p (items.map fun it => (g.env, it))

def Streams.append (a b : Streams) : Streams := { out := a.out ++ b.out, err := a.err ++ b.err }

/-- `ConsoleAppender::append` -/
def appendBuilt (a : Built) (enc : Enc) (level : Nat) : Outcome Unit Streams :=
  if a.doWrite then
    obind (enc a.kind level) fun bs => .ok (Streams.on a.target bs)
  else .ok {}

def appendBuiltLevels (a : Built) (enc : Enc) : List Nat → Outcome Unit Streams
  | [] => .ok {}
  | l :: ls =>
    obind (appendBuilt a enc l) fun x =>
    obind (appendBuiltLevels a enc ls) fun y => .ok (x.append y)

def appendAllBuilt (enc : Enc) (levels : List Nat) : List Built → Outcome Unit Streams
  | [] => .ok {}
  | a :: as =>
    obind (appendBuiltLevels a enc levels) fun x =>
    obind (appendAllBuilt enc levels as) fun y => .ok (x.append y)

/-- the child process of the harness: build every appender of the plan in order, then let each
append one record per level -/
def runPlanEnc (usesIsatty : Bool) (g : Global) (items : List PlanItem) (enc : Enc)
    (levels : List Nat) : Outcome Unit Streams :=
  appendAllBuilt enc levels (buildAllWith usesIsatty g {} items).1

def runPlanWith (n : Nat) (usesIsatty : Bool) (g : Global) (items : List PlanItem)
    (cs : Nat → Chunks) (levels : List Nat) : Outcome Unit Streams :=
  runPlanEnc usesIsatty g items (chunksEnc n cs) levels

def runPlan (g : Global) (items : List PlanItem) (cs : Nat → Chunks) (levels : List Nat) :
    Outcome Unit Streams :=
  runPlanWith bufLen ttyOnlyUsesIsatty g items cs levels

/-- the single-appender set-up an item amounts to: its own target and flag — no call order -/
def setupOf (g : Global) (it : PlanItem) : Setup :=
  { env := g.env, ttyOut := g.ttyOut, ttyErr := g.ttyErr, target := it.target, ttyOnly := it.ttyOnly }

/-- outcomes one after the other, streams concatenated -/
def seqStreams : List (Outcome Unit Streams) → Outcome Unit Streams
  | [] => .ok {}
  | x :: xs => obind x fun a => obind (seqStreams xs) fun b => .ok (a.append b)

/-! ### a stream that stops accepting bytes

The model above is the world in which `write_all` to stdout/stderr succeeds. The console appender
writes straight into the locked stream (no encode-to-memory step), and `Highlight::encode` returns
on the first error (`chunk.encode(w, record)?`) before its reset. What can be said then is only
about prefixes: a stream that accepts `budget` more bytes and fails afterwards has received a
prefix of what the appender wanted to write, and the appender reports the error. -/

/-- what reaches a stream that accepts `budget` bytes and then fails every write -/
def deliver (budget : Nat) (bs : Bytes) : Outcome Unit Bytes × Bytes :=
  if bs.length ≤ budget then (.ok bs, bs) else (.err (), bs.take budget)

/-! ### finite tables the theorems enumerate -/

/-- the values the property quantifies over -/
def allEnvVals : List EnvVal := [.unset, .zero, .one]

/-- … and with the value outside the quantifier -/
def allEnvValsExt : List EnvVal := [.unset, .zero, .one, .nonUnicode]

def allEnvs : List Env :=
  allEnvVals.flatMap fun a => allEnvVals.flatMap fun b => allEnvVals.map fun c =>
    { noColor := a, clicolor := b, clicolorForce := c }

def allColors : List (Option Nat) := [none, some 0, some 1, some 2, some 3, some 4, some 5, some 6, some 7]

def allIntense : List (Option Bool) := [none, some true, some false]

def allEnvsExt : List Env :=
  allEnvValsExt.flatMap fun a => allEnvValsExt.flatMap fun b => allEnvValsExt.map fun c =>
    { noColor := a, clicolor := b, clicolorForce := c }

/-- inside the property's quantifier: every variable is unset, "0" or another Unicode string -/
def Env.inQuantifier (e : Env) : Bool :=
  e.noColor != .nonUnicode && e.clicolor != .nonUnicode && e.clicolorForce != .nonUnicode

/-- the 243 styles: 9 text × 9 background × 3 intensity -/
def allStyles : List Style :=
  allColors.flatMap fun t => allColors.flatMap fun b => allIntense.map fun i =>
    { text := t, background := b, intense := i }

/-- the input class of the repaired buffer overflow: text + background + `intense(false)` needs 13 bytes -/
def overflowClass (s : Style) : Bool :=
  s.text.isSome && s.background.isSome && s.intense == some false

def ColorMode.name : ColorMode → String
  | .auto => "auto" | .always => "always" | .never => "never"

end Log4rs.Console
