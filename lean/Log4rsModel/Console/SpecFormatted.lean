import Log4rsModel.Console.Spec
import Log4rsModel.Console.Formatted
/-
Clause (H) of C18 for patterns with format specs — read off the statement, not the code:

  "each highlighted group [is] followed by a reset … for all record levels and highlight nestings"

A width, fill or alignment parameter on a group, or on a group around it, decides which CHARACTERS
are visible (that is C10's law); it has no say over the styling protocol. So, whatever is cut
(even everything, max width 0): with colour, the SGR sequences in the output are exactly one
opening style per highlighted group of a styled level and one reset per group, in nesting order —
`specStyles`, which does not look at any parameter — and in particular every opening sequence is
matched by a later reset, properly nested (`wellNested`). Without colour there is no escape at all.
-/
namespace Log4rs.Console.Spec
open Log4rs Log4rs.Console

/-- the style requests a pattern makes for a record of level `level`, in order; parameters are
ignored on purpose -/
def specStyles (level : Nat) : FChunks → List Style
  | .nil => []
  | .text _ rest => specStyles level rest
  | .highlight _ inner rest =>
    (match highlightStyle level with
      | some st => st :: specStyles level inner ++ [Style.plain]
      | none => specStyles level inner) ++ specStyles level rest
  | .group _ inner rest => specStyles level inner ++ specStyles level rest

/-- `k` groups are open; a reset closes the innermost one, any other style opens one; at the end
nothing may be open -/
def wellNestedFrom : Nat → List Style → Bool
  | k, [] => k == 0
  | k, s :: r =>
    if s = Style.plain then
      match k with
      | 0 => false
      | k + 1 => wellNestedFrom k r
    else wellNestedFrom (k + 1) r

/-- every opening style is followed by a matching reset, in properly nested order -/
def wellNested (ss : List Style) : Bool := wellNestedFrom 0 ss

def ESCc : Char := Char.ofNat 27

/-- neither a text chunk nor a fill character is ESC -/
def fEscFree : FChunks → Bool
  | .nil => true
  | .text cs rest => cs.all (· != ESCc) && fEscFree rest
  | .highlight p inner rest => (p.fill != ESCc) && fEscFree inner && fEscFree rest
  | .group p inner rest => (p.fill != ESCc) && fEscFree inner && fEscFree rest

/-- verdict on the bytes the real encoder produced for pattern `f` at `level`.
`colour` = the sink is a colour writer. -/
def formattedVerdict (colour : Bool) (level : Nat) (f : FChunks) (bs : Bytes) : Verdict :=
  match scan bs with
  | none => .fail "S: the output contains an escape sequence outside the SGR grammar" "C18/hl-malformed-escape"
  | some toks =>
    let ss := sgrToks toks
    if !colour then
      if ss.isEmpty then .ok
      else .fail "C: escape sequences although colour is disabled" "C18/hl-escapes-while-disabled"
    else if !wellNested ss then
      .fail "H: an opening highlight style is not followed by a matching reset" "C18/highlight-reset-missing"
    else if ss != specStyles level f then
      .fail "H: styles/resets differ from one style and one reset per highlighted group" "C18/hl-highlight"
    else .ok

end Log4rs.Console.Spec
