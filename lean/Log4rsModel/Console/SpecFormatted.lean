import Log4rsModel.Console.Spec
import Log4rsModel.Console.Formatted
/-
Clause (H) of C18 for patterns with format specs — read off the statement, not the code:

  "each highlighted group [is] followed by a reset … for all record levels and highlight nestings"

A width, fill or alignment parameter on a group, or on a group around it, decides which CHARACTERS
are visible (that is C10's law); it has no say over the styling protocol. So, whatever is cut
(even everything, max width 0): with colour, the SGR sequences in the output are exactly one
opening style per highlighted group of a styled level and one reset per group, in nesting order —
`specStyles`, which does not look at any parameter — and in particular every opening sequence is
matched by a later reset, properly nested (`wellNested`). Without colour there is no escape at all.

WHERE the style and the reset sit: "each highlighted group [is] followed by a reset" is about the
group's text as it is displayed. The statement of C10 ("cut to the first M characters, then pad
with the fill character on the chosen side up to m characters") lifted to a stream in which style
requests are not characters gives `fmtSpecOps`: the cut keeps every style request and the first M
characters; the padding goes OUTSIDE the group's content, on the chosen side. For a highlighted
group this puts the fill characters outside the style/reset pair and leaves between the pair
exactly the visible part of the group's content: `specOps`. C10's law is stated for `m ≤ M`
(`ordered`); for those patterns the expectation is token-exact (`specFToks`), for the others only
the style protocol is specified here.
-/
namespace Log4rs.Console.Spec
open Log4rs Log4rs.Console
open Log4rs.Pattern (Op Out Params ofText fills)

/-! ### the width law on streams with style requests -/

/-- the first `M` characters; style requests are not characters and are all kept -/
def cutOps : Nat → Out → Out
  | _, [] => []
  | M, .style s :: rest => .style s :: cutOps M rest
  | 0, .ch _ :: rest => cutOps 0 rest
  | M + 1, .ch c :: rest => .ch c :: cutOps M rest

/-- C10's statement (`Pattern.specFmt`) with style requests passing through: cut, then pad the
cut text to the minimum width with the fill character on the chosen side -/
def fmtSpecOps (p : Params) (o : Out) : Out :=
  let cut := match p.maxW with
    | some M => cutOps M o
    | none => o
  match p.minW with
  | none => cut
  | some m =>
    let pad := ofText (fills p.fill (m - (Out.text cut).length))
    if p.right then pad ++ cut else cut ++ pad

/-- the side condition of C10's statement: a minimum width does not exceed the maximum width -/
def paramsOrdered (p : Params) : Bool :=
  match p.minW, p.maxW with
  | some m, some M => decide (m ≤ M)
  | _, _ => true

def fOrdered : FChunks → Bool
  | .nil => true
  | .text _ rest => fOrdered rest
  | .highlight p inner rest => paramsOrdered p && fOrdered inner && fOrdered rest
  | .group p inner rest => paramsOrdered p && fOrdered inner && fOrdered rest

/-- a highlighted group's own output: the level's style, the content, the reset (nothing for Debug) -/
def specWrap (level : Nat) (o : Out) : Out :=
  match highlightStyle level with
  | some st => [Op.style st] ++ o ++ [Op.style Style.plain]
  | none => o

/-- what a pattern must hand to its writer for a record of level `level` -/
def specOps (level : Nat) : FChunks → Out
  | .nil => []
  | .text cs rest => ofText cs ++ specOps level rest
  | .highlight p inner rest => fmtSpecOps p (specWrap level (specOps level inner)) ++ specOps level rest
  | .group p inner rest => fmtSpecOps p (specOps level inner) ++ specOps level rest

/-- a stream of characters and style requests as tokens on the wire: characters as UTF-8, a style
request as its SGR sequence when colour is on and as nothing when it is off -/
def toksOfOps (colour : Bool) : Out → List Tok
  | [] => []
  | .ch c :: r => (utf8Char c).map Tok.byte ++ toksOfOps colour r
  | .style s :: r => (if colour then [Tok.sgr s] else []) ++ toksOfOps colour r

/-- the tokens a pattern must produce (token-exact for `ordered` patterns) -/
def specFToks (colour : Bool) (level : Nat) (f : FChunks) : List Tok :=
  toksOfOps colour (specOps level f)

/-- as a `Want` for the appender-level specification (`f l` = the pattern with `{l}`/`{m}` resolved) -/
def formattedWant (f : Nat → FChunks) : Want := fun colour l => specFToks colour l (f l)

/-- the style requests a pattern makes for a record of level `level`, in order; parameters are
ignored on purpose -/
def specStyles (level : Nat) : FChunks → List Style
  | .nil => []
  | .text _ rest => specStyles level rest
  | .highlight _ inner rest =>
    (match highlightStyle level with
      | some st => st :: specStyles level inner ++ [Style.plain]
      | none => specStyles level inner) ++ specStyles level rest
  | .group _ inner rest => specStyles level inner ++ specStyles level rest

/-- `k` groups are open; a reset closes the innermost one, any other style opens one; at the end
nothing may be open -/
def wellNestedFrom : Nat → List Style → Bool
  | k, [] => k == 0
  | k, s :: r =>
    if s = Style.plain then
      match k with
      | 0 => false
      | k + 1 => wellNestedFrom k r
    else wellNestedFrom (k + 1) r

/-- every opening style is followed by a matching reset, in properly nested order -/
def wellNested (ss : List Style) : Bool := wellNestedFrom 0 ss

def ESCc : Char := Char.ofNat 27

/-- neither a text chunk nor a fill character is ESC -/
def fEscFree : FChunks → Bool
  | .nil => true
  | .text cs rest => cs.all (· != ESCc) && fEscFree rest
  | .highlight p inner rest => (p.fill != ESCc) && fEscFree inner && fEscFree rest
  | .group p inner rest => (p.fill != ESCc) && fEscFree inner && fEscFree rest

/-- the style-protocol part of the verdict (all that is specified for patterns with `m > M`) -/
def stylesVerdict (colour : Bool) (level : Nat) (f : FChunks) (toks : List Tok) : Verdict :=
  let ss := sgrToks toks
  if !colour then
    if ss.isEmpty then .ok
    else .fail "C: escape sequences although colour is disabled" "C18/hl-escapes-while-disabled"
  else if !wellNested ss then
    .fail "H: an opening highlight style is not followed by a matching reset" "C18/highlight-reset-missing"
  else if ss != specStyles level f then
    .fail "H: styles/resets differ from one style and one reset per highlighted group" "C18/hl-highlight"
  else .ok

/-- verdict on the bytes the real encoder produced for pattern `f` at `level`.
`colour` = the sink is a colour writer.
* `ordered` patterns (every minimum ≤ its maximum — the side condition of C10's statement): the
  bytes must be exactly the rendering of `specFToks` — text, padding, and the POSITION of every
  style and reset. No hypothesis about ESC in the content is needed for this comparison. When they
  differ the scanner is used to name the clause.
* other patterns: the width law says nothing about the text; the style protocol is checked with the
  scanner, provided the content is ESC-free (otherwise nothing is specified here). -/
def formattedVerdict (colour : Bool) (level : Nat) (f : FChunks) (bs : Bytes) : Verdict :=
  if fOrdered f then
    let want := specFToks colour level f
    if bs == render want then .ok
    else match scan bs with
      | none =>
        if fEscFree f then .fail "S: the output contains an escape sequence outside the SGR grammar" "C18/hl-malformed-escape"
        else .fail "the bytes are not the pattern's text with one SGR sequence per style request" "C18/hl-bytes"
      | some toks =>
        match stylesVerdict colour level f toks with
        | .ok =>
          if literalBytes toks != literalBytes want then
            .fail "W: the text is not the pattern's text cut and padded as its parameters say" "C18/hl-text"
          else
            .fail "H: a style or reset is not where the group begins / ends (fill characters belong outside the pair, the group's visible text inside)" "C18/highlight-position"
        | v => v
  else if !fEscFree f then .ok
  else match scan bs with
    | none => .fail "S: the output contains an escape sequence outside the SGR grammar" "C18/hl-malformed-escape"
    | some toks => stylesVerdict colour level f toks

/-- R3: the target stream accepts `limit` bytes and fails afterwards; `full` = what the appender
must write when nothing fails. What the statement can still demand: nothing but a prefix of `full`
arrives, and everything arrives (and no error is reported) when it fits. -/
def failedStreamVerdict (limit : Nat) (full : Bytes) (rc : Nat) (got : Bytes) : Verdict :=
  if !(got.isPrefixOf full) then
    .fail "W: what reached the stream is not a prefix of the encoded text" "C18/failing-stream-not-a-prefix"
  else if full.length ≤ limit && (got != full || rc != 0) then
    .fail "W: the stream accepted everything, yet the text is incomplete or an error was reported" "C18/failing-stream-incomplete"
  else .ok

end Log4rs.Console.Spec
