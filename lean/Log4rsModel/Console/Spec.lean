import Log4rsModel.Console.Model
/-
Executable specification of C18, read off the English statement (nothing here looks at the code):

  (W) A console appender restricted to terminals (`tty_only`) writes exactly when its target
      stream is a terminal and is otherwise silent, independent of colour settings; an
      unrestricted one always writes the encoded text to the chosen stream.
  (C) Escape sequences appear only when colour is enabled — never under NO_COLOR, otherwise
      always under CLICOLOR_FORCE, otherwise never under CLICOLOR=0, otherwise only on terminals.
  (S) Then every style request yields one well-formed SGR sequence
          ESC [ 0 (;3c)? (;4c)? (;1|;22)? m          c ∈ '0'..'7'
      encoding exactly the requested attributes,
  (H) with each highlighted group followed by a reset (ESC [ 0 m).

READING DECISIONS (assumptions of this specification, also listed in props.d/C18.json; the
theorems `C18_reading_gap*` count the rows on which they matter):
 R1  A variable counts as "set" in the statement's sense when it is PRESENT AND NOT THE STRING "0"
     — the same reading for all three variables. So `NO_COLOR=0` does not disable colour,
     `CLICOLOR_FORCE=0` does not force it, and `CLICOLOR=0` is the literal "off" form the statement
     names. The other common reading (no-color.org: NO_COLOR present with ANY value disables) is
     `colourEnabledStd`; the two differ on 10 of the 54 (environment, terminal?) rows of the
     property's quantifier, all with `NO_COLOR=0`.
 R2  Outside the quantifier: a value that is not valid Unicode counts as NOT set (what
     `std::env::var` makes of it); the empty string, `00`, `false`, … count as set.
 R3  The statement is read as conditional on the stream accepting the bytes: after a failed write
     nothing further can be required of the stream (see `failedStreamVerdict`).
-/
namespace Log4rs.Console.Spec
open Log4rs Log4rs.Console

/-! ### (C) colour policy -/

/-- R1/R2: "set" = present, valid Unicode, and not "0" -/
def isSet (v : EnvVal) : Bool := v == .one

/-- the statement's cascade, clause by clause -/
def colourEnabled (e : Env) (isatty : Bool) : Bool :=
  if isSet e.noColor then false               -- never under NO_COLOR
  else if isSet e.clicolorForce then true     -- otherwise always under CLICOLOR_FORCE
  else if e.clicolor == .zero then false      -- otherwise never under CLICOLOR=0
  else isatty                                 -- otherwise only on terminals

/-- the same rule as one formula: ¬NO_COLOR ∧ (FORCE ∨ (CLICOLOR≠0 ∧ tty)) -/
def colourEnabledFormula (e : Env) (isatty : Bool) : Bool :=
  !isSet e.noColor && (isSet e.clicolorForce || (e.clicolor != .zero && isatty))

/-- the OTHER reading of "under NO_COLOR" (no-color.org): present, whatever the value. Not the
reading of this specification (R1); kept so that the difference is a theorem. -/
def colourEnabledStd (e : Env) (isatty : Bool) : Bool :=
  if e.noColor != .unset then false
  else if isSet e.clicolorForce then true
  else if e.clicolor == .zero then false
  else isatty

/-- The same rule once more, as a TABLE written out by hand from the statement, in the order of
`allEnvs` (NO_COLOR outermost, then CLICOLOR, then CLICOLOR_FORCE; values unset, "0", "1") with
terminal before pipe. One line per (NO_COLOR, CLICOLOR); the three pairs are CLICOLOR_FORCE =
unset, "0", "1"; a pair is (on a terminal, on a pipe). -/
def colourTable : List Bool :=
  [ -- NO_COLOR unset
    true, false,   true, false,   true, true,      -- CLICOLOR unset: terminals only, unless forced
    false, false,  false, false,  true, true,      -- CLICOLOR=0: never, unless forced
    true, false,   true, false,   true, true,      -- CLICOLOR=1
    -- NO_COLOR=0 (does not count as set, R1): as above
    true, false,   true, false,   true, true,
    false, false,  false, false,  true, true,
    true, false,   true, false,   true, true,
    -- NO_COLOR=1: never
    false, false,  false, false,  false, false,
    false, false,  false, false,  false, false,
    false, false,  false, false,  false, false ]

/-- the rows of the table: the 27 environments × (terminal, pipe) -/
def colourRows : List (Env × Bool) :=
  allEnvs.flatMap fun e => [(e, true), (e, false)]

/-! ### (W) who writes -/

/-- tty_only ⇒ writes iff the target is a terminal; unrestricted ⇒ always. No colour input. -/
def shouldWrite (isatty ttyOnly : Bool) : Bool := isatty || !ttyOnly

/-- clause (W) as a table written out from the statement: (target is a terminal, tty_only) ↦ writes.
No environment column: "independent of colour settings". -/
def writeTable : List ((Bool × Bool) × Bool) :=
  [ ((true,  true),  true),    -- restricted, terminal: writes
    ((false, true),  false),   -- restricted, no terminal: silent
    ((true,  false), true),    -- unrestricted: always writes
    ((false, false), true) ]

/-! ### (S) the SGR grammar: printer and (independent) strict parser -/

/-- the canonical sequence for exactly the attributes of `s` -/
def sgr (s : Style) : Bytes :=
  [27, 91, 48]                                                             -- ESC [ 0
  ++ (match s.text with | some c => [59, 51, 48 + c] | none => [])         -- ;3c
  ++ (match s.background with | some c => [59, 52, 48 + c] | none => [])   -- ;4c
  ++ (match s.intense with                                                  -- ;1 | ;22
      | some true => [59, 49] | some false => [59, 50, 50] | none => [])
  ++ [109]                                                                  -- m

/-- ESC [ 0 m -/
def resetSeq : Bytes := [27, 91, 48, 109]

/-- optional `; <tag> c` with c ∈ '0'..'7' -/
def takeColor (tag : Nat) (bs : Bytes) : Option Nat × Bytes :=
  match bs with
  | a :: b :: c :: rest =>
    if a = 59 ∧ b = tag ∧ 48 ≤ c ∧ c ≤ 55 then (some (c - 48), rest) else (none, bs)
  | _ => (none, bs)

/-- optional `;1` or `;22` -/
def takeIntense (bs : Bytes) : Option Bool × Bytes :=
  match bs with
  | a :: b :: rest =>
    if a = 59 ∧ b = 49 then (some true, rest)
    else match rest with
      | c :: rest' => if a = 59 ∧ b = 50 ∧ c = 50 then (some false, rest') else (none, bs)
      | [] => (none, bs)
  | _ => (none, bs)

/-- strict parser of one complete sequence `ESC [ 0 (;3c)? (;4c)? (;1|;22)? m`; anything else
(other order, other parameters, missing `0`, trailing bytes) is rejected -/
def parseSgr (bs : Bytes) : Option Style :=
  match bs with
  | e :: l :: z :: rest =>
    if e = 27 ∧ l = 91 ∧ z = 48 then
      let t := takeColor 51 rest
      let b := takeColor 52 t.2
      let i := takeIntense b.2
      if i.2 = [109] then some { text := t.1, background := b.1, intense := i.1 } else none
    else none
  | _ => none

/-! ### strict scanner for byte streams -/

inductive Tok where
  | byte (b : Nat)
  | sgr (s : Style)
  deriving Repr, DecidableEq

/-- scanner state: `none` outside an escape sequence, `some acc` inside one (`acc` = the bytes of
the open sequence, newest first, starting with ESC) -/
abbrev ScanState := Option Bytes

/-- one byte. `none` = the stream is rejected here. The longest well-formed sequence has 13
bytes, so an open sequence of 12 bytes must be closed by `m` now. -/
def scanStep (st : ScanState) (b : Nat) : Option (ScanState × List Tok) :=
  match st with
  | none => if b = 27 then some (some [27], []) else some (none, [.byte b])
  | some acc =>
    if b = 109 then
      match parseSgr (b :: acc).reverse with
      | some s => some (none, [.sgr s])
      | none => none
    else if b = 27 ∨ 12 ≤ acc.length then none
    else some (some (b :: acc), [])

def scanFrom (st : ScanState) : Bytes → Option (List Tok)
  | [] => if st.isNone then some [] else none        -- an unterminated sequence is rejected
  | b :: bs =>
    match scanStep st b with
    | none => none
    | some (st', ts) =>
      match scanFrom st' bs with
      | none => none
      | some rest => some (ts ++ rest)

/-- `some tokens` iff every ESC in the stream starts a well-formed SGR sequence -/
def scan (bs : Bytes) : Option (List Tok) := scanFrom none bs

def render : List Tok → Bytes
  | [] => []
  | .byte b :: ts => b :: render ts
  | .sgr s :: ts => sgr s ++ render ts

def literalBytes : List Tok → Bytes
  | [] => []
  | .byte b :: ts => b :: literalBytes ts
  | .sgr _ :: ts => literalBytes ts

def sgrToks : List Tok → List Style
  | [] => []
  | .byte _ :: ts => sgrToks ts
  | .sgr s :: ts => s :: sgrToks ts

/-! ### (H) highlighted groups -/

/-- what a pattern must produce, as tokens: with colour, a group of a styled level is
`style, inner…, reset`; without colour (or for Debug, which has no style) just the inner text -/
def specToks (colour : Bool) (level : Nat) : Chunks → List Tok
  | .nil => []
  | .text bs rest => bs.map Tok.byte ++ specToks colour level rest
  | .highlight inner rest =>
    match (if colour then highlightStyle level else none) with
    | some st =>
      [Tok.sgr st] ++ specToks colour level inner ++ [Tok.sgr Style.plain] ++ specToks colour level rest
    | none => specToks colour level inner ++ specToks colour level rest

def specEncode (colour : Bool) (level : Nat) (cs : Chunks) : Bytes :=
  render (specToks colour level cs)

/-- the encoded text without any styling -/
def plainText : Chunks → Bytes
  | .nil => []
  | .text bs rest => bs ++ plainText rest
  | .highlight inner rest => plainText inner ++ plainText rest

/-- no text chunk contains an ESC byte (true of every pattern the harness uses) -/
def escFree : Chunks → Bool
  | .nil => true
  | .text bs rest => bs.all (· != 27) && escFree rest
  | .highlight inner rest => escFree inner && escFree rest

/-! ### the appender as a whole -/

/-- what must be on stdout / stderr after one record -/
def expectedAppend (s : Setup) (level : Nat) (cs : Chunks) : Streams :=
  if shouldWrite s.targetIsatty s.ttyOnly then
    Streams.on s.target (specEncode (colourEnabled s.env s.targetIsatty) level cs)
  else {}

/-- the input class of the repaired tty_only defect: a restricted appender whose colour decision differs from "is a terminal"
(colour suppressed on a terminal, or forced on a pipe) -/
def f2Region (s : Setup) : Bool :=
  s.ttyOnly && (colourEnabled s.env s.targetIsatty != s.targetIsatty)

/-! ### verdicts on the implementation's observation (used by the driver) -/

inductive Verdict where
  | ok
  | fail (clause : String) (sig : String)
  deriving Repr, DecidableEq

def Verdict.render : Verdict → String
  | .ok => "ok"
  | .fail c s => "FAIL:" ++ c ++ ";sig=" ++ s

/-- one `set_style` call; `none` = the call panicked -/
def styleVerdict (s : Style) (obs : Option Bytes) : Verdict :=
  match obs with
  | none =>
    .fail "S: set_style panicked instead of producing an SGR sequence"
      (if overflowClass s then "C18/sgr-buffer-overflow" else "C18/sgr-panic")
  | some bs =>
    if bs = sgr s then .ok
    else match parseSgr bs with
      | none => .fail "S: not one well-formed SGR sequence" "C18/sgr-malformed"
      | some _ => .fail "S: the sequence encodes other attributes than requested" "C18/sgr-wrong-attributes"

/-- one stream of encoder output for the records `levels` (pattern `cs l` for level `l`), scanned
with the strict grammar. `colour` = escapes are allowed and required here. -/
def streamVerdict (colour : Bool) (levels : List Nat) (cs : Nat → Chunks) (bs : Bytes)
    (sigPrefix : String) : Verdict :=
  match scan bs with
  | none => .fail "S: the output contains an escape sequence outside the SGR grammar" (sigPrefix ++ "malformed-escape")
  | some toks =>
    let wantText := levels.flatMap fun l => plainText (cs l)
    let wantToks := levels.flatMap fun l => specToks colour l (cs l)
    if literalBytes toks != wantText then
      .fail "W: the text written is not the encoded text" (sigPrefix ++ "text")
    else if !colour && !(sgrToks toks).isEmpty then
      .fail "C: escape sequences although colour is disabled" (sigPrefix ++ "escapes-while-disabled")
    else if colour && (sgrToks toks).isEmpty && !(sgrToks wantToks).isEmpty then
      .fail "C: no escape sequences although colour is enabled" (sigPrefix ++ "no-escapes-while-enabled")
    else if toks != wantToks then
      .fail "H: styles/resets differ from one style per highlighted group followed by a reset" (sigPrefix ++ "highlight")
    else .ok

/-! ### several appenders in one process

Clause (W) and (C) speak about "a console appender" and "its target stream": each appender is
judged by ITS OWN target's terminal status, the environment and its own tty_only flag. Other
appenders, the order in which they were built and the order of the builder calls have no say. -/

/-- what an appender's pattern must produce, as tokens, for (colour?, level) -/
abbrev Want := Bool → Nat → List Tok

/-- patterns without width parameters -/
def chunksWant (cs : Nat → Chunks) : Want := fun colour l => specToks colour l (cs l)

/-- what one appender of a plan must contribute after one record per level -/
def expectedItemW (g : Global) (it : PlanItem) (levels : List Nat) (want : Want) : Streams :=
  if shouldWrite (g.isatty it.target) it.ttyOnly then
    Streams.on it.target
      (levels.flatMap fun l => render (want (colourEnabled g.env (g.isatty it.target)) l))
  else {}

/-- what must be on stdout / stderr after the whole plan: the appenders' contributions in order -/
def expectedPlanW (g : Global) (items : List PlanItem) (levels : List Nat) (want : Want) : Streams :=
  items.foldr (fun it acc => (expectedItemW g it levels want).append acc) {}

def expectedItem (g : Global) (it : PlanItem) (levels : List Nat) (cs : Nat → Chunks) : Streams :=
  expectedItemW g it levels (chunksWant cs)

def expectedPlan (g : Global) (items : List PlanItem) (levels : List Nat) (cs : Nat → Chunks) : Streams :=
  expectedPlanW g items levels (chunksWant cs)

def itemF2Region (g : Global) (it : PlanItem) : Bool :=
  it.ttyOnly && (colourEnabled g.env (g.isatty it.target) != g.isatty it.target)

def otherTarget : Target → Target
  | .stdout => .stderr
  | .stderr => .stdout

/-- the plain text stream `t` carries when "is this appender's target a terminal" is answered by
`answer` (the statement: `fun it => g.isatty it.target`) -/
def streamTextIf (_g : Global) (items : List PlanItem) (levels : List Nat) (want : Want)
    (answer : PlanItem → Bool) (t : Target) : Bytes :=
  (items.filter fun it => it.target == t && shouldWrite (answer it) it.ttyOnly).flatMap fun _ =>
    levels.flatMap fun l => literalBytes (want false l)

/-- the tokens stream `t` carries when the colour decision for it is `colour` -/
def streamToksIf (g : Global) (items : List PlanItem) (levels : List Nat) (want : Want)
    (colour : Bool) (t : Target) : List Tok :=
  (items.filter fun it => it.target == t && shouldWrite (g.isatty t) it.ttyOnly).flatMap fun _ =>
    levels.flatMap fun l => want colour l

/-- the tokens one stream must carry -/
def expectedStreamToks (g : Global) (items : List PlanItem) (levels : List Nat) (want : Want)
    (t : Target) : List Tok :=
  streamToksIf g items levels want (colourEnabled g.env (g.isatty t)) t

/-- does the plan put appenders on both streams while the streams differ in terminal status and
the colour decision is left to the terminal test? -/
def leakRegion (g : Global) (items : List PlanItem) : Bool :=
  g.ttyOut != g.ttyErr && items.any (·.target == .stdout) && items.any (·.target == .stderr) &&
    (colourEnabled g.env true != colourEnabled g.env false)

/-- signature of a (W) failure: which wrong question do the observed texts answer? -/
def wSig (g : Global) (items : List PlanItem) (levels : List Nat) (want : Want)
    (textOut textErr : Bytes) : String :=
  let agrees (answer : PlanItem → Bool) : Bool :=
    textOut == streamTextIf g items levels want answer .stdout &&
    textErr == streamTextIf g items levels want answer .stderr
  let ownOk := agrees (fun it => g.isatty it.target)
  if !ownOk && (agrees (fun it => g.isatty (otherTarget it.target)) ||
      agrees (fun _ => g.ttyOut) || agrees (fun _ => g.ttyErr)) then "C18/tty-only-wrong-stream"
  else if agrees (fun it => colourEnabled g.env (g.isatty it.target)) then "C18/tty-only-keyed-on-colour-mode"
  else if items.any (itemF2Region g) then "C18/tty-only-keyed-on-colour-mode"
  else if g.ttyOut != g.ttyErr && items.any (·.ttyOnly) then "C18/tty-only-wrong-stream"
  else "C18/tty-only"

/-- colour clause for one stream whose text is right -/
def planColourVerdict (g : Global) (items : List PlanItem) (levels : List Nat) (want : Want)
    (t : Target) (toks : List Tok) : Verdict :=
  let colour := colourEnabled g.env (g.isatty t)
  if toks == expectedStreamToks g items levels want t then .ok
  else
    let clause :=
      if !colour && !(sgrToks toks).isEmpty then ("C: escape sequences although colour is disabled for this stream", "C18/console-escapes-while-disabled")
      else if colour && (sgrToks toks).isEmpty then ("C: no escape sequences although colour is enabled for this stream", "C18/console-no-escapes-while-enabled")
      else ("H: styles/resets differ from one style per highlighted group followed by a reset", "C18/console-highlight")
    let otherColour := colourEnabled g.env (g.isatty (otherTarget t))
    -- the other stream's colour decision explains the observation, or (by input class) colour is
    -- present/absent against the rule while the two streams differ
    let leaks := (otherColour != colour && toks == streamToksIf g items levels want otherColour t) ||
      (leakRegion g items && clause.2 != "C18/console-highlight")
    .fail clause.1 (if leaks then "C18/colour-decision-leaks-between-streams" else clause.2)

/-- the child process: exit code, stdout bytes, stderr bytes -/
def planVerdict (g : Global) (items : List PlanItem) (levels : List Nat) (want : Want)
    (rc : Nat) (out err : Bytes) : Verdict :=
  if rc != 0 then .fail "an appender failed or panicked" "C18/console-failed"
  else match scan out, scan err with
    | some toksOut, some toksErr =>
      let own : PlanItem → Bool := fun it => g.isatty it.target
      let textOut := literalBytes toksOut
      let textErr := literalBytes toksErr
      if textOut != streamTextIf g items levels want own .stdout || textErr != streamTextIf g items levels want own .stderr then
        .fail "W: a stream does not carry the text of exactly the appenders that target it and must write (a tty_only appender wrote to a non-terminal, an appender that must write is silent, or text went to the other stream)"
          (wSig g items levels want textOut textErr)
      else match planColourVerdict g items levels want .stdout toksOut with
        | .ok => planColourVerdict g items levels want .stderr toksErr
        | v => v
    | _, _ => .fail "S: the output contains an escape sequence outside the SGR grammar" "C18/console-malformed-escape"

end Log4rs.Console.Spec
