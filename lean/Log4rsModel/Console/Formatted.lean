import Log4rsModel.Console.Model
import Log4rsModel.Pattern.Format
import Log4rsModel.Base.Bytes
/-
Highlight groups WITH format specs (`{h(…):<8.5}`) and plain groups around them (`{({h(…)}):.3}`),
nested to any depth.

`Chunk::encode` wraps the writer it was given in the width/fill/alignment writer stack selected by
the chunk's parameters and hands that stack to `FormattedChunk::encode`; for `Highlight` this means
that BOTH `set_style` calls (the level's style before, the reset after the children) travel through
the stack. What the stack does to a stream of operations is `codeFmtOps` (`Pattern/Format.lean`;
C10 proves the byte-level `MaxWidthWriter` / `LeftAlignWriter` / `RightAlignWriter` implement it:
characters are counted, cut and padded, `set_style` calls always pass through, in order).

The sink at the bottom is the appender's writer: an `AnsiWriter` (kind `tty`: `set_style` writes an
SGR sequence, `setStyleN`) or a `SimpleWriter` (kind `raw`: `set_style` is a no-op).
Text is `List Char` here because widths count characters; it reaches the sink as UTF-8.
-/
namespace Log4rs.Console
open Log4rs.Pattern (Op Out Params codeFmtOps ofText)

/-- chunk lists with parameters: literal output, `{h(inner):params}`, `{(inner):params}` -/
inductive FChunks where
  | nil
  | text (cs : List Char) (rest : FChunks)
  | highlight (p : Params) (inner : FChunks) (rest : FChunks)
  | group (p : Params) (inner : FChunks) (rest : FChunks)
  deriving Repr, DecidableEq

/-- `FormattedChunk::Highlight::encode(w, record)`: `w.set_style(level style)`, the children,
`w.set_style(&Style::new())`; no style call at all for Debug -/
def wrapHighlight (level : Nat) (o : Out) : Out :=
  match highlightStyle level with
  | some st => Op.style st :: o ++ [Op.style Style.plain]
  | none => o

/-- the operations that arrive at the sink -/
def opsOf (level : Nat) : FChunks → Out
  | .nil => []
  | .text cs rest => ofText cs ++ opsOf level rest
  | .highlight p inner rest =>
    codeFmtOps p (wrapHighlight level (opsOf level inner)) ++ opsOf level rest
  | .group p inner rest => codeFmtOps p (opsOf level inner) ++ opsOf level rest

/-- the sink: characters as UTF-8, `set_style` as the writer kind implements it -/
def sinkN (n : Nat) (kind : WriterKind) : Out → Outcome Unit Bytes
  | [] => .ok []
  | .ch c :: r => obind (sinkN n kind r) fun bs => .ok (utf8Char c ++ bs)
  | .style s :: r =>
    obind (writerSetStyleN n kind s) fun a =>
    obind (sinkN n kind r) fun bs => .ok (a ++ bs)

def encodeFormattedN (n : Nat) (kind : WriterKind) (level : Nat) (f : FChunks) : Outcome Unit Bytes :=
  sinkN n kind (opsOf level f)

def encodeFormatted (kind : WriterKind) (level : Nat) (f : FChunks) : Outcome Unit Bytes :=
  encodeFormattedN bufLen kind level f

/-- the encoder of a pattern with parameters (`f l` = the pattern with `{l}`/`{m}` resolved) -/
def formattedEnc (n : Nat) (f : Nat → FChunks) : Enc := fun kind l => encodeFormattedN n kind l (f l)

/-- build + one append, for a pattern with parameters -/
def appendFormatted (s : Setup) (level : Nat) (f : FChunks) : Outcome Unit Streams :=
  appendEnc ttyOnlyUsesIsatty s (fun kind l => encodeFormattedN bufLen kind l f) level

/-- a plan whose appenders all use the pattern `f` -/
def runPlanFormatted (g : Global) (items : List PlanItem) (f : Nat → FChunks) (levels : List Nat) :
    Outcome Unit Streams :=
  runPlanEnc ttyOnlyUsesIsatty g items (formattedEnc bufLen f) levels

/-- forgetting the parameters: the unformatted pattern of `Model.lean` (a plain group is spliced) -/
def Chunks.append : Chunks → Chunks → Chunks
  | .nil, b => b
  | .text bs r, b => .text bs (Chunks.append r b)
  | .highlight i r, b => .highlight i (Chunks.append r b)

def FChunks.erase : FChunks → Chunks
  | .nil => .nil
  | .text cs rest => .text (utf8 cs) rest.erase
  | .highlight _ inner rest => .highlight inner.erase rest.erase
  | .group _ inner rest => Chunks.append inner.erase rest.erase

/-- no parameter anywhere restricts or pads (the patterns `Model.lean` talks about) -/
def FChunks.unformatted : FChunks → Bool
  | .nil => true
  | .text _ rest => rest.unformatted
  | .highlight p inner rest => p.minW.isNone && p.maxW.isNone && inner.unformatted && rest.unformatted
  | .group p inner rest => p.minW.isNone && p.maxW.isNone && inner.unformatted && rest.unformatted

end Log4rs.Console
