import Log4rsModel.Console.Spec
/-
Helper lemmas for C18: the strict scanner is compositional and inverts `render`; the model of
`FormattedChunk::Highlight` equals the token-level specification for every nesting.
-/
namespace Log4rs.Console
open Log4rs Log4rs.Console.Spec

/-! ### render -/

theorem render_append (a b : List Tok) : render (a ++ b) = render a ++ render b := by
  induction a with
  | nil => rfl
  | cons t ts ih => cases t <;> simp [render, ih]

theorem render_bytes (bs : Bytes) : render (bs.map Tok.byte) = bs := by
  induction bs with
  | nil => rfl
  | cons b bs ih => simp [render, ih]

theorem literalBytes_append (a b : List Tok) :
    literalBytes (a ++ b) = literalBytes a ++ literalBytes b := by
  induction a with
  | nil => rfl
  | cons t ts ih => cases t <;> simp [literalBytes, ih]

theorem literalBytes_bytes (bs : Bytes) : literalBytes (bs.map Tok.byte) = bs := by
  induction bs with
  | nil => rfl
  | cons b bs ih => simp [literalBytes, ih]

/-! ### scanner -/

/-- a successful scan ends outside any escape sequence, so scanning continues afresh -/
theorem scanFrom_append (a b : Bytes) :
    ∀ (st : ScanState) (ta : List Tok), scanFrom st a = some ta →
      scanFrom st (a ++ b) = (scanFrom none b).map (ta ++ ·) := by
  induction a with
  | nil =>
    intro st ta h
    cases st with
    | none =>
      simp [scanFrom] at h
      subst h
      simp only [List.nil_append]
      cases scanFrom none b <;> simp
    | some acc => simp [scanFrom] at h
  | cons x xs ih =>
    intro st ta h
    simp only [scanFrom, List.cons_append] at h ⊢
    cases hs : scanStep st x with
    | none => simp [hs] at h
    | some p =>
      obtain ⟨st', ts⟩ := p
      simp only [hs] at h ⊢
      cases hx : scanFrom st' xs with
      | none => simp [hx] at h
      | some rest =>
        simp only [hx, Option.some.injEq] at h
        subst h
        rw [ih st' rest hx]
        cases scanFrom none b <;> simp

theorem scan_byte_cons (b : Nat) (bs : Bytes) (hb : b ≠ 27) :
    scanFrom none (b :: bs) = (scanFrom none bs).map (Tok.byte b :: ·) := by
  simp only [scanFrom, scanStep, hb, if_false]
  cases scanFrom none bs <;> simp

/-- `scan` inverts `render` on token lists whose literal bytes are not ESC and whose SGR tokens
scan as themselves (true of all 243 styles, `scan_sgr_table`) -/
theorem scan_render (toks : List Tok)
    (hb : ∀ b, Tok.byte b ∈ toks → b ≠ 27)
    (hs : ∀ s, Tok.sgr s ∈ toks → scan (sgr s) = some [Tok.sgr s]) :
    scan (render toks) = some toks := by
  induction toks with
  | nil => rfl
  | cons t ts ih =>
    have ih' := ih (fun b h => hb b (List.mem_cons_of_mem _ h)) (fun s h => hs s (List.mem_cons_of_mem _ h))
    cases t with
    | byte b =>
      have : b ≠ 27 := hb b (List.mem_cons_self ..)
      unfold scan at ih' ⊢
      simp only [render]
      rw [scan_byte_cons b _ this, ih']
      rfl
    | sgr s =>
      have h1 := hs s (List.mem_cons_self ..)
      unfold scan at ih' h1 ⊢
      simp only [render]
      rw [scanFrom_append _ _ none _ h1, ih']
      rfl

theorem scan_sgr_table : ∀ s ∈ allStyles, scan (sgr s) = some [Tok.sgr s] := by decide +kernel

/-! ### highlight styles -/

theorem highlightStyle_cases (level : Nat) :
    highlightStyle level = none ∨
    highlightStyle level = some { text := some 1, intense := some true } ∨
    highlightStyle level = some { text := some 3 } ∨
    highlightStyle level = some { text := some 2 } ∨
    highlightStyle level = some { text := some 6 } := by
  unfold highlightStyle
  split <;> simp

theorem highlightStyle_mem (level : Nat) (st : Style) (h : highlightStyle level = some st) :
    st ∈ allStyles := by
  rcases highlightStyle_cases level with h' | h' | h' | h' | h' <;> rw [h'] at h
  · cases h
  all_goals (cases h; decide)

theorem plain_mem : Style.plain ∈ allStyles := by decide

/-- the highlight styles and the reset never reach index 12, whatever the buffer flag -/
theorem setStyleN_highlight (n : Nat) (hn : n = 12 ∨ n = 13) (level : Nat) (st : Style)
    (h : highlightStyle level = some st) : setStyleN n st = .ok (sgr st) := by
  rcases highlightStyle_cases level with h' | h' | h' | h' | h' <;> rw [h'] at h
  · cases h
  all_goals (cases h; rcases hn with rfl | rfl <;> rfl)

theorem setStyleN_plain (n : Nat) (hn : n = 12 ∨ n = 13) : setStyleN n Style.plain = .ok (sgr Style.plain) := by
  rcases hn with rfl | rfl <;> rfl

/-! ### the model of `Highlight` equals the token-level specification, for every nesting -/

theorem encodeChunksN_eq_spec (n : Nat) (hn : n = 12 ∨ n = 13) (kind : WriterKind) (level : Nat)
    (cs : Chunks) : encodeChunksN n kind level cs = .ok (specEncode kind.isTty level cs) := by
  induction cs with
  | nil => rfl
  | text bs rest ih =>
    simp [encodeChunksN, ih, obind, specEncode, specToks, render_append, render_bytes]
  | highlight inner rest ih1 ih2 =>
    simp only [specEncode] at ih1 ih2
    cases kind with
    | raw =>
      simp only [encodeChunksN, ih1, ih2, obind, specEncode, specToks, WriterKind.isTty,
        writerSetStyleN]
      cases highlightStyle level <;> simp [render_append]
    | tty =>
      simp only [encodeChunksN, ih1, ih2, specEncode, specToks, WriterKind.isTty,
        writerSetStyleN, if_true]
      cases h : highlightStyle level with
      | none => simp [obind, render_append]
      | some st =>
        simp [obind, setStyleN_highlight n hn level st h, setStyleN_plain n hn, render_append, render]

/-! ### facts about the specification itself -/

theorem specToks_no_colour (level : Nat) (cs : Chunks) :
    specToks false level cs = (plainText cs).map Tok.byte := by
  induction cs with
  | nil => rfl
  | text bs rest ih => simp [specToks, plainText, ih]
  | highlight inner rest ih1 ih2 => simp [specToks, plainText, ih1, ih2]

theorem specToks_unstyled (colour : Bool) (level : Nat) (h : highlightStyle level = none)
    (cs : Chunks) : specToks colour level cs = (plainText cs).map Tok.byte := by
  induction cs with
  | nil => rfl
  | text bs rest ih => simp [specToks, plainText, ih]
  | highlight inner rest ih1 ih2 => cases colour <;> simp [specToks, plainText, ih1, ih2, h]

theorem literalBytes_specToks (colour : Bool) (level : Nat) (cs : Chunks) :
    literalBytes (specToks colour level cs) = plainText cs := by
  induction cs with
  | nil => rfl
  | text bs rest ih => simp [specToks, plainText, ih, literalBytes_append, literalBytes_bytes]
  | highlight inner rest ih1 ih2 =>
    simp only [specToks, plainText]
    split <;> simp [literalBytes_append, literalBytes, ih1, ih2]

theorem plainText_escFree (cs : Chunks) (h : escFree cs = true) : ∀ b ∈ plainText cs, b ≠ 27 := by
  induction cs with
  | nil => simp [plainText]
  | text bs rest ih =>
    simp only [escFree, Bool.and_eq_true, List.all_eq_true] at h
    intro b hb
    simp only [plainText, List.mem_append] at hb
    rcases hb with hb | hb
    · simpa using h.1 b hb
    · exact ih h.2 b hb
  | highlight inner rest ih1 ih2 =>
    simp only [escFree, Bool.and_eq_true] at h
    intro b hb
    simp only [plainText, List.mem_append] at hb
    rcases hb with hb | hb
    · exact ih1 h.1 b hb
    · exact ih2 h.2 b hb

theorem specToks_bytes (colour : Bool) (level : Nat) (cs : Chunks) (h : escFree cs = true) :
    ∀ b, Tok.byte b ∈ specToks colour level cs → b ≠ 27 := by
  induction cs with
  | nil => simp [specToks]
  | text bs rest ih =>
    simp only [escFree, Bool.and_eq_true, List.all_eq_true] at h
    intro b hb
    simp only [specToks, List.mem_append, List.mem_map] at hb
    rcases hb with ⟨x, hx, hxe⟩ | hb
    · cases hxe; simpa using h.1 b hx
    · exact ih h.2 b hb
  | highlight inner rest ih1 ih2 =>
    simp only [escFree, Bool.and_eq_true] at h
    intro b hb
    simp only [specToks] at hb
    split at hb
    · rcases List.mem_append.mp hb with h1 | h1
      · rcases List.mem_append.mp h1 with h2 | h2
        · rcases List.mem_append.mp h2 with h3 | h3
          · simp at h3
          · exact ih1 h.1 b h3
        · simp at h2
      · exact ih2 h.2 b h1
    · simp only [List.mem_append] at hb
      rcases hb with hb | hb
      · exact ih1 h.1 b hb
      · exact ih2 h.2 b hb

theorem specToks_sgrs (colour : Bool) (level : Nat) (cs : Chunks) :
    ∀ s, Tok.sgr s ∈ specToks colour level cs → s ∈ allStyles := by
  induction cs with
  | nil => simp [specToks]
  | text bs rest ih =>
    intro s hs
    simp only [specToks, List.mem_append, List.mem_map, reduceCtorEq, and_false, exists_false, false_or] at hs
    exact ih s hs
  | highlight inner rest ih1 ih2 =>
    intro s hs
    simp only [specToks] at hs
    split at hs
    · rename_i st hst
      have hst' : highlightStyle level = some st := by
        cases colour <;> simp_all
      rcases List.mem_append.mp hs with h1 | h1
      · rcases List.mem_append.mp h1 with h2 | h2
        · rcases List.mem_append.mp h2 with h3 | h3
          · simp only [List.mem_singleton, Tok.sgr.injEq] at h3
            exact h3 ▸ highlightStyle_mem level st hst'
          · exact ih1 s h3
        · simp only [List.mem_singleton, Tok.sgr.injEq] at h2
          exact h2 ▸ plain_mem
      · exact ih2 s h1
    · simp only [List.mem_append] at hs
      rcases hs with hs | hs
      · exact ih1 s hs
      · exact ih2 s hs

/-! ### several appenders in one process -/

theorem builderOf_eq (it : PlanItem) : builderOf it = { target := it.target, ttyOnly := it.ttyOnly } := by
  rcases it with ⟨t, b, o⟩
  cases o <;> cases t <;> cases b <;> rfl

/-- the lazy cell is empty or holds what the environment `env` says -/
def Proc.Coherent (env : Env) (p : Proc) : Prop :=
  p.colorCell = none ∨ p.colorCell = some (colorMode env)

theorem derefColorMode_coherent (env : Env) (p : Proc) (h : p.Coherent env) :
    (p.derefColorMode env).1 = colorMode env ∧ (p.derefColorMode env).2.Coherent env := by
  unfold Proc.derefColorMode
  rcases h with h | h <;> rw [h]
  · exact ⟨rfl, Or.inr rfl⟩
  · exact ⟨rfl, Or.inr h⟩

/-- once the cell is filled it answers with its content, whatever the environment is now -/
theorem derefColorMode_filled (env : Env) (m : ColorMode) :
    (Proc.derefColorMode { colorCell := some m } env) = (m, { colorCell := some m }) := rfl

/-- what `build` yields for an item when the colour mode is `m` -/
def builtWithMode (u : Bool) (ttyOut ttyErr : Bool) (m : ColorMode) (it : PlanItem) : Built :=
  let tty := (Global.isatty { env := {}, ttyOut := ttyOut, ttyErr := ttyErr } it.target)
  { target := it.target
    kind := writerKind m tty
    doWrite := doWriteWith u (writerKind m tty) tty it.ttyOnly }

/-- what `build` yields for an item when the colour mode is read straight from the environment -/
def builtOf (u : Bool) (g : Global) (it : PlanItem) : Built :=
  builtWithMode u g.ttyOut g.ttyErr (colorMode g.env) it

theorem isatty_env_irrelevant (e e' : Env) (o r : Bool) (t : Target) :
    Global.isatty { env := e, ttyOut := o, ttyErr := r } t = Global.isatty { env := e', ttyOut := o, ttyErr := r } t := by
  cases t <;> rfl

/-- with a filled cell every later build uses the cell's mode — the environments of the steps are
not looked at -/
theorem buildAllEnvs_filled (u o r : Bool) (m : ColorMode) (steps : List (Env × PlanItem)) :
    (buildAllEnvs u o r { colorCell := some m } steps).1 = steps.map fun x => builtWithMode u o r m x.2 := by
  induction steps with
  | nil => rfl
  | cons x xs ih =>
    obtain ⟨env, it⟩ := x
    simp only [buildAllEnvs, buildWith, derefColorMode_filled, builderOf_eq, List.map_cons, ih]
    congr 1

theorem buildAllEnvs_first (u o r : Bool) (env0 : Env) (it0 : PlanItem) (steps : List (Env × PlanItem)) :
    (buildAllEnvs u o r {} ((env0, it0) :: steps)).1 =
      ((env0, it0) :: steps).map fun x => builtWithMode u o r (colorMode env0) x.2 := by
  simp only [buildAllEnvs, buildWith, Proc.derefColorMode, builderOf_eq, List.map_cons]
  rw [buildAllEnvs_filled]
  congr 1

theorem buildAllWith_eq (u : Bool) (g : Global) (items : List PlanItem) :
    (buildAllWith u g {} items).1 = items.map (builtOf u g) := by
  cases items with
  | nil => rfl
  | cons it its =>
    unfold buildAllWith
    rw [List.map_cons, buildAllEnvs_first]
    simp [builtOf, List.map_map, Function.comp_def]

theorem setupOf_targetIsatty (g : Global) (it : PlanItem) :
    (setupOf g it).targetIsatty = g.isatty it.target := by
  rcases it with ⟨t, b, o⟩
  cases t <;> rfl

theorem builtOf_kind (u : Bool) (g : Global) (it : PlanItem) :
    (builtOf u g it).kind = writerKind (colorMode g.env) (g.isatty it.target) := by
  rcases g with ⟨e, o, r⟩
  rcases it with ⟨t, b, c⟩
  cases t <;> rfl

theorem appendBuilt_eq (u : Bool) (g : Global) (it : PlanItem) (enc : Enc) (l : Nat) :
    appendBuilt (builtOf u g it) enc l = appendEnc u (setupOf g it) enc l := by
  rcases g with ⟨e, o, r⟩
  rcases it with ⟨t, b, c⟩
  cases t <;> rfl

theorem appendBuiltLevels_eq (u : Bool) (g : Global) (it : PlanItem) (enc : Enc) (levels : List Nat) :
    appendBuiltLevels (builtOf u g it) enc levels = appendAllEnc u (setupOf g it) enc levels := by
  induction levels with
  | nil => rfl
  | cons l ls ih =>
    simp only [appendBuiltLevels, appendAllEnc, ih, appendBuilt_eq]
    rfl

theorem appendAllBuilt_eq (u : Bool) (g : Global) (enc : Enc) (levels : List Nat)
    (items : List PlanItem) :
    appendAllBuilt enc levels (items.map (builtOf u g)) =
      seqStreams (items.map fun it => appendAllEnc u (setupOf g it) enc levels) := by
  induction items with
  | nil => rfl
  | cons it its ih =>
    simp only [List.map_cons, appendAllBuilt, seqStreams, ih, appendBuiltLevels_eq]

theorem Streams.on_append (t : Target) (a b : Bytes) :
    (Streams.on t a).append (Streams.on t b) = Streams.on t (a ++ b) := by
  cases t <;> simp [Streams.on, Streams.append]

/-! ### flags -/

theorem bufLen_ok : bufLen = 12 ∨ bufLen = 13 := by decide

/-! ### the style table is complete -/

theorem mem_allColors_iff (o : Option Nat) : o ∈ allColors ↔ ∀ c, o = some c → c < 8 := by
  constructor
  · intro h c hc
    subst hc
    simp [allColors] at h
    omega
  · intro h
    cases o with
    | none => simp [allColors]
    | some c =>
      have := h c rfl
      have : c = 0 ∨ c = 1 ∨ c = 2 ∨ c = 3 ∨ c = 4 ∨ c = 5 ∨ c = 6 ∨ c = 7 := by omega
      rcases this with h | h | h | h | h | h | h | h <;> subst h <;> decide

theorem mem_allStyles_iff (s : Style) :
    s ∈ allStyles ↔ ((∀ c, s.text = some c → c < 8) ∧ (∀ c, s.background = some c → c < 8)) := by
  have hi : ∀ o : Option Bool, o ∈ allIntense := by
    intro o
    rcases o with _ | _ | _ <;> decide
  rcases s with ⟨t, b, i⟩
  simp only [allStyles, List.mem_flatMap, List.mem_map, ← mem_allColors_iff]
  constructor
  · rintro ⟨t', ht, b', hb, i', _, h⟩
    cases h
    exact ⟨ht, hb⟩
  · rintro ⟨ht, hb⟩
    exact ⟨t, ht, b, hb, i, hi i, rfl⟩

/-! ### the strict parser accepts nothing but canonical sequences -/

def colorSeq (tag : Nat) : Option Nat → Bytes
  | some c => [59, tag, 48 + c] | none => []

def intenseSeq : Option Bool → Bytes
  | some true => [59, 49] | some false => [59, 50, 50] | none => []

theorem takeColor_sound (tag : Nat) (bs : Bytes) :
    bs = colorSeq tag (takeColor tag bs).1 ++ (takeColor tag bs).2
    ∧ (∀ c, (takeColor tag bs).1 = some c → c < 8) := by
  rcases bs with _ | ⟨a, _ | ⟨b, _ | ⟨c, rest⟩⟩⟩ <;> simp [takeColor, colorSeq]
  by_cases h : a = 59 ∧ b = tag ∧ 48 ≤ c ∧ c ≤ 55
  · simp only [h, and_self, if_true]
    obtain ⟨rfl, rfl, h1, h2⟩ := h
    simp; omega
  · simp [h]

theorem takeIntense_sound (bs : Bytes) :
    bs = intenseSeq (takeIntense bs).1 ++ (takeIntense bs).2 := by
  rcases bs with _ | ⟨a, _ | ⟨b, rest⟩⟩ <;> simp [takeIntense, intenseSeq]
  by_cases h : a = 59 ∧ b = 49
  · obtain ⟨rfl, rfl⟩ := h; simp
  · simp only [h, if_false]
    rcases rest with _ | ⟨c, rest'⟩
    · simp
    · by_cases h2 : a = 59 ∧ b = 50 ∧ c = 50
      · obtain ⟨rfl, rfl, rfl⟩ := h2; simp
      · simp [h2]

theorem parseSgr_sound (bs : Bytes) (s : Style) (h : parseSgr bs = some s) :
    bs = sgr s ∧ s ∈ allStyles := by
  rcases bs with _ | ⟨e, _ | ⟨l, _ | ⟨z, rest⟩⟩⟩ <;> simp [parseSgr] at h
  obtain ⟨⟨rfl, rfl, rfl⟩, hm, hs⟩ := h
  have h1 := takeColor_sound 51 rest
  have h2 := takeColor_sound 52 (takeColor 51 rest).2
  have h3 := takeIntense_sound (takeColor 52 (takeColor 51 rest).2).2
  subst hs
  refine ⟨?_, (mem_allStyles_iff _).mpr ⟨h1.2, h2.2⟩⟩
  rw [hm] at h3
  conv => lhs; rw [h1.1, h2.1, h3]
  simp only [sgr, colorSeq, intenseSeq]
  cases (takeColor 51 rest).1 <;> cases (takeColor 52 (takeColor 51 rest).2).1 <;>
    (rcases (takeIntense (takeColor 52 (takeColor 51 rest).2).2).1 with _ | _ | _) <;> rfl

theorem parseSgr_table : ∀ s ∈ allStyles, parseSgr (sgr s) = some s := by decide +kernel

/-! ### the appender against the statement, for any encoder that meets its own specification -/

theorem isTty_eq_colourEnabled (e : Env) (tty : Bool) :
    (writerKind (colorMode e) tty).isTty = colourEnabled e tty := by
  rcases e with ⟨a, b, c⟩
  cases a <;> cases b <;> cases c <;> cases tty <;> rfl

theorem appendEnc_spec (s : Setup) (enc : Enc) (want : Want) (level : Nat)
    (henc : ∀ k l, enc k l = .ok (render (want k.isTty l))) :
    appendEnc true s enc level =
      .ok (if shouldWrite s.targetIsatty s.ttyOnly then
        Streams.on s.target (render (want (colourEnabled s.env s.targetIsatty) level)) else {}) := by
  simp only [appendEnc, doWriteWith, if_true, shouldWrite, henc, isTty_eq_colourEnabled, obind]
  split <;> simp_all

theorem appendAllEnc_spec (g : Global) (it : PlanItem) (enc : Enc) (want : Want) (levels : List Nat)
    (henc : ∀ k l, enc k l = .ok (render (want k.isTty l))) :
    appendAllEnc true (setupOf g it) enc levels = .ok (expectedItemW g it levels want) := by
  have hi := setupOf_targetIsatty g it
  have hs : (setupOf g it).ttyOnly = it.ttyOnly := rfl
  have he : (setupOf g it).env = g.env := rfl
  have ht : (setupOf g it).target = it.target := rfl
  induction levels with
  | nil =>
    simp only [appendAllEnc, expectedItemW, List.flatMap_nil]
    split
    · cases it.target <;> rfl
    · rfl
  | cons l ls ih =>
    simp only [appendAllEnc, appendEnc_spec _ _ want _ henc, ih, obind, expectedItemW, hi, hs, he, ht,
      List.flatMap_cons]
    split
    · have := Streams.on_append it.target
        (render (want (colourEnabled g.env (g.isatty it.target)) l))
        (List.flatMap (fun l => render (want (colourEnabled g.env (g.isatty it.target)) l)) ls)
      simpa [Streams.append] using this
    · rfl

/-! ### the strict scanner is sound: what it accepts is what it reads back -/

theorem scanFrom_sound (bs : Bytes) :
    ∀ (st : ScanState) (toks : List Tok), scanFrom st bs = some toks →
      render toks = (match st with | none => [] | some acc => acc.reverse) ++ bs ∧
      (∀ s, Tok.sgr s ∈ toks → s ∈ allStyles) ∧ (∀ b, Tok.byte b ∈ toks → b ≠ 27) := by
  induction bs with
  | nil =>
    intro st toks h
    cases st with
    | none => simp [scanFrom] at h; subst h; simp [render]
    | some acc => simp [scanFrom] at h
  | cons x xs ih =>
    intro st toks h
    simp only [scanFrom] at h
    cases hs : scanStep st x with
    | none => simp [hs] at h
    | some p =>
      obtain ⟨st', ts⟩ := p
      simp only [hs] at h
      cases hx : scanFrom st' xs with
      | none => simp [hx] at h
      | some rest =>
        simp only [hx, Option.some.injEq] at h
        subst h
        obtain ⟨ih1, ih2, ih3⟩ := ih st' rest hx
        cases st with
        | none =>
          simp only [scanStep] at hs
          by_cases hx27 : x = 27
          · simp only [hx27, if_true, Option.some.injEq, Prod.mk.injEq] at hs
            obtain ⟨rfl, rfl⟩ := hs
            refine ⟨?_, ?_, ?_⟩
            · simpa [hx27] using ih1
            · simpa using ih2
            · simpa using ih3
          · simp only [hx27, if_false, Option.some.injEq, Prod.mk.injEq] at hs
            obtain ⟨rfl, rfl⟩ := hs
            refine ⟨?_, ?_, ?_⟩
            · simpa [render] using ih1
            · intro s hs'; simp at hs'; exact ih2 s hs'
            · intro b hb; simp at hb; rcases hb with hb | hb
              · subst hb; exact hx27
              · exact ih3 b hb
        | some acc =>
          simp only [scanStep] at hs
          by_cases hm : x = 109
          · simp only [hm, if_true] at hs
            cases hp : parseSgr (acc.reverse ++ [109]) with
            | none => simp [hp] at hs
            | some s =>
              simp only [List.reverse_cons, hp, Option.some.injEq, Prod.mk.injEq] at hs
              obtain ⟨rfl, rfl⟩ := hs
              obtain ⟨hbytes, hmem⟩ := parseSgr_sound _ _ hp
              refine ⟨?_, ?_, ?_⟩
              · simp only [List.singleton_append, render, ih1, List.nil_append, hm]
                rw [← hbytes]; simp
              · intro s' hs'; simp at hs'; rcases hs' with hs' | hs'
                · subst hs'; exact hmem
                · exact ih2 s' hs'
              · intro b hb; simp at hb; exact ih3 b hb
          · simp only [hm, if_false] at hs
            split at hs
            · cases hs
            · simp only [Option.some.injEq, Prod.mk.injEq] at hs
              obtain ⟨rfl, rfl⟩ := hs
              refine ⟨?_, ?_, ?_⟩
              · simpa using ih1
              · simpa using ih2
              · simpa using ih3


end Log4rs.Console
