import Log4rsModel.Console.Lemmas
import Log4rsModel.Console.SpecFormatted
import Log4rsModel.Properties.C10
/-
Helper lemmas for the formatted highlight theorems of C18. The one fact about the writer stack
that matters is C10's `C10_styles_preserved`: a width spec never drops, duplicates or reorders
`set_style` calls.
-/
namespace Log4rs.Console
open Log4rs Log4rs.Console.Spec
open Log4rs.Pattern (Op Out Params codeFmtOps truncOps ofText fills)

/-! ### operation streams -/

theorem styles_append (a b : Out) : Out.styles (a ++ b) = Out.styles a ++ Out.styles b := by
  simp [Out.styles, List.filterMap_append]

theorem styles_ofText (cs : List Char) : Out.styles (ofText cs) = [] := by
  induction cs with
  | nil => rfl
  | cons c cs ih => simp only [ofText, List.map_cons, Out.styles, List.filterMap_cons] at ih ⊢; exact ih

theorem styles_wrapHighlight (level : Nat) (o : Out) :
    Out.styles (wrapHighlight level o) =
      match highlightStyle level with
      | some st => st :: Out.styles o ++ [Style.plain]
      | none => Out.styles o := by
  unfold wrapHighlight
  cases highlightStyle level with
  | none => rfl
  | some st =>
    show Out.styles ([Op.style st] ++ (o ++ [Op.style Style.plain])) = _
    rw [styles_append, styles_append]
    simp [Out.styles]

/-- the style calls that reach the sink are the pattern's style requests, whatever the parameters -/
theorem styles_opsOf (level : Nat) (f : FChunks) : Out.styles (opsOf level f) = specStyles level f := by
  induction f with
  | nil => rfl
  | text cs rest ih => simp [opsOf, specStyles, styles_append, styles_ofText, ih]
  | highlight p inner rest ih1 ih2 =>
    simp only [opsOf, specStyles, styles_append, Pattern.C10_styles_preserved, styles_wrapHighlight, ih2]
    cases highlightStyle level <;> simp [ih1]
  | group p inner rest ih1 ih2 =>
    simp [opsOf, specStyles, styles_append, Pattern.C10_styles_preserved, ih1, ih2]

theorem mem_truncOps (M : Nat) (o : Out) : ∀ x ∈ truncOps M o, x ∈ o := by
  induction o generalizing M with
  | nil => cases M <;> simp [truncOps]
  | cons y ys ih =>
    intro x hx
    cases y with
    | style s =>
      cases M <;> simp only [truncOps, List.mem_cons] at hx ⊢ <;>
        (rcases hx with hx | hx; exact Or.inl hx; exact Or.inr (ih _ x hx))
    | ch c =>
      cases M with
      | zero => simp only [truncOps] at hx; exact List.mem_cons_of_mem _ (ih _ x hx)
      | succ M =>
        simp only [truncOps, List.mem_cons] at hx ⊢
        rcases hx with hx | hx
        · exact Or.inl hx
        · exact Or.inr (ih _ x hx)

/-- a writer stack emits nothing but operations of the inner chunk and fill characters -/
theorem mem_codeFmtOps (p : Params) (o : Out) : ∀ x ∈ codeFmtOps p o, x ∈ o ∨ x = Op.ch p.fill := by
  intro x hx
  have hpad : ∀ n, ∀ y ∈ ofText (fills p.fill n), y = Op.ch p.fill := by
    intro n y hy
    simp only [ofText, fills, List.mem_map, List.mem_replicate] at hy
    obtain ⟨c, ⟨_, hc⟩, rfl⟩ := hy
    rw [hc]
  unfold codeFmtOps at hx
  cases hm : p.minW <;> cases hM : p.maxW <;> cases hr : p.right <;> simp only [hm, hM, hr] at hx
  all_goals first
    | exact Or.inl hx
    | exact Or.inl (mem_truncOps _ _ x hx)
    | (simp only [Bool.false_eq_true, if_false, if_true, List.mem_append] at hx
       rcases hx with hx | hx
       · first | exact Or.inl hx | exact Or.inr (hpad _ x hx)
       · first | exact Or.inl hx | exact Or.inr (hpad _ x hx))
    | (have hx' := mem_truncOps _ _ x hx
       simp only [Bool.false_eq_true, if_false, if_true, List.mem_append] at hx'
       rcases hx' with hx' | hx'
       · first | exact Or.inl hx' | exact Or.inr (hpad _ x hx')
       · first | exact Or.inl hx' | exact Or.inr (hpad _ x hx'))

/-- no ESC character reaches the sink when neither a text chunk nor a fill character is ESC -/
theorem opsOf_escFree (level : Nat) (f : FChunks) (h : fEscFree f = true) :
    ∀ c, Op.ch c ∈ opsOf level f → c ≠ ESCc := by
  induction f with
  | nil => simp [opsOf]
  | text cs rest ih =>
    simp only [fEscFree, Bool.and_eq_true, List.all_eq_true] at h
    intro c hc
    simp only [opsOf, List.mem_append, ofText, List.mem_map, Op.ch.injEq, exists_eq_right] at hc
    rcases hc with hc | hc
    · simpa using h.1 c hc
    · exact ih h.2 c hc
  | highlight p inner rest ih1 ih2 =>
    simp only [fEscFree, Bool.and_eq_true] at h
    intro c hc
    simp only [opsOf, List.mem_append] at hc
    rcases hc with hc | hc
    · rcases mem_codeFmtOps p _ _ hc with hc | hc
      · unfold wrapHighlight at hc
        cases hs : highlightStyle level with
        | none => rw [hs] at hc; exact ih1 h.1.2 c hc
        | some st =>
          rw [hs] at hc
          simp only [List.mem_cons, List.mem_append, List.mem_nil_iff, or_false, reduceCtorEq, false_or] at hc
          exact ih1 h.1.2 c hc
      · cases hc; simpa using h.1.1
    · exact ih2 h.2 c hc
  | group p inner rest ih1 ih2 =>
    simp only [fEscFree, Bool.and_eq_true] at h
    intro c hc
    simp only [opsOf, List.mem_append] at hc
    rcases hc with hc | hc
    · rcases mem_codeFmtOps p _ _ hc with hc | hc
      · exact ih1 h.1.2 c hc
      · cases hc; simpa using h.1.1
    · exact ih2 h.2 c hc

/-! ### the sink -/

theorem sgrToks_append (a b : List Tok) : sgrToks (a ++ b) = sgrToks a ++ sgrToks b := by
  induction a with
  | nil => rfl
  | cons t ts ih => cases t <;> simp [sgrToks, ih]

theorem sgrToks_bytes (bs : Bytes) : sgrToks (bs.map Tok.byte) = [] := by
  induction bs with
  | nil => rfl
  | cons b bs ih => simpa [sgrToks] using ih

theorem sgrToks_toksOfOps (colour : Bool) (o : Out) :
    sgrToks (toksOfOps colour o) = if colour then Out.styles o else [] := by
  induction o with
  | nil => cases colour <;> rfl
  | cons x xs ih =>
    cases x with
    | ch c => simp only [toksOfOps, sgrToks_append, sgrToks_bytes, ih]; cases colour <;> simp [Out.styles]
    | style s =>
      cases colour <;> simp [toksOfOps, sgrToks, ih, Out.styles]

theorem sinkN_eq (n : Nat) (kind : WriterKind) (o : Out)
    (h : ∀ s ∈ Out.styles o, setStyleN n s = .ok (sgr s)) :
    sinkN n kind o = .ok (render (toksOfOps kind.isTty o)) := by
  induction o with
  | nil => rfl
  | cons x xs ih =>
    cases x with
    | ch c =>
      have := ih (by intro s hs; exact h s (by simpa [Out.styles] using hs))
      simp [sinkN, this, obind, toksOfOps, render_append, render_bytes]
    | style s =>
      have hs := h s (by simp [Out.styles])
      have := ih (by intro s' hs'; exact h s' (by simp [Out.styles]; exact Or.inr (by simpa [Out.styles] using hs')))
      cases kind <;> simp [sinkN, this, obind, toksOfOps, render, writerSetStyleN, hs, WriterKind.isTty]

theorem utf8Char_ne_esc (c : Char) (hc : c ≠ ESCc) : ∀ b ∈ utf8Char c, b ≠ 27 := by
  have hn : c.toNat ≠ 27 := by
    intro h
    apply hc
    apply Char.ext
    apply UInt32.toNat_inj.mp
    show c.toNat = _
    rw [h]; rfl
  intro b hb
  unfold utf8Char at hb
  simp only at hb
  split at hb
  · simp at hb; omega
  · split at hb
    · simp at hb; omega
    · split at hb
      · simp at hb; omega
      · simp at hb; omega

theorem toksOfOps_bytes (colour : Bool) (o : Out) (h : ∀ c, Op.ch c ∈ o → c ≠ ESCc) :
    ∀ b, Tok.byte b ∈ toksOfOps colour o → b ≠ 27 := by
  induction o with
  | nil => simp [toksOfOps]
  | cons x xs ih =>
    have ih' := ih (fun c hc => h c (List.mem_cons_of_mem _ hc))
    intro b hb
    cases x with
    | ch c =>
      simp only [toksOfOps, List.mem_append, List.mem_map, Tok.byte.injEq, exists_eq_right] at hb
      rcases hb with hb | hb
      · exact utf8Char_ne_esc c (h c (List.mem_cons_self ..)) b hb
      · exact ih' b hb
    | style s =>
      simp only [toksOfOps, List.mem_append] at hb
      rcases hb with hb | hb
      · cases colour <;> simp at hb
      · exact ih' b hb

theorem toksOfOps_sgrs (colour : Bool) (o : Out) :
    ∀ s, Tok.sgr s ∈ toksOfOps colour o → s ∈ Out.styles o := by
  induction o with
  | nil => simp [toksOfOps]
  | cons x xs ih =>
    intro s hs
    cases x with
    | ch c =>
      simp only [toksOfOps, List.mem_append, List.mem_map, reduceCtorEq, and_false, exists_false, false_or] at hs
      simpa [Out.styles] using ih s hs
    | style s' =>
      simp only [toksOfOps, List.mem_append] at hs
      rcases hs with hs | hs
      · cases colour <;> simp at hs
        subst hs; simp [Out.styles]
      · simp only [Out.styles, List.filterMap_cons, List.mem_cons]
        exact Or.inr (ih s hs)

/-! ### the style requests of a pattern -/

theorem specStyles_mem (level : Nat) (f : FChunks) :
    ∀ s ∈ specStyles level f, highlightStyle level = some s ∨ s = Style.plain := by
  induction f with
  | nil => simp [specStyles]
  | text cs rest ih => simpa [specStyles] using ih
  | highlight p inner rest ih1 ih2 =>
    intro s hs
    simp only [specStyles, List.mem_append] at hs
    rcases hs with hs | hs
    · cases hl : highlightStyle level with
      | none => rw [hl] at hs; exact (ih1 s hs).elim (fun h => by rw [hl] at h; cases h) Or.inr
      | some st =>
        rw [hl] at hs
        simp only [List.mem_cons, List.mem_append, List.mem_nil_iff, or_false] at hs
        rcases hs with (hs | hs) | hs
        · exact Or.inl (by rw [hs])
        · rcases ih1 s hs with h | h
          · exact Or.inl (by rw [← hl]; exact h)
          · exact Or.inr h
        · exact Or.inr hs
    · exact ih2 s hs
  | group p inner rest ih1 ih2 =>
    intro s hs
    simp only [specStyles, List.mem_append] at hs
    exact hs.elim (ih1 s) (ih2 s)

theorem highlightStyle_ne_plain (level : Nat) (st : Style) (h : highlightStyle level = some st) :
    st ≠ Style.plain := by
  rcases highlightStyle_cases level with h' | h' | h' | h' | h' <;> rw [h'] at h
  · cases h
  all_goals (cases h; decide)

theorem wellNestedFrom_specStyles (level : Nat) (f : FChunks) :
    ∀ (k : Nat) (r : List Style),
      wellNestedFrom k (specStyles level f ++ r) = wellNestedFrom k r := by
  induction f with
  | nil => intro k r; rfl
  | text cs rest ih => intro k r; simpa [specStyles] using ih k r
  | highlight p inner rest ih1 ih2 =>
    intro k r
    simp only [specStyles, List.append_assoc]
    cases hl : highlightStyle level with
    | none => simp only []; rw [ih1, ih2]
    | some st =>
      have hne := highlightStyle_ne_plain level st hl
      simp only [List.cons_append, List.append_assoc, wellNestedFrom, hne, if_false]
      rw [ih1]
      simp only [List.nil_append, wellNestedFrom, if_true]
      exact ih2 k r
  | group p inner rest ih1 ih2 =>
    intro k r
    simp only [specStyles, List.append_assoc]
    rw [ih1, ih2]

end Log4rs.Console

namespace Log4rs.Console
open Log4rs Log4rs.Console.Spec
open Log4rs.Pattern (Op Out Params codeFmtOps truncOps ofText fills)

/-! ### patterns without parameters: the formatted model is the model of `Model.lean` -/

theorem toksOfOps_append (colour : Bool) (a b : Out) :
    toksOfOps colour (a ++ b) = toksOfOps colour a ++ toksOfOps colour b := by
  induction a with
  | nil => rfl
  | cons x xs ih => cases x <;> simp [toksOfOps, ih]

theorem toksOfOps_ofText (colour : Bool) (cs : List Char) :
    toksOfOps colour (ofText cs) = (utf8 cs).map Tok.byte := by
  induction cs with
  | nil => rfl
  | cons c cs ih =>
    simp only [ofText, List.map_cons, toksOfOps] at ih ⊢
    rw [ih, utf8_cons, List.map_append]

theorem codeFmtOps_unformatted (p : Params) (o : Out) (h1 : p.minW = none) (h2 : p.maxW = none) :
    codeFmtOps p o = o := by
  simp [codeFmtOps, h1, h2]

theorem specToks_append (colour : Bool) (level : Nat) (a b : Chunks) :
    specToks colour level (Chunks.append a b) = specToks colour level a ++ specToks colour level b := by
  induction a with
  | nil => rfl
  | text bs r ih => simp [Chunks.append, specToks, ih]
  | highlight i r _ ih =>
    simp only [Chunks.append, specToks, ih]
    split <;> simp

theorem toksOfOps_unformatted (colour : Bool) (level : Nat) (f : FChunks) (h : f.unformatted = true) :
    toksOfOps colour (opsOf level f) = specToks colour level f.erase := by
  induction f with
  | nil => rfl
  | text cs rest ih =>
    simp only [FChunks.unformatted] at h
    simp [opsOf, FChunks.erase, specToks, toksOfOps_append, toksOfOps_ofText, ih h]
  | highlight p inner rest ih1 ih2 =>
    simp only [FChunks.unformatted, Bool.and_eq_true, Option.isNone_iff_eq_none] at h
    obtain ⟨⟨⟨h1, h2⟩, h3⟩, h4⟩ := h
    simp only [opsOf, FChunks.erase, specToks, toksOfOps_append, codeFmtOps_unformatted p _ h1 h2,
      ih2 h4, wrapHighlight]
    cases hl : highlightStyle level with
    | none => cases colour <;> simp [ih1 h3]
    | some st =>
      cases colour <;>
        simp [toksOfOps, toksOfOps_append, ih1 h3]
  | group p inner rest ih1 ih2 =>
    simp only [FChunks.unformatted, Bool.and_eq_true, Option.isNone_iff_eq_none] at h
    obtain ⟨⟨⟨h1, h2⟩, h3⟩, h4⟩ := h
    simp [opsOf, FChunks.erase, specToks_append, toksOfOps_append, codeFmtOps_unformatted p _ h1 h2,
      ih1 h3, ih2 h4]

end Log4rs.Console

namespace Log4rs.Console
open Log4rs Log4rs.Console.Spec
open Log4rs.Pattern (Op Out Params codeFmtOps truncOps ofText fills)

/-! ### the writer stack against the width law on streams (`fmtSpecOps`) -/

theorem cutOps_eq_truncOps (M : Nat) (o : Out) : cutOps M o = truncOps M o := by
  induction o generalizing M with
  | nil => cases M <;> rfl
  | cons x xs ih =>
    cases x with
    | style s => cases M <;> simp [cutOps, truncOps, ih]
    | ch c => cases M <;> simp [cutOps, truncOps, ih]

theorem truncOps_append (M : Nat) (a b : Out) :
    truncOps M (a ++ b) = truncOps M a ++ truncOps (M - (Out.text a).length) b := by
  induction a generalizing M with
  | nil => simp [truncOps, Out.text]
  | cons x xs ih =>
    cases x with
    | style s =>
      cases M <;> simp [truncOps, ih, Pattern.text_cons_style]
    | ch c =>
      cases M with
      | zero => simp [truncOps, ih, Pattern.text_cons_ch]
      | succ M =>
        simp only [List.cons_append, truncOps, ih, Pattern.text_cons_ch, List.length_cons]
        congr 3
        omega

theorem truncOps_of_le (M : Nat) (o : Out) (h : (Out.text o).length ≤ M) : truncOps M o = o := by
  induction o generalizing M with
  | nil => cases M <;> rfl
  | cons x xs ih =>
    cases x with
    | style s =>
      rw [Pattern.text_cons_style] at h
      cases M <;> simp [truncOps, ih _ h]
    | ch c =>
      rw [Pattern.text_cons_ch] at h
      cases M with
      | zero => simp at h
      | succ M => simp only [truncOps]; rw [ih M (by simpa using h)]

theorem truncOps_ofText (M : Nat) (cs : List Char) : truncOps M (ofText cs) = ofText (cs.take M) := by
  have := Pattern.truncOps_ofText_append M cs []
  simpa [truncOps] using this

theorem truncOps_zero_text (o : Out) : Out.text (truncOps 0 o) = [] := by
  rw [Pattern.text_truncOps]; rfl

theorem length_fills (c : Char) (n : Nat) : (fills c n).length = n := by simp [fills]

/-- For parameters with `m ≤ M` the writer stack (pad the uncut stream, then let the first M
characters through) is the statement's law (cut, then pad the cut text), position by position,
style requests included. -/
theorem codeFmtOps_eq_fmtSpecOps (p : Params) (o : Out) (h : paramsOrdered p = true) :
    codeFmtOps p o = fmtSpecOps p o := by
  unfold codeFmtOps fmtSpecOps
  unfold paramsOrdered at h
  cases hm : p.minW with
  | none => cases hM : p.maxW <;> simp [cutOps_eq_truncOps]
  | some m =>
    cases hM : p.maxW with
    | none => simp
    | some M =>
      simp only [hm, hM, decide_eq_true_eq] at h
      simp only [cutOps_eq_truncOps, Pattern.text_truncOps, List.length_take]
      by_cases hn : (Out.text o).length ≤ M
      · -- everything fits: nothing is cut, the padding is complete
        have hmin : min M (Out.text o).length = (Out.text o).length := by omega
        cases hr : p.right
        · simp only [Bool.false_eq_true, if_false, hmin]
          rw [truncOps_append, truncOps_of_le M o hn, truncOps_ofText]
          congr 2
          rw [List.take_of_length_le]
          rw [length_fills]; omega
        · simp only [if_true, hmin]
          rw [truncOps_of_le M o hn, truncOps_append, truncOps_ofText, Pattern.text_ofText, length_fills,
            truncOps_of_le _ o (by omega)]
          congr 2
          rw [List.take_of_length_le]
          rw [length_fills]; omega
      · -- the content alone exceeds M ≥ m: there is no padding on either side
        have hmin : min M (Out.text o).length = M := by omega
        have h1 : m - (Out.text o).length = 0 := by omega
        have h2 : m - M = 0 := by omega
        cases hr : p.right <;> simp [hmin, h1, h2, fills, ofText]

theorem wrapHighlight_eq_specWrap (level : Nat) (o : Out) : wrapHighlight level o = specWrap level o := by
  unfold wrapHighlight specWrap
  cases highlightStyle level <;> simp

/-- For `ordered` patterns the operations that reach the sink are the specified ones. -/
theorem opsOf_eq_specOps (level : Nat) (f : FChunks) (h : fOrdered f = true) :
    opsOf level f = specOps level f := by
  induction f with
  | nil => rfl
  | text cs rest ih =>
    simp only [fOrdered] at h
    simp [opsOf, specOps, ih h]
  | highlight p inner rest ih1 ih2 =>
    simp only [fOrdered, Bool.and_eq_true] at h
    simp [opsOf, specOps, ih1 h.1.2, ih2 h.2, codeFmtOps_eq_fmtSpecOps p _ h.1.1, wrapHighlight_eq_specWrap]
  | group p inner rest ih1 ih2 =>
    simp only [fOrdered, Bool.and_eq_true] at h
    simp [opsOf, specOps, ih1 h.1.2, ih2 h.2, codeFmtOps_eq_fmtSpecOps p _ h.1.1]

/-! ### the shape of one highlighted group under ARBITRARY parameters -/

theorem truncOps_sublist (M : Nat) (o : Out) : (truncOps M o).Sublist o := by
  induction o generalizing M with
  | nil => cases M <;> simp [truncOps]
  | cons x xs ih =>
    cases x with
    | style s => cases M <;> simp only [truncOps] <;> exact (ih _).cons_cons _
    | ch c =>
      cases M with
      | zero => simp only [truncOps]; exact (ih 0).cons _
      | succ M => simp only [truncOps]; exact (ih M).cons_cons _

theorem fills_all (c : Char) (n : Nat) : ∀ x ∈ fills c n, x = c := by
  intro x hx; simp [fills, List.mem_replicate] at hx; exact hx.2

theorem take_fills_all (c : Char) (n k : Nat) : ∀ x ∈ (fills c n).take k, x = c :=
  fun x hx => fills_all c n x (List.mem_of_mem_take hx)

/-- `truncOps` of a bracketed stream: fill characters, the opening style, a cut of the content,
the reset, fill characters -/
theorem truncOps_bracket (M : Nat) (pre post : List Char) (st : Style) (x : Out) :
    truncOps M (ofText pre ++ (Op.style st :: x ++ [Op.style Style.plain]) ++ ofText post) =
      ofText (pre.take M) ++ (Op.style st :: truncOps (M - pre.length) x ++
        Op.style Style.plain :: ofText (post.take (M - pre.length - (Out.text x).length))) := by
  rw [List.append_assoc, Pattern.truncOps_ofText_append]
  congr 1
  simp only [List.cons_append, truncOps]
  cases hM : M - pre.length <;>
    simp only [truncOps, truncOps_append, List.append_assoc, List.cons_append, List.nil_append,
      truncOps_ofText, Out.text] <;> rfl

end Log4rs.Console

namespace Log4rs.Console
open Log4rs Log4rs.Console.Spec
open Log4rs.Pattern (Op Out Params codeFmtOps truncOps ofText fills)

theorem styles_truncOps (M : Nat) (o : Out) : Out.styles (truncOps M o) = Out.styles o := by
  have := Pattern.C10_styles_preserved { maxW := some M } o
  simpa [codeFmtOps] using this

theorem mem_sgrToks (toks : List Tok) (s : Style) (h : Tok.sgr s ∈ toks) : s ∈ sgrToks toks := by
  induction toks with
  | nil => cases h
  | cons t ts ih =>
    cases t with
    | byte b =>
      simp only [List.mem_cons, reduceCtorEq, false_or] at h
      exact ih h
    | sgr s' =>
      simp only [List.mem_cons, Tok.sgr.injEq] at h
      simp only [sgrToks, List.mem_cons]
      exact h.elim Or.inl (fun h => Or.inr (ih h))

theorem render_no_esc (toks : List Tok) (hb : ∀ b, Tok.byte b ∈ toks → b ≠ 27)
    (hs : ∀ s, Tok.sgr s ∈ toks → False) : ∀ b ∈ render toks, b ≠ 27 := by
  induction toks with
  | nil => simp [render]
  | cons t ts ih =>
    have ih' := ih (fun b h => hb b (List.mem_cons_of_mem _ h)) (fun s h => hs s (List.mem_cons_of_mem _ h))
    cases t with
    | byte x =>
      intro b hbm
      simp only [render, List.mem_cons] at hbm
      rcases hbm with hbm | hbm
      · subst hbm; exact hb b (List.mem_cons_self ..)
      · exact ih' b hbm
    | sgr s => exact absurd (List.mem_cons_self ..) (fun h => hs s h)

theorem literalBytes_toksOfOps (colour : Bool) (o : Out) :
    literalBytes (toksOfOps colour o) = utf8 (Out.text o) := by
  induction o with
  | nil => rfl
  | cons x xs ih =>
    cases x with
    | ch c =>
      simp only [toksOfOps, literalBytes_append, literalBytes_bytes, ih, Pattern.text_cons_ch, utf8_cons]
    | style s =>
      cases colour <;> simp [toksOfOps, literalBytes, ih, Pattern.text_cons_style]

end Log4rs.Console
