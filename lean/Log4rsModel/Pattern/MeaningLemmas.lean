import Log4rsModel.Pattern.RoundTripLemmas4
import Log4rsModel.Pattern.WritersLemmas3
/-
C09, meaning side: compiling and encoding the pieces `piecesOf` of an AST gives the same outcome as
encoding its direct translation `chunksOf`; the text of `chunksOf` is the denotation `denotePats`,
its style calls are `stylesPats`, and the date formats it renders are `datesPats`.
-/
namespace Log4rs.Pattern.Parse

theorem compileL_append (B : Build) : ∀ (a b : List Piece), compileL B (a ++ b) = compileL B a ++ compileL B b
  | [], b => by rw [compileL_nil]; rfl
  | x :: a, b => by
    rw [List.cons_append, compileL_cons, compileL_cons, compileL_append B a b]; rfl

theorem seqOut_ok_nil (x : Outcome Unit Out) : seqOut (.ok []) x = x := by
  cases x <;> simp [seqOut]

theorem seqOut_ok_ok (a b : Out) : seqOut (.ok a) (.ok b) = .ok (a ++ b) := rfl

theorem seqOut_ok_append (a b : Out) (x : Outcome Unit Out) :
    seqOut (.ok (a ++ b)) x = seqOut (.ok a) (seqOut (.ok b) x) := by
  cases x <;> simp [seqOut]

theorem ofText_append' (a b : List Char) : ofText (a ++ b) = ofText a ++ ofText b := by
  simp [ofText]

theorem encChunk_text (env : Env) (r : Record) (s : List Char) : encChunk env r (.text s) = .ok (ofText s) := by
  rw [encChunk]

/-- pending text in front of pieces -/
theorem flush_meaning (B : Build) (env : Env) (r : Record) (pre : List Char) (X : List Piece) :
    encList env r (compileL B (flushText pre ++ X)) =
      seqOut (.ok (ofText pre)) (encList env r (compileL B X)) := by
  cases pre with
  | nil => simp [flushText, ofText, seqOut_ok_nil]
  | cons c t =>
    simp only [flushText, List.cons_append, List.nil_append]
    rw [compileL_cons, compile_text, encList_cons, encChunk_text]

theorem encChunk_group_congr (env : Env) (r : Record) (k : GroupKind) (cs cs' : List Chunk) (p : Params)
    (h : encList env r cs = encList env r cs') :
    encChunk env r (.group k cs p) = encChunk env r (.group k cs' p) := by
  cases k <;> simp only [encChunk, h]

/-! the formatter table on the documented names -/

theorem compile_leafName (B : Build) (k : LeafKind) (long : Bool) (p : Params) :
    compile B (.arg (leafName k long) [] p) = .leaf k.leaf p := by
  rw [compile_arg]
  cases k <;> cases long <;> rfl

theorem compile_groupName (B : Build) (k : GroupKind) (long : Bool) (a : List Piece) (p : Params) :
    compile B (.arg (groupName k long) [a] p) = .group k (compileL B a) p := by
  rw [compile_arg]
  cases k <;> cases long <;> rfl

theorem dateFormatOf_flush (pre : List Char) (X : List Piece) :
    dateFormatOf (flushText pre ++ X) = pre ++ dateFormatOf X := by
  cases pre <;> simp [flushText, dateFormatOf]

theorem dateFormatOf_litPieces : ∀ (ls : List Lit) (pre : List Char),
    dateFormatOf (litPieces pre ls) = pre ++ litChars ls
  | [], pre => by
    simpa [litPieces, litChars, dateFormatOf] using dateFormatOf_flush pre []
  | l :: ls, pre => by
    by_cases he : l.esc = .plain
    · simp [litPieces, he, dateFormatOf_litPieces ls (pre ++ [l.c]), litChars]
    · simp [litPieces, he, dateFormatOf_flush, dateFormatOf, dateFormatOf_litPieces ls [], litChars]

theorem dateFormatArg_pieces (args : Option (List Lit × Option Bool)) :
    dateFormatArg (dateArgPieces args) = (dateRequest args).1 := by
  cases args with
  | none => rfl
  | some fz =>
    obtain ⟨f, z⟩ := fz
    cases z <;> simp [dateArgPieces, dateFormatArg, dateRequest, dateFormatOf_litPieces]

theorem compile_date (B : Build) (long : Bool) (args : Option (List Lit × Option Bool))
    (spec : Option FormatSpec) :
    compile B (.arg (dateName long) (dateArgPieces args) (paramsOf spec)) = dateChunkOf B args spec := by
  rw [compile_arg]
  have hn : (dateName long = cs!"d" || dateName long = cs!"date") = true := by cases long <;> rfl
  rw [if_pos hn]
  have hlen : ¬ (dateArgPieces args).length > 2 := by
    cases args with
    | none => simp [dateArgPieces]
    | some fz => obtain ⟨f, z⟩ := fz; cases z <;> simp [dateArgPieces, zonePieces]
  unfold dateChunk dateChunkOf
  simp only [hlen, if_false, dateFormatArg_pieces]
  split
  · rfl
  · cases args with
    | none => simp [dateArgPieces, dateRequest]
    | some fz =>
      obtain ⟨f, z⟩ := fz
      cases z with
      | none => simp [dateArgPieces, zonePieces, dateRequest]
      | some z =>
        cases z <;> cases hB : B.tzWholeArg <;>
          simp [dateArgPieces, zonePieces, dateRequest, tzOf, hB, timezoneOf, timezoneOfWhole, plainTextOf,
            plainTextLoop, zoneName]

theorem plainTextLoop_flush (inv pre : List Char) (X : List Piece) :
    plainTextLoop inv (flushText pre ++ X) =
      match plainTextLoop inv X with
      | .ok rest => .ok (pre ++ rest)
      | .error e => .error e := by
  cases pre with
  | nil => simp [flushText]; cases plainTextLoop inv X <;> rfl
  | cons c t => simp [flushText, plainTextLoop]; cases plainTextLoop inv X <;> rfl

theorem plainTextLoop_litPieces (inv : List Char) : ∀ (ls : List Lit) (pre : List Char),
    plainTextLoop inv (litPieces pre ls) = .ok (pre ++ litChars ls)
  | [], pre => by
    have := plainTextLoop_flush inv pre []
    simpa [litPieces, litChars, plainTextLoop] using this
  | l :: ls, pre => by
    by_cases he : l.esc = .plain
    · simp [litPieces, he, plainTextLoop_litPieces inv ls (pre ++ [l.c]), litChars]
    · simp [litPieces, he, plainTextLoop_flush, plainTextLoop, plainTextLoop_litPieces inv ls [], litChars]

theorem litPieces_ne_nil : ∀ (ls : List Lit) (pre : List Char), (pre ≠ [] ∨ ls ≠ []) → litPieces pre ls ≠ []
  | [], pre, h => by
    rcases h with h | h
    · cases pre with
      | nil => exact absurd rfl h
      | cons c t => simp [litPieces, flushText]
    · exact absurd rfl h
  | l :: ls, pre, _ => by
    by_cases he : l.esc = .plain
    · simp only [litPieces, he, if_true]
      exact litPieces_ne_nil ls (pre ++ [l.c]) (Or.inl (by simp))
    · simp [litPieces, he]

/-- the repaired `plain_text` on the pieces of printed literal text: the whole text -/
theorem plainTextOf_litPieces (inv : List Char) (ls : List Lit) (hne : ls.isEmpty = false) :
    plainTextOf inv (litPieces [] ls) = .ok (litChars ls) := by
  have hnn : litPieces [] ls ≠ [] := litPieces_ne_nil ls [] (Or.inr (by intro h; subst h; simp at hne))
  unfold plainTextOf
  split
  · rename_i h; exact absurd h hnn
  · simpa using plainTextLoop_litPieces inv ls []

/-- … and with the repair of `C09/mdc-empty-argument` also of an empty one -/
theorem mdcArg_litPieces (B : Build) (hB : B.mdcWhole = true) (hE : B.mdcEmptyOk = true) (inv : List Char)
    (ls : List Lit) : mdcArg B inv (litPieces [] ls) = .ok (litChars ls) := by
  cases ls with
  | nil => simp [mdcArg, hE, litPieces, flushText, litChars]
  | cons l ls =>
    have hnn : litPieces [] (l :: ls) ≠ [] := litPieces_ne_nil (l :: ls) [] (Or.inr (by simp))
    have hne : (litPieces [] (l :: ls)).isEmpty = false := by
      cases h : litPieces [] (l :: ls) with
      | nil => exact absurd h hnn
      | cons a b => rfl
    simp only [mdcArg, hne, Bool.and_false, Bool.false_eq_true, if_false, mdcArgText, hB, if_true]
    exact plainTextOf_litPieces inv (l :: ls) rfl

theorem compile_mdc (B : Build) (hB : B.mdcWhole = true) (hE : B.mdcEmptyOk = true) (long : Bool) (key : List Lit)
    (dflt : Option (List Lit)) (p : Params) :
    compile B (.arg (mdcName long) (litPieces [] key :: dfltPieces dflt) p) =
      .leaf (.mdc (litChars key) (dfltChars dflt)) p := by
  rw [compile_arg]
  have h1 : (mdcName long = cs!"d" || mdcName long = cs!"date") = false := by cases long <;> rfl
  have h2 : groupOfName (mdcName long) = none := by cases long <;> rfl
  have h3 : leafOfName (mdcName long) = none := by cases long <;> rfl
  have h4 : (mdcName long = cs!"X" || mdcName long = cs!"mdc") = true := by cases long <;> rfl
  simp only [h1, h2, h3, h4, if_true, Bool.false_eq_true, if_false]
  cases dflt with
  | none => simp [dfltPieces, mdcChunk, mdcArg_litPieces B hB hE, dfltChars]
  | some d =>
    simp [dfltPieces, mdcChunk, mdcArg_litPieces B hB hE, dfltChars]

theorem chunkOf_lit (B : Build) (l : Lit) : chunkOf B (.lit l) = .text [l.c] := by rw [chunkOf]
theorem chunkOf_leaf (B : Build) (k long spec) :
    chunkOf B (.leaf k long spec) = .leaf k.leaf (paramsOf spec) := by
  rw [chunkOf]
theorem chunkOf_date (B : Build) (long args spec) :
    chunkOf B (.date long args spec) = dateChunkOf B args spec := by
  rw [chunkOf]
theorem chunkOf_mdc (B : Build) (long key dflt spec) :
    chunkOf B (.mdc long key dflt spec) = .leaf (.mdc (litChars key) (dfltChars dflt)) (paramsOf spec) := by
  rw [chunkOf]
theorem chunkOf_group (B : Build) (k long body spec) :
    chunkOf B (.group k long body spec) = .group k (chunksOf B body) (paramsOf spec) := by rw [chunkOf]
theorem chunksOf_nil (B : Build) : chunksOf B [] = [] := by rw [chunksOf]
theorem chunksOf_cons (B : Build) (p : Pat) (ps : List Pat) :
    chunksOf B (p :: ps) = chunkOf B p :: chunksOf B ps := by
  rw [chunksOf]

mutual
/-- compiling the piece of an escape / formatter encodes like its direct translation -/
theorem compile_pieceOf (B : Build) (hB : B.mdcWhole = true) (hE : B.mdcEmptyOk = true) (bits : Nat) (env : Env) (r : Record) :
    ∀ (p : Pat) (inArg : Bool), wfPat bits inArg p = true → plainChar p = none →
      encChunk env r (compile B (pieceOf p)) = encChunk env r (chunkOf B p)
  | .lit l, _, _, _ => by rw [pieceOf_lit, compile_text, chunkOf_lit]
  | .leaf k long spec, _, _, _ => by rw [pieceOf_leaf, compile_leafName, chunkOf_leaf]
  | .date long args spec, _, _, _ => by rw [pieceOf_date, compile_date, chunkOf_date]
  | .mdc long key dflt spec, inArg, _, _ => by
    rw [pieceOf_mdc, chunkOf_mdc, compile_mdc B hB hE long key dflt _]
  | .group k long body spec, inArg, hwf, _ => by
    rw [wfPat_group] at hwf
    simp only [Bool.and_eq_true] at hwf
    rw [pieceOf_group, compile_groupName, chunkOf_group]
    apply encChunk_group_congr
    have := meaning_piecesOf B hB hE bits env r body true hwf.1 []
    rw [this]
    simp [ofText, seqOut_ok_nil]
/-- … and so do the pieces of a pattern list (pending text `pre` first) -/
theorem meaning_piecesOf (B : Build) (hB : B.mdcWhole = true) (hE : B.mdcEmptyOk = true) (bits : Nat) (env : Env) (r : Record) :
    ∀ (ps : List Pat) (inArg : Bool), wfPats bits inArg ps = true → ∀ pre : List Char,
      encList env r (compileL B (piecesOf pre ps)) =
        seqOut (.ok (ofText pre)) (encList env r (chunksOf B ps))
  | [], _, _, pre => by
    rw [piecesOf_nil, chunksOf_nil]
    have := flush_meaning B env r pre []
    simpa [compileL_nil] using this
  | p :: ps, inArg, hwf, pre => by
    rw [wfPats_cons] at hwf
    simp only [Bool.and_eq_true] at hwf
    rw [piecesOf_cons, chunksOf_cons, encList_cons]
    cases hpc : plainChar p with
    | some c =>
      obtain ⟨l, hl, _, hc⟩ := plainChar_some hpc
      subst hl
      simp only []
      rw [meaning_piecesOf B hB hE bits env r ps inArg hwf.2 (pre ++ [c]), chunkOf_lit, encChunk_text, hc,
        ofText_append', seqOut_ok_append]
    | none =>
      simp only []
      rw [flush_meaning, compileL_cons, encList_cons, compile_pieceOf B hB hE bits env r p inArg hwf.1 hpc,
        meaning_piecesOf B hB hE bits env r ps inArg hwf.2 []]
      simp [ofText, seqOut_ok_nil]
end

end Log4rs.Pattern.Parse
