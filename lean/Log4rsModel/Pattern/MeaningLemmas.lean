import Log4rsModel.Pattern.RoundTripLemmas4
import Log4rsModel.Pattern.WritersLemmas3
/-
C09, meaning side: compiling and encoding the pieces `piecesOf` of an AST gives the same outcome as
encoding its direct translation `chunksOf`; the text of `chunksOf` is the denotation `denotePats`,
its style calls are `stylesPats`, and the date formats it renders are `datesPats`.
-/
namespace Log4rs.Pattern.Parse

theorem compileL_append : ∀ (a b : List Piece), compileL (a ++ b) = compileL a ++ compileL b
  | [], b => by rw [compileL_nil]; rfl
  | x :: a, b => by
    rw [List.cons_append, compileL_cons, compileL_cons, compileL_append a b]; rfl

theorem seqOut_ok_nil (x : Outcome Unit Out) : seqOut (.ok []) x = x := by
  cases x <;> simp [seqOut]

theorem seqOut_ok_ok (a b : Out) : seqOut (.ok a) (.ok b) = .ok (a ++ b) := rfl

theorem seqOut_ok_append (a b : Out) (x : Outcome Unit Out) :
    seqOut (.ok (a ++ b)) x = seqOut (.ok a) (seqOut (.ok b) x) := by
  cases x <;> simp [seqOut]

theorem ofText_append' (a b : List Char) : ofText (a ++ b) = ofText a ++ ofText b := by
  simp [ofText]

theorem encChunk_text (env : Env) (r : Record) (s : List Char) : encChunk env r (.text s) = .ok (ofText s) := by
  rw [encChunk]

/-- pending text in front of pieces -/
theorem flush_meaning (env : Env) (r : Record) (pre : List Char) (X : List Piece) :
    encList env r (compileL (flushText pre ++ X)) =
      seqOut (.ok (ofText pre)) (encList env r (compileL X)) := by
  cases pre with
  | nil => simp [flushText, ofText, seqOut_ok_nil]
  | cons c t =>
    simp only [flushText, List.cons_append, List.nil_append]
    rw [compileL_cons, compile_text, encList_cons, encChunk_text]

theorem encChunk_group_congr (env : Env) (r : Record) (k : GroupKind) (cs cs' : List Chunk) (p : Params)
    (h : encList env r cs = encList env r cs') :
    encChunk env r (.group k cs p) = encChunk env r (.group k cs' p) := by
  cases k <;> simp only [encChunk, h]

/-! the formatter table on the documented names -/

theorem compile_leafName (k : LeafKind) (long : Bool) (p : Params) :
    compile (.arg (leafName k long) [] p) = .leaf k.leaf p := by
  rw [compile_arg]
  cases k <;> cases long <;> rfl

theorem compile_groupName (k : GroupKind) (long : Bool) (a : List Piece) (p : Params) :
    compile (.arg (groupName k long) [a] p) = .group k (compileL a) p := by
  rw [compile_arg]
  cases k <;> cases long <;> rfl

theorem dateFormatOf_flush (pre : List Char) (X : List Piece) :
    dateFormatOf (flushText pre ++ X) = pre ++ dateFormatOf X := by
  cases pre <;> simp [flushText, dateFormatOf]

theorem dateFormatOf_litPieces : ∀ (ls : List Lit) (pre : List Char),
    dateFormatOf (litPieces pre ls) = pre ++ litChars ls
  | [], pre => by
    simpa [litPieces, litChars, dateFormatOf] using dateFormatOf_flush pre []
  | l :: ls, pre => by
    by_cases he : l.esc = .plain
    · simp [litPieces, he, dateFormatOf_litPieces ls (pre ++ [l.c]), litChars]
    · simp [litPieces, he, dateFormatOf_flush, dateFormatOf, dateFormatOf_litPieces ls [], litChars]

theorem compile_date (long : Bool) (args : Option (List Lit × Option Bool)) (p : Params) :
    compile (.arg (dateName long) (dateArgPieces args) p) =
      .leaf (.time (dateRequest args).1 (dateRequest args).2) p := by
  rw [compile_arg]
  have hn : (dateName long = cs!"d" || dateName long = cs!"date") = true := by cases long <;> rfl
  rw [if_pos hn]
  cases args with
  | none => simp [dateArgPieces, dateChunk, dateRequest]
  | some fz =>
    obtain ⟨f, z⟩ := fz
    cases z with
    | none =>
      simp [dateArgPieces, zonePieces, dateChunk, dateRequest, dateFormatOf_litPieces]
    | some z =>
      cases z <;>
        simp [dateArgPieces, zonePieces, dateChunk, dateRequest, dateFormatOf_litPieces, timezoneOf, zoneName]

theorem litPieces_plain : ∀ (ls : List Lit) (pre : List Char), ls.all plainLit = true →
    litPieces pre ls = flushText (pre ++ litChars ls)
  | [], pre, _ => by simp [litPieces, litChars]
  | l :: ls, pre, h => by
    simp only [List.all_cons, Bool.and_eq_true] at h
    have he : l.esc = .plain := by
      have := h.1
      simp only [plainLit, Bool.and_eq_true, beq_iff_eq] at this
      exact this.2
    simp [litPieces, he, litPieces_plain ls (pre ++ [l.c]) h.2, litChars]

theorem litPieces_plain_nonempty (ls : List Lit) (h : ls.all plainLit = true) (hne : ls.isEmpty = false) :
    litPieces [] ls = [.text (litChars ls)] := by
  rw [litPieces_plain ls [] h]
  cases ls with
  | nil => simp at hne
  | cons l ls => simp [flushText, litChars]

theorem compile_mdc (long : Bool) (key : List Lit) (dflt : Option (List Lit)) (p : Params)
    (hk : key.all plainLit = true) (hkne : key.isEmpty = false)
    (hd : ∀ d, dflt = some d → d.all plainLit = true ∧ d.isEmpty = false) :
    compile (.arg (mdcName long) (litPieces [] key :: dfltPieces dflt) p) =
      .leaf (.mdc (litChars key) (dfltChars dflt)) p := by
  rw [compile_arg]
  have h1 : (mdcName long = cs!"d" || mdcName long = cs!"date") = false := by cases long <;> rfl
  have h2 : groupOfName (mdcName long) = none := by cases long <;> rfl
  have h3 : leafOfName (mdcName long) = none := by cases long <;> rfl
  have h4 : (mdcName long = cs!"X" || mdcName long = cs!"mdc") = true := by cases long <;> rfl
  simp only [h1, h2, h3, h4, if_true, Bool.false_eq_true, if_false]
  rw [litPieces_plain_nonempty key hk hkne]
  cases dflt with
  | none => simp [dfltPieces, mdcChunk, mdcTextOf, dfltChars]
  | some d =>
    obtain ⟨hd1, hd2⟩ := hd d rfl
    simp [dfltPieces, mdcChunk, mdcTextOf, dfltChars, litPieces_plain_nonempty d hd1 hd2]

theorem chunkOf_lit (l : Lit) : chunkOf (.lit l) = .text [l.c] := by rw [chunkOf]
theorem chunkOf_leaf (k long spec) : chunkOf (.leaf k long spec) = .leaf k.leaf (paramsOf spec) := by
  rw [chunkOf]
theorem chunkOf_date (long args spec) :
    chunkOf (.date long args spec) = .leaf (.time (dateRequest args).1 (dateRequest args).2) (paramsOf spec) := by
  rw [chunkOf]
theorem chunkOf_mdc (long key dflt spec) :
    chunkOf (.mdc long key dflt spec) = .leaf (.mdc (litChars key) (dfltChars dflt)) (paramsOf spec) := by
  rw [chunkOf]
theorem chunkOf_group (k long body spec) :
    chunkOf (.group k long body spec) = .group k (chunksOf body) (paramsOf spec) := by rw [chunkOf]
theorem chunksOf_nil : chunksOf [] = [] := by rw [chunksOf]
theorem chunksOf_cons (p : Pat) (ps : List Pat) : chunksOf (p :: ps) = chunkOf p :: chunksOf ps := by
  rw [chunksOf]

mutual
/-- compiling the piece of an escape / formatter encodes like its direct translation -/
theorem compile_pieceOf (bits : Nat) (env : Env) (r : Record) :
    ∀ (p : Pat) (inArg : Bool), wfPat bits inArg p = true → plainChar p = none →
      encChunk env r (compile (pieceOf p)) = encChunk env r (chunkOf p)
  | .lit l, _, _, _ => by rw [pieceOf_lit, compile_text, chunkOf_lit]
  | .leaf k long spec, _, _, _ => by rw [pieceOf_leaf, compile_leafName, chunkOf_leaf]
  | .date long args spec, _, _, _ => by rw [pieceOf_date, compile_date, chunkOf_date]
  | .mdc long key dflt spec, inArg, hwf, _ => by
    rw [wfPat_mdc] at hwf
    simp only [Bool.and_eq_true, Bool.not_eq_true'] at hwf
    obtain ⟨⟨⟨hkne, hk⟩, hd⟩, _⟩ := hwf
    rw [pieceOf_mdc, chunkOf_mdc, compile_mdc long key dflt _ hk hkne]
    intro d hdd
    subst hdd
    simp only [Bool.and_eq_true, Bool.not_eq_true'] at hd
    exact ⟨hd.2, hd.1⟩
  | .group k long body spec, inArg, hwf, _ => by
    rw [wfPat_group] at hwf
    simp only [Bool.and_eq_true] at hwf
    rw [pieceOf_group, compile_groupName, chunkOf_group]
    apply encChunk_group_congr
    have := meaning_piecesOf bits env r body true hwf.1 []
    rw [this]
    simp [ofText, seqOut_ok_nil]
/-- … and so do the pieces of a pattern list (pending text `pre` first) -/
theorem meaning_piecesOf (bits : Nat) (env : Env) (r : Record) :
    ∀ (ps : List Pat) (inArg : Bool), wfPats bits inArg ps = true → ∀ pre : List Char,
      encList env r (compileL (piecesOf pre ps)) =
        seqOut (.ok (ofText pre)) (encList env r (chunksOf ps))
  | [], _, _, pre => by
    rw [piecesOf_nil, chunksOf_nil]
    have := flush_meaning env r pre []
    simpa [compileL_nil] using this
  | p :: ps, inArg, hwf, pre => by
    rw [wfPats_cons] at hwf
    simp only [Bool.and_eq_true] at hwf
    rw [piecesOf_cons, chunksOf_cons, encList_cons]
    cases hpc : plainChar p with
    | some c =>
      obtain ⟨l, hl, _, hc⟩ := plainChar_some hpc
      subst hl
      simp only []
      rw [meaning_piecesOf bits env r ps inArg hwf.2 (pre ++ [c]), chunkOf_lit, encChunk_text, hc,
        ofText_append', seqOut_ok_append]
    | none =>
      simp only []
      rw [flush_meaning, compileL_cons, encList_cons, compile_pieceOf bits env r p inArg hwf.1 hpc,
        meaning_piecesOf bits env r ps inArg hwf.2 []]
      simp [ofText, seqOut_ok_nil]
end

end Log4rs.Pattern.Parse
