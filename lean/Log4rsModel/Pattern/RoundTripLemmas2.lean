import Log4rsModel.Pattern.RoundTripLemmas
/-
Parser round trip for C09, part II: the pieces the parser produces on a printed AST, as a function
of the AST (`pieceOf`, `piecesOf` — adjacent ordinary characters merge into one `Text` piece), and
the proof by mutual induction over the nested AST that the parser produces exactly these.
-/
namespace Log4rs.Pattern.Parse

/-- pending ordinary text becomes one `Text` piece -/
def flushText : List Char → List Piece
  | [] => []
  | c :: t => [.text (c :: t)]

/-- pieces of literal text (pending ordinary characters in `pre`) -/
def litPieces : List Char → List Lit → List Piece
  | pre, [] => flushText pre
  | pre, l :: ls =>
    if l.esc = .plain then litPieces (pre ++ [l.c]) ls
    else flushText pre ++ .text [l.c] :: litPieces [] ls

/-- an ordinary character written as itself (it merges with its neighbours) -/
def plainChar : Pat → Option Char
  | .lit l => if l.esc = .plain then some l.c else none
  | _ => none

def zonePieces : Option Bool → List (List Piece)
  | none => []
  | some z => [[.text (zoneName z)]]

def dateArgPieces : Option (List Lit × Option Bool) → List (List Piece)
  | none => []
  | some (f, z) => litPieces [] f :: zonePieces z

def dfltPieces : Option (List Lit) → List (List Piece)
  | none => []
  | some d => [litPieces [] d]

mutual
/-- the piece `next` produces for an escape or a formatter -/
def pieceOf : Pat → Piece
  | .lit l => .text [l.c]
  | .leaf k long spec => .arg (leafName k long) [] (paramsOf spec)
  | .date long args spec => .arg (dateName long) (dateArgPieces args) (paramsOf spec)
  | .mdc long key dflt spec => .arg (mdcName long) (litPieces [] key :: dfltPieces dflt) (paramsOf spec)
  | .group k long body spec => .arg (groupName k long) [piecesOf [] body] (paramsOf spec)
/-- the pieces of a pattern list, with pending ordinary characters `pre` -/
def piecesOf : List Char → List Pat → List Piece
  | pre, [] => flushText pre
  | pre, p :: ps =>
    match plainChar p with
    | some c => piecesOf (pre ++ [c]) ps
    | none => flushText pre ++ pieceOf p :: piecesOf [] ps
end

/-! ### loops over literal text -/

theorem startsSpecial_cons {h : Char} {s : List Char} (hh : isSpecial h = true) : StartsSpecial (h :: s) := hh

/-- pending text `pre` in front of a special character -/
theorem argB_flush' (cc : CharClass) (P : Profile) (d : Nat) (pre s : List Char) (acc : List Piece)
    (hpre : pre.all nonSpecial = true) (hs : StartsSpecial s) :
    argB cc P d (pre ++ s) acc = argB cc P d s (acc ++ flushText pre) := by
  cases pre with
  | nil => simp [flushText]
  | cons c t =>
    simp only [List.all_cons, Bool.and_eq_true] at hpre
    have hc : isSpecial c = false := by simpa [nonSpecial] using hpre.1
    simpa [flushText] using argB_flush cc P d c t s acc hc hpre.2 hs

/-- a non-empty run of ordinary characters as a whole argument: one `Text` piece -/
theorem argB_plain (cc : CharClass) (P : Profile) (d : Nat) (t more : List Char) (acc : List Piece)
    (ht : t.all nonSpecial = true) (hm : NoParenHead more) :
    argB cc P d (t ++ ')' :: more) acc = .ok (acc ++ flushText t) more := by
  rw [argB_flush' cc P d t (')' :: more) acc ht (startsSpecial_cons (by decide)), argB_close cc P d more _ hm]

theorem wfLit_plain {inArg : Bool} {l : Lit} (h : wfLit inArg l = true) (he : l.esc = .plain) :
    isSpecial l.c = false := by
  unfold wfLit at h
  by_cases hs : isSpecial l.c = true
  · simp [hs, he] at h
  · simpa using hs

theorem wfLit_escaped {inArg : Bool} {l : Lit} (h : wfLit inArg l = true) (he : l.esc ≠ .plain) :
    isSpecial l.c = true := by
  unfold wfLit at h
  by_cases hs : isSpecial l.c = true
  · exact hs
  · simp only [hs] at h
    simp at h
    exact absurd h he

/-- `next` on a printed escape, and the first character of the print -/
theorem next_escape (cc : CharClass) (P : Profile) (d : Nat) (inArg : Bool) (l : Lit) (rest : List Char)
    (h : wfLit inArg l = true) (he : l.esc ≠ .plain) :
    nextAt cc P d (showLit l ++ rest) = .ok (some (.text [l.c])) rest ∧
    ∃ hd tl, showLit l ++ rest = hd :: tl ∧ isSpecial hd = true := by
  have hs := wfLit_escaped h he
  cases hesc : l.esc with
  | plain => exact absurd hesc he
  | doubled =>
    exact ⟨by simpa [showLit, hesc] using next_doubled cc P d l.c rest hs, l.c, l.c :: rest,
      by simp [showLit, hesc], hs⟩
  | backslash =>
    exact ⟨by simpa [showLit, hesc] using next_backslash cc P d l.c rest hs, '\\', l.c :: rest,
      by simp [showLit, hesc], by decide⟩

/-- one iteration of the argument loop on a printed escape: `))` by the rule of 185a57e, every
other escape through `next` -/
theorem argB_escape (cc : CharClass) (P : Profile) (d : Nat) (hP : P.doubledCloseParen = true) (l : Lit)
    (rest : List Char) (acc : List Piece) (h : wfLit true l = true) (he : l.esc ≠ .plain) :
    argB cc P d (showLit l ++ rest) acc = argB cc P d rest (acc ++ [.text [l.c]]) := by
  have hs := wfLit_escaped h he
  cases hesc : l.esc with
  | plain => exact absurd hesc he
  | backslash =>
    have hn := next_backslash cc P d l.c rest hs
    simpa [showLit, hesc] using argB_step cc P d '\\' (l.c :: rest) acc (by decide) _ _ hn
  | doubled =>
    by_cases hc : l.c = ')'
    · simpa [showLit, hesc, hc] using argB_dbl cc P d hP rest acc
    · have hn := next_doubled cc P d l.c rest hs
      simpa [showLit, hesc] using argB_step cc P d l.c (l.c :: rest) acc hc _ _ hn

theorem all_nonSpecial_snoc {pre : List Char} {c : Char} (hp : pre.all nonSpecial = true)
    (hc : isSpecial c = false) : (pre ++ [c]).all nonSpecial = true := by
  simp [List.all_append, hp, nonSpecial, hc]

/-- the argument loop over printed literal text -/
theorem argB_lits (cc : CharClass) (P : Profile) (d : Nat) (hP : P.doubledCloseParen = true) :
    ∀ (ls : List Lit) (pre more : List Char) (acc : List Piece),
    ls.all (wfLit true) = true → pre.all nonSpecial = true → NoParenHead more →
    argB cc P d (pre ++ (showLits ls ++ ')' :: more)) acc = .ok (acc ++ litPieces pre ls) more
  | [], pre, more, acc, _, hpre, hm => by
    simpa [showLits, litPieces] using argB_plain cc P d pre more acc hpre hm
  | l :: ls, pre, more, acc, hwf, hpre, hm => by
    simp only [List.all_cons, Bool.and_eq_true] at hwf
    by_cases he : l.esc = .plain
    · have hc := wfLit_plain hwf.1 he
      have ih := argB_lits cc P d hP ls (pre ++ [l.c]) more acc hwf.2 (all_nonSpecial_snoc hpre hc) hm
      simpa [showLits, showLit, he, litPieces] using ih
    · obtain ⟨_, hd, tl, hshape, hsp⟩ :=
        next_escape cc P d true l (showLits ls ++ ')' :: more) hwf.1 he
      have ih := argB_lits cc P d hP ls [] more (acc ++ flushText pre ++ [.text [l.c]]) hwf.2 (by simp) hm
      simp only [showLits, litPieces, he, if_false, List.append_assoc]
      rw [argB_flush' cc P d pre _ acc hpre (by rw [hshape]; exact hsp)]
      rw [argB_escape cc P d hP l _ _ hwf.1 he]
      simpa using ih

end Log4rs.Pattern.Parse
