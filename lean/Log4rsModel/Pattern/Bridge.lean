import Log4rsModel.Pattern.Encode
import Log4rsModel.Pattern.Writers
/-
Bridge between the chunk table of C09/C11 (`Pattern/Chunk.lean`, `Pattern/Encode.lean`: the model
of `impl From<Piece> for Chunk` and `FormattedChunk::encode`) and the pattern trees of the
byte-level writer model (`Pattern/Writers.lean`): every runtime chunk IS a `Node`.
Model file: core only.
-/
namespace Log4rs.Pattern
open Log4rs

/-- `FormattedChunk::Highlight`: `set_style(level style)`, the children, `set_style(Style::new())`
— nothing for Debug -/
def highlightNodes (level : Nat) (ns : List Node) : List Node :=
  match highlightStyle level with
  | some s => [Node.leaf [Piece.style s]] ++ ns ++ [Node.leaf [Piece.style Style.plain]]
  | none => ns

mutual
/-- a runtime chunk as a pattern tree of the writer model, for a record and environment in which
every date format renders (`Parse.opsChunk`'s reading) -/
def toNode (env : Parse.Env) (r : Parse.Record) : Parse.Chunk → Node
  | .text s => .leaf [Piece.data s]
  -- `write!(w, "{{ERROR: {}}}", s)`: three pieces
  | .error e => .leaf [Piece.data Parse.errOpen, Piece.data e, Piece.data ['}']]
  | .leaf k p => .fmt p [.leaf [Piece.data (Parse.leafTextPure env r k)]]
  | .group .align cs p => .fmt p (toNodes env r cs)
  | .group .highlight cs p => .fmt p (highlightNodes r.level (toNodes env r cs))
  | .group .debug cs p => .gated env.debugBuild p (toNodes env r cs)
  | .group .release cs p => .gated (!env.debugBuild) p (toNodes env r cs)
def toNodes (env : Parse.Env) (r : Parse.Record) : List Parse.Chunk → List Node
  | [] => []
  | c :: cs => toNode env r c :: toNodes env r cs
end

end Log4rs.Pattern
