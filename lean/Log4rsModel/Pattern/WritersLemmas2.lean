import Log4rsModel.Pattern.WritersLemmas
/-
Lemmas about the byte-level writer model, part 2: one `write_all` through each layer (for an
arbitrary writer below), then whole piece streams, `finish`, and the six-way composition.
Core only.
-/
namespace Log4rs.Pattern
open Log4rs

theorem leads_take_le (b : Bytes) (n : Nat) : leads (b.take n) ≤ leads b := by
  have := leads_take_add_drop b n; omega

/-! ### `MaxWidthWriter` -/

/-- normal form of `MaxWidthWriter::write` (both branches of `if len == end` agree) -/
theorem write_maxW (r : Nat) (w : W) (b : Bytes) :
    (W.maxW r w).write b =
      if cut r b = [] then (W.maxW r w, b.length)
      else (W.maxW (r - leads ((cut r b).take (w.write (cut r b)).2)) (w.write (cut r b)).1,
            (w.write (cut r b)).2) := by
  simp only [W.write, scanEnd_eq, cut_prefix]
  by_cases he : cut r b = []
  · simp [he]
  · have : (cut r b).length ≠ 0 := by
      intro h; exact he (List.eq_nil_of_length_eq_zero h)
    simp only [this, he, if_false]
    split
    · rename_i h; rw [h, List.take_length]
    · rfl

theorem writeAll_maxW : ∀ (n : Nat) (b : Bytes) (r : Nat) (w : W), b.length ≤ n →
    (W.maxW r w).writeAll b = W.maxW (r - leads b) (w.writeAll (cut r b)) := by
  intro n
  induction n with
  | zero =>
    intro b r w h
    have : b = [] := List.eq_nil_of_length_eq_zero (by omega)
    subst this; simp [writeAll_nil, cut, leads]
  | succ n ih =>
    intro b r w h
    by_cases hb : b = []
    · subst hb; simp [writeAll_nil, cut, leads]
    · rw [writeAll_cons _ b hb, write_maxW]
      by_cases he : cut r b = []
      · have hr := cut_eq_nil r b hb he
        subst hr
        simp [he, writeAll_nil]
      · simp only [he, if_false]
        have hp := write_progress w (cut r b) he
        have hlen := cut_length_le r b
        generalize hw : w.write (cut r b) = res at hp
        obtain ⟨w', len⟩ := res
        simp only at hp ⊢
        rw [ih (b.drop len) _ w' (by simp; omega)]
        rw [cut_drop r b len hp.2]
        rw [writeAll_cons w (cut r b) he, hw]
        congr 1
        have e1 : (cut r b).take len = b.take len := by
          rw [← cut_prefix r b, List.take_take]; congr 1; omega
        rw [e1]
        have := leads_take_add_drop b len
        omega

/-- what one `write_all` does to a `MaxWidthWriter`, whatever sits below it and however short its
writes are: the cut goes down as one `write_all`, the budget drops by the characters offered -/
theorem writeAll_maxW' (b : Bytes) (r : Nat) (w : W) :
    (W.maxW r w).writeAll b = W.maxW (r - leads b) (w.writeAll (cut r b)) :=
  writeAll_maxW b.length b r w (Nat.le_refl _)

/-- the only non-saturating subtraction of `MaxWidthWriter::write` cannot underflow -/
theorem maxW_no_underflow (r : Nat) (b : Bytes) (n : Nat) : leads ((cut r b).take n) ≤ r :=
  Nat.le_trans (leads_take_le _ _) (leads_cut_le r b)

/-! ### `LeftAlignWriter`, `RightAlignWriter`, the sink -/

theorem writeAll_left : ∀ (n : Nat) (b : Bytes) (tf : Nat) (f : Char) (w : W), b.length ≤ n →
    (W.left tf f w).writeAll b = W.left (tf - leads b) f (w.writeAll b) := by
  intro n
  induction n with
  | zero =>
    intro b tf f w h
    have : b = [] := List.eq_nil_of_length_eq_zero (by omega)
    subst this; simp [writeAll_nil, leads]
  | succ n ih =>
    intro b tf f w h
    by_cases hb : b = []
    · subst hb; simp [writeAll_nil, leads]
    · rw [writeAll_cons _ b hb, writeAll_cons w b hb]
      have hp := write_progress w b hb
      simp only [W.write]
      generalize w.write b = res at hp
      obtain ⟨w', len⟩ := res
      simp only at hp ⊢
      rw [ih (b.drop len) _ f w' (by simp; omega)]
      congr 1
      have := leads_take_add_drop b len
      omega

theorem writeAll_left' (b : Bytes) (tf : Nat) (f : Char) (w : W) :
    (W.left tf f w).writeAll b = W.left (tf - leads b) f (w.writeAll b) :=
  writeAll_left b.length b tf f w (Nat.le_refl _)

theorem writeAll_right (b : Bytes) (hb : b ≠ []) (tf : Nat) (f : Char) (w : W) (buf : List BufOut) :
    (W.right tf f w buf).writeAll b = W.right (tf - leads b) f w (pushData buf b) := by
  rw [writeAll_cons _ b hb]
  simp [W.write, writeAll_nil]

theorem writeAll_sink : ∀ (n : Nat) (b : Bytes) (orc : List Nat) (out : List BEv), b.length ≤ n →
    ∃ orc', (W.sink orc out).writeAll b = W.sink orc' (out ++ b.map BEv.byte) := by
  intro n
  induction n with
  | zero =>
    intro b orc out h
    have : b = [] := List.eq_nil_of_length_eq_zero (by omega)
    subst this; exact ⟨orc, by simp [writeAll_nil]⟩
  | succ n ih =>
    intro b orc out h
    by_cases hb : b = []
    · subst hb; exact ⟨orc, by simp [writeAll_nil]⟩
    · rw [writeAll_cons _ b hb]
      have hp := write_progress (W.sink orc out) b hb
      simp only [W.write] at hp ⊢
      generalize accept orc b.length = k at hp
      obtain ⟨orc', h'⟩ := ih (b.drop k) orc.tail (out ++ (b.take k).map BEv.byte) (by simp; omega)
      refine ⟨orc', ?_⟩
      rw [h', List.append_assoc, ← List.map_append, List.take_append_drop]

/-! ### piece streams -/

/-- number of characters a piece stream hands to its writer -/
def chars (ps : List Piece) : Nat := (opsOf ps).text.length

theorem opsOf_nil : opsOf [] = [] := rfl

theorem opsOf_cons_data (cs : List Char) (ps : List Piece) :
    opsOf (Piece.data cs :: ps) = ofText cs ++ opsOf ps := by simp [opsOf]

theorem opsOf_cons_style (s : Style) (ps : List Piece) :
    opsOf (Piece.style s :: ps) = Op.style s :: opsOf ps := by simp [opsOf]

theorem opsOf_append (a b : List Piece) : opsOf (a ++ b) = opsOf a ++ opsOf b := by simp [opsOf]

theorem chars_nil : chars [] = 0 := rfl

theorem chars_cons_data (cs : List Char) (ps : List Piece) :
    chars (Piece.data cs :: ps) = cs.length + chars ps := by
  simp [chars, opsOf_cons_data, text_append, text_ofText]

theorem chars_cons_style (s : Style) (ps : List Piece) :
    chars (Piece.style s :: ps) = chars ps := by
  simp [chars, opsOf_cons_style, text_cons_style]

theorem chars_append (a b : List Piece) : chars (a ++ b) = chars a + chars b := by
  simp [chars, opsOf_append, text_append]

theorem feed_append (w : W) (a b : List Piece) : w.feed (a ++ b) = (w.feed a).feed b := by
  induction a generalizing w with
  | nil => rfl
  | cons x xs ih => cases x <;> simp [W.feed, ih]

/-- `MaxWidthWriter` on piece streams -/
def truncPieces : Nat → List Piece → List Piece
  | _, [] => []
  | r, .data cs :: rest => .data (cs.take r) :: truncPieces (r - cs.length) rest
  | r, .style s :: rest => .style s :: truncPieces r rest

theorem truncOps_ofText_append (r : Nat) (cs : List Char) (o : Out) :
    truncOps r (ofText cs ++ o) = ofText (cs.take r) ++ truncOps (r - cs.length) o := by
  induction cs generalizing r with
  | nil => simp [ofText]
  | cons c cs ih =>
    cases r with
    | zero =>
      have := ih 0
      simp only [ofText, List.map_cons, List.cons_append, truncOps, List.take_zero, List.map_nil,
        List.nil_append, Nat.zero_sub] at this ⊢
      rw [this]
    | succ r =>
      have := ih r
      simp only [ofText, List.map_cons, List.cons_append, truncOps, List.take_succ_cons,
        List.length_cons, Nat.add_sub_add_right] at this ⊢
      rw [this]

theorem opsOf_truncPieces (r : Nat) (ps : List Piece) :
    opsOf (truncPieces r ps) = truncOps r (opsOf ps) := by
  induction ps generalizing r with
  | nil => cases r <;> simp [truncPieces, opsOf, truncOps]
  | cons p ps ih =>
    cases p with
    | data cs => rw [truncPieces, opsOf_cons_data, opsOf_cons_data, truncOps_ofText_append, ih]
    | style s =>
      rw [truncPieces, opsOf_cons_style, opsOf_cons_style, ih]
      cases r <;> simp [truncOps]

theorem truncPieces_append (r : Nat) (a b : List Piece) :
    truncPieces r (a ++ b) = truncPieces r a ++ truncPieces (r - chars a) b := by
  induction a generalizing r with
  | nil => simp [truncPieces, chars_nil]
  | cons p ps ih =>
    cases p with
    | data cs =>
      simp only [List.cons_append, truncPieces, ih, chars_cons_data]
      congr 3; omega
    | style s => simp only [List.cons_append, truncPieces, ih, chars_cons_style]

theorem feed_maxW (ps : List Piece) (r : Nat) (w : W) :
    (W.maxW r w).feed ps = W.maxW (r - chars ps) (w.feed (truncPieces r ps)) := by
  induction ps generalizing r w with
  | nil => simp [W.feed, truncPieces, chars_nil]
  | cons p ps ih =>
    cases p with
    | data cs =>
      simp only [W.feed, truncPieces]
      rw [writeAll_maxW', cut_utf8, leads_utf8, ih, chars_cons_data]
      congr 1; omega
    | style s =>
      simp only [W.feed, truncPieces, W.setStyle]
      rw [ih, chars_cons_style]

theorem feed_left (ps : List Piece) (tf : Nat) (f : Char) (w : W) :
    (W.left tf f w).feed ps = W.left (tf - chars ps) f (w.feed ps) := by
  induction ps generalizing tf w with
  | nil => simp [W.feed, chars_nil]
  | cons p ps ih =>
    cases p with
    | data cs =>
      simp only [W.feed]
      rw [writeAll_left', leads_utf8, ih, chars_cons_data]
      congr 1; omega
    | style s =>
      simp only [W.feed, W.setStyle]
      rw [ih, chars_cons_style]

/-- `RightAlignWriter`'s buffer after a piece stream (an empty `str` never reaches `write`) -/
def pushPieces : List BufOut → List Piece → List BufOut
  | buf, [] => buf
  | buf, .data cs :: rest => pushPieces (if cs = [] then buf else pushData buf (utf8 cs)) rest
  | buf, .style s :: rest => pushPieces (.style s :: buf) rest

theorem feed_right (ps : List Piece) (tf : Nat) (f : Char) (w : W) (buf : List BufOut) :
    (W.right tf f w buf).feed ps = W.right (tf - chars ps) f w (pushPieces buf ps) := by
  induction ps generalizing tf buf with
  | nil => simp [W.feed, chars_nil, pushPieces]
  | cons p ps ih =>
    cases p with
    | data cs =>
      simp only [W.feed, pushPieces]
      by_cases hc : cs = []
      · subst hc; simp [utf8, writeAll_nil, ih, chars_cons_data]
      · have hne : utf8 cs ≠ [] := fun h => hc ((utf8_eq_nil cs).1 h)
        rw [writeAll_right _ hne, leads_utf8, ih, chars_cons_data]
        simp only [hc, if_false]
        congr 1; omega
    | style s =>
      simp only [W.feed, W.setStyle, pushPieces]
      rw [ih, chars_cons_style]

/-- the buffer on the level of characters (newest first), mirroring `pushData` -/
def pushP : List Piece → List Piece → List Piece
  | qs, [] => qs
  | qs, .data cs :: rest =>
    pushP (if cs = [] then qs else
      match qs with
      | .data d :: qs' => .data (d ++ cs) :: qs'
      | _ => .data cs :: qs) rest
  | qs, .style s :: rest => pushP (.style s :: qs) rest

def bufOfPieces (qs : List Piece) : List BufOut :=
  qs.map (fun | .data cs => BufOut.data (utf8 cs) | .style s => BufOut.style s)

theorem pushPieces_bufOfPieces (qs ps : List Piece) :
    pushPieces (bufOfPieces qs) ps = bufOfPieces (pushP qs ps) := by
  induction ps generalizing qs with
  | nil => rfl
  | cons p ps ih =>
    cases p with
    | data cs =>
      simp only [pushPieces, pushP]
      by_cases hc : cs = []
      · simp [hc, ih]
      · simp only [hc, if_false]
        rw [← ih]
        congr 1
        cases qs with
        | nil => simp [bufOfPieces, pushData]
        | cons q qs => cases q <;> simp [bufOfPieces, pushData, utf8_append]
    | style s =>
      simp only [pushPieces, pushP]
      rw [← ih]; rfl

theorem opsOf_reverse_pushP (qs ps : List Piece) :
    opsOf (pushP qs ps).reverse = opsOf qs.reverse ++ opsOf ps := by
  induction ps generalizing qs with
  | nil => simp [pushP, opsOf]
  | cons p ps ih =>
    cases p with
    | data cs =>
      simp only [pushP]
      rw [ih, opsOf_cons_data, ← List.append_assoc]
      congr 1
      by_cases hc : cs = []
      · simp [hc, ofText]
      · simp only [hc, if_false]
        cases qs with
        | nil => simp [opsOf]
        | cons q qs =>
          cases q <;>
            simp [opsOf_append, opsOf_cons_data, opsOf_cons_style, ofText_append, opsOf_nil]
    | style s =>
      simp only [pushP]
      rw [ih, opsOf_cons_style]
      simp [opsOf_append, opsOf_cons_style, opsOf_nil]

theorem replay_bufOfPieces (w : W) (qs : List Piece) : replay w (bufOfPieces qs) = w.feed qs := by
  induction qs generalizing w with
  | nil => rfl
  | cons q qs ih => cases q <;> simp [bufOfPieces, replay, W.feed] <;> exact ih _

theorem bufOfPieces_reverse (qs : List Piece) : (bufOfPieces qs).reverse = bufOfPieces qs.reverse := by
  simp [bufOfPieces]

/-- the padding as a piece stream: one `write!(w, "{}", fill)` per missing character -/
def padPieces (fill : Char) (n : Nat) : List Piece := List.replicate n (Piece.data [fill])

theorem writeFills_eq (w : W) (f : Char) (n : Nat) : w.writeFills f n = w.feed (padPieces f n) := by
  induction n generalizing w with
  | zero => rfl
  | succ n ih =>
    simp only [W.writeFills, padPieces, List.replicate_succ, W.feed, W.writeFill, utf8_singleton]
    exact ih _

theorem opsOf_padPieces (f : Char) (n : Nat) : opsOf (padPieces f n) = ofText (fills f n) := by
  induction n with
  | zero => rfl
  | succ n ih =>
    simp only [padPieces, List.replicate_succ, opsOf_cons_data, fills] at ih ⊢
    rw [ih]; simp [ofText]

/-! ### the six-way composition on piece streams -/

/-- what `Chunk::encode` with parameters `p` hands to the writer it was given, as a piece stream,
when its inner chunk hands over `ps` -/
def fmtPieces (p : Params) (ps : List Piece) : List Piece :=
  let padded : List Piece := match p.minW with
    | none => ps
    | some m =>
      let pad := padPieces p.fill (m - chars ps)
      if p.right then pad ++ (pushP [] ps).reverse else ps ++ pad
  match p.maxW with
  | none => padded
  | some M => truncPieces M padded

theorem opsOf_fmtPieces (p : Params) (ps : List Piece) :
    opsOf (fmtPieces p ps) = codeFmtOps p (opsOf ps) := by
  unfold fmtPieces codeFmtOps
  have hrev : opsOf (pushP [] ps).reverse = opsOf ps := by
    rw [opsOf_reverse_pushP]; simp [opsOf]
  cases hm : p.minW <;> cases hM : p.maxW <;> cases hr : p.right <;>
    simp [opsOf_truncPieces, opsOf_append, opsOf_padPieces, hrev, chars]

/-- the byte-level six-way composition over ANY writer `w` equals feeding `w` the piece stream
`fmtPieces p ps` -/
theorem chunkEncode_feed (p : Params) (ps : List Piece) (enc : W → W)
    (henc : ∀ w, enc w = w.feed ps) (w : W) :
    chunkEncode p enc w = w.feed (fmtPieces p ps) := by
  unfold chunkEncode fmtPieces
  have hbuf : ∀ tf f w', (W.right tf f w' []).feed ps =
      W.right (tf - chars ps) f w' (bufOfPieces (pushP [] ps)) := by
    intro tf f w'
    rw [feed_right]
    have := pushPieces_bufOfPieces [] ps
    simp only [bufOfPieces, List.map_nil] at this
    rw [this]; rfl
  cases hm : p.minW <;> cases hM : p.maxW <;> cases hr : p.right <;>
    simp only [henc, feed_maxW, feed_left, hbuf, W.finish, W.dropMax, writeFills_eq,
      bufOfPieces_reverse, replay_bufOfPieces, ← feed_append, truncPieces_append, if_true, if_false,
      Bool.false_eq_true]

/-- at the bottom: feeding a sink appends the rendering, whatever the acceptance oracle -/
theorem render_ofText (cs : List Char) : render (ofText cs) = (utf8 cs).map BEv.byte := by
  induction cs with
  | nil => rfl
  | cons c cs ih =>
    simp only [ofText, List.map_cons, render, List.flatMap_cons] at ih ⊢
    rw [ih, utf8_cons, List.map_append]

theorem render_append (a b : Out) : render (a ++ b) = render a ++ render b := by
  simp [render]

theorem feed_sink (ps : List Piece) (orc : List Nat) (out : List BEv) :
    ∃ orc', (W.sink orc out).feed ps = W.sink orc' (out ++ render (opsOf ps)) := by
  induction ps generalizing orc out with
  | nil => exact ⟨orc, by simp [W.feed, opsOf, render]⟩
  | cons p ps ih =>
    cases p with
    | data cs =>
      obtain ⟨o1, h1⟩ := writeAll_sink _ (utf8 cs) orc out (Nat.le_refl _)
      obtain ⟨o2, h2⟩ := ih o1 (out ++ (utf8 cs).map BEv.byte)
      refine ⟨o2, ?_⟩
      simp only [W.feed]
      rw [h1, h2, opsOf_cons_data, render_append, render_ofText, List.append_assoc]
    | style s =>
      obtain ⟨o2, h2⟩ := ih orc (out ++ [BEv.style s])
      refine ⟨o2, ?_⟩
      simp only [W.feed, W.setStyle]
      rw [h2, opsOf_cons_style]
      simp [render]

end Log4rs.Pattern
