import Log4rsModel.Pattern.WritersLemmas2
/-
Lemmas, part 3: the law on text (`codeFmtOps` against `specFmt`) and pattern trees.
Core only.
-/
namespace Log4rs.Pattern
open Log4rs

/-! ### `codeFmtOps` on text -/

theorem length_fills (f : Char) (n : Nat) : (fills f n).length = n := by simp [fills]

theorem take_fills (f : Char) (n k : Nat) : (fills f n).take k = fills f (min k n) := by
  simp [fills, List.take_replicate]

/-- text of `codeFmtOps`, for all m and M: pad the *uncut* text to m, then keep M characters -/
theorem codeFmtOps_text (p : Params) (o : Out) :
    (codeFmtOps p o).text =
      (match p.maxW with
       | none => specFmt { p with maxW := none } o.text
       | some M => (specFmt { p with maxW := none } o.text).take M) := by
  unfold codeFmtOps specFmt
  cases hm : p.minW <;> cases hM : p.maxW <;> cases hr : p.right <;>
    simp [text_truncOps, text_append, text_ofText]

theorem take_append_fills_left (t : List Char) (f : Char) (m M : Nat) (h : m ≤ M) :
    (t ++ fills f (m - t.length)).take M = t.take M ++ fills f (m - (t.take M).length) := by
  by_cases hn : M ≤ t.length
  · rw [List.take_append_of_le_length hn]
    have : m - (t.take M).length = 0 := by simp; omega
    rw [this]; simp [fills]
  · have h1 : t.take M = t := List.take_of_length_le (by omega)
    rw [h1]
    apply List.take_of_length_le
    simp [length_fills]; omega

theorem take_fills_append_right (t : List Char) (f : Char) (m M : Nat) (h : m ≤ M) :
    (fills f (m - t.length) ++ t).take M = fills f (m - (t.take M).length) ++ t.take M := by
  by_cases hn : M ≤ t.length
  · have h0 : m - t.length = 0 := by omega
    have h1 : m - (t.take M).length = 0 := by simp; omega
    rw [h0, h1]; simp [fills]
  · have h1 : t.take M = t := List.take_of_length_le (by omega)
    rw [h1]
    apply List.take_of_length_le
    simp [length_fills]; omega

/-- left alignment with m > M: the padding is cut too, i.e. the minimum width is clamped to M -/
theorem take_append_fills_left_gt (t : List Char) (f : Char) (m M : Nat) (h : M < m) :
    (t ++ fills f (m - t.length)).take M = t.take M ++ fills f (M - (t.take M).length) := by
  by_cases hn : M ≤ t.length
  · rw [List.take_append_of_le_length hn]
    have : M - (t.take M).length = 0 := by simp; omega
    rw [this]; simp [fills]
  · have h1 : t.take M = t := List.take_of_length_le (by omega)
    rw [h1, List.take_append, List.take_of_length_le (by omega : t.length ≤ M), take_fills]
    congr 2; omega

theorem codeFmtOps_text_eq_spec (p : Params) (o : Out) (h : p.ordered = true) :
    (codeFmtOps p o).text = specFmt p o.text := by
  rw [codeFmtOps_text]
  unfold specFmt
  unfold Params.ordered at h
  cases hm : p.minW <;> cases hM : p.maxW <;> cases hr : p.right <;> simp only [hm, hM] at h ⊢
  all_goals try rfl
  · rename_i m M
    simp only [Bool.false_eq_true, if_false]
    exact take_append_fills_left _ _ _ _ (by simpa using h)
  · rename_i m M
    simp only [if_true]
    exact take_fills_append_right _ _ _ _ (by simpa using h)

theorem codeFmtOps_text_length_le (p : Params) (o : Out) (M : Nat) (hM : p.maxW = some M) :
    (codeFmtOps p o).text.length ≤ M := by
  rw [codeFmtOps_text, hM]
  simp only [List.length_take]
  omega

/-! ### rendering -/

theorem bytesOf_append (a b : List BEv) : bytesOf (a ++ b) = bytesOf a ++ bytesOf b := by
  simp [bytesOf, List.filterMap_append]

theorem bytesOf_map_byte (b : Bytes) : bytesOf (b.map BEv.byte) = b := by
  induction b with
  | nil => rfl
  | cons x xs ih => simp only [List.map_cons, bytesOf, List.filterMap_cons] at ih ⊢; rw [ih]

theorem bytesOf_render (o : Out) : bytesOf (render o) = utf8 o.text := by
  induction o with
  | nil => rfl
  | cons x xs ih =>
    have hc : render (x :: xs) = render [x] ++ render xs := render_append [x] xs
    rw [hc, bytesOf_append, ih]
    cases x with
    | ch c =>
      rw [text_cons_ch, utf8_cons]
      simp [render, bytesOf_map_byte]
    | style s =>
      rw [text_cons_style]
      simp [render, bytesOf]

/-! ### pattern trees -/

mutual
/-- the piece stream a subtree hands to the writer it is given -/
def repiece : Node → List Piece
  | .leaf ps => ps
  | .fmt p cs => fmtPieces p (repieces cs)
  | .gated true p cs => fmtPieces p (repieces cs)
  | .gated false p _ => fmtPieces p []
def repieces : List Node → List Piece
  | [] => []
  | n :: ns => repiece n ++ repieces ns
end

mutual
theorem encodeNode_feed : ∀ (n : Node) (w : W), encodeNode n w = w.feed (repiece n)
  | .leaf ps, w => by simp [encodeNode, repiece]
  | .fmt p cs, w => by
    rw [encodeNode, repiece]
    exact chunkEncode_feed p (repieces cs) (encodeNodes cs) (fun w' => encodeNodes_feed cs w') w
  | .gated true p cs, w => by
    rw [encodeNode, repiece]
    exact chunkEncode_feed p (repieces cs) (encodeNodes cs) (fun w' => encodeNodes_feed cs w') w
  | .gated false p _, w => by
    rw [encodeNode, repiece]
    exact chunkEncode_feed p [] (fun w' => w') (fun _ => rfl) w
theorem encodeNodes_feed : ∀ (ns : List Node) (w : W), encodeNodes ns w = w.feed (repieces ns)
  | [], w => by simp [encodeNodes, repieces, W.feed]
  | n :: ns, w => by
    rw [encodeNodes, repieces, feed_append, encodeNode_feed n w, encodeNodes_feed ns]
end

mutual
theorem opsOf_repiece : ∀ (n : Node), opsOf (repiece n) = denote n
  | .leaf ps => by simp [repiece, denote]
  | .fmt p cs => by rw [repiece, denote, opsOf_fmtPieces, opsOf_repieces cs]
  | .gated true p cs => by rw [repiece, denote, opsOf_fmtPieces, opsOf_repieces cs]
  | .gated false p _ => by rw [repiece, denote, opsOf_fmtPieces]; rfl
theorem opsOf_repieces : ∀ (ns : List Node), opsOf (repieces ns) = denotes ns
  | [] => by simp [repieces, denotes, opsOf]
  | n :: ns => by rw [repieces, denotes, opsOf_append, opsOf_repiece n, opsOf_repieces ns]
end

mutual
theorem denote_text_eq_spec : ∀ (n : Node), n.ordered = true → (denote n).text = specText n
  | .leaf ps, _ => by simp [denote, specText]
  | .fmt p cs, h => by
    simp only [Node.ordered, Bool.and_eq_true] at h
    rw [denote, specText, codeFmtOps_text_eq_spec p _ h.1, denotes_text_eq_spec cs h.2]
  | .gated true p cs, h => by
    simp only [Node.ordered, Bool.and_eq_true] at h
    rw [denote, specText, codeFmtOps_text_eq_spec p _ h.1, denotes_text_eq_spec cs h.2]
  | .gated false p _, h => by
    simp only [Node.ordered] at h
    rw [denote, specText, codeFmtOps_text_eq_spec p _ h]; rfl
theorem denotes_text_eq_spec : ∀ (ns : List Node), Node.orderedAll ns = true →
    (denotes ns).text = specTexts ns
  | [], _ => by simp [denotes, specTexts, Out.text]
  | n :: ns, h => by
    simp only [Node.orderedAll, Bool.and_eq_true] at h
    rw [denotes, specTexts, text_append, denote_text_eq_spec n h.1, denotes_text_eq_spec ns h.2]
end

theorem emitted_encodeNodes (forest : List Node) (orc : List Nat) (out : List BEv) :
    (encodeNodes forest (W.sink orc out)).emitted = out ++ render (denotes forest) := by
  rw [encodeNodes_feed]
  obtain ⟨orc', h⟩ := feed_sink (repieces forest) orc out
  rw [h, opsOf_repieces]; rfl

end Log4rs.Pattern
