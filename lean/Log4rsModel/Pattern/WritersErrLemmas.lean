import Log4rsModel.Pattern.WritersErr
import Log4rsModel.Pattern.WritersLemmas3
/-
The error-aware writer model against the error-free one: as long as nothing fails the two agree
step by step (`WE.erase`), and when something fails, what the bottom writer holds is a prefix of
what the error-free run would have delivered. Core only.
-/
namespace Log4rs.Pattern
open Log4rs

/-! ### the bottom writer of the error-free model only ever appends -/

theorem emitted_write_mono (w : W) : ∀ b : Bytes, w.emitted <+: (w.write b).1.emitted := by
  induction w with
  | sink orc out => intro b; simp [W.write, W.emitted]
  | maxW r inner ih =>
    intro b
    rw [write_maxW]
    split
    · exact List.prefix_refl _
    · exact ih _
  | left tf f inner ih => intro b; simpa [W.write, W.emitted] using ih b
  | right tf f inner buf _ => intro b; simp [W.write, W.emitted]

theorem emitted_setStyle_mono (w : W) (s : Style) : w.emitted <+: (w.setStyle s).emitted := by
  induction w with
  | sink orc out => simp [W.setStyle, W.emitted]
  | maxW r inner ih => simpa [W.setStyle, W.emitted] using ih
  | left tf f inner ih => simpa [W.setStyle, W.emitted] using ih
  | right tf f inner buf _ => simp [W.setStyle, W.emitted]

theorem emitted_writeAll_mono : ∀ (n : Nat) (b : Bytes) (w : W), b.length ≤ n →
    w.emitted <+: (w.writeAll b).emitted := by
  intro n
  induction n with
  | zero =>
    intro b w h
    have : b = [] := List.eq_nil_of_length_eq_zero (by omega)
    subst this; rw [writeAll_nil]; exact List.prefix_refl _
  | succ n ih =>
    intro b w h
    by_cases hb : b = []
    · subst hb; rw [writeAll_nil]; exact List.prefix_refl _
    · rw [writeAll_cons w b hb]
      have hp := write_progress w b hb
      exact List.IsPrefix.trans (emitted_write_mono w b) (ih _ _ (by simp; omega))

theorem emitted_writeAll_mono' (w : W) (b : Bytes) : w.emitted <+: (w.writeAll b).emitted :=
  emitted_writeAll_mono b.length b w (Nat.le_refl _)

theorem emitted_feed_mono (ps : List Piece) (w : W) : w.emitted <+: (w.feed ps).emitted := by
  induction ps generalizing w with
  | nil => exact List.prefix_refl _
  | cons p ps ih =>
    cases p with
    | data cs => exact List.IsPrefix.trans (emitted_writeAll_mono' w _) (ih _)
    | style s => exact List.IsPrefix.trans (emitted_setStyle_mono w s) (ih _)

theorem emitted_writeFills_mono (f : Char) (n : Nat) (w : W) :
    w.emitted <+: (w.writeFills f n).emitted := by
  rw [writeFills_eq]; exact emitted_feed_mono _ w

theorem emitted_replay_mono (buf : List BufOut) (w : W) : w.emitted <+: (replay w buf).emitted := by
  induction buf generalizing w with
  | nil => exact List.prefix_refl _
  | cons x xs ih =>
    cases x with
    | data b => exact List.IsPrefix.trans (emitted_writeAll_mono' w b) (ih _)
    | style s => exact List.IsPrefix.trans (emitted_setStyle_mono w s) (ih _)

theorem emitted_finish_mono (w : W) : w.emitted <+: w.finish.emitted := by
  cases w with
  | sink orc out => exact List.prefix_refl _
  | maxW r inner => exact List.prefix_refl _
  | left tf f inner => simpa [W.finish, W.emitted] using emitted_writeFills_mono f tf inner
  | right tf f inner buf =>
    simp only [W.finish, W.emitted]
    exact List.IsPrefix.trans (emitted_writeFills_mono f tf inner) (emitted_replay_mono _ _)

theorem emitted_dropMax (w : W) : w.dropMax.emitted = w.emitted := by
  cases w <;> rfl

mutual
theorem emitted_encodeNode_mono (n : Node) (w : W) : w.emitted <+: (encodeNode n w).emitted := by
  rw [encodeNode_feed]; exact emitted_feed_mono _ w
theorem emitted_encodeNodes_mono (ns : List Node) (w : W) :
    w.emitted <+: (encodeNodes ns w).emitted := by
  rw [encodeNodes_feed]; exact emitted_feed_mono _ w
end

/-! ### erasure -/

theorem emitted_erase (w : WE) : w.erase.emitted = w.emitted := by
  induction w with
  | sink orc sb out => rfl
  | maxW r inner ih => simpa [WE.erase, W.emitted, WE.emitted] using ih
  | left tf f inner ih => simpa [WE.erase, W.emitted, WE.emitted] using ih
  | right tf f inner buf ih => simpa [WE.erase, W.emitted, WE.emitted] using ih

theorem erase_dropMax (w : WE) : w.dropMax.erase = w.erase.dropMax := by
  cases w <;> rfl

theorem accept_takes (k : Nat) (rest : List Acc) (len : Nat) :
    accept (takes (Acc.take k :: rest)) len = if k = 0 then len else min k len := by
  simp [takes, accept]

/-- one `write` call: same answer as the error-free model; an `Interrupted` changes nothing but
the script; an error leaves the bottom writer as it was -/
theorem write_erase (w : WE) : ∀ b : Bytes,
    match w.write b with
    | .ok w' n => w.erase.write b = (w'.erase, n) ∧ w'.orcLen ≤ w.orcLen
    | .intr w' => w'.erase = w.erase ∧ w'.orcLen + 1 = w.orcLen ∧ w'.emitted = w.emitted
    | .err o => o = w.emitted := by
  induction w with
  | sink orc sb out =>
    intro b
    cases orc with
    | nil => simp [WE.write, WE.erase, W.write, takes, accept, WE.orcLen]
    | cons a rest =>
      cases a with
      | take k =>
        simp only [WE.write, WE.erase, W.write, accept_takes, WE.orcLen, List.length_cons]
        refine ⟨?_, by omega⟩
        simp [takes]
      | fail => simp [WE.write, WE.emitted]
      | intr => simp [WE.write, WE.erase, takes, WE.orcLen, WE.emitted]
  | maxW r inner ih =>
    intro b
    simp only [WE.write, WE.erase, W.write]
    generalize scanEnd r b = se
    obtain ⟨e, r'⟩ := se
    simp only
    by_cases he : e = 0
    · simp [he, WE.erase, WE.orcLen]
    · simp only [he, if_false]
      have := ih (b.take e)
      generalize inner.write (b.take e) = res at this
      cases res with
      | ok inner' len =>
        simp only at this ⊢
        rw [this.1]
        by_cases hl : len = e
        · simp [hl, WE.erase, WE.orcLen]; simpa [hl] using this.2
        · simp [hl, WE.erase, WE.orcLen]; exact this.2
      | intr inner' =>
        simp only at this ⊢
        simp [WE.erase, WE.orcLen, WE.emitted, this.1, this.2.1, this.2.2]
      | err o => simpa [WE.emitted] using this
  | left tf f inner ih =>
    intro b
    simp only [WE.write, WE.erase, W.write]
    have := ih b
    generalize inner.write b = res at this
    cases res with
    | ok inner' len =>
      simp only at this ⊢
      rw [this.1]
      simp [WE.erase, WE.orcLen]; exact this.2
    | intr inner' =>
      simp only at this ⊢
      simp [WE.erase, WE.orcLen, WE.emitted, this.1, this.2.1, this.2.2]
    | err o => simpa [WE.emitted] using this
  | right tf f inner buf _ =>
    intro b
    simp [WE.write, WE.erase, W.write, WE.orcLen]

/-- "the error-aware operation `r`, started in a state that erases to `a`, refines the error-free
step from `a` to `b`": the same state if it went through, otherwise what the bottom writer holds
lies between what `a` and what `b` hold -/
def Ref (r : Res) (a b : W) : Prop :=
  match r with
  | .ok w' => w'.erase = b
  | .stop _ o => a.emitted <+: o ∧ o <+: b.emitted

theorem Ref.bind {r : Res} {f : WE → Res} {a b c : W} (h1 : Ref r a b)
    (hab : a.emitted <+: b.emitted) (hbc : b.emitted <+: c.emitted)
    (h2 : ∀ w', r = .ok w' → Ref (f w') b c) : Ref (r.bind f) a c := by
  cases r with
  | ok w' =>
    have := h2 w' rfl
    simp only [Res.bind]
    generalize f w' = r2 at this
    cases r2 with
    | ok w'' => exact this
    | stop y o => exact ⟨List.IsPrefix.trans hab this.1, this.2⟩
  | stop y o => exact ⟨h1.1, List.IsPrefix.trans h1.2 hbc⟩

theorem Ref.map {r : Res} {g : WE → WE} {gI : W → W} {a b : W} (h1 : Ref r a b)
    (hg : ∀ w, (g w).erase = gI w.erase) (hmono : b.emitted <+: (gI b).emitted) :
    Ref (r.map g) a (gI b) := by
  cases r with
  | ok w' => simp only [Res.map, Ref] at h1 ⊢; rw [hg, h1]
  | stop y o => exact ⟨h1.1, List.IsPrefix.trans h1.2 hmono⟩

theorem setStyle_ref (w : WE) (s : Style) : Ref (w.setStyle s) w.erase (w.erase.setStyle s) := by
  induction w with
  | sink orc sb out =>
    cases sb with
    | none => simp [WE.setStyle, Ref, WE.erase, W.setStyle]
    | some n =>
      cases n with
      | zero => simp [WE.setStyle, Ref, WE.erase, W.setStyle, W.emitted]
      | succ n => simp [WE.setStyle, Ref, WE.erase, W.setStyle]
  | maxW r inner ih =>
    simp only [WE.setStyle, WE.erase, W.setStyle]
    exact Ref.map (gI := W.maxW r) ih (fun _ => rfl) (List.prefix_refl _)
  | left tf f inner ih =>
    simp only [WE.setStyle, WE.erase, W.setStyle]
    exact Ref.map (gI := W.left tf f) ih (fun _ => rfl) (List.prefix_refl _)
  | right tf f inner buf _ => simp [WE.setStyle, Ref, WE.erase, W.setStyle]

theorem writeAllFuel_ref : ∀ (fuel : Nat) (w : WE) (b : Bytes), b.length + w.orcLen ≤ fuel →
    Ref (WE.writeAllFuel fuel w b) w.erase (w.erase.writeAll b) := by
  intro fuel
  induction fuel with
  | zero =>
    intro w b h
    have : b = [] := List.eq_nil_of_length_eq_zero (by omega)
    subst this; simp [WE.writeAllFuel, Ref, writeAll_nil]
  | succ fuel ih =>
    intro w b h
    by_cases hb : b = []
    · subst hb; simp [WE.writeAllFuel, Ref, writeAll_nil]
    · have he : b.isEmpty = false := by cases b with | nil => exact absurd rfl hb | cons _ _ => rfl
      simp only [WE.writeAllFuel, he, Bool.false_eq_true, if_false]
      have hw := write_erase w b
      generalize w.write b = res at hw
      cases res with
      | ok w' n =>
        simp only at hw ⊢
        have hp := write_progress w.erase b hb
        rw [hw.1] at hp
        simp only at hp
        have := ih w' (b.drop n) (by simp; omega)
        rw [writeAll_cons w.erase b hb, hw.1]
        simp only
        generalize WE.writeAllFuel fuel w' (b.drop n) = r at this
        cases r with
        | ok w'' => exact this
        | stop y o =>
          refine ⟨List.IsPrefix.trans ?_ this.1, this.2⟩
          have := emitted_write_mono w.erase b
          rw [hw.1] at this; exact this
      | intr w' =>
        simp only at hw ⊢
        have := ih w' b (by omega)
        rw [hw.1] at this; exact this
      | err o =>
        simp only at hw ⊢
        subst hw
        refine ⟨by rw [emitted_erase]; exact List.prefix_refl _, ?_⟩
        rw [← emitted_erase]; exact emitted_writeAll_mono' _ _

theorem writeAll_ref (w : WE) (b : Bytes) : Ref (w.writeAll b) w.erase (w.erase.writeAll b) :=
  writeAllFuel_ref _ w b (Nat.le_refl _)

theorem writeFills_ref (f : Char) (n : Nat) (w : WE) :
    Ref (w.writeFills f n) w.erase (w.erase.writeFills f n) := by
  induction n generalizing w with
  | zero => simp [WE.writeFills, W.writeFills, Ref]
  | succ n ih =>
    simp only [WE.writeFills, W.writeFills, W.writeFill]
    refine Ref.bind (writeAll_ref w _) (emitted_writeAll_mono' _ _) (emitted_writeFills_mono f n _) ?_
    intro w' hw'
    have h := writeAll_ref w (utf8Char f)
    rw [hw'] at h
    simp only [Ref] at h
    rw [← h]; exact ih w'

theorem replay_ref (buf : List BufOut) (w : WE) : Ref (replayE w buf) w.erase (replay w.erase buf) := by
  induction buf generalizing w with
  | nil => simp [replayE, replay, Ref]
  | cons x xs ih =>
    cases x with
    | data b =>
      simp only [replayE, replay]
      refine Ref.bind (writeAll_ref w b) (emitted_writeAll_mono' _ _) (emitted_replay_mono xs _) ?_
      intro w' hw'
      have h := writeAll_ref w b
      rw [hw'] at h; simp only [Ref] at h
      rw [← h]; exact ih w'
    | style s =>
      simp only [replayE, replay]
      refine Ref.bind (setStyle_ref w s) (emitted_setStyle_mono _ _) (emitted_replay_mono xs _) ?_
      intro w' hw'
      have h := setStyle_ref w s
      rw [hw'] at h; simp only [Ref] at h
      rw [← h]; exact ih w'

theorem finish_ref (w : WE) : Ref w.finish w.erase w.erase.finish := by
  cases w with
  | sink orc sb out => simp [WE.finish, WE.erase, W.finish, Ref]
  | maxW r inner => simp [WE.finish, WE.erase, W.finish, Ref]
  | left tf f inner =>
    simp only [WE.finish, WE.erase, W.finish]
    have := writeFills_ref f tf inner
    generalize inner.writeFills f tf = r at this
    cases r with
    | ok w' => exact this
    | stop y o => exact this
  | right tf f inner buf =>
    simp only [WE.finish, WE.erase, W.finish]
    have h0 := writeFills_ref f tf inner
    have hres : Ref ((inner.writeFills f tf).bind fun w' => replayE w' buf.reverse) inner.erase
        (replay (inner.erase.writeFills f tf) buf.reverse) := by
      refine Ref.bind h0 (emitted_writeFills_mono _ _ _) (emitted_replay_mono _ _) ?_
      intro w' hw'
      rw [hw'] at h0; simp only [Ref] at h0
      rw [← h0]; exact replay_ref _ w'
    generalize ((inner.writeFills f tf).bind fun w' => replayE w' buf.reverse) = r at hres
    cases r with
    | ok w' => exact hres
    | stop y o => exact hres

theorem feed_ref (ps : List (Option Piece)) (w : WE) :
    Ref (w.feed ps) w.erase (w.erase.feed (erasePieces ps)) := by
  induction ps generalizing w with
  | nil => simp [WE.feed, erasePieces, W.feed, Ref]
  | cons p ps ih =>
    cases p with
    | none =>
      simp only [WE.feed, Ref]
      refine ⟨by rw [emitted_erase]; exact List.prefix_refl _, ?_⟩
      rw [← emitted_erase]; exact emitted_feed_mono _ _
    | some p =>
      cases p with
      | data cs =>
        simp only [WE.feed, erasePieces, List.filterMap_cons, id, W.feed]
        refine Ref.bind (writeAll_ref w _) (emitted_writeAll_mono' _ _) (emitted_feed_mono _ _) ?_
        intro w' hw'
        have h := writeAll_ref w (utf8 cs)
        rw [hw'] at h; simp only [Ref] at h
        rw [← h]; exact ih w'
      | style s =>
        simp only [WE.feed, erasePieces, List.filterMap_cons, id, W.feed]
        refine Ref.bind (setStyle_ref w s) (emitted_setStyle_mono _ _) (emitted_feed_mono _ _) ?_
        intro w' hw'
        have h := setStyle_ref w s
        rw [hw'] at h; simp only [Ref] at h
        rw [← h]; exact ih w'

theorem Ref.of_emitted_eq {r : Res} {a a' b : W} (h : Ref r a b) (he : a'.emitted = a.emitted) :
    Ref r a' b := by
  cases r with
  | ok w' => exact h
  | stop y o => exact ⟨he ▸ h.1, h.2⟩

/-- `enc w >>= finish`, the shape of four of the six arms -/
theorem bind_finish_ref {enc : WE → Res} {encI : W → W}
    (henc : ∀ w, Ref (enc w) w.erase (encI w.erase))
    (hmono : ∀ w : W, w.emitted <+: (encI w).emitted) (w : WE) :
    Ref ((enc w).bind WE.finish) w.erase (encI w.erase).finish := by
  refine Ref.bind (henc w) (hmono _) (emitted_finish_mono _) ?_
  intro w' hw'
  have h := henc w
  rw [hw'] at h; simp only [Ref] at h
  rw [← h]; exact finish_ref w'

theorem chunkEncode_ref (p : Params) {enc : WE → Res} {encI : W → W}
    (henc : ∀ w, Ref (enc w) w.erase (encI w.erase))
    (hmono : ∀ w : W, w.emitted <+: (encI w).emitted) (w : WE) :
    Ref (chunkEncodeE p enc w) w.erase (chunkEncode p encI w.erase) := by
  unfold chunkEncodeE chunkEncode
  cases hm : p.minW <;> cases hM : p.maxW <;> cases hr : p.right <;> simp only
  · exact henc w
  · exact henc w
  · exact (Ref.map (gI := W.dropMax) (henc (.maxW _ w)) erase_dropMax
      (by rw [emitted_dropMax]; exact List.prefix_refl _)).of_emitted_eq rfl
  · exact (Ref.map (gI := W.dropMax) (henc (.maxW _ w)) erase_dropMax
      (by rw [emitted_dropMax]; exact List.prefix_refl _)).of_emitted_eq rfl
  · exact (bind_finish_ref henc hmono (.left _ p.fill w)).of_emitted_eq rfl
  · exact (bind_finish_ref henc hmono (.right _ p.fill w [])).of_emitted_eq rfl
  · exact (Ref.map (gI := W.dropMax) (bind_finish_ref henc hmono (.left _ p.fill (.maxW _ w)))
      erase_dropMax (by rw [emitted_dropMax]; exact List.prefix_refl _)).of_emitted_eq rfl
  · exact (Ref.map (gI := W.dropMax) (bind_finish_ref henc hmono (.right _ p.fill (.maxW _ w) []))
      erase_dropMax (by rw [emitted_dropMax]; exact List.prefix_refl _)).of_emitted_eq rfl

mutual
theorem encodeNode_ref : ∀ (n : NodeE) (w : WE),
    Ref (encodeNodeE n w) w.erase (encodeNode n.erase w.erase)
  | .leaf ps, w => by
    rw [encodeNodeE, NodeE.erase, encodeNode]; exact feed_ref ps w
  | .fmt p cs, w => by
    rw [encodeNodeE, NodeE.erase, encodeNode]
    exact chunkEncode_ref p (fun w' => encodeNodes_ref cs w') (emitted_encodeNodes_mono _) w
  | .gated true p cs, w => by
    rw [encodeNodeE, NodeE.erase, encodeNode]
    exact chunkEncode_ref p (fun w' => encodeNodes_ref cs w') (emitted_encodeNodes_mono _) w
  | .gated false p cs, w => by
    rw [encodeNodeE, NodeE.erase, encodeNode]
    exact chunkEncode_ref p (enc := fun w' => Res.ok w') (encI := fun w' => w')
      (fun w' => (rfl : w'.erase = w'.erase)) (fun _ => List.prefix_refl _) w
theorem encodeNodes_ref : ∀ (ns : List NodeE) (w : WE),
    Ref (encodeNodesE ns w) w.erase (encodeNodes (NodeE.eraseAll ns) w.erase)
  | [], w => by simp [encodeNodesE, NodeE.eraseAll, encodeNodes, Ref]
  | n :: ns, w => by
    rw [encodeNodesE, NodeE.eraseAll, encodeNodes]
    refine Ref.bind (encodeNode_ref n w) (emitted_encodeNode_mono _ _)
      (emitted_encodeNodes_mono _ _) ?_
    intro w' hw'
    have h := encodeNode_ref n w
    rw [hw'] at h; simp only [Ref] at h
    rw [← h]; exact encodeNodes_ref ns w'
end

/-! ### byte prefixes of an encoding -/

theorem bytesOf_prefix {a b : List BEv} (h : a <+: b) : bytesOf a <+: bytesOf b := by
  obtain ⟨t, rfl⟩ := h
  rw [bytesOf_append]; exact List.prefix_append _ _

theorem leads_prefix_le {a b : Bytes} (h : a <+: b) : leads a ≤ leads b := by
  obtain ⟨t, rfl⟩ := h
  rw [leads_append]; omega

/-- a byte prefix of an encoding is the encoding of a character prefix followed by a proper prefix
of the next character's bytes: at most the last character is incomplete -/
theorem prefix_utf8_decomp (cs : List Char) : ∀ (a : Bytes), a <+: utf8 cs →
    ∃ k tail, a = utf8 (cs.take k) ++ tail ∧
      (tail = [] ∨ ∃ c, cs[k]? = some c ∧ tail <+: utf8Char c ∧ tail.length < (utf8Char c).length) := by
  induction cs with
  | nil =>
    intro a h
    have : a = [] := by simpa [utf8] using h
    exact ⟨0, [], by simp [this, utf8], Or.inl rfl⟩
  | cons c cs ih =>
    intro a h
    rw [utf8_cons] at h
    by_cases hl : (utf8Char c).length ≤ a.length
    · -- the whole first character is in `a`
      obtain ⟨t, ht⟩ := h
      have hpre : utf8Char c <+: a := by
        have h1 : utf8Char c <+: a ++ t := by rw [ht]; exact List.prefix_append _ _
        exact List.prefix_of_prefix_length_le h1 (List.prefix_append _ _) hl
      obtain ⟨a', rfl⟩ := hpre
      have h2 : a' <+: utf8 cs := by
        refine ⟨t, ?_⟩
        have := ht
        rw [List.append_assoc] at this
        exact List.append_cancel_left this
      obtain ⟨k, tail, hk, htail⟩ := ih a' h2
      refine ⟨k + 1, tail, ?_, ?_⟩
      · rw [List.take_succ_cons, utf8_cons, hk, List.append_assoc]
      · simpa using htail
    · -- `a` ends inside the first character
      have hpre : a <+: utf8Char c :=
        List.prefix_of_prefix_length_le h (List.prefix_append _ _) (by omega)
      refine ⟨0, a, by simp [utf8], ?_⟩
      by_cases ha : a = []
      · exact Or.inl ha
      · exact Or.inr ⟨c, by simp, hpre, by omega⟩

/-! ### a run in which nothing fails goes through -/

/-- no failing `write` answer scripted (interruptions allowed), `set_style` never fails -/
def WE.clean : WE → Bool
  | .sink orc sb _ => !orc.contains Acc.fail && sb.isNone
  | .maxW _ inner => inner.clean
  | .left _ _ inner => inner.clean
  | .right _ _ inner _ => inner.clean

/-- "goes through and stays clean" -/
def Res.okClean (r : Res) : Prop :=
  match r with
  | .ok w => w.clean = true
  | .stop _ _ => False

theorem Res.okClean_bind {r : Res} {f : WE → Res} (h : r.okClean)
    (hf : ∀ w, w.clean = true → (f w).okClean) : (r.bind f).okClean := by
  cases r with
  | ok w => exact hf w h
  | stop y o => exact h.elim

theorem Res.okClean_map {r : Res} {g : WE → WE} (h : r.okClean)
    (hg : ∀ w, w.clean = true → (g w).clean = true) : (r.map g).okClean := by
  cases r with
  | ok w => exact hg w h
  | stop y o => exact h.elim

theorem write_clean (w : WE) : ∀ b : Bytes, w.clean = true →
    match w.write b with
    | .ok w' _ => w'.clean = true
    | .intr w' => w'.clean = true
    | .err _ => False := by
  induction w with
  | sink orc sb out =>
    intro b h
    cases orc with
    | nil => simpa [WE.write, WE.clean] using h
    | cons a rest =>
      cases a <;> simp [WE.write, WE.clean] at h ⊢ <;> simp [h]
  | maxW r inner ih =>
    intro b h
    simp only [WE.write]
    generalize scanEnd r b = se
    obtain ⟨e, r'⟩ := se
    simp only
    by_cases he : e = 0
    · simpa [he, WE.clean] using h
    · simp only [he, if_false]
      have := ih (b.take e) h
      generalize inner.write (b.take e) = res at this
      cases res with
      | ok inner' len =>
        simp only at this ⊢
        by_cases hl : len = e <;> simpa [hl, WE.clean] using this
      | intr inner' => simpa [WE.clean] using this
      | err o => exact this
  | left tf f inner ih =>
    intro b h
    simp only [WE.write]
    have := ih b h
    generalize inner.write b = res at this
    cases res with
    | ok inner' len => simpa [WE.clean] using this
    | intr inner' => simpa [WE.clean] using this
    | err o => exact this
  | right tf f inner buf _ => intro b h; simpa [WE.write, WE.clean] using h

theorem setStyle_clean (w : WE) (s : Style) (h : w.clean = true) : (w.setStyle s).okClean := by
  induction w with
  | sink orc sb out =>
    cases sb with
    | none => simpa [WE.setStyle, Res.okClean, WE.clean] using h
    | some n => simp [WE.clean] at h
  | maxW r inner ih => exact Res.okClean_map (ih h) (fun _ hw => hw)
  | left tf f inner ih => exact Res.okClean_map (ih h) (fun _ hw => hw)
  | right tf f inner buf _ => simpa [WE.setStyle, Res.okClean, WE.clean] using h

theorem writeAllFuel_clean : ∀ (fuel : Nat) (w : WE) (b : Bytes), w.clean = true →
    (WE.writeAllFuel fuel w b).okClean := by
  intro fuel
  induction fuel with
  | zero => intro w b h; exact h
  | succ fuel ih =>
    intro w b h
    simp only [WE.writeAllFuel]
    split
    · exact h
    · have := write_clean w b h
      generalize w.write b = res at this
      cases res with
      | ok w' n => exact ih w' _ this
      | intr w' => exact ih w' _ this
      | err o => exact this.elim

theorem writeAll_clean (w : WE) (b : Bytes) (h : w.clean = true) : (w.writeAll b).okClean :=
  writeAllFuel_clean _ w b h

theorem writeFills_clean (f : Char) (n : Nat) (w : WE) (h : w.clean = true) :
    (w.writeFills f n).okClean := by
  induction n generalizing w with
  | zero => exact h
  | succ n ih => exact Res.okClean_bind (writeAll_clean w _ h) (fun w' hw' => ih w' hw')

theorem replay_clean (buf : List BufOut) (w : WE) (h : w.clean = true) : (replayE w buf).okClean := by
  induction buf generalizing w with
  | nil => exact h
  | cons x xs ih =>
    cases x with
    | data b => exact Res.okClean_bind (writeAll_clean w b h) (fun w' hw' => ih w' hw')
    | style s => exact Res.okClean_bind (setStyle_clean w s h) (fun w' hw' => ih w' hw')

theorem finish_clean (w : WE) (h : w.clean = true) : w.finish.okClean := by
  cases w with
  | sink orc sb out => exact h
  | maxW r inner => exact h
  | left tf f inner => exact writeFills_clean f tf inner h
  | right tf f inner buf =>
    exact Res.okClean_bind (writeFills_clean f tf inner h) (fun w' hw' => replay_clean _ w' hw')

theorem dropMax_clean (w : WE) (h : w.clean = true) : w.dropMax.clean = true := by
  cases w <;> simpa [WE.dropMax, WE.clean] using h

theorem feed_clean (ps : List Piece) (w : WE) (h : w.clean = true) :
    (w.feed (ps.map some)).okClean := by
  induction ps generalizing w with
  | nil => exact h
  | cons p ps ih =>
    cases p with
    | data cs => exact Res.okClean_bind (writeAll_clean w _ h) (fun w' hw' => ih w' hw')
    | style s => exact Res.okClean_bind (setStyle_clean w s h) (fun w' hw' => ih w' hw')

theorem chunkEncode_clean (p : Params) {enc : WE → Res}
    (henc : ∀ w, w.clean = true → (enc w).okClean) (w : WE) (h : w.clean = true) :
    (chunkEncodeE p enc w).okClean := by
  unfold chunkEncodeE
  cases hm : p.minW <;> cases hM : p.maxW <;> cases hr : p.right <;> simp only
  · exact henc w h
  · exact henc w h
  · exact Res.okClean_map (henc _ h) dropMax_clean
  · exact Res.okClean_map (henc _ h) dropMax_clean
  · exact Res.okClean_bind (henc _ h) finish_clean
  · exact Res.okClean_bind (henc _ h) finish_clean
  · exact Res.okClean_map (Res.okClean_bind (henc _ h) finish_clean) dropMax_clean
  · exact Res.okClean_map (Res.okClean_bind (henc _ h) finish_clean) dropMax_clean

mutual
theorem encodeNode_clean : ∀ (n : Node) (w : WE), w.clean = true → (encodeNodeE n.lift w).okClean
  | .leaf ps, w, h => by rw [Node.lift, encodeNodeE]; exact feed_clean ps w h
  | .fmt p cs, w, h => by
    rw [Node.lift, encodeNodeE]
    exact chunkEncode_clean p (fun w' hw' => encodeNodes_clean cs w' hw') w h
  | .gated true p cs, w, h => by
    rw [Node.lift, encodeNodeE]
    exact chunkEncode_clean p (fun w' hw' => encodeNodes_clean cs w' hw') w h
  | .gated false p cs, w, h => by
    rw [Node.lift, encodeNodeE]
    exact chunkEncode_clean p (enc := fun w' => Res.ok w') (fun _ hw' => hw') w h
theorem encodeNodes_clean : ∀ (ns : List Node) (w : WE), w.clean = true →
    (encodeNodesE (Node.liftAll ns) w).okClean
  | [], w, h => by rw [Node.liftAll, encodeNodesE]; exact h
  | n :: ns, w, h => by
    rw [Node.liftAll, encodeNodesE]
    exact Res.okClean_bind (encodeNode_clean n w h) (fun w' hw' => encodeNodes_clean ns w' hw')
end

mutual
theorem erase_lift : ∀ n : Node, n.lift.erase = n
  | .leaf ps => by
    rw [Node.lift, NodeE.erase]
    congr 1
    unfold erasePieces
    induction ps with
    | nil => rfl
    | cons p ps ih => simp [ih]
  | .fmt p cs => by rw [Node.lift, NodeE.erase, eraseAll_liftAll cs]
  | .gated a p cs => by rw [Node.lift, NodeE.erase, eraseAll_liftAll cs]
theorem eraseAll_liftAll : ∀ ns : List Node, NodeE.eraseAll (Node.liftAll ns) = ns
  | [] => by rw [Node.liftAll, NodeE.eraseAll]
  | n :: ns => by rw [Node.liftAll, NodeE.eraseAll, erase_lift n, eraseAll_liftAll ns]
end

end Log4rs.Pattern
