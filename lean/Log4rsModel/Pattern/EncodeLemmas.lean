import Log4rsModel.Pattern.Encode
/-
Lemmas about the encoder model: it is the pure operation stream `opsList` unless a date format
that is actually rendered is rejected by chrono; it never returns `err`; concatenation.
-/
namespace Log4rs.Pattern.Parse

/-- unfolding of `compile` on a formatter piece (simp-friendly: `simp [compile]` on this
nested-recursive definition is avoided) -/
theorem compile_arg (B : Build) (n : List Char) (args : List (List Piece)) (p : Params) :
    compile B (.arg n args p) =
      if n = cs!"d" || n = cs!"date" then dateChunk B args p
      else match groupOfName n with
        | some g =>
          match args with
          | [a] => .group g (compileL B a) p
          | _ => .error eExactlyOne
        | none =>
          match leafOfName n with
          | some k => noArgs args p k
          | none =>
            if n = cs!"X" || n = cs!"mdc" then mdcChunk B args p
            else .error (eUnknownFormatter n) := by
  rw [compile]
  split <;> rfl

theorem compile_text (B : Build) (s : List Char) : compile B (.text s) = .text s := by rw [compile]
theorem compile_error (B : Build) (e : List Char) : compile B (.error e) = .error e := by rw [compile]
theorem compileL_nil (B : Build) : compileL B [] = [] := by rw [compileL]
theorem compileL_cons (B : Build) (p : Piece) (ps : List Piece) :
    compileL B (p :: ps) = compile B p :: compileL B ps := by
  rw [compileL]

theorem leafText_ok (env : Env) (r : Record) (k : Leaf)
    (h : ∀ fmt utc, k = .time fmt utc → env.strftimeOk fmt = true) :
    leafText env r k = .ok (leafTextPure env r k) := by
  cases k <;> simp [leafText, leafTextPure]
  rename_i fmt utc
  exact h fmt utc rfl

theorem leafText_ne_err (env : Env) (r : Record) (k : Leaf) (e : Unit) : leafText env r k ≠ .err e := by
  cases k <;> simp [leafText]
  split <;> simp

mutual
theorem encChunk_eq_ops (env : Env) (r : Record) : ∀ (c : Chunk),
    (∀ x ∈ renderedTimes env c, env.strftimeOk x.1 = true) → encChunk env r c = .ok (opsChunk env r c)
  | .text s, _ => by simp [encChunk, opsChunk]
  | .error e, _ => by simp [encChunk, opsChunk]
  | .leaf k p, h => by
    have : leafText env r k = .ok (leafTextPure env r k) := by
      apply leafText_ok
      intro fmt utc hk
      subst hk
      exact h (fmt, utc) (by simp [renderedTimes])
    simp [encChunk, opsChunk, this, omap]
  | .group g cs p, h => by
    cases g with
    | align =>
      have := encList_eq_ops env r cs (by simpa [renderedTimes] using h)
      simp [encChunk, opsChunk, this, omap]
    | highlight =>
      have := encList_eq_ops env r cs (by simpa [renderedTimes] using h)
      simp [encChunk, opsChunk, this, omap]
    | debug =>
      by_cases hd : env.debugBuild = true
      · have := encList_eq_ops env r cs (by simpa [renderedTimes, hd] using h)
        simp [encChunk, opsChunk, this, omap, hd]
      · simp [encChunk, opsChunk, hd]
    | release =>
      by_cases hd : env.debugBuild = true
      · simp [encChunk, opsChunk, hd]
      · have := encList_eq_ops env r cs (by simpa [renderedTimes, hd] using h)
        simp [encChunk, opsChunk, this, omap, hd]
theorem encList_eq_ops (env : Env) (r : Record) : ∀ (cs : List Chunk),
    (∀ x ∈ renderedTimesL env cs, env.strftimeOk x.1 = true) → encList env r cs = .ok (opsList env r cs)
  | [], _ => by simp [encList, opsList]
  | c :: cs, h => by
    have h1 := encChunk_eq_ops env r c (fun x hx => h x (by simp [renderedTimesL, hx]))
    have h2 := encList_eq_ops env r cs (fun x hx => h x (by simp [renderedTimesL, hx]))
    simp [encList, opsList, h1, h2]
end

mutual
theorem encChunk_ne_err (env : Env) (r : Record) : ∀ (c : Chunk) (e : Unit), encChunk env r c ≠ .err e
  | .text s, _ => by simp [encChunk]
  | .error e, _ => by simp [encChunk]
  | .leaf k p, e => by
    have := leafText_ne_err env r k
    simp only [encChunk]
    cases h : leafText env r k <;> simp_all [omap]
  | .group g cs p, e => by
    have := encList_ne_err env r cs
    cases g <;> simp only [encChunk]
    · cases h : encList env r cs <;> simp_all [omap]
    · cases h : encList env r cs <;> simp_all [omap]
    · split
      · cases h : encList env r cs <;> simp_all [omap]
      · simp
    · split
      · simp
      · cases h : encList env r cs <;> simp_all [omap]
theorem encList_ne_err (env : Env) (r : Record) : ∀ (cs : List Chunk) (e : Unit), encList env r cs ≠ .err e
  | [], _ => by simp [encList]
  | c :: cs, e => by
    have h1 := encChunk_ne_err env r c
    have h2 := encList_ne_err env r cs
    simp only [encList]
    cases hc : encChunk env r c with
    | ok o =>
      cases hl : encList env r cs with
      | ok o' => simp
      | err e' => exact absurd hl (h2 e')
      | panic w => simp
    | err e' => exact absurd hc (h1 e')
    | panic w => simp
end

/-- sequencing of two encodes -/
def seqOut (a b : Outcome Unit Out) : Outcome Unit Out :=
  match a with
  | .ok o =>
    match b with
    | .ok o' => .ok (o ++ o')
    | .err e => .err e
    | .panic w => .panic w
  | .err e => .err e
  | .panic w => .panic w

theorem encList_cons (env : Env) (r : Record) (c : Chunk) (cs : List Chunk) :
    encList env r (c :: cs) = seqOut (encChunk env r c) (encList env r cs) := by
  simp only [encList, seqOut]
  cases encChunk env r c with
  | ok o => cases encList env r cs <;> rfl
  | err e => rfl
  | panic w => rfl

theorem seqOut_assoc (a b c : Outcome Unit Out) : seqOut (seqOut a b) c = seqOut a (seqOut b c) := by
  cases a <;> cases b <;> cases c <;> simp [seqOut]

theorem encList_append (env : Env) (r : Record) : ∀ (xs ys : List Chunk),
    encList env r (xs ++ ys) = seqOut (encList env r xs) (encList env r ys)
  | [], ys => by
    simp only [List.nil_append, encList, seqOut]
    cases encList env r ys <;> simp
  | x :: xs, ys => by
    rw [List.cons_append, encList_cons, encList_cons, encList_append env r xs ys, seqOut_assoc]

theorem opsList_append (env : Env) (r : Record) : ∀ (xs ys : List Chunk),
    opsList env r (xs ++ ys) = opsList env r xs ++ opsList env r ys
  | [], ys => by simp [opsList]
  | x :: xs, ys => by simp [opsList, opsList_append env r xs ys]

theorem ofText_text (cs : List Char) : Out.text (ofText cs) = cs := by
  induction cs with
  | nil => rfl
  | cons c cs ih => simp [ofText, Out.text] at ih ⊢; exact ih

theorem text_append (a b : Out) : Out.text (a ++ b) = Out.text a ++ Out.text b := by
  simp [Out.text, List.filterMap_append]


/-- `d` and `date` go to `dateChunk` -/
theorem compile_dateName (B : Build) (n : List Char) (hn : n = cs!"d" ∨ n = cs!"date")
    (args : List (List Piece)) (p : Params) : compile B (.arg n args p) = dateChunk B args p := by
  rw [compile_arg]
  rcases hn with h | h <;> subst h <;> simp

/-- a two-argument date formatter whose format is acceptable is decided by its zone argument -/
theorem dateChunk_zone (B : Build) (fmt z : List Piece) (p : Params)
    (hf : B.dateCheck = false ∨ B.dateOk (dateFormatOf fmt) = true) :
    dateChunk B [fmt, z] p =
      match tzOf B z with
      | .ok utc => .leaf (.time (dateFormatOf fmt) utc) p
      | .error e => .error e := by
  unfold dateChunk
  rcases hf with hf | hf <;> simp [dateFormatArg, hf] <;> cases tzOf B z <;> rfl

/-! ### after the repair of F4 every time chunk carries a format chrono's item parser accepts -/

theorem timesOf_text (s : List Char) : timesOf (.text s) = [] := by rw [timesOf]
theorem timesOf_error (e : List Char) : timesOf (.error e) = [] := by rw [timesOf]
theorem timesOf_group (g : GroupKind) (cs : List Chunk) (p : Params) :
    timesOf (.group g cs p) = timesOfL cs := by rw [timesOf]
theorem timesOf_leaf_time (f : List Char) (u : Bool) (p : Params) :
    timesOf (.leaf (.time f u) p) = [(f, u)] := by rw [timesOf]
theorem timesOf_leaf_nontime (k : Leaf) (p : Params) (hk : ∀ f u, k ≠ .time f u) :
    timesOf (.leaf k p) = [] := by
  cases k <;> first
    | (exact absurd rfl (hk _ _))
    | (rw [timesOf]; intros; contradiction)
theorem timesOf_leaf_mdc (k d : List Char) (p : Params) : timesOf (.leaf (.mdc k d) p) = [] :=
  timesOf_leaf_nontime _ p (by intro f u h; cases h)
theorem renderedTimes_group (env : Env) (g : GroupKind) (cs : List Chunk) (p : Params) :
    renderedTimes env (.group g cs p) =
      match g with
      | .debug => if env.debugBuild then renderedTimesL env cs else []
      | .release => if env.debugBuild then [] else renderedTimesL env cs
      | _ => renderedTimesL env cs := by
  cases g <;> rw [renderedTimes] <;> first | rfl | (intros; contradiction)
theorem timesOfL_nil : timesOfL [] = [] := by rw [timesOfL]
theorem timesOfL_cons (c : Chunk) (cs : List Chunk) : timesOfL (c :: cs) = timesOf c ++ timesOfL cs := by
  rw [timesOfL]

theorem leafLookup_mem (n : List Char) : ∀ (tbl : List (List Char × Leaf)) (k : Leaf),
    leafLookup n tbl = some k → (n, k) ∈ tbl
  | [], k, h => by simp [leafLookup] at h
  | (m, k') :: rest, k, h => by
    unfold leafLookup at h
    split at h
    · rename_i hn; cases h; subst hn; exact List.mem_cons_self
    · exact List.mem_cons_of_mem _ (leafLookup_mem n rest k h)

def Leaf.isTime : Leaf → Bool
  | .time _ _ => true
  | _ => false

theorem leafTable_nontime : ∀ e ∈ leafTable, e.2.isTime = false := by decide

theorem leafTable_notGroup : ∀ e ∈ leafTable,
    groupOfName e.1 = none ∧ e.1 ≠ cs!"d" ∧ e.1 ≠ cs!"date" := by decide

theorem timesOf_leafOfName (n : List Char) (k : Leaf) (p : Params) (h : leafOfName n = some k) :
    timesOf (.leaf k p) = [] := by
  apply timesOf_leaf_nontime
  intro f u hc
  subst hc
  have := leafTable_nontime _ (leafLookup_mem n leafTable _ h)
  simp [Leaf.isTime] at this

theorem dateChunk_times (B : Build) (hd : B.dateCheck = true) (args : List (List Piece)) (p : Params) :
    ∀ x ∈ timesOf (dateChunk B args p), B.dateOk x.1 = true := by
  intro x hx
  unfold dateChunk at hx
  split at hx
  · rw [timesOf_error] at hx; cases hx
  · simp only [hd, Bool.true_and] at hx
    split at hx
    · rw [timesOf_error] at hx; cases hx
    · rename_i hok
      have hok' : B.dateOk (dateFormatArg args) = true := by simpa using hok
      split at hx
      · split at hx
        · rw [timesOf_leaf_time] at hx; simp at hx; subst hx; exact hok'
        · rw [timesOf_error] at hx; cases hx
      · rw [timesOf_leaf_time] at hx; simp at hx; subst hx; exact hok'

theorem mdcChunk_times (B : Build) (args : List (List Piece)) (p : Params) :
    timesOf (mdcChunk B args p) = [] := by
  unfold mdcChunk
  repeat (first | rw [timesOf_error] | rw [timesOf_leaf_mdc] | split)

mutual
theorem times_compile (B : Build) (hd : B.dateCheck = true) :
    ∀ (pc : Piece), ∀ x ∈ timesOf (compile B pc), B.dateOk x.1 = true
  | .text s => by rw [compile_text, timesOf_text]; intro x hx; cases hx
  | .error e => by rw [compile_error, timesOf_error]; intro x hx; cases hx
  | .arg n args p => by
    intro x hx
    rw [compile_arg] at hx
    split at hx
    · exact dateChunk_times B hd args p x hx
    · split at hx
      · match args, hx with
        | [], hx => rw [timesOf_error] at hx; cases hx
        | [a], hx =>
          simp only [timesOf_group] at hx
          exact times_compileL B hd a x hx
        | _ :: _ :: _, hx => rw [timesOf_error] at hx; cases hx
      · split at hx
        · rename_i k hk
          unfold noArgs at hx
          split at hx
          · rw [timesOf_leafOfName n k p hk] at hx; cases hx
          · rw [timesOf_error] at hx; cases hx
        · split at hx
          · rw [mdcChunk_times] at hx; cases hx
          · rw [timesOf_error] at hx; cases hx
theorem times_compileL (B : Build) (hd : B.dateCheck = true) :
    ∀ (ps : List Piece), ∀ x ∈ timesOfL (compileL B ps), B.dateOk x.1 = true
  | [] => by rw [compileL_nil, timesOfL_nil]; intro x hx; cases hx
  | pc :: ps => by
    intro x hx
    rw [compileL_cons, timesOfL_cons, List.mem_append] at hx
    rcases hx with h | h
    · exact times_compile B hd pc x h
    · exact times_compileL B hd ps x h
end

mutual
theorem rendered_sub_times (env : Env) : ∀ (c : Chunk), ∀ x ∈ renderedTimes env c, x ∈ timesOf c
  | .text s => by rw [renderedTimes]; intro x hx; cases hx
  | .error e => by rw [renderedTimes]; intro x hx; cases hx
  | .leaf k p => by
    intro x hx
    cases k <;> rw [renderedTimes] at hx <;> first | (cases hx; done) | (rw [timesOf]; exact hx)
  | .group g cs p => by
    intro x hx
    rw [timesOf_group]
    rw [renderedTimes_group] at hx
    cases g <;> simp only at hx
    · exact rendered_sub_timesL env cs x hx
    · exact rendered_sub_timesL env cs x hx
    · split at hx
      · exact rendered_sub_timesL env cs x hx
      · cases hx
    · split at hx
      · cases hx
      · exact rendered_sub_timesL env cs x hx
theorem rendered_sub_timesL (env : Env) : ∀ (cs : List Chunk), ∀ x ∈ renderedTimesL env cs, x ∈ timesOfL cs
  | [] => by rw [renderedTimesL]; intro x hx; cases hx
  | c :: cs => by
    intro x hx
    rw [renderedTimesL, List.mem_append] at hx
    rw [timesOfL_cons, List.mem_append]
    rcases hx with h | h
    · exact Or.inl (rendered_sub_times env c x h)
    · exact Or.inr (rendered_sub_timesL env cs x h)
end

end Log4rs.Pattern.Parse
