import Log4rsModel.Pattern.Encode
/-
Lemmas about the encoder model: it is the pure operation stream `opsList` unless a date format
that is actually rendered is rejected by chrono; it never returns `err`; concatenation.
-/
namespace Log4rs.Pattern.Parse

/-- unfolding of `compile` on a formatter piece (simp-friendly: `simp [compile]` on this
nested-recursive definition is avoided) -/
theorem compile_arg (n : List Char) (args : List (List Piece)) (p : Params) :
    compile (.arg n args p) =
      if n = cs!"d" || n = cs!"date" then dateChunk args p
      else match groupOfName n with
        | some g =>
          match args with
          | [a] => .group g (compileL a) p
          | _ => .error eExactlyOne
        | none =>
          match leafOfName n with
          | some k => noArgs args p k
          | none =>
            if n = cs!"X" || n = cs!"mdc" then mdcChunk args p
            else .error (eUnknownFormatter n) := by
  rw [compile]
  split <;> rfl

theorem compile_text (s : List Char) : compile (.text s) = .text s := by rw [compile]
theorem compile_error (e : List Char) : compile (.error e) = .error e := by rw [compile]
theorem compileL_nil : compileL [] = [] := by rw [compileL]
theorem compileL_cons (p : Piece) (ps : List Piece) : compileL (p :: ps) = compile p :: compileL ps := by
  rw [compileL]

theorem leafText_ok (env : Env) (r : Record) (k : Leaf)
    (h : ∀ fmt utc, k = .time fmt utc → env.strftimeOk fmt utc = true) :
    leafText env r k = .ok (leafTextPure env r k) := by
  cases k <;> simp [leafText, leafTextPure]
  rename_i fmt utc
  exact h fmt utc rfl

theorem leafText_ne_err (env : Env) (r : Record) (k : Leaf) (e : Unit) : leafText env r k ≠ .err e := by
  cases k <;> simp [leafText]
  split <;> simp

mutual
theorem encChunk_eq_ops (env : Env) (r : Record) : ∀ (c : Chunk),
    (∀ x ∈ renderedTimes env c, env.strftimeOk x.1 x.2 = true) → encChunk env r c = .ok (opsChunk env r c)
  | .text s, _ => by simp [encChunk, opsChunk]
  | .error e, _ => by simp [encChunk, opsChunk]
  | .leaf k p, h => by
    have : leafText env r k = .ok (leafTextPure env r k) := by
      apply leafText_ok
      intro fmt utc hk
      subst hk
      exact h (fmt, utc) (by simp [renderedTimes])
    simp [encChunk, opsChunk, this, omap]
  | .group g cs p, h => by
    cases g with
    | align =>
      have := encList_eq_ops env r cs (by simpa [renderedTimes] using h)
      simp [encChunk, opsChunk, this, omap]
    | highlight =>
      have := encList_eq_ops env r cs (by simpa [renderedTimes] using h)
      simp [encChunk, opsChunk, this, omap]
    | debug =>
      by_cases hd : env.debugBuild = true
      · have := encList_eq_ops env r cs (by simpa [renderedTimes, hd] using h)
        simp [encChunk, opsChunk, this, omap, hd]
      · simp [encChunk, opsChunk, hd]
    | release =>
      by_cases hd : env.debugBuild = true
      · simp [encChunk, opsChunk, hd]
      · have := encList_eq_ops env r cs (by simpa [renderedTimes, hd] using h)
        simp [encChunk, opsChunk, this, omap, hd]
theorem encList_eq_ops (env : Env) (r : Record) : ∀ (cs : List Chunk),
    (∀ x ∈ renderedTimesL env cs, env.strftimeOk x.1 x.2 = true) → encList env r cs = .ok (opsList env r cs)
  | [], _ => by simp [encList, opsList]
  | c :: cs, h => by
    have h1 := encChunk_eq_ops env r c (fun x hx => h x (by simp [renderedTimesL, hx]))
    have h2 := encList_eq_ops env r cs (fun x hx => h x (by simp [renderedTimesL, hx]))
    simp [encList, opsList, h1, h2]
end

mutual
theorem encChunk_ne_err (env : Env) (r : Record) : ∀ (c : Chunk) (e : Unit), encChunk env r c ≠ .err e
  | .text s, _ => by simp [encChunk]
  | .error e, _ => by simp [encChunk]
  | .leaf k p, e => by
    have := leafText_ne_err env r k
    simp only [encChunk]
    cases h : leafText env r k <;> simp_all [omap]
  | .group g cs p, e => by
    have := encList_ne_err env r cs
    cases g <;> simp only [encChunk]
    · cases h : encList env r cs <;> simp_all [omap]
    · cases h : encList env r cs <;> simp_all [omap]
    · split
      · cases h : encList env r cs <;> simp_all [omap]
      · simp
    · split
      · simp
      · cases h : encList env r cs <;> simp_all [omap]
theorem encList_ne_err (env : Env) (r : Record) : ∀ (cs : List Chunk) (e : Unit), encList env r cs ≠ .err e
  | [], _ => by simp [encList]
  | c :: cs, e => by
    have h1 := encChunk_ne_err env r c
    have h2 := encList_ne_err env r cs
    simp only [encList]
    cases hc : encChunk env r c with
    | ok o =>
      cases hl : encList env r cs with
      | ok o' => simp
      | err e' => exact absurd hl (h2 e')
      | panic w => simp
    | err e' => exact absurd hc (h1 e')
    | panic w => simp
end

/-- sequencing of two encodes -/
def seqOut (a b : Outcome Unit Out) : Outcome Unit Out :=
  match a with
  | .ok o =>
    match b with
    | .ok o' => .ok (o ++ o')
    | .err e => .err e
    | .panic w => .panic w
  | .err e => .err e
  | .panic w => .panic w

theorem encList_cons (env : Env) (r : Record) (c : Chunk) (cs : List Chunk) :
    encList env r (c :: cs) = seqOut (encChunk env r c) (encList env r cs) := by
  simp only [encList, seqOut]
  cases encChunk env r c with
  | ok o => cases encList env r cs <;> rfl
  | err e => rfl
  | panic w => rfl

theorem seqOut_assoc (a b c : Outcome Unit Out) : seqOut (seqOut a b) c = seqOut a (seqOut b c) := by
  cases a <;> cases b <;> cases c <;> simp [seqOut]

theorem encList_append (env : Env) (r : Record) : ∀ (xs ys : List Chunk),
    encList env r (xs ++ ys) = seqOut (encList env r xs) (encList env r ys)
  | [], ys => by
    simp only [List.nil_append, encList, seqOut]
    cases encList env r ys <;> simp
  | x :: xs, ys => by
    rw [List.cons_append, encList_cons, encList_cons, encList_append env r xs ys, seqOut_assoc]

theorem opsList_append (env : Env) (r : Record) : ∀ (xs ys : List Chunk),
    opsList env r (xs ++ ys) = opsList env r xs ++ opsList env r ys
  | [], ys => by simp [opsList]
  | x :: xs, ys => by simp [opsList, opsList_append env r xs ys]

theorem ofText_text (cs : List Char) : Out.text (ofText cs) = cs := by
  induction cs with
  | nil => rfl
  | cons c cs ih => simp [ofText, Out.text] at ih ⊢; exact ih

theorem text_append (a b : Out) : Out.text (a ++ b) = Out.text a ++ Out.text b := by
  simp [Out.text, List.filterMap_append]

end Log4rs.Pattern.Parse
