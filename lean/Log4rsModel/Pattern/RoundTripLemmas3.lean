import Log4rsModel.Pattern.RoundTripLemmas2
/-
Parser round trip for C09, part III: `next` on a printed escape / formatter yields `pieceOf`, and
the argument loop on a printed pattern list yields `piecesOf` — by mutual structural induction
over the nested AST (every nesting depth).
-/
namespace Log4rs.Pattern.Parse

/-! unfolding equations of the mutually recursive AST functions -/

theorem showPat_lit (l : Lit) : showPat (.lit l) = showLit l := by rw [showPat]
theorem showPat_leaf (k long spec) :
    showPat (.leaf k long spec) = '{' :: (leafName k long ++ showSpec spec ++ ['}']) := by rw [showPat]
theorem showPat_date (long args spec) :
    showPat (.date long args spec) = '{' :: (dateName long ++ showDateArgs args ++ showSpec spec ++ ['}']) := by
  rw [showPat]
theorem showPat_mdc (long key dflt spec) :
    showPat (.mdc long key dflt spec) =
      '{' :: (mdcName long ++ ('(' :: showLits key ++ [')']) ++ showDflt dflt ++ showSpec spec ++ ['}']) := by
  rw [showPat]
theorem showPat_group (k long body spec) :
    showPat (.group k long body spec) =
      '{' :: (groupName k long ++ ('(' :: showPats body ++ [')']) ++ showSpec spec ++ ['}']) := by rw [showPat]
theorem showPats_nil : showPats [] = [] := by rw [showPats]
theorem showPats_cons (p : Pat) (ps : List Pat) : showPats (p :: ps) = showPat p ++ showPats ps := by
  rw [showPats]

theorem pieceOf_lit (l : Lit) : pieceOf (.lit l) = .text [l.c] := by rw [pieceOf]
theorem pieceOf_leaf (k long spec) :
    pieceOf (.leaf k long spec) = .arg (leafName k long) [] (paramsOf spec) := by rw [pieceOf]
theorem pieceOf_date (long args spec) :
    pieceOf (.date long args spec) = .arg (dateName long) (dateArgPieces args) (paramsOf spec) := by rw [pieceOf]
theorem pieceOf_mdc (long key dflt spec) :
    pieceOf (.mdc long key dflt spec) =
      .arg (mdcName long) (litPieces [] key :: dfltPieces dflt) (paramsOf spec) := by rw [pieceOf]
theorem pieceOf_group (k long body spec) :
    pieceOf (.group k long body spec) = .arg (groupName k long) [piecesOf [] body] (paramsOf spec) := by
  rw [pieceOf]
theorem piecesOf_nil (pre : List Char) : piecesOf pre [] = flushText pre := by rw [piecesOf]
theorem piecesOf_cons (pre : List Char) (p : Pat) (ps : List Pat) :
    piecesOf pre (p :: ps) =
      match plainChar p with
      | some c => piecesOf (pre ++ [c]) ps
      | none => flushText pre ++ pieceOf p :: piecesOf [] ps := by
  rw [piecesOf]
  cases plainChar p <;> rfl

theorem wfPat_lit (bits inArg l) : wfPat bits inArg (.lit l) = wfLit inArg l := by rw [wfPat]
theorem wfPat_leaf (bits inArg k long spec) :
    wfPat bits inArg (.leaf k long spec) = wfSpec bits spec := by rw [wfPat]
theorem wfPat_date (bits inArg long args spec) :
    wfPat bits inArg (.date long args spec) =
      ((match args with
        | none => true
        | some (f, _) => f.all (wfLit true)) && wfSpec bits spec) := by
  cases args with
  | none => rw [wfPat]
  | some fz => rw [wfPat]
theorem wfPat_mdc (bits inArg long key dflt spec) :
    wfPat bits inArg (.mdc long key dflt spec) =
      (key.all (wfLit true) &&
      (match dflt with
        | none => true
        | some d => d.all (wfLit true)) && wfSpec bits spec) := by
  cases dflt with
  | none => rw [wfPat]
  | some d => rw [wfPat]
theorem wfPat_group (bits inArg k long body spec) :
    wfPat bits inArg (.group k long body spec) = (wfPats bits true body && wfSpec bits spec) := by rw [wfPat]
theorem wfPats_nil (bits inArg) : wfPats bits inArg [] = true := by rw [wfPats]
theorem wfPats_cons (bits inArg p ps) :
    wfPats bits inArg (p :: ps) = (wfPat bits inArg p && wfPats bits inArg ps) := by rw [wfPats]

theorem depthPat_lit (l) : depthPat (.lit l) = 0 := by rw [depthPat]
theorem depthPat_leaf (k long spec) : depthPat (.leaf k long spec) = 0 := by rw [depthPat]
theorem depthPat_date_none (long spec) : depthPat (.date long none spec) = 0 := by rw [depthPat]
theorem depthPat_date_some (long fz spec) : depthPat (.date long (some fz) spec) = 1 := by rw [depthPat]
theorem depthPat_mdc (long key dflt spec) : depthPat (.mdc long key dflt spec) = 1 := by rw [depthPat]
theorem depthPat_group (k long body spec) : depthPat (.group k long body spec) = depthPats body + 1 := by
  rw [depthPat]
theorem depthPats_nil : depthPats [] = 0 := by rw [depthPats]
theorem depthPats_cons (p ps) : depthPats (p :: ps) = max (depthPat p) (depthPats ps) := by rw [depthPats]

theorem plainLit_wf {l : Lit} (h : plainLit l = true) : wfLit true l = true := by
  simp only [plainLit, Bool.and_eq_true, Bool.not_eq_true', beq_iff_eq] at h
  simp [wfLit, h.1, h.2]

theorem all_plain_wf {ls : List Lit} (h : ls.all plainLit = true) : ls.all (wfLit true) = true := by
  rw [List.all_eq_true] at h ⊢
  intro l hl
  exact plainLit_wf (h l hl)

theorem zoneName_plain (z : Bool) : (zoneName z).all nonSpecial = true ∧ flushText (zoneName z) = [.text (zoneName z)] := by
  cases z <;> exact ⟨by decide, rfl⟩

/-- first character of a printed escape or formatter; only an escape can start with `)` -/
theorem showPat_head (bits : Nat) (inArg : Bool) (p : Pat) (rest : List Char)
    (hwf : wfPat bits inArg p = true) (hnp : plainChar p = none) :
    ∃ hd tl, showPat p ++ rest = hd :: tl ∧ isSpecial hd = true ∧
      (hd ≠ ')' ∨ ∃ l, p = .lit l ∧ l.esc ≠ .plain) := by
  cases p with
  | lit l =>
    rw [wfPat_lit] at hwf
    have he : l.esc ≠ .plain := by
      intro he; simp [plainChar, he] at hnp
    rw [showPat_lit]
    -- the first component is not needed here; any parser instance does
    obtain ⟨hd, tl, h1, h2⟩ := (next_escape asciiClass Profile.debug64 0 inArg l rest hwf he).2
    exact ⟨hd, tl, h1, h2, Or.inr ⟨l, rfl, he⟩⟩
  | leaf k long spec => exact ⟨'{', _, by rw [showPat_leaf]; rfl, by decide, Or.inl (by decide)⟩
  | date long args spec => exact ⟨'{', _, by rw [showPat_date]; rfl, by decide, Or.inl (by decide)⟩
  | mdc long key dflt spec => exact ⟨'{', _, by rw [showPat_mdc]; rfl, by decide, Or.inl (by decide)⟩
  | group k long body spec => exact ⟨'{', _, by rw [showPat_group]; rfl, by decide, Or.inl (by decide)⟩

theorem noParen_specTail (spec : Option FormatSpec) (rest : List Char) :
    NoParenHead (showSpec spec ++ '}' :: rest) := by
  obtain ⟨t, tl, h, ht⟩ := specTail_head spec rest
  rw [h]
  intro x hx
  cases hx
  rcases ht with h | h <;> cases h

theorem noParen_open (x : List Char) : NoParenHead ('(' :: x) := by
  intro t h; cases h

theorem plainChar_some {p : Pat} {c : Char} (h : plainChar p = some c) :
    ∃ l, p = .lit l ∧ l.esc = .plain ∧ l.c = c := by
  cases p with
  | lit l =>
    by_cases he : l.esc = .plain
    · simp [plainChar, he] at h; exact ⟨l, rfl, he, h⟩
    · simp [plainChar, he] at h
  | leaf k long spec => simp [plainChar] at h
  | date long args spec => simp [plainChar] at h
  | mdc long key dflt spec => simp [plainChar] at h
  | group k long body spec => simp [plainChar] at h

mutual
/-- `next` on a printed escape or formatter followed by anything -/
theorem next_nonplain (cc : CharClass) (hcc : CCAscii cc) (P : Profile) (hus : P.underscoreNames = true)
    (hP : P.doubledCloseParen = true) :
    ∀ (p : Pat) (d : Nat) (inArg : Bool), wfPat P.wordBits inArg p = true → plainChar p = none →
      depthPat p + d ≤ P.maxDepth →
      ∀ rest : List Char, nextAt cc P d (showPat p ++ rest) = .ok (some (pieceOf p)) rest
  | .lit l, d, inArg, hwf, hnp, _, rest => by
    rw [wfPat_lit] at hwf
    have he : l.esc ≠ .plain := by
      intro he; simp [plainChar, he] at hnp
    rw [showPat_lit, pieceOf_lit]
    exact (next_escape cc P d inArg l rest hwf he).1
  | .leaf k long spec, d, inArg, hwf, _, _, rest => by
    rw [wfPat_leaf] at hwf
    have hspec := hwf
    obtain ⟨t, tl, htl, ht⟩ := specTail_head spec rest
    rw [showPat_leaf, pieceOf_leaf]
    have hre : ('{' :: (leafName k long ++ showSpec spec ++ ['}'])) ++ rest =
        '{' :: (leafName k long ++ t :: tl) := by simp [← htl]
    rw [hre]
    refine next_named cc hcc P d _ t tl [] spec rest (isName_leaf cc hcc P hus k long) ?_ ?_ hspec
    · rcases ht with h | h
      · exact Or.inl h
      · exact Or.inr (Or.inl h)
    · rw [← htl]; exact argsL_done cc P d spec rest []
  | .date long args spec, d, inArg, hwf, _, hdep, rest => by
    rw [wfPat_date] at hwf
    simp only [Bool.and_eq_true] at hwf
    obtain ⟨hargs, hspec⟩ := hwf
    rw [showPat_date, pieceOf_date]
    cases args with
    | none =>
      obtain ⟨t, tl, htl, ht⟩ := specTail_head spec rest
      have hre : ('{' :: (dateName long ++ showDateArgs none ++ showSpec spec ++ ['}'])) ++ rest =
          '{' :: (dateName long ++ t :: tl) := by simp [showDateArgs, ← htl]
      rw [hre]
      refine next_named cc hcc P d _ t tl [] spec rest (isName_date cc hcc P long) ?_ ?_ hspec
      · rcases ht with h | h
        · exact Or.inl h
        · exact Or.inr (Or.inl h)
      · rw [← htl]; exact argsL_done cc P d spec rest []
    | some fz =>
      rw [depthPat_date_some] at hdep
      have hd : d ≠ P.maxDepth := by omega
      obtain ⟨f, z⟩ := fz
      simp only at hargs
      have hb1 : ∀ tail, NoParenHead tail →
          argB cc P (d + 1) (showLits f ++ ')' :: tail) [] = .ok (litPieces [] f) tail := by
        intro tail htail
        simpa using argB_lits cc P (d + 1) hP f [] tail [] hargs (by simp) htail
      cases z with
      | none =>
        have hre : ('{' :: (dateName long ++ showDateArgs (some (f, none)) ++ showSpec spec ++ ['}'])) ++ rest =
            '{' :: (dateName long ++ '(' :: (showLits f ++ ')' :: (showSpec spec ++ '}' :: rest))) := by
          simp [showDateArgs]
        rw [hre]
        refine next_named cc hcc P d _ '(' _ _ spec rest (isName_date cc hcc P long) (Or.inr (Or.inr rfl)) ?_ hspec
        rw [argsL_arg cc P d hd _ _ [] _ (hb1 _ (noParen_specTail spec rest))]
        exact argsL_done cc P d spec rest _
      | some z =>
        obtain ⟨hz1, hz2⟩ := zoneName_plain z
        have hre : ('{' :: (dateName long ++ showDateArgs (some (f, some z)) ++ showSpec spec ++ ['}'])) ++ rest =
            '{' :: (dateName long ++ '(' :: (showLits f ++ ')' ::
              ('(' :: (zoneName z ++ ')' :: (showSpec spec ++ '}' :: rest))))) := by
          simp [showDateArgs]
        rw [hre]
        refine next_named cc hcc P d _ '(' _ _ spec rest (isName_date cc hcc P long) (Or.inr (Or.inr rfl)) ?_ hspec
        rw [argsL_arg cc P d hd _ _ [] _ (hb1 _ (noParen_open _))]
        have hb2 : argB cc P (d + 1) (zoneName z ++ ')' :: (showSpec spec ++ '}' :: rest)) [] =
            .ok [.text (zoneName z)] (showSpec spec ++ '}' :: rest) := by
          simpa [hz2] using argB_plain cc P (d + 1) (zoneName z) (showSpec spec ++ '}' :: rest) [] hz1
            (noParen_specTail spec rest)
        rw [argsL_arg cc P d hd _ _ _ _ hb2]
        simpa [dateArgPieces, zonePieces] using argsL_done cc P d spec rest [litPieces [] f, [.text (zoneName z)]]
  | .mdc long key dflt spec, d, inArg, hwf, _, hdep, rest => by
    rw [depthPat_mdc] at hdep
    have hd : d ≠ P.maxDepth := by omega
    rw [wfPat_mdc] at hwf
    simp only [Bool.and_eq_true] at hwf
    obtain ⟨⟨hkey, hdflt⟩, hspec⟩ := hwf
    rw [showPat_mdc, pieceOf_mdc]
    have hb : ∀ (ls : List Lit), ls.all (wfLit true) = true → ∀ tail, NoParenHead tail →
        argB cc P (d + 1) (showLits ls ++ ')' :: tail) [] = .ok (litPieces [] ls) tail := by
      intro ls hls tail htail
      simpa using argB_lits cc P (d + 1) hP ls [] tail [] hls (by simp) htail
    cases dflt with
    | none =>
      have hre : ('{' :: (mdcName long ++ ('(' :: showLits key ++ [')']) ++ showDflt none ++ showSpec spec ++ ['}'])) ++ rest =
          '{' :: (mdcName long ++ '(' :: (showLits key ++ ')' :: (showSpec spec ++ '}' :: rest))) := by
        simp [showDflt]
      rw [hre]
      refine next_named cc hcc P d _ '(' _ _ spec rest (isName_mdc cc hcc P long) (Or.inr (Or.inr rfl)) ?_ hspec
      rw [argsL_arg cc P d hd _ _ [] _ (hb key hkey _ (noParen_specTail spec rest))]
      simpa [dfltPieces] using argsL_done cc P d spec rest [litPieces [] key]
    | some dl =>
      have hre : ('{' :: (mdcName long ++ ('(' :: showLits key ++ [')']) ++ showDflt (some dl) ++ showSpec spec ++ ['}'])) ++ rest =
          '{' :: (mdcName long ++ '(' :: (showLits key ++ ')' ::
            ('(' :: (showLits dl ++ ')' :: (showSpec spec ++ '}' :: rest))))) := by
        simp [showDflt]
      rw [hre]
      refine next_named cc hcc P d _ '(' _ _ spec rest (isName_mdc cc hcc P long) (Or.inr (Or.inr rfl)) ?_ hspec
      rw [argsL_arg cc P d hd _ _ [] _ (hb key hkey _ (noParen_open _))]
      rw [argsL_arg cc P d hd _ _ _ _ (hb dl hdflt _ (noParen_specTail spec rest))]
      simpa [dfltPieces] using argsL_done cc P d spec rest [litPieces [] key, litPieces [] dl]
  | .group k long body spec, d, inArg, hwf, _, hdep, rest => by
    rw [depthPat_group] at hdep
    have hd : d ≠ P.maxDepth := by omega
    rw [wfPat_group] at hwf
    simp only [Bool.and_eq_true] at hwf
    obtain ⟨hbody, hspec⟩ := hwf
    rw [showPat_group, pieceOf_group]
    have hb : argB cc P (d + 1) (showPats body ++ ')' :: (showSpec spec ++ '}' :: rest)) [] =
        .ok (piecesOf [] body) (showSpec spec ++ '}' :: rest) := by
      simpa using argB_pats cc hcc P hus hP body (d + 1) hbody (by omega) [] (by simp) (showSpec spec ++ '}' :: rest)
        (noParen_specTail spec rest) []
    have hargs : argsL cc P d ('(' :: (showPats body ++ ')' :: (showSpec spec ++ '}' :: rest))) [] =
        .ok [piecesOf [] body] (showSpec spec ++ '}' :: rest) := by
      rw [argsL_arg cc P d hd _ _ [] _ hb]
      exact argsL_done cc P d spec rest _
    by_cases hk : k = .align
    · subst hk
      have hre : ('{' :: (groupName .align long ++ ('(' :: showPats body ++ [')']) ++ showSpec spec ++ ['}'])) ++ rest =
          '{' :: '(' :: (showPats body ++ ')' :: (showSpec spec ++ '}' :: rest)) := by
        simp [groupName]
      rw [hre]
      simpa [groupName] using next_unnamed cc hcc P d _ _ spec rest hargs hspec
    · have hre : ('{' :: (groupName k long ++ ('(' :: showPats body ++ [')']) ++ showSpec spec ++ ['}'])) ++ rest =
          '{' :: (groupName k long ++ '(' :: (showPats body ++ ')' :: (showSpec spec ++ '}' :: rest))) := by
        simp
      rw [hre]
      exact next_named cc hcc P d _ '(' _ _ spec rest (isName_group cc hcc P k long hk) (Or.inr (Or.inr rfl)) hargs hspec
/-- the argument loop on a printed pattern list (pending ordinary text `pre`) up to its `)` -/
theorem argB_pats (cc : CharClass) (hcc : CCAscii cc) (P : Profile) (hus : P.underscoreNames = true)
    (hP : P.doubledCloseParen = true) :
    ∀ (ps : List Pat) (d : Nat), wfPats P.wordBits true ps = true → depthPats ps + d ≤ P.maxDepth →
      ∀ pre : List Char, pre.all nonSpecial = true →
      ∀ (more : List Char), NoParenHead more → ∀ (acc : List Piece),
        argB cc P d (pre ++ (showPats ps ++ ')' :: more)) acc = .ok (acc ++ piecesOf pre ps) more
  | [], d, _, _, pre, hpre, more, hm, acc => by
    rw [showPats_nil, piecesOf_nil]
    simpa using argB_plain cc P d pre more acc hpre hm
  | p :: ps, d, hwf, hdep, pre, hpre, more, hm, acc => by
    rw [depthPats_cons] at hdep
    have hdp : depthPat p + d ≤ P.maxDepth := by omega
    have hdps : depthPats ps + d ≤ P.maxDepth := by omega
    rw [wfPats_cons] at hwf
    simp only [Bool.and_eq_true] at hwf
    obtain ⟨hp, hps⟩ := hwf
    rw [showPats_cons, piecesOf_cons]
    cases hpc : plainChar p with
    | some c =>
      obtain ⟨l, hl, he, hc⟩ := plainChar_some hpc
      subst hl
      rw [wfPat_lit] at hp
      have hns := wfLit_plain hp he
      rw [hc] at hns
      have ih := argB_pats cc hcc P hus hP ps d hps hdps (pre ++ [c]) (all_nonSpecial_snoc hpre hns) more hm acc
      simp only [showPat_lit, showLit, he, hc]
      simpa using ih
    | none =>
      obtain ⟨hd, tl, hshape, hsp, hne⟩ := showPat_head P.wordBits true p (showPats ps ++ ')' :: more) hp hpc
      have hn := next_nonplain cc hcc P hus hP p d true hp hpc hdp (showPats ps ++ ')' :: more)
      have ih := argB_pats cc hcc P hus hP ps d hps hdps [] (by simp) more hm (acc ++ flushText pre ++ [pieceOf p])
      simp only [List.append_assoc]
      rw [argB_flush' cc P d pre _ acc hpre (by rw [hshape]; exact hsp)]
      rcases hne with hne | ⟨l, hl, he⟩
      · rw [hshape] at hn ⊢
        rw [argB_step cc P d hd tl _ hne _ _ hn]
        simpa using ih
      · subst hl
        rw [wfPat_lit] at hp
        rw [showPat_lit, argB_escape cc P d hP l _ _ hp he]
        rw [pieceOf_lit] at ih ⊢
        simpa using ih
end

end Log4rs.Pattern.Parse
