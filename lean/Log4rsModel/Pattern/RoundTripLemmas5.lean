import Log4rsModel.Pattern.RoundTripLemmas4
/-
Parser round trip for C09, part V: beyond the nesting limit. A printed (otherwise well-formed)
formatter whose parenthesised arguments go deeper than `Profile.maxDepth` (= `MAX_DEPTH` of
parser.rs) is read as the piece `Error("expected '}'")` and nothing is left of the input: the `(`
one level too deep swallows the rest and fails with `nesting too deep`; every enclosing argument
then fails with `unclosed '('`, every enclosing formatter misses its `}`. By the same mutual
induction over the nested AST as part III.
-/
namespace Log4rs.Pattern.Parse

theorem argsL_too_deep (cc : CharClass) (P : Profile) (r : List Char) (acc : List (List Piece)) :
    argsL cc P P.maxDepth ('(' :: r) acc = .fail eNestingTooDeep [] := by
  unfold argsL
  rw [argsLoop]
  simp

/-- a failing argument body makes `args()` fail -/
theorem argsL_open_fail (cc : CharClass) (P : Profile) (d : Nat) (hd : d ≠ P.maxDepth) (r : List Char)
    (acc : List (List Piece)) (e : List Char) (hb : argB cc P (d + 1) r [] = .fail e []) :
    argsL cc P d ('(' :: r) acc = .fail e [] := by
  unfold argB at hb
  unfold argsL
  rw [argsLoop]
  simp only [if_true, hd, if_false]
  have : argBody cc P ('(' :: r).length (d + 1) r [] = .fail e [] := by simpa using hb
  rw [this]

/-- the `'{'` branch of `next` when `args()` fails with nothing left: the `}` is missing too -/
theorem next_formatter_fail (cc : CharClass) (P : Profile) (d : Nat) (nm tail : List Char) (e : List Char)
    (hhead : doubled '{' (nm ++ tail) = none)
    (hname : name cc P (nm ++ tail) = (nm, tail))
    (hargs : argsL cc P d tail [] = .fail e []) :
    nextAt cc P d ('{' :: (nm ++ tail)) = .ok (some (.error eExpectedClose)) [] := by
  rw [next_eq cc P d]
  simp only [nextWith, if_true, hhead, argumentWith, hname, hargs, closeBrace]

theorem next_named_fail (cc : CharClass) (hcc : CCAscii cc) (P : Profile) (d : Nat) (nm : List Char)
    (tl : List Char) (e : List Char)
    (hnm : isNameB cc.alpha (nameChar cc P) nm = true)
    (hargs : argsL cc P d ('(' :: tl) [] = .fail e []) :
    nextAt cc P d ('{' :: (nm ++ '(' :: tl)) = .ok (some (.error eExpectedClose)) [] := by
  obtain ⟨_, _, h3, _, h5, _⟩ := cc_syntax cc hcc
  have htn : nameChar cc P '(' = false := by simp [nameChar, h3]
  apply next_formatter_fail cc P d nm ('(' :: tl) e _ (name_of_isName cc P nm '(' tl hnm htn) hargs
  cases nm with
  | nil => simp [isNameB] at hnm
  | cons a r =>
    simp only [isNameB, Bool.and_eq_true] at hnm
    have : a ≠ '{' := by intro h; subst h; rw [h5] at hnm; exact absurd hnm.1 (by simp)
    simp [doubled, this]

theorem next_unnamed_fail (cc : CharClass) (hcc : CCAscii cc) (P : Profile) (d : Nat) (tl : List Char)
    (e : List Char) (hargs : argsL cc P d ('(' :: tl) [] = .fail e []) :
    nextAt cc P d ('{' :: '(' :: tl) = .ok (some (.error eExpectedClose)) [] := by
  obtain ⟨_, _, _, h4, _, _⟩ := cc_syntax cc hcc
  have := next_formatter_fail cc P d [] ('(' :: tl) e (by simp [doubled]) (by simp [name, h4]) hargs
  simpa using this

mutual
/-- `next` on a printed formatter that goes deeper than the limit: the error piece, nothing left -/
theorem next_too_deep (cc : CharClass) (hcc : CCAscii cc) (P : Profile) (hus : P.underscoreNames = true)
    (hP : P.doubledCloseParen = true) :
    ∀ (p : Pat) (d : Nat) (inArg : Bool), wfPat P.wordBits inArg p = true → d ≤ P.maxDepth →
      P.maxDepth < depthPat p + d →
      ∀ rest : List Char, nextAt cc P d (showPat p ++ rest) = .ok (some (.error eExpectedClose)) []
  | .lit l, d, _, _, hd, hdeep, _ => by rw [depthPat_lit] at hdeep; omega
  | .leaf k long spec, d, _, _, hd, hdeep, _ => by rw [depthPat_leaf] at hdeep; omega
  | .date long none spec, d, _, _, hd, hdeep, _ => by rw [depthPat_date_none] at hdeep; omega
  | .date long (some (f, z)) spec, d, _, _, hd, hdeep, rest => by
    rw [depthPat_date_some] at hdeep
    have hdm : d = P.maxDepth := by omega
    subst hdm
    rw [showPat_date]
    have hre : ∃ tl, ('{' :: (dateName long ++ showDateArgs (some (f, z)) ++ showSpec spec ++ ['}'])) ++ rest =
        '{' :: (dateName long ++ '(' :: tl) := by
      cases z with
      | none => exact ⟨showLits f ++ ')' :: (showSpec spec ++ '}' :: rest), by simp [showDateArgs]⟩
      | some z =>
        exact ⟨showLits f ++ ')' :: ('(' :: (zoneName z ++ ')' :: (showSpec spec ++ '}' :: rest))),
          by simp [showDateArgs]⟩
    obtain ⟨tl, hre⟩ := hre
    rw [hre]
    exact next_named_fail cc hcc P _ _ tl _ (isName_date cc hcc P long) (argsL_too_deep cc P tl [])
  | .mdc long key dflt spec, d, _, _, hd, hdeep, rest => by
    rw [depthPat_mdc] at hdeep
    have hdm : d = P.maxDepth := by omega
    subst hdm
    rw [showPat_mdc]
    have hre : ('{' :: (mdcName long ++ ('(' :: showLits key ++ [')']) ++ showDflt dflt ++ showSpec spec ++ ['}'])) ++ rest =
        '{' :: (mdcName long ++ '(' :: (showLits key ++ ')' :: (showDflt dflt ++ (showSpec spec ++ '}' :: rest)))) := by
      simp
    rw [hre]
    exact next_named_fail cc hcc P _ _ _ _ (isName_mdc cc hcc P long) (argsL_too_deep cc P _ [])
  | .group k long body spec, d, inArg, hwf, hd, hdeep, rest => by
    rw [depthPat_group] at hdeep
    rw [wfPat_group] at hwf
    simp only [Bool.and_eq_true] at hwf
    obtain ⟨hbody, _⟩ := hwf
    rw [showPat_group]
    have hargs : ∃ e, argsL cc P d ('(' :: (showPats body ++ ')' :: (showSpec spec ++ '}' :: rest))) [] = .fail e [] := by
      by_cases hdm : d = P.maxDepth
      · subst hdm; exact ⟨_, argsL_too_deep cc P _ []⟩
      · have hb : argB cc P (d + 1) (showPats body ++ ')' :: (showSpec spec ++ '}' :: rest)) [] =
            .fail eUnclosedParen [] := by
          simpa using argB_too_deep cc hcc P hus hP body (d + 1) hbody (by omega) (by omega) [] (by simp)
            (showSpec spec ++ '}' :: rest) []
        exact ⟨_, argsL_open_fail cc P d hdm _ [] _ hb⟩
    obtain ⟨e, hargs⟩ := hargs
    by_cases hk : k = .align
    · subst hk
      have hre : ('{' :: (groupName .align long ++ ('(' :: showPats body ++ [')']) ++ showSpec spec ++ ['}'])) ++ rest =
          '{' :: '(' :: (showPats body ++ ')' :: (showSpec spec ++ '}' :: rest)) := by
        simp [groupName]
      rw [hre]
      exact next_unnamed_fail cc hcc P d _ e hargs
    · have hre : ('{' :: (groupName k long ++ ('(' :: showPats body ++ [')']) ++ showSpec spec ++ ['}'])) ++ rest =
          '{' :: (groupName k long ++ '(' :: (showPats body ++ ')' :: (showSpec spec ++ '}' :: rest))) := by
        simp
      rw [hre]
      exact next_named_fail cc hcc P d _ _ e (isName_group cc hcc P k long hk) hargs
/-- the argument loop on a printed pattern list one of whose elements goes too deep: that element
swallows the rest, so the argument is never closed -/
theorem argB_too_deep (cc : CharClass) (hcc : CCAscii cc) (P : Profile) (hus : P.underscoreNames = true)
    (hP : P.doubledCloseParen = true) :
    ∀ (ps : List Pat) (d : Nat), wfPats P.wordBits true ps = true → d ≤ P.maxDepth →
      P.maxDepth < depthPats ps + d →
      ∀ pre : List Char, pre.all nonSpecial = true → ∀ (more : List Char) (acc : List Piece),
        argB cc P d (pre ++ (showPats ps ++ ')' :: more)) acc = .fail eUnclosedParen []
  | [], d, _, hd, hdeep, _, _, _, _ => by rw [depthPats_nil] at hdeep; omega
  | p :: ps, d, hwf, hd, hdeep, pre, hpre, more, acc => by
    rw [depthPats_cons] at hdeep
    rw [wfPats_cons] at hwf
    simp only [Bool.and_eq_true] at hwf
    obtain ⟨hp, hps⟩ := hwf
    rw [showPats_cons]
    cases hpc : plainChar p with
    | some c =>
      obtain ⟨l, hl, he, hc⟩ := plainChar_some hpc
      subst hl
      rw [wfPat_lit] at hp
      have hns := wfLit_plain hp he
      rw [hc] at hns
      rw [depthPat_lit] at hdeep
      have ih := argB_too_deep cc hcc P hus hP ps d hps hd (by omega) (pre ++ [c])
        (all_nonSpecial_snoc hpre hns) more acc
      simp only [showPat_lit, showLit, he, hc]
      simpa using ih
    | none =>
      obtain ⟨hd0, tl, hshape, hsp, hne⟩ := showPat_head P.wordBits true p (showPats ps ++ ')' :: more) hp hpc
      simp only [List.append_assoc]
      rw [argB_flush' cc P d pre _ acc hpre (by rw [hshape]; exact hsp)]
      by_cases hdp : depthPat p + d ≤ P.maxDepth
      · have hn := next_nonplain cc hcc P hus hP p d true hp hpc hdp (showPats ps ++ ')' :: more)
        have ih := argB_too_deep cc hcc P hus hP ps d hps hd (by omega) [] (by simp) more
          (acc ++ flushText pre ++ [pieceOf p])
        rcases hne with hne | ⟨l, hl, he⟩
        · rw [hshape] at hn ⊢
          rw [argB_step cc P d hd0 tl _ hne _ _ hn]
          simpa using ih
        · subst hl
          rw [wfPat_lit] at hp
          rw [showPat_lit, argB_escape cc P d hP l _ _ hp he]
          rw [pieceOf_lit] at ih
          simpa using ih
      · have hn := next_too_deep cc hcc P hus hP p d true hp hd (by omega) (showPats ps ++ ')' :: more)
        rcases hne with hne | ⟨l, hl, _⟩
        · rw [hshape] at hn ⊢
          rw [argB_step cc P d hd0 tl _ hne _ _ hn]
          exact argB_nil cc P d _
        · subst hl
          rw [depthPat_lit] at hdp
          omega
end

/-! ### the top-level loop -/

theorem okPrefix_nil (P : Profile) : okPrefix P [] = [] := rfl

theorem okPrefix_cons_ok (P : Profile) (p : Pat) (ps : List Pat) (h : depthPat p ≤ P.maxDepth) :
    okPrefix P (p :: ps) = p :: okPrefix P ps := by
  simp [okPrefix, List.takeWhile, h]

theorem okPrefix_cons_deep (P : Profile) (p : Pat) (ps : List Pat) (h : ¬ depthPat p ≤ P.maxDepth) :
    okPrefix P (p :: ps) = [] := by
  simp [okPrefix, List.takeWhile, h]

/-- the top-level loop on a printed pattern list that goes too deep somewhere: the pieces of the
elements before the first too-deep one, then the error piece, and the input is used up -/
theorem parseLoop_too_deep (cc : CharClass) (hcc : CCAscii cc) (P : Profile) (hus : P.underscoreNames = true)
    (hP : P.doubledCloseParen = true) :
    ∀ (ps : List Pat) (pre : List Char) (n : Nat), wfPats P.wordBits false ps = true →
      P.maxDepth < depthPats ps →
      pre.all nonSpecial = true → (pre ++ showPats ps).length < n →
      parseLoop cc P n (pre ++ showPats ps) = .ok (piecesOf pre (okPrefix P ps) ++ [.error eExpectedClose])
  | [], pre, n, _, hdeep, _, _ => by rw [depthPats_nil] at hdeep; omega
  | p :: ps, pre, n, hwf, hdeep, hpre, hlen => by
    rw [depthPats_cons] at hdeep
    rw [wfPats_cons] at hwf
    simp only [Bool.and_eq_true] at hwf
    obtain ⟨hp, hps⟩ := hwf
    rw [showPats_cons] at hlen ⊢
    cases hpc : plainChar p with
    | some c =>
      obtain ⟨l, hl, he, hc⟩ := plainChar_some hpc
      subst hl
      rw [wfPat_lit] at hp
      have hns := wfLit_plain hp he
      rw [hc] at hns
      rw [depthPat_lit] at hdeep
      rw [okPrefix_cons_ok P _ _ (by rw [depthPat_lit]; omega), piecesOf_cons, hpc]
      have hshow : showPat (.lit l) = [c] := by rw [showPat_lit]; simp [showLit, he, hc]
      rw [hshow] at hlen ⊢
      have ih := parseLoop_too_deep cc hcc P hus hP ps (pre ++ [c]) n hps (by omega)
        (all_nonSpecial_snoc hpre hns) (by simpa using hlen)
      simpa using ih
    | none =>
      obtain ⟨hd, tl, hshape, hsp, _⟩ := showPat_head P.wordBits false p (showPats ps) hp hpc
      by_cases hdp : depthPat p ≤ P.maxDepth
      · rw [okPrefix_cons_ok P _ _ hdp, piecesOf_cons, hpc]
        have hn : next cc P (showPat p ++ showPats ps) = _ :=
          next_nonplain cc hcc P hus hP p 0 false hp hpc (by omega) (showPats ps)
        have hlt : (showPats ps).length < (hd :: tl).length := by
          have hs := next_shrinks cc P (showPat p ++ showPats ps)
          rw [hn] at hs
          simp only [PR.NextShrinks] at hs
          rw [hshape] at hs
          exact hs.2
        rw [hshape] at hn hlen ⊢
        cases pre with
        | nil =>
          simp only [List.nil_append, flushText] at hlen ⊢
          match n, hlen with
          | n + 1, hlen =>
            rw [parseLoop_cons cc P n _ _ _ hn]
            have ih := parseLoop_too_deep cc hcc P hus hP ps [] n hps (by omega) (by simp)
              (by simp at hlen hlt ⊢; omega)
            simp only [List.nil_append] at ih
            rw [ih]
            rfl
        | cons c t =>
          simp only [List.all_cons, Bool.and_eq_true] at hpre
          have hc : isSpecial c = false := by simpa [nonSpecial] using hpre.1
          have hn0 : next cc P (c :: (t ++ hd :: tl)) = _ := next_text cc P 0 c t (hd :: tl) hc hpre.2 hsp
          simp only [List.cons_append, List.length_cons, List.length_append] at hlen hlt
          match n, hlen with
          | n + 2, hlen =>
            simp only [List.cons_append]
            rw [parseLoop_cons cc P (n + 1) _ _ _ hn0, parseLoop_cons cc P n _ _ _ hn]
            have ih := parseLoop_too_deep cc hcc P hus hP ps [] n hps (by omega) (by simp) (by simp; omega)
            simp only [List.nil_append] at ih
            rw [ih]
            rfl
      · rw [okPrefix_cons_deep P _ _ hdp, piecesOf_nil]
        have hn : next cc P (showPat p ++ showPats ps) = _ :=
          next_too_deep cc hcc P hus hP p 0 false hp (Nat.zero_le _) (by omega) (showPats ps)
        rw [hshape] at hn hlen ⊢
        cases pre with
        | nil =>
          simp only [List.nil_append, flushText] at hlen ⊢
          match n, hlen with
          | n + 2, hlen =>
            rw [parseLoop_cons cc P (n + 1) _ _ _ hn, parseLoop_end]
        | cons c t =>
          simp only [List.all_cons, Bool.and_eq_true] at hpre
          have hc : isSpecial c = false := by simpa [nonSpecial] using hpre.1
          have hn0 : next cc P (c :: (t ++ hd :: tl)) = _ := next_text cc P 0 c t (hd :: tl) hc hpre.2 hsp
          simp only [List.cons_append, List.length_cons, List.length_append] at hlen
          match n, hlen with
          | n + 3, hlen =>
            simp only [List.cons_append]
            rw [parseLoop_cons cc P (n + 2) _ _ _ hn0, parseLoop_cons cc P (n + 1) _ _ _ hn, parseLoop_end]
            rfl
  termination_by ps => ps.length

/-- `Parser::new(showPats ps).collect()` for a pattern that is well formed but for the nesting limit -/
theorem parse_too_deep (cc : CharClass) (hcc : CCAscii cc) (P : Profile) (hus : P.underscoreNames = true)
    (hP : P.doubledCloseParen = true) (ps : List Pat) (hwf : wfPats P.wordBits false ps = true)
    (hdeep : P.maxDepth < depthPats ps) :
    parse cc P (showPats ps) = .ok (piecesOf [] (okPrefix P ps) ++ [.error eExpectedClose]) := by
  have := parseLoop_too_deep cc hcc P hus hP ps [] ((showPats ps).length + 1) hwf hdeep (by simp) (by simp)
  simpa [parse] using this

end Log4rs.Pattern.Parse
