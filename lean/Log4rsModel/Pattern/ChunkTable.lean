import Log4rsModel.Pattern.Chunk
/-
Table view of `impl From<Piece> for Chunk` (Pattern/Chunk.lean), for the TRANSLATION OBLIGATIONS
`C09_gen_*` / `C11_gen_*` that tools/translate.py regenerates from src/encode/pattern/mod.rs on every
check run: which formatter name (alias) builds which chunk kind, the argument-count test of each
kind with its error text, and the string literals of the impl.

Nothing here changes the model: `kindOfName` is assembled from the very functions `compile` consults
(`groupOfName`, `leafOfName`, the `d`/`date` and `X`/`mdc` tests), and Pattern/ChunkTableLemmas.lean
proves that `compile` IS the dispatch on `kindOfName` (`compile_eq_kind`), that a violated arity test
yields the kind's error text (`compile_arity`), and that the names with a kind are exactly
`formatterNames` (`kindOfName_isSome_iff`).  Model file: core imports only.
-/
namespace Log4rs.Pattern.Parse

/-- what a `match formatter.name` arm builds -/
inductive FKind where
  | time                      -- `FormattedChunk::Time`
  | mdc                       -- `FormattedChunk::Mdc`
  | group (g : GroupKind)     -- `Align` / `Highlight` / `Debug` / `Release` (one pattern argument)
  | plain (k : Leaf)          -- the `no_args` arms
  deriving Repr, DecidableEq

/-- the arm a formatter name selects; `none` = the catch-all `name => unknown formatter` -/
def kindOfName (n : List Char) : Option FKind :=
  if n = cs!"d" || n = cs!"date" then some .time
  else match groupOfName n with
    | some g => some (.group g)
    | none =>
      match leafOfName n with
      | some k => some (.plain k)
      | none => if n = cs!"X" || n = cs!"mdc" then some .mdc else none

/-- the argument counts the arm's `formatter.args.len()` test lets through (inclusive range):
`> 2` rejects (time, mdc), `!= 1` rejects (groups), `no_args` demands `is_empty()` -/
def FKind.arityRange : FKind → Nat × Nat
  | .time => (0, 2)
  | .mdc => (0, 2)
  | .group _ => (1, 1)
  | .plain _ => (0, 0)

def FKind.arityOk (k : FKind) (n : Nat) : Bool := k.arityRange.1 ≤ n && n ≤ k.arityRange.2

/-- the error text of the failed argument-count test -/
def FKind.arityErr : FKind → List Char
  | .time => eAtMostTwo
  | .mdc => eAtMostTwo
  | .group _ => eExactlyOne
  | .plain _ => eUnexpectedArgs

/-- every formatter name that selects an arm -/
def formatterNames : List (List Char) :=
  [cs!"d", cs!"date", cs!"h", cs!"highlight", cs!"D", cs!"debug", cs!"R", cs!"release", []]
  ++ leafTable.map (·.1) ++ [cs!"X", cs!"mdc"]

/-- the string literals of `impl From<Piece> for Chunk`, `plain_text` and `no_args`; a `format!`
template is the model's text function applied to the placeholder `{}` -/
def chunkTexts : List (List Char) :=
  [ eAtMostTwo, eExactlyOne, eUnexpectedArgs, eMissingMdcKey, eInvalidMdcKey, eInvalidMdcDefault,
    eInvalidTimezone, eInvalidTimezoneNamed (cs!"{}"), eUnknownFormatter (cs!"{}"),
    eInvalidDateFormat (cs!"{}"), errOpen, cs!"{ERROR: unexpected formatter}", cs!"%+",
    cs!"utc", cs!"local", cs!"{}" ]

end Log4rs.Pattern.Parse
