import Log4rsModel.Base.Outcome
import Log4rsModel.Base.Str
import Log4rsModel.Pattern.Format
/-
Model of `src/encode/pattern/parser.rs`, function by function, over `List Char`.

* The Rust parser walks a `Peekable<CharIndices>`; the model threads the remaining input.
* `char::is_alphabetic` / `char::is_alphanumeric` are Unicode tables: the parser is parametric in
  a `CharClass`; the driver instantiates it with ASCII + a finite table of sample characters that
  the harness validates against Rust at start-up. `char::to_digit(10)` is ASCII-only.
* `Parser::integer` accumulates in `usize` with `cur * 10 + digit`: with overflow checks (debug
  profile, and the profile of the test-suite and of the harness) an overflow PANICS, without them
  it wraps. Profile and word size are parameters (`Profile`).
* The mutual recursion `next → argument → formatter → args → arg → next` is fuelled; every edge of
  the recursion consumes at least one character, so `input.length + 1` is always enough
  (`Pattern/ParserLemmas.lean`), and the entry points fix that fuel.
* `Parser::depth` (how many parenthesised arguments are open; commit c25fac2) is threaded as a
  parameter `d`: `arg()` restores it on every path, so it is a function of the nesting position.
  At `d = Profile.maxDepth` (`MAX_DEPTH = 64`) one more `(` swallows the rest of the input and
  fails with `nesting too deep`.
-/
namespace Log4rs.Pattern.Parse

open Lean in
/-- `cs!"abc"` is the explicit character list `['a','b','c']` (tables that proofs compute with
must not depend on how string literals reduce). -/
macro:max "cs!" s:str : term => do
  let cs := s.getString.toList
  let elems : Array (TSyntax `term) := cs.toArray.map fun c => Syntax.mkCharLit c
  `([$elems,*])

/-- `parser::Piece` (`Formatter` and `Parameters` inlined into `arg`). -/
inductive Piece where
  | text (s : List Char)
  | arg (name : List Char) (args : List (List Piece)) (params : Params)
  | error (e : List Char)
  deriving Repr, Inhabited

/-- build profile facts the parser depends on -/
structure Profile where
  /-- `overflow-checks` (on in debug / test builds): arithmetic overflow panics instead of wrapping -/
  overflowChecks : Bool := true
  /-- `usize::BITS` -/
  wordBits : Nat := 64
  /-- repair of F3 (commit 67091ff, checked accumulation in `Parser::integer`): an overflowing
  width is an `Err`, surfaced as `{ERROR: width too large}`. `false` = the code before the repair. -/
  widthCheck : Bool := true
  /-- repair of F5 (commit eb8340d): `Parser::name` accepts `_` after the first character.
  `false` = the code before the repair. -/
  underscoreNames : Bool := true
  /-- repair of F6a (commit 185a57e): inside a parenthesised argument a doubled `))` is the
  character `)` (its own `Text(")")` piece, like the top-level `))`), not the end of the argument.
  `false` = the code before the repair. -/
  doubledCloseParen : Bool := true
  /-- `MAX_DEPTH` of `parser.rs` (commit c25fac2): how many parenthesised arguments may be open at
  once; the `(` that would open one more is answered with `Err("nesting too deep")` after the rest
  of the input has been swallowed. Pinned to the source constant by `C09_gen_max_depth`. -/
  maxDepth : Nat := 64
  deriving Repr

/-- the current code, 64-bit, overflow checks on (test and harness profile) -/
def Profile.debug64 : Profile := {}
def Profile.release64 : Profile := { overflowChecks := false }
/-- the code before the repairs of F3 and F5 (kept for the historical witness theorems) -/
def Profile.unfixed64 : Profile :=
  { widthCheck := false, underscoreNames := false, doubledCloseParen := false }
def Profile.unfixedRelease64 : Profile :=
  { overflowChecks := false, widthCheck := false, underscoreNames := false, doubledCloseParen := false }

/-- `char::is_alphabetic` and `char::is_alphanumeric` -/
structure CharClass where
  alpha : Char → Bool
  alnum : Char → Bool

/-- ASCII behaviour of the two predicates -/
def asciiAlpha (c : Char) : Bool :=
  ('a'.toNat ≤ c.toNat && c.toNat ≤ 'z'.toNat) || ('A'.toNat ≤ c.toNat && c.toNat ≤ 'Z'.toNat)
def asciiAlnum (c : Char) : Bool := asciiAlpha c || Str.isAsciiDigit c

/-- the ASCII-only instance (every non-ASCII character counts as neither) -/
def asciiClass : CharClass where
  alpha c := decide (c.toNat < 128) && asciiAlpha c
  alnum c := decide (c.toNat < 128) && asciiAlnum c

/-- result of a parser function: value and remaining input, a Rust `Err(String)` with the
remaining input, a panic, or fuel exhaustion (never happens with the entry points' fuel) -/
inductive PR (α : Type) where
  | ok (a : α) (rest : List Char)
  | fail (e : List Char) (rest : List Char)
  | panic (why : String)
  | fuel
  deriving Repr

/-- the error texts of `parser.rs`, verbatim -/
def eExpectedClose : List Char := cs!"expected '}'"
def eUnmatchedClose : List Char := cs!"unmatched '}'"
def eUnexpectedOpenParen : List Char := cs!"unexpected '('"
def eUnexpectedCloseParen : List Char := cs!"unexpected ')'"
def eUnexpectedBackslash : List Char := cs!"unexpected '\\'"
def eUnclosedParen : List Char := cs!"unclosed '('"
/-- `Parser::arg` when `self.depth == MAX_DEPTH` -/
def eNestingTooDeep : List Char := cs!"nesting too deep"
/-- only with `Profile.widthCheck` (proposed repair of F3) -/
def eWidthTooLarge : List Char := cs!"width too large"

/-- the five characters `Parser::text` stops at -/
def isSpecial (c : Char) : Bool := c = '{' || c = '}' || c = '(' || c = ')' || c = '\\'

/-- the characters `Parser::name` accepts after the first: `is_alphanumeric() || ch == '_'` -/
def nameChar (cc : CharClass) (P : Profile) (c : Char) : Bool :=
  cc.alnum c || (P.underscoreNames && c == '_')

/-- `Parser::name`: one alphabetic character, then alphanumeric ones or `_` -/
def name (cc : CharClass) (P : Profile) : List Char → List Char × List Char
  | [] => ([], [])
  | c :: r =>
    if cc.alpha c then (c :: r.takeWhile (nameChar cc P), r.dropWhile (nameChar cc P)) else ([], c :: r)

/-- `Parser::integer`: the loop state is `cur`, `found` -/
def integerLoop (P : Profile) : List Char → Nat → Bool → PR (Option Nat)
  | [], cur, found => .ok (if found then some cur else none) []
  | c :: r, cur, found =>
    if Str.isAsciiDigit c then
      let v := cur * 10 + Str.digitVal c
      if v < 2 ^ P.wordBits then integerLoop P r v true
      else if P.widthCheck then .fail eWidthTooLarge (r.dropWhile Str.isAsciiDigit)
      else if P.overflowChecks then .panic "attempt to multiply with overflow"
      else integerLoop P r (v % 2 ^ P.wordBits) true
    else .ok (if found then some cur else none) (c :: r)

def integer (P : Profile) (s : List Char) : PR (Option Nat) := integerLoop P s 0 false

/-- the fill look-ahead of `Parser::parameters`: `it.peek()` is the candidate fill, and it is
taken iff `it.clone().nth(1)` — the character after it — is `<` or `>` -/
def fillLookahead (s : List Char) : Char × List Char :=
  match s with
  | ch :: a :: t => if a = '<' || a = '>' then (ch, a :: t) else (' ', s)
  | _ => (' ', s)

def alignOf (s : List Char) : Bool × List Char :=
  match s with
  | c :: t => if c = '<' then (false, t) else if c = '>' then (true, t) else (false, s)
  | [] => (false, [])

/-- `Parser::parameters` -/
def parameters (P : Profile) (s : List Char) : PR Params :=
  match s with
  | [] => .ok {} []
  | c :: r =>
    if c = ':' then
      let (fill, r1) := fillLookahead r
      let (right, r2) := alignOf r1
      match integer P r2 with
      | .ok minW r3 =>
        match r3 with
        | d :: t =>
          if d = '.' then
            match integer P t with
            | .ok maxW r4 => .ok { fill, right, minW, maxW } r4
            | .fail e r4 => .fail e r4
            | .panic w => .panic w
            | .fuel => .fuel
          else .ok { fill, right, minW, maxW := none } r3
        | [] => .ok { fill, right, minW, maxW := none } []
      | .fail e r3 => .fail e r3
      | .panic w => .panic w
      | .fuel => .fuel
    else .ok {} s

/-- the end of the `'{'` branch of `next`: `consume('}')`, otherwise the rest of the input is
consumed and the piece is replaced by the error -/
def closeBrace (piece : Piece) (s : List Char) : PR (Option Piece) :=
  match s with
  | c :: r => if c = '}' then .ok (some piece) r else .ok (some (.error eExpectedClose)) []
  | [] => .ok (some (.error eExpectedClose)) []

/-- `Parser::text` on input `c :: r` whose head is not special -/
def textPiece (c : Char) (r : List Char) : PR (Option Piece) :=
  .ok (some (.text (c :: r.takeWhile (fun x => !isSpecial x)))) (r.dropWhile (fun x => !isSpecial x))

/-- `consume(c)` right after a `c`: the doubled form of an escape -/
def doubled (c : Char) (r : List Char) : Option (List Char) :=
  match r with
  | d :: r' => if d = c then some r' else none
  | [] => none

/-- `Parser::argument` + `Parser::formatter` and the closing brace, on the input after `'{'`;
`argsF` is `Parser::args` (the recursive call). A failed `args()` makes `argument` return the
error piece without parsing parameters; `parameters` fails only with `Profile.widthCheck`. -/
def argumentWith (cc : CharClass) (P : Profile) (argsF : List Char → PR (List (List Piece)))
    (r : List Char) : PR (Option Piece) :=
  match argsF (name cc P r).2 with
  | .ok args r2 =>
    match parameters P r2 with
    | .ok p r3 => closeBrace (.arg (name cc P r).1 args p) r3
    | .fail e r3 => closeBrace (.error e) r3
    | .panic w => .panic w
    | .fuel => .fuel
  | .fail e r2 => closeBrace (.error e) r2
  | .panic w => .panic w
  | .fuel => .fuel

/-- `Iterator::next`; `argsF` is `Parser::args` (the recursive call). -/
def nextWith (cc : CharClass) (P : Profile) (argsF : List Char → PR (List (List Piece)))
    (s : List Char) : PR (Option Piece) :=
  match s with
  | [] => .ok none []
  | c :: r =>
    if c = '{' then
      match doubled '{' r with
      | some r' => .ok (some (.text ['{'])) r'
      | none => argumentWith cc P argsF r
    else if c = '}' then
      match doubled '}' r with
      | some r' => .ok (some (.text ['}'])) r'
      | none => .ok (some (.error eUnmatchedClose)) r
    else if c = '(' then
      match doubled '(' r with
      | some r' => .ok (some (.text ['('])) r'
      | none => .ok (some (.error eUnexpectedOpenParen)) r
    else if c = ')' then
      match doubled ')' r with
      | some r' => .ok (some (.text [')'])) r'
      | none => .ok (some (.error eUnexpectedCloseParen)) r
    else if c = '\\' then
      match r with
      | d :: r' => if isSpecial d then .ok (some (.text [d])) r' else .ok (some (.error eUnexpectedBackslash)) r
      | [] => .ok (some (.error eUnexpectedBackslash)) []
    else textPiece c r

/-- the head of `arg()`'s loop (repair of F6a): the next two characters are `))` -/
def doubledClose (P : Profile) (c : Char) (r : List Char) : Option (List Char) :=
  if P.doubledCloseParen && c == ')' then doubled ')' r else none

mutual
/-- `Parser::args`: `while let Some('(') = peek { args.push(self.arg()?) }`; `d` is `self.depth`,
the number of parenthesised arguments open at this point. `Parser::arg` after its `consume('(')`:
`if self.depth == MAX_DEPTH { for _ in &mut self.it {}; return Err("nesting too deep") }`, otherwise
the pieces of the argument are read one level deeper (`depth += 1 … depth -= 1` around
`arg_pieces`, also when that fails: the depth is a function of the position in the nesting). -/
def argsLoop (cc : CharClass) (P : Profile) : Nat → Nat → List Char → List (List Piece) → PR (List (List Piece))
  | 0, _, _, _ => .fuel
  | f + 1, d, s, acc =>
    match s with
    | [] => .ok acc []
    | c :: r =>
      if c = '(' then
        if d = P.maxDepth then .fail eNestingTooDeep []
        else
          match argBody cc P f (d + 1) r [] with
          | .ok a r' => argsLoop cc P f d r' (acc ++ [a])
          | .fail e r' => .fail e r'
          | .panic w => .panic w
          | .fuel => .fuel
      else .ok acc s
/-- `Parser::arg_pieces` (at depth `d`, the enclosing `(` counted): pieces until the closing
parenthesis -/
def argBody (cc : CharClass) (P : Profile) : Nat → Nat → List Char → List Piece → PR (List Piece)
  | 0, _, _, _ => .fuel
  | f + 1, d, s, acc =>
    match s with
    | [] => .fail eUnclosedParen []
    | c :: r =>
      match doubledClose P c r with
      | some r2 => argBody cc P f d r2 (acc ++ [.text [')']])
      | none =>
        if c = ')' then .ok acc r
        else
          match nextWith cc P (fun x => argsLoop cc P f d x []) (c :: r) with
          | .ok (some p) r' => argBody cc P f d r' (acc ++ [p])
          | .ok none r' => .fail eUnclosedParen r'
          | .fail e r' => .fail e r'
          | .panic w => .panic w
          | .fuel => .fuel
end

/-- `Iterator::next` with `self.depth = d` (inside `d` open parenthesised arguments) -/
def nextAt (cc : CharClass) (P : Profile) (d : Nat) (s : List Char) : PR (Option Piece) :=
  nextWith cc P (fun x => argsLoop cc P s.length d x []) s

/-- `Iterator::next` as the top-level loop calls it: no argument open -/
def next (cc : CharClass) (P : Profile) (s : List Char) : PR (Option Piece) := nextAt cc P 0 s

/-- `Parser::new(pattern).collect()`; `err ()` = out of fuel (impossible: `C11_parse_total`) -/
def parseLoop (cc : CharClass) (P : Profile) : Nat → List Char → Outcome Unit (List Piece)
  | 0, _ => .err ()
  | n + 1, s =>
    match next cc P s with
    | .ok none _ => .ok []
    | .ok (some p) r =>
      match parseLoop cc P n r with
      | .ok ps => .ok (p :: ps)
      | .err e => .err e
      | .panic w => .panic w
    | .fail _ _ => .err ()
    | .panic w => .panic w
    | .fuel => .err ()

def parse (cc : CharClass) (P : Profile) (s : List Char) : Outcome Unit (List Piece) :=
  parseLoop cc P (s.length + 1) s

/-- every prefix of every maximal run of ASCII digits has a value below `W` (`cur` is the value of
the run read so far): the syntactic reading of "all explicit widths fit in `usize`" -/
def runsFit (W : Nat) : List Char → Nat → Bool
  | [], _ => true
  | c :: r, cur =>
    if Str.isAsciiDigit c then
      decide (cur * 10 + Str.digitVal c < W) && runsFit W r (cur * 10 + Str.digitVal c)
    else runsFit W r 0

/-- hypothesis of `C11_parse_no_panic_partial` -/
def digitRunsFit (P : Profile) (s : List Char) : Bool := runsFit (2 ^ P.wordBits) s 0

end Log4rs.Pattern.Parse
