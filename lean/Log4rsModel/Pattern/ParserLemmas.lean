import Log4rsModel.Pattern.Parser
/-
Lemmas about the parser model: every function returns a suffix of its input (so every edge of
the recursion consumes input), the fuel `input.length + 1` is never exhausted, more fuel does not
change the result, and the parser cannot panic when every digit run fits the word size.
-/
namespace Log4rs.Pattern.Parse

/-- the remaining input of a result is a suffix of `s` -/
def PR.RestSuffix {α : Type} (res : PR α) (s : List Char) : Prop :=
  match res with
  | .ok _ r => r <:+ s
  | .fail _ r => r <:+ s
  | .panic _ => True
  | .fuel => True

/-- strictly shorter remaining input for a produced piece; `none` only at the end of input -/
def PR.NextShrinks (res : PR (Option Piece)) (s : List Char) : Prop :=
  match res with
  | .ok (some _) r => r <:+ s ∧ r.length < s.length
  | .ok none r => s = [] ∧ r = []
  | .fail _ _ => False
  | .panic _ => True
  | .fuel => True

theorem suffix_of_cons {α} {a : α} {r s : List α} (h : r <:+ s) : r <:+ a :: s :=
  List.IsSuffix.trans h (List.suffix_cons a s)

theorem integerLoop_suffix (P : Profile) :
    ∀ (s : List Char) (cur : Nat) (found : Bool), (integerLoop P s cur found).RestSuffix s
  | [], _, _ => by simp [integerLoop, PR.RestSuffix]
  | c :: r, cur, found => by
    unfold integerLoop
    split
    · simp only []
      split
      · have := integerLoop_suffix P r (cur * 10 + Str.digitVal c) true
        revert this; cases integerLoop P r (cur * 10 + Str.digitVal c) true <;>
          simp [PR.RestSuffix] <;> exact suffix_of_cons
      · split
        · simp only [PR.RestSuffix]; exact suffix_of_cons (List.dropWhile_suffix _)
        · split
          · simp [PR.RestSuffix]
          · have := integerLoop_suffix P r ((cur * 10 + Str.digitVal c) % 2 ^ P.wordBits) true
            revert this; cases integerLoop P r ((cur * 10 + Str.digitVal c) % 2 ^ P.wordBits) true <;>
              simp [PR.RestSuffix] <;> exact suffix_of_cons
    · simp [PR.RestSuffix]

theorem integerLoop_ne_fuel (P : Profile) :
    ∀ (s : List Char) (cur : Nat) (found : Bool), integerLoop P s cur found ≠ .fuel
  | [], _, _ => by simp [integerLoop]
  | c :: t, cur, found => by
    unfold integerLoop
    split
    · simp only []
      split
      · exact integerLoop_ne_fuel P t _ _
      · split
        · simp
        · split
          · simp
          · exact integerLoop_ne_fuel P t _ _
    · simp

theorem fillLookahead_suffix (s : List Char) : (fillLookahead s).2 <:+ s := by
  unfold fillLookahead
  split
  · split
    · exact List.suffix_cons _ _
    · exact List.suffix_refl _
  · exact List.suffix_refl _

theorem alignOf_suffix (s : List Char) : (alignOf s).2 <:+ s := by
  unfold alignOf
  split
  · split
    · exact List.suffix_cons _ _
    · split
      · exact List.suffix_cons _ _
      · exact List.suffix_refl _
  · exact List.suffix_refl _

theorem parameters_suffix (P : Profile) (s : List Char) : (parameters P s).RestSuffix s := by
  unfold parameters
  split
  · simp [PR.RestSuffix]
  · rename_i c r
    split
    · simp only []
      have h1 := fillLookahead_suffix r
      have h2 := alignOf_suffix (fillLookahead r).2
      have h3 := integerLoop_suffix P (alignOf (fillLookahead r).2).2 0 false
      have h12 : (alignOf (fillLookahead r).2).2 <:+ c :: r :=
        suffix_of_cons (List.IsSuffix.trans h2 h1)
      unfold integer
      revert h3
      cases hi : integerLoop P (alignOf (fillLookahead r).2).2 0 false with
      | ok v r3 =>
        intro h3
        simp only [PR.RestSuffix] at h3
        have h3' : r3 <:+ c :: r := List.IsSuffix.trans h3 h12
        cases r3 with
        | nil => simp [PR.RestSuffix]
        | cons d t =>
          simp only []
          split
          · have h4 := integerLoop_suffix P t 0 false
            revert h4
            cases integerLoop P t 0 false with
            | ok v' r4 =>
              intro h4
              simp only [PR.RestSuffix] at h4 ⊢
              exact List.IsSuffix.trans (suffix_of_cons h4) h3'
            | fail e r4 =>
              intro h4
              simp only [PR.RestSuffix] at h4 ⊢
              exact List.IsSuffix.trans (suffix_of_cons h4) h3'
            | panic w => intro _; simp [PR.RestSuffix]
            | fuel => intro _; simp [PR.RestSuffix]
          · simpa [PR.RestSuffix] using h3'
      | fail e r3 =>
        intro h3
        simp only [PR.RestSuffix] at h3 ⊢
        exact List.IsSuffix.trans h3 h12
      | panic w => intro _; simp [PR.RestSuffix]
      | fuel => intro _; simp [PR.RestSuffix]
    · simp [PR.RestSuffix]

theorem parameters_ne_fuel (P : Profile) (s : List Char) : parameters P s ≠ .fuel := by
  unfold parameters
  split
  · simp
  · split
    · simp only [integer]
      split
      · split
        · split
          · split <;> simp_all [integerLoop_ne_fuel]
          · simp
        · simp
      · simp
      · simp
      · rename_i h; exact absurd h (integerLoop_ne_fuel P _ _ _)
    · simp


theorem name_suffix (cc : CharClass) (P : Profile) (r : List Char) : (name cc P r).2 <:+ r := by
  unfold name
  split
  · exact List.suffix_refl _
  · split
    · exact suffix_of_cons (List.dropWhile_suffix _)
    · exact List.suffix_refl _

theorem doubled_suffix {c : Char} {r r' : List Char} (h : doubled c r = some r') : r' <:+ r := by
  unfold doubled at h
  split at h
  · split at h
    · cases h; exact List.suffix_cons _ _
    · cases h
  · cases h

/-- the shape of `closeBrace`'s result -/
theorem closeBrace_spec (piece : Piece) (s : List Char) :
    ∃ q r, closeBrace piece s = .ok (some q) r ∧ r <:+ s := by
  unfold closeBrace
  split
  · split
    · exact ⟨_, _, rfl, List.suffix_cons _ _⟩
    · exact ⟨_, _, rfl, List.nil_suffix⟩
  · exact ⟨_, _, rfl, List.nil_suffix⟩

/-- result of the `'{'` branch: always a piece, and the rest is a suffix -/
def PR.ArgShape (res : PR (Option Piece)) (r : List Char) : Prop :=
  match res with
  | .ok (some _) r' => r' <:+ r
  | .ok none _ => False
  | .fail _ _ => False
  | .panic _ => True
  | .fuel => True

theorem argumentWith_shape (cc : CharClass) (P : Profile) (argsF : List Char → PR (List (List Piece)))
    (r : List Char) (hA : (argsF (name cc P r).2).RestSuffix (name cc P r).2) :
    (argumentWith cc P argsF r).ArgShape r := by
  unfold argumentWith
  have hn := name_suffix cc P r
  split
  · rename_i args r2 hargs
    rw [hargs] at hA
    simp only [PR.RestSuffix] at hA
    have hp := parameters_suffix P r2
    split
    · rename_i p r3 hpar
      rw [hpar] at hp
      simp only [PR.RestSuffix] at hp
      obtain ⟨q, r4, hq, hs⟩ := closeBrace_spec (.arg (name cc P r).1 args p) r3
      rw [hq]
      exact List.IsSuffix.trans hs (List.IsSuffix.trans hp (List.IsSuffix.trans hA hn))
    · rename_i e r3 hpar
      rw [hpar] at hp
      simp only [PR.RestSuffix] at hp
      obtain ⟨q, r4, hq, hs⟩ := closeBrace_spec (.error e) r3
      rw [hq]
      exact List.IsSuffix.trans hs (List.IsSuffix.trans hp (List.IsSuffix.trans hA hn))
    · simp [PR.ArgShape]
    · simp [PR.ArgShape]
  · rename_i e r2 hargs
    rw [hargs] at hA
    simp only [PR.RestSuffix] at hA
    obtain ⟨q, r4, hq, hs⟩ := closeBrace_spec (.error e) r2
    rw [hq]
    exact List.IsSuffix.trans hs (List.IsSuffix.trans hA hn)
  · simp [PR.ArgShape]
  · simp [PR.ArgShape]

theorem suffix_length_lt_cons {α} {r s : List α} (c : α) (h : r <:+ s) : r.length < (c :: s).length := by
  have := h.length_le
  simp only [List.length_cons]; omega

theorem nextWith_shrinks (cc : CharClass) (P : Profile) (argsF : List Char → PR (List (List Piece)))
    (s : List Char) (hA : ∀ x, (argsF x).RestSuffix x) :
    (nextWith cc P argsF s).NextShrinks s := by
  unfold nextWith
  split
  · simp [PR.NextShrinks]
  · rename_i c r
    have ok_of : ∀ (q : Piece) (r' : List Char), r' <:+ r →
        (PR.ok (some q) r' : PR (Option Piece)).NextShrinks (c :: r) := by
      intro q r' h
      exact ⟨suffix_of_cons h, suffix_length_lt_cons c h⟩
    split
    · split
      · rename_i r' hd; exact ok_of _ _ (doubled_suffix hd)
      · have hs := argumentWith_shape cc P argsF r (hA _)
        generalize argumentWith cc P argsF r = res at hs
        cases res with
        | ok o r' =>
          cases o with
          | some q => exact ok_of _ _ hs
          | none => exact absurd hs (by simp [PR.ArgShape])
        | fail e r' => exact absurd hs (by simp [PR.ArgShape])
        | panic w => simp [PR.NextShrinks]
        | fuel => simp [PR.NextShrinks]
    · split
      · split
        · rename_i r' hd; exact ok_of _ _ (doubled_suffix hd)
        · exact ok_of _ _ (List.suffix_refl _)
      · split
        · split
          · rename_i r' hd; exact ok_of _ _ (doubled_suffix hd)
          · exact ok_of _ _ (List.suffix_refl _)
        · split
          · split
            · rename_i r' hd; exact ok_of _ _ (doubled_suffix hd)
            · exact ok_of _ _ (List.suffix_refl _)
          · split
            · split
              · split
                · exact ok_of _ _ (List.suffix_cons _ _)
                · exact ok_of _ _ (List.suffix_refl _)
              · exact ok_of _ _ (List.suffix_refl _)
            · unfold textPiece
              exact ok_of _ _ (List.dropWhile_suffix _)

theorem doubledClose_suffix {P : Profile} {c : Char} {r r2 : List Char} (h : doubledClose P c r = some r2) :
    r2 <:+ r := by
  unfold doubledClose at h
  split at h
  · exact doubled_suffix h
  · cases h

theorem argBody_succ_some (cc : CharClass) (P : Profile) (f d : Nat) (c : Char) (r : List Char) (acc : List Piece)
    (r2 : List Char) (h : doubledClose P c r = some r2) :
    argBody cc P (f + 1) d (c :: r) acc = argBody cc P f d r2 (acc ++ [.text [')']]) := by
  rw [argBody]; simp only [h]

theorem argBody_succ_none (cc : CharClass) (P : Profile) (f d : Nat) (c : Char) (r : List Char) (acc : List Piece)
    (h : doubledClose P c r = none) :
    argBody cc P (f + 1) d (c :: r) acc =
      if c = ')' then .ok acc r
      else
        match nextWith cc P (fun x => argsLoop cc P f d x []) (c :: r) with
        | .ok (some p) r' => argBody cc P f d r' (acc ++ [p])
        | .ok none r' => .fail eUnclosedParen r'
        | .fail e r' => .fail e r'
        | .panic w => .panic w
        | .fuel => .fuel := by
  rw [argBody]; simp only [h]
  split
  · rfl
  · cases nextWith cc P (fun x => argsLoop cc P f d x []) (c :: r) with
    | ok o r' => cases o <;> rfl
    | fail e r' => rfl
    | panic w => rfl
    | fuel => rfl

/-- every parser function returns a suffix of its input, for any fuel -/
theorem args_body_suffix (cc : CharClass) (P : Profile) : ∀ f : Nat,
    (∀ d s acc, (argsLoop cc P f d s acc).RestSuffix s) ∧ (∀ d s acc, (argBody cc P f d s acc).RestSuffix s) := by
  intro f
  induction f with
  | zero => constructor <;> intro d s acc <;> simp [argsLoop, argBody, PR.RestSuffix]
  | succ f ih =>
    obtain ⟨ihA, ihB⟩ := ih
    constructor
    · intro d s acc
      cases s with
      | nil => simp [argsLoop, PR.RestSuffix]
      | cons c r =>
        rw [argsLoop]
        split
        · split
          · simp [PR.RestSuffix]
          have hb := ihB (d + 1) r []
          split
          · rename_i a r' hbody
            rw [hbody] at hb
            simp only [PR.RestSuffix] at hb
            have ha := ihA d r' (acc ++ [a])
            generalize argsLoop cc P f d r' (acc ++ [a]) = res at ha
            cases res with
            | ok v r'' => simp only [PR.RestSuffix] at ha ⊢; exact suffix_of_cons (ha.trans hb)
            | fail e r'' => simp only [PR.RestSuffix] at ha ⊢; exact suffix_of_cons (ha.trans hb)
            | panic w => simp [PR.RestSuffix]
            | fuel => simp [PR.RestSuffix]
          · rename_i e r' hbody
            rw [hbody] at hb
            simp only [PR.RestSuffix] at hb ⊢; exact suffix_of_cons hb
          · simp [PR.RestSuffix]
          · simp [PR.RestSuffix]
        · simp [PR.RestSuffix]
    · intro d s acc
      cases s with
      | nil => simp [argBody, PR.RestSuffix]
      | cons c r =>
        cases hdc : doubledClose P c r
        case some r2 =>
          rw [argBody_succ_some cc P f d c r acc r2 hdc]
          have hb := ihB d r2 (acc ++ [.text [')']])
          have hs := doubledClose_suffix hdc
          generalize argBody cc P f d r2 (acc ++ [.text [')']]) = res at hb
          cases res with
          | ok v r'' => simp only [PR.RestSuffix] at hb ⊢; exact suffix_of_cons (hb.trans hs)
          | fail e r'' => simp only [PR.RestSuffix] at hb ⊢; exact suffix_of_cons (hb.trans hs)
          | panic w => simp [PR.RestSuffix]
          | fuel => simp [PR.RestSuffix]
        rw [argBody_succ_none cc P f d c r acc hdc]
        split
        · simp only [PR.RestSuffix]; exact List.suffix_cons _ _
        · have hn := nextWith_shrinks cc P (fun x => argsLoop cc P f d x []) (c :: r) (fun x => ihA d x [])
          split
          · rename_i q r' hnext
            rw [hnext] at hn
            simp only [PR.NextShrinks] at hn
            have hb := ihB d r' (acc ++ [q])
            generalize argBody cc P f d r' (acc ++ [q]) = res at hb
            cases res with
            | ok v r'' => simp only [PR.RestSuffix] at hb ⊢; exact hb.trans hn.1
            | fail e r'' => simp only [PR.RestSuffix] at hb ⊢; exact hb.trans hn.1
            | panic w => simp [PR.RestSuffix]
            | fuel => simp [PR.RestSuffix]
          · rename_i r' hnext
            rw [hnext] at hn
            simp only [PR.NextShrinks] at hn; exact absurd hn.1 (by simp)
          · rename_i e r' hnext
            rw [hnext] at hn
            exact absurd hn (by simp [PR.NextShrinks])
          · simp [PR.RestSuffix]
          · simp [PR.RestSuffix]

theorem argsLoop_suffix (cc : CharClass) (P : Profile) (f d : Nat) (s : List Char) (acc) :
    (argsLoop cc P f d s acc).RestSuffix s := (args_body_suffix cc P f).1 d s acc

theorem argBody_suffix (cc : CharClass) (P : Profile) (f d : Nat) (s : List Char) (acc) :
    (argBody cc P f d s acc).RestSuffix s := (args_body_suffix cc P f).2 d s acc

theorem nextAt_shrinks (cc : CharClass) (P : Profile) (d : Nat) (s : List Char) : (nextAt cc P d s).NextShrinks s :=
  nextWith_shrinks cc P _ s (fun x => argsLoop_suffix cc P s.length d x [])

theorem next_shrinks (cc : CharClass) (P : Profile) (s : List Char) : (next cc P s).NextShrinks s :=
  nextAt_shrinks cc P 0 s


/-! ### fuel: `input.length + 1` is enough, and more fuel changes nothing -/

theorem argumentWith_congr (cc : CharClass) (P : Profile) (F G : List Char → PR (List (List Piece)))
    (r : List Char) (h : F (name cc P r).2 = G (name cc P r).2) :
    argumentWith cc P F r = argumentWith cc P G r := by
  unfold argumentWith; rw [h]

/-- `nextWith` only applies `argsF` to strictly shorter inputs -/
theorem nextWith_congr (cc : CharClass) (P : Profile) (F G : List Char → PR (List (List Piece)))
    (s : List Char) (h : ∀ x, x.length < s.length → F x = G x) :
    nextWith cc P F s = nextWith cc P G s := by
  unfold nextWith
  split
  · rfl
  · rename_i c r
    have : argumentWith cc P F r = argumentWith cc P G r :=
      argumentWith_congr cc P F G r (h _ (suffix_length_lt_cons c (name_suffix cc P r)))
    rw [this]

theorem argumentWith_ne_fuel (cc : CharClass) (P : Profile) (F : List Char → PR (List (List Piece)))
    (r : List Char) (h : F (name cc P r).2 ≠ .fuel) : argumentWith cc P F r ≠ .fuel := by
  unfold argumentWith
  split
  · rename_i args r2 _
    split
    · rename_i p r3 _
      obtain ⟨q, r4, hq, _⟩ := closeBrace_spec (.arg (name cc P r).1 args p) r3
      rw [hq]; simp
    · rename_i e r3 _
      obtain ⟨q, r4, hq, _⟩ := closeBrace_spec (.error e) r3
      rw [hq]; simp
    · simp
    · rename_i hpar; exact absurd hpar (parameters_ne_fuel P r2)
  · rename_i e r2 _
    obtain ⟨q, r4, hq, _⟩ := closeBrace_spec (.error e) r2
    rw [hq]; simp
  · simp
  · rename_i hf; exact absurd hf h

theorem nextWith_ne_fuel (cc : CharClass) (P : Profile) (F : List Char → PR (List (List Piece)))
    (s : List Char) (h : ∀ x, x.length < s.length → F x ≠ .fuel) : nextWith cc P F s ≠ .fuel := by
  unfold nextWith
  split
  · simp
  · rename_i c r
    have := argumentWith_ne_fuel cc P F r (h _ (suffix_length_lt_cons c (name_suffix cc P r)))
    split
    · split
      · simp
      · exact this
    · split
      · split <;> simp
      · split
        · split <;> simp
        · split
          · split <;> simp
          · split
            · split
              · split <;> simp
              · simp
            · simp [textPiece]

theorem args_body_ne_fuel (cc : CharClass) (P : Profile) : ∀ f : Nat,
    (∀ d s acc, s.length < f → argsLoop cc P f d s acc ≠ .fuel) ∧
    (∀ d s acc, s.length < f → argBody cc P f d s acc ≠ .fuel) := by
  intro f
  induction f with
  | zero => constructor <;> intro d s acc h <;> omega
  | succ f ih =>
    obtain ⟨ihA, ihB⟩ := ih
    constructor
    · intro d s acc hlen
      cases s with
      | nil => simp [argsLoop]
      | cons c r =>
        simp only [List.length_cons] at hlen
        rw [argsLoop]
        split
        · split
          · simp
          have hb := argBody_suffix cc P f (d + 1) r []
          split
          · rename_i a r' hbody
            rw [hbody] at hb
            simp only [PR.RestSuffix] at hb
            have := hb.length_le
            exact ihA d r' _ (by omega)
          · simp
          · simp
          · rename_i hbody; exact absurd hbody (ihB (d + 1) r [] (by omega))
        · simp
    · intro d s acc hlen
      cases s with
      | nil => simp [argBody]
      | cons c r =>
        simp only [List.length_cons] at hlen
        cases hdc : doubledClose P c r
        case some r2 =>
          rw [argBody_succ_some cc P f d c r acc r2 hdc]
          have := (doubledClose_suffix hdc).length_le
          exact ihB d r2 _ (by omega)
        rw [argBody_succ_none cc P f d c r acc hdc]
        split
        · simp
        · have hn := nextWith_shrinks cc P (fun x => argsLoop cc P f d x []) (c :: r)
            (fun x => argsLoop_suffix cc P f d x [])
          split
          · rename_i q r' hnext
            rw [hnext] at hn
            simp only [PR.NextShrinks, List.length_cons] at hn
            exact ihB d r' _ (by omega)
          · simp
          · simp
          · simp
          · rename_i hnext
            refine absurd hnext (nextWith_ne_fuel cc P _ _ ?_)
            intro x hx
            simp only [List.length_cons] at hx
            exact ihA d x [] (by omega)

/-- with enough fuel the amount of fuel is irrelevant -/
theorem args_body_fuel_irrel (cc : CharClass) (P : Profile) : ∀ f : Nat,
    (∀ f' d s acc, s.length < f → s.length < f' → argsLoop cc P f d s acc = argsLoop cc P f' d s acc) ∧
    (∀ f' d s acc, s.length < f → s.length < f' → argBody cc P f d s acc = argBody cc P f' d s acc) := by
  intro f
  induction f with
  | zero => constructor <;> intro f' d s acc h <;> omega
  | succ f ih =>
    obtain ⟨ihA, ihB⟩ := ih
    constructor
    · intro f' d s acc hlen hlen'
      cases f' with
      | zero => omega
      | succ f' =>
        cases s with
        | nil => simp [argsLoop]
        | cons c r =>
          simp only [List.length_cons] at hlen hlen'
          rw [argsLoop, argsLoop]
          split
          · split
            · rfl
            rw [← ihB f' (d + 1) r [] (by omega) (by omega)]
            have hb := argBody_suffix cc P f (d + 1) r []
            split
            · rename_i a r' hbody
              rw [hbody] at hb
              simp only [PR.RestSuffix] at hb
              have := hb.length_le
              exact ihA f' d r' _ (by omega) (by omega)
            · rfl
            · rfl
            · rfl
          · rfl
    · intro f' d s acc hlen hlen'
      cases f' with
      | zero => omega
      | succ f' =>
        cases s with
        | nil => simp [argBody]
        | cons c r =>
          simp only [List.length_cons] at hlen hlen'
          cases hdc : doubledClose P c r
          case some r2 =>
            rw [argBody_succ_some cc P f d c r acc r2 hdc, argBody_succ_some cc P f' d c r acc r2 hdc]
            have := (doubledClose_suffix hdc).length_le
            exact ihB f' d r2 _ (by omega) (by omega)
          rw [argBody_succ_none cc P f d c r acc hdc, argBody_succ_none cc P f' d c r acc hdc]
          split
          · rfl
          · have hcongr : nextWith cc P (fun x => argsLoop cc P f' d x []) (c :: r) =
                nextWith cc P (fun x => argsLoop cc P f d x []) (c :: r) := by
              apply nextWith_congr
              intro x hx
              simp only [List.length_cons] at hx
              exact (ihA f' d x [] (by omega) (by omega)).symm
            rw [hcongr]
            have hn := nextWith_shrinks cc P (fun x => argsLoop cc P f d x []) (c :: r)
              (fun x => argsLoop_suffix cc P f d x [])
            split
            · rename_i q r' hnext
              rw [hnext] at hn
              simp only [PR.NextShrinks, List.length_cons] at hn
              exact ihB f' d r' _ (by omega) (by omega)
            · rfl
            · rfl
            · rfl
            · rfl

theorem argsLoop_fuel_irrel (cc : CharClass) (P : Profile) {f f' : Nat} (d : Nat) {s : List Char} (acc)
    (h : s.length < f) (h' : s.length < f') : argsLoop cc P f d s acc = argsLoop cc P f' d s acc :=
  (args_body_fuel_irrel cc P f).1 f' d s acc h h'

theorem argBody_fuel_irrel (cc : CharClass) (P : Profile) {f f' : Nat} (d : Nat) {s : List Char} (acc)
    (h : s.length < f) (h' : s.length < f') : argBody cc P f d s acc = argBody cc P f' d s acc :=
  (args_body_fuel_irrel cc P f).2 f' d s acc h h'

/-- the fuel convention of DESIGN.md Appendix A for the two fuelled functions -/
theorem argsLoop_fuel_mono (cc : CharClass) (P : Profile) (fuel d : Nat) (s : List Char) (acc)
    (h : fuel ≥ s.length + 1) : argsLoop cc P fuel d s acc = argsLoop cc P (s.length + 1) d s acc :=
  argsLoop_fuel_irrel cc P d acc (by omega) (by omega)

theorem argBody_fuel_mono (cc : CharClass) (P : Profile) (fuel d : Nat) (s : List Char) (acc)
    (h : fuel ≥ s.length + 1) : argBody cc P fuel d s acc = argBody cc P (s.length + 1) d s acc :=
  argBody_fuel_irrel cc P d acc (by omega) (by omega)

theorem nextAt_ne_fuel (cc : CharClass) (P : Profile) (d : Nat) (s : List Char) : nextAt cc P d s ≠ .fuel := by
  unfold nextAt
  apply nextWith_ne_fuel
  intro x hx
  exact (args_body_ne_fuel cc P s.length).1 d x [] hx

theorem next_ne_fuel (cc : CharClass) (P : Profile) (s : List Char) : next cc P s ≠ .fuel :=
  nextAt_ne_fuel cc P 0 s

theorem next_ne_fail (cc : CharClass) (P : Profile) (s : List Char) e r : next cc P s ≠ .fail e r := by
  intro h
  have := next_shrinks cc P s
  rw [h] at this
  exact this

/-- `parseLoop` never runs out of fuel when started with `input.length + 1` -/
theorem parseLoop_ne_err (cc : CharClass) (P : Profile) :
    ∀ (n : Nat) (s : List Char), s.length < n → parseLoop cc P n s ≠ .err () := by
  intro n
  induction n with
  | zero => intro s h; omega
  | succ n ih =>
    intro s hlen
    rw [parseLoop]
    have hn := next_shrinks cc P s
    split
    · simp
    · rename_i p r hnext
      rw [hnext] at hn
      simp only [PR.NextShrinks] at hn
      have := ih r (by omega)
      split
      · simp
      · rename_i e hrec; cases e; exact absurd hrec this
      · simp
    · rename_i e r hnext; exact absurd hnext (next_ne_fail cc P s e r)
    · simp
    · rename_i hnext; exact absurd hnext (next_ne_fuel cc P s)


/-! ### no panic when every integer the parser can read fits the word -/

/-- `Parser::integer` cannot overflow at any position of `s` -/
def IntSafe (P : Profile) (s : List Char) : Prop :=
  ∀ t, t <:+ s → ∀ w, integerLoop P t 0 false ≠ .panic w

theorem IntSafe.suffix {P : Profile} {s t : List Char} (h : IntSafe P s) (ht : t <:+ s) : IntSafe P t :=
  fun u hu w => h u (hu.trans ht) w

theorem parameters_ne_panic (P : Profile) (s : List Char) (h : IntSafe P s) (w : String) :
    parameters P s ≠ .panic w := by
  unfold parameters
  split
  · simp
  · rename_i c r
    split
    · simp only [integer]
      have h12 : (alignOf (fillLookahead r).2).2 <:+ c :: r :=
        suffix_of_cons ((alignOf_suffix _).trans (fillLookahead_suffix r))
      have h3 := integerLoop_suffix P (alignOf (fillLookahead r).2).2 0 false
      split
      · rename_i minW r3 hint
        rw [hint] at h3
        simp only [PR.RestSuffix] at h3
        split
        · rename_i d t
          split
          · have ht : t <:+ c :: r := (List.suffix_cons d t).trans (h3.trans h12)
            split
            · simp
            · simp
            · rename_i w' hint2
              exact absurd hint2 (h t ht w')
            · simp
          · simp
        · simp
      · simp
      · rename_i w' hint; exact absurd hint (h _ h12 w')
      · simp
    · simp

theorem argumentWith_ne_panic (cc : CharClass) (P : Profile) (F : List Char → PR (List (List Piece)))
    (r : List Char) (hs : IntSafe P r) (hA : (F (name cc P r).2).RestSuffix (name cc P r).2)
    (hF : ∀ w, F (name cc P r).2 ≠ .panic w) (w : String) : argumentWith cc P F r ≠ .panic w := by
  unfold argumentWith
  split
  · rename_i args r2 hargs
    rw [hargs] at hA
    simp only [PR.RestSuffix] at hA
    split
    · rename_i p r3 _
      obtain ⟨q, r4, hq, _⟩ := closeBrace_spec (.arg (name cc P r).1 args p) r3
      rw [hq]; simp
    · rename_i e r3 _
      obtain ⟨q, r4, hq, _⟩ := closeBrace_spec (.error e) r3
      rw [hq]; simp
    · rename_i w' hpar
      exact absurd hpar (parameters_ne_panic P r2 (hs.suffix (hA.trans (name_suffix cc P r))) w')
    · simp
  · rename_i e r2 _
    obtain ⟨q, r4, hq, _⟩ := closeBrace_spec (.error e) r2
    rw [hq]; simp
  · rename_i w' hf; exact absurd hf (hF w')
  · simp

theorem nextWith_ne_panic (cc : CharClass) (P : Profile) (F : List Char → PR (List (List Piece)))
    (s : List Char) (hs : IntSafe P s) (hA : ∀ x, (F x).RestSuffix x)
    (hF : ∀ x, x <:+ s → ∀ w, F x ≠ .panic w) (w : String) : nextWith cc P F s ≠ .panic w := by
  unfold nextWith
  split
  · simp
  · rename_i c r
    have := argumentWith_ne_panic cc P F r (hs.suffix (List.suffix_cons c r)) (hA _)
      (hF _ (suffix_of_cons (name_suffix cc P r))) w
    split
    · split
      · simp
      · exact this
    · split
      · split <;> simp
      · split
        · split <;> simp
        · split
          · split <;> simp
          · split
            · split
              · split <;> simp
              · simp
            · simp [textPiece]

theorem args_body_ne_panic (cc : CharClass) (P : Profile) : ∀ f : Nat,
    (∀ d s acc, IntSafe P s → ∀ w, argsLoop cc P f d s acc ≠ .panic w) ∧
    (∀ d s acc, IntSafe P s → ∀ w, argBody cc P f d s acc ≠ .panic w) := by
  intro f
  induction f with
  | zero => constructor <;> intro d s acc _ w <;> simp [argsLoop, argBody]
  | succ f ih =>
    obtain ⟨ihA, ihB⟩ := ih
    constructor
    · intro d s acc hs w
      cases s with
      | nil => simp [argsLoop]
      | cons c r =>
        rw [argsLoop]
        split
        · split
          · simp
          have hb := argBody_suffix cc P f (d + 1) r []
          split
          · rename_i a r' hbody
            rw [hbody] at hb
            simp only [PR.RestSuffix] at hb
            exact ihA d r' _ (hs.suffix (suffix_of_cons hb)) w
          · simp
          · rename_i w' hbody
            exact absurd hbody (ihB (d + 1) r [] (hs.suffix (List.suffix_cons c r)) w')
          · simp
        · simp
    · intro d s acc hs w
      cases s with
      | nil => simp [argBody]
      | cons c r =>
        cases hdc : doubledClose P c r
        case some r2 =>
          rw [argBody_succ_some cc P f d c r acc r2 hdc]
          exact ihB d r2 _ (hs.suffix (suffix_of_cons (doubledClose_suffix hdc))) w
        rw [argBody_succ_none cc P f d c r acc hdc]
        split
        · simp
        · have hn := nextWith_shrinks cc P (fun x => argsLoop cc P f d x []) (c :: r)
            (fun x => argsLoop_suffix cc P f d x [])
          split
          · rename_i q r' hnext
            rw [hnext] at hn
            simp only [PR.NextShrinks] at hn
            exact ihB d r' _ (hs.suffix hn.1) w
          · simp
          · simp
          · rename_i w' hnext
            refine absurd hnext (nextWith_ne_panic cc P _ _ hs (fun x => argsLoop_suffix cc P f d x []) ?_ w')
            intro x hx w''
            exact ihA d x [] (hs.suffix hx) w''
          · simp

theorem next_ne_panic (cc : CharClass) (P : Profile) (s : List Char) (hs : IntSafe P s) (w : String) :
    next cc P s ≠ .panic w := by
  unfold next nextAt
  exact nextWith_ne_panic cc P _ s hs (fun x => argsLoop_suffix cc P _ 0 x [])
    (fun x hx w' => (args_body_ne_panic cc P s.length).1 0 x [] (hs.suffix hx) w') w

theorem parseLoop_ne_panic (cc : CharClass) (P : Profile) :
    ∀ (n : Nat) (s : List Char), IntSafe P s → ∀ w, parseLoop cc P n s ≠ .panic w := by
  intro n
  induction n with
  | zero => intro s _ w; simp [parseLoop]
  | succ n ih =>
    intro s hs w
    rw [parseLoop]
    have hn := next_shrinks cc P s
    split
    · simp
    · rename_i p r hnext
      rw [hnext] at hn
      simp only [PR.NextShrinks] at hn
      have := ih r (hs.suffix hn.1)
      split
      · simp
      · simp
      · rename_i w' hrec; exact absurd hrec (this w')
    · simp
    · rename_i w' hnext; exact absurd hnext (next_ne_panic cc P s hs w')
    · simp

/-- without overflow checks `integer` wraps and never panics -/
theorem integerLoop_ne_panic_of_wrapping (P : Profile) (hP : P.overflowChecks = false) :
    ∀ (s : List Char) (cur : Nat) (found : Bool) (w : String), integerLoop P s cur found ≠ .panic w
  | [], _, _, _ => by simp [integerLoop]
  | c :: t, cur, found, w => by
    unfold integerLoop
    split
    · simp only []
      split
      · exact integerLoop_ne_panic_of_wrapping P hP t _ _ w
      · split
        · simp
        · split
          · rename_i h; rw [hP] at h; cases h
          · exact integerLoop_ne_panic_of_wrapping P hP t _ _ w
    · simp

/-- with the proposed repair of F3 (`Profile.widthCheck`) `integer` never panics either -/
theorem integerLoop_ne_panic_of_widthCheck (P : Profile) (hP : P.widthCheck = true) :
    ∀ (s : List Char) (cur : Nat) (found : Bool) (w : String), integerLoop P s cur found ≠ .panic w
  | [], _, _, _ => by simp [integerLoop]
  | c :: t, cur, found, w => by
    unfold integerLoop
    split
    · simp only []
      split
      · exact integerLoop_ne_panic_of_widthCheck P hP t _ _ w
      · simp
    · simp

theorem intSafe_of_widthCheck (P : Profile) (hP : P.widthCheck = true) (s : List Char) : IntSafe P s :=
  fun t _ w => integerLoop_ne_panic_of_widthCheck P hP t 0 false w

theorem intSafe_of_wrapping (P : Profile) (hP : P.overflowChecks = false) (s : List Char) : IntSafe P s :=
  fun t _ w => integerLoop_ne_panic_of_wrapping P hP t 0 false w

/-- a smaller accumulator stays below a fitting one -/
theorem integerLoop_ne_panic_of_fit (P : Profile) :
    ∀ (s : List Char) (cur cur' : Nat) (found : Bool) (w : String),
      runsFit (2 ^ P.wordBits) s cur' = true → cur ≤ cur' → integerLoop P s cur found ≠ .panic w
  | [], _, _, _, _, _, _ => by simp [integerLoop]
  | c :: t, cur, cur', found, w, hfit, hle => by
    unfold integerLoop
    unfold runsFit at hfit
    split
    · rename_i hd
      rw [if_pos hd] at hfit
      simp only [Bool.and_eq_true, decide_eq_true_eq] at hfit
      simp only []
      have hv : cur * 10 + Str.digitVal c ≤ cur' * 10 + Str.digitVal c := by omega
      split
      · exact integerLoop_ne_panic_of_fit P t _ _ true w hfit.2 hv
      · omega
    · simp

theorem runsFit_suffix (W : Nat) : ∀ (s t : List Char) (cur : Nat), t <:+ s → runsFit W s cur = true →
    ∃ cur', runsFit W t cur' = true
  | [], t, cur, ht, h => by
    have : t = [] := List.suffix_nil.mp ht
    subst this; exact ⟨cur, h⟩
  | c :: r, t, cur, ht, h => by
    rcases List.suffix_cons_iff.mp ht with heq | hsuf
    · subst heq; exact ⟨cur, h⟩
    · unfold runsFit at h
      split at h
      · simp only [Bool.and_eq_true] at h
        exact runsFit_suffix W r t _ hsuf h.2
      · exact runsFit_suffix W r t _ hsuf h

theorem intSafe_of_digitRunsFit (P : Profile) (s : List Char) (h : digitRunsFit P s = true) : IntSafe P s := by
  intro t ht w
  obtain ⟨cur', hc⟩ := runsFit_suffix _ s t 0 ht h
  exact integerLoop_ne_panic_of_fit P t 0 cur' false w hc (Nat.zero_le _)


/-! ### `args()` / `arg()` fail only with nothing left of the input: `Err("unclosed '('")` at the
end of the input, `Err("nesting too deep")` after swallowing the rest -/

theorem args_body_fail (cc : CharClass) (P : Profile) : ∀ f : Nat,
    (∀ d s acc e r, argsLoop cc P f d s acc = .fail e r →
      (e = eUnclosedParen ∨ e = eNestingTooDeep) ∧ r = []) ∧
    (∀ d s acc e r, argBody cc P f d s acc = .fail e r →
      (e = eUnclosedParen ∨ e = eNestingTooDeep) ∧ r = []) := by
  intro f
  induction f with
  | zero => constructor <;> intro d s acc e r h <;> simp [argsLoop, argBody] at h
  | succ f ih =>
    obtain ⟨ihA, ihB⟩ := ih
    constructor
    · intro d s acc e r h
      cases s with
      | nil => simp [argsLoop] at h
      | cons c t =>
        rw [argsLoop] at h
        split at h
        · split at h
          · cases h; exact ⟨Or.inr rfl, rfl⟩
          split at h
          · exact ihA _ _ _ _ _ h
          · rename_i e' r' hbody
            cases h
            exact ihB _ _ _ _ _ hbody
          · cases h
          · cases h
        · cases h
    · intro d s acc e r h
      cases s with
      | nil => simp [argBody] at h; exact ⟨Or.inl h.1.symm, h.2⟩
      | cons c t =>
        cases hdc : doubledClose P c t
        case some r2 =>
          rw [argBody_succ_some cc P f d c t acc r2 hdc] at h
          exact ihB _ _ _ _ _ h
        rw [argBody_succ_none cc P f d c t acc hdc] at h
        split at h
        · cases h
        · have hn := nextWith_shrinks cc P (fun x => argsLoop cc P f d x []) (c :: t)
            (fun x => argsLoop_suffix cc P f d x [])
          split at h
          · exact ihB _ _ _ _ _ h
          · rename_i r' hnext
            rw [hnext] at hn
            simp only [PR.NextShrinks] at hn
            exact absurd hn.1 (by simp)
          · rename_i e' r' hnext
            rw [hnext] at hn
            exact absurd hn (by simp [PR.NextShrinks])
          · cases h
          · cases h

end Log4rs.Pattern.Parse
