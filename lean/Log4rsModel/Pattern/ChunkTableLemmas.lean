import Log4rsModel.Pattern.ChunkTable
/-
`compile` (the model of `impl From<Piece> for Chunk`) is the dispatch on `kindOfName`; used by the
generated translation obligations `C09_gen_*` / `C11_gen_*`.
-/
namespace Log4rs.Pattern.Parse

theorem compile_eq_kind (B : Build) (n : List Char) (args : List (List Piece)) (p : Params) :
    compile B (.arg n args p) =
      match kindOfName n with
      | some .time => dateChunk B args p
      | some (.group g) =>
        (match args with
         | [a] => .group g (compileL B a) p
         | _ => .error eExactlyOne)
      | some (.plain k) => noArgs args p k
      | some .mdc => mdcChunk B args p
      | none => .error (eUnknownFormatter n) := by
  unfold kindOfName
  rw [compile]
  split
  · rfl
  · cases groupOfName n with
    | some g => rfl
    | none =>
      cases leafOfName n with
      | some k => rfl
      | none =>
        dsimp only
        split <;> rfl

theorem compile_unknown (B : Build) (n : List Char) (args : List (List Piece)) (p : Params)
    (h : kindOfName n = none) : compile B (.arg n args p) = .error (eUnknownFormatter n) := by
  rw [compile_eq_kind, h]

/-- a failed argument-count test yields the kind's error text, whatever the arguments are -/
theorem compile_arity (B : Build) (n : List Char) (args : List (List Piece)) (p : Params) (k : FKind)
    (h : kindOfName n = some k) (ha : k.arityOk args.length = false) :
    compile B (.arg n args p) = .error k.arityErr := by
  rw [compile_eq_kind, h]
  cases k with
  | time =>
    have : args.length > 2 := by
      simp only [FKind.arityOk, FKind.arityRange, Nat.zero_le, decide_true, Bool.true_and] at ha
      have := of_decide_eq_false ha
      omega
    simp [dateChunk, this, FKind.arityErr]
  | mdc =>
    have : args.length > 2 := by
      simp only [FKind.arityOk, FKind.arityRange, Nat.zero_le, decide_true, Bool.true_and] at ha
      have := of_decide_eq_false ha
      omega
    simp [mdcChunk, this, FKind.arityErr]
  | group g =>
    match args, ha with
    | [], _ => rfl
    | [a], ha => simp [FKind.arityOk, FKind.arityRange] at ha
    | _ :: _ :: _, _ => rfl
  | plain l =>
    match args, ha with
    | [], ha => simp [FKind.arityOk, FKind.arityRange] at ha
    | _ :: _, _ => simp [noArgs, FKind.arityErr]

theorem leafLookup_some_mem_names (n : List Char) (t : List (List Char × Leaf)) (k : Leaf)
    (h : leafLookup n t = some k) : n ∈ t.map (·.1) := by
  induction t with
  | nil => simp [leafLookup] at h
  | cons e t ih =>
    obtain ⟨m, l⟩ := e
    by_cases hm : n = m
    · simp [hm]
    · simp only [leafLookup, hm, if_false] at h
      simp [ih h]

theorem kindOfName_mem (n : List Char) (k : FKind) (h : kindOfName n = some k) : n ∈ formatterNames := by
  unfold kindOfName at h
  unfold formatterNames
  split at h
  · next hd =>
    simp only [Bool.or_eq_true, decide_eq_true_eq] at hd
    rcases hd with hd | hd <;> simp [hd]
  · cases hg : groupOfName n with
    | some g =>
      unfold groupOfName at hg
      have : n = cs!"h" ∨ n = cs!"highlight" ∨ n = cs!"D" ∨ n = cs!"debug" ∨ n = cs!"R" ∨ n = cs!"release" ∨ n = [] := by
        split at hg
        · next h1 => simp only [Bool.or_eq_true, decide_eq_true_eq] at h1; rcases h1 with h1 | h1 <;> simp [h1]
        · split at hg
          · next h1 => simp only [Bool.or_eq_true, decide_eq_true_eq] at h1; rcases h1 with h1 | h1 <;> simp [h1]
          · split at hg
            · next h1 => simp only [Bool.or_eq_true, decide_eq_true_eq] at h1; rcases h1 with h1 | h1 <;> simp [h1]
            · split at hg
              · next h1 => simp [h1]
              · simp at hg
      simp only [List.mem_append, List.mem_cons]
      rcases this with h1 | h1 | h1 | h1 | h1 | h1 | h1 <;> simp [h1]
    | none =>
      rw [hg] at h
      dsimp only at h
      cases hl : leafOfName n with
      | some l =>
        have := leafLookup_some_mem_names n leafTable l hl
        simp only [List.mem_append]
        exact Or.inl (Or.inr this)
      | none =>
        rw [hl] at h
        dsimp only at h
        split at h
        · next hx =>
          simp only [Bool.or_eq_true, decide_eq_true_eq] at hx
          simp only [List.mem_append]
          rcases hx with hx | hx <;> simp [hx]
        · simp at h

end Log4rs.Pattern.Parse
