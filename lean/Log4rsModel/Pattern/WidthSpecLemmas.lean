import Log4rsModel.Pattern.WidthSpec
import Log4rsModel.Pattern.WritersLemmas3
/-
Lemmas for `Pattern/WidthSpec.lean`: the model's text is `specOrCode` with no hypothesis, and the
statement-only matcher accepts everything the model produces (the Spec verdict cannot raise a
false alarm on a behaviour the model — hence, by the correspondence check, the code — shows).
Core only.
-/
namespace Log4rs.Pattern
open Log4rs

theorem codeFmtOps_text_codeText (p : Params) (o : Out) :
    (codeFmtOps p o).text = codeText p o.text := by
  rw [codeFmtOps_text]; unfold codeText; cases p.maxW <;> rfl

theorem codeFmtOps_text_specOrCode (p : Params) (o : Out) :
    (codeFmtOps p o).text = specOrCodeFmt p o.text := by
  unfold specOrCodeFmt
  by_cases h : p.ordered = true
  · simp only [h, if_true]; exact codeFmtOps_text_eq_spec p o h
  · simp only [h, if_false, Bool.false_eq_true]; exact codeFmtOps_text_codeText p o

mutual
theorem denote_text_specOrCode : ∀ (n : Node), (denote n).text = specOrCode n
  | .leaf ps => by simp [denote, specOrCode]
  | .fmt p cs => by rw [denote, specOrCode, codeFmtOps_text_specOrCode, denotes_text_specOrCode cs]
  | .gated true p cs => by
    rw [denote, specOrCode, codeFmtOps_text_specOrCode, denotes_text_specOrCode cs]
  | .gated false p _ => by rw [denote, specOrCode, codeFmtOps_text_specOrCode]; rfl
theorem denotes_text_specOrCode : ∀ (ns : List Node), (denotes ns).text = specOrCodes ns
  | [] => by simp [denotes, specOrCodes, Out.text]
  | n :: ns => by
    rw [denotes, specOrCodes, text_append, denote_text_specOrCode n, denotes_text_specOrCode ns]
end

theorem denotes_append (a b : List Node) : denotes (a ++ b) = denotes a ++ denotes b := by
  induction a with
  | nil => simp [denotes]
  | cons n ns ih => simp [denotes, ih]

theorem denotes_singleton (n : Node) : denotes [n] = denote n := by simp [denotes]

/-! ### the matcher accepts the model -/

theorem codeFmtOps_plain (p : Params) (o : Out) (h : p.plain = true) : codeFmtOps p o = o := by
  unfold Params.plain at h
  unfold codeFmtOps
  cases hm : p.minW <;> cases hM : p.maxW <;> simp [hm, hM] at h ⊢

theorem specFmt_length_ge (p : Params) (t : List Char) (m : Nat) (hm : p.minW = some m) :
    m ≤ (specFmt p t).length := by
  unfold specFmt
  cases hM : p.maxW <;> cases hr : p.right <;> simp [hm, length_fills] <;> omega

theorem window_codeFmtOps (p : Params) (o : Out) : p.window (codeFmtOps p o).text.length = true := by
  unfold Params.window
  have h1 : (match p.maxW with
      | some M => decide ((codeFmtOps p o).text.length ≤ M) | none => true) = true := by
    cases hM : p.maxW with
    | none => rfl
    | some M => simpa using codeFmtOps_text_length_le p o M hM
  have h2 : (match p.minW with
      | some m => !p.ordered || decide (m ≤ (codeFmtOps p o).text.length) | none => true) = true := by
    cases hm : p.minW with
    | none => rfl
    | some m =>
      by_cases ho : p.ordered = true
      · rw [codeFmtOps_text_eq_spec p o ho]
        simpa [ho] using specFmt_length_ge p o.text m hm
      · simp [ho]
  exact Bool.and_eq_true _ _ ▸ ⟨h1, h2⟩

theorem specFmt_length (p : Params) (t : List Char) : (specFmt p t).length = p.outLen t.length := by
  unfold specFmt Params.outLen
  cases hM : p.maxW <;> cases hm : p.minW <;> cases hr : p.right <;>
    simp [length_fills, List.length_take] <;> omega

theorem outLen_mono (p : Params) {a b : Nat} (h : a ≤ b) : p.outLen a ≤ p.outLen b := by
  unfold Params.outLen
  cases p.maxW <;> cases p.minW <;> simp <;> omega

theorem codeFmtOps_length_le_outLen (p : Params) (o : Out) (h : p.ordered = true) (k : Nat)
    (hk : o.text.length ≤ k) : (codeFmtOps p o).text.length ≤ p.outLen k := by
  rw [codeFmtOps_text_eq_spec p o h, specFmt_length]; exact outLen_mono p hk

mutual
theorem length_le_ubNode : ∀ (n : Node) (k : Nat), ubNode n = some k → (denote n).text.length ≤ k
  | .leaf ps, k, h => by simp [ubNode] at h; simp [denote, h]
  | .fmt p cs, k, h => by
    rw [ubNode] at h; rw [denote]
    by_cases ho : p.ordered = true
    · simp only [ho, if_true, Option.map_eq_some_iff] at h
      obtain ⟨u, hu, rfl⟩ := h
      exact codeFmtOps_length_le_outLen p _ ho u (length_le_ubNodes cs u hu)
    · simp only [ho, if_false, Bool.false_eq_true] at h
      exact codeFmtOps_text_length_le p _ k h
  | .gated true p cs, k, h => by
    rw [ubNode] at h; rw [denote]
    by_cases ho : p.ordered = true
    · simp only [ho, if_true, Option.map_eq_some_iff] at h
      obtain ⟨u, hu, rfl⟩ := h
      exact codeFmtOps_length_le_outLen p _ ho u (length_le_ubNodes cs u hu)
    · simp only [ho, if_false, Bool.false_eq_true] at h
      exact codeFmtOps_text_length_le p _ k h
  | .gated false p cs, k, h => by
    rw [ubNode] at h; rw [denote]
    by_cases ho : p.ordered = true
    · simp only [ho, if_true, Option.some.injEq] at h
      subst h
      exact codeFmtOps_length_le_outLen p _ ho 0 (by simp [Out.text])
    · simp only [ho, if_false, Bool.false_eq_true] at h
      exact codeFmtOps_text_length_le p _ k h
theorem length_le_ubNodes : ∀ (ns : List Node) (k : Nat), ubNodes ns = some k →
    (denotes ns).text.length ≤ k
  | [], k, h => by simp [ubNodes] at h; simp [denotes, Out.text]
  | n :: ns, k, h => by
    rw [ubNodes] at h
    cases ha : ubNode n with
    | none => simp [ha] at h
    | some a =>
      cases hb : ubNodes ns with
      | none => simp [ha, hb] at h
      | some b =>
        simp only [ha, hb, Option.some.injEq] at h
        subst h
        rw [denotes, text_append, List.length_append]
        have := length_le_ubNode n a ha
        have := length_le_ubNodes ns b hb
        omega
end

theorem withinUb_denote (n : Node) : withinUb (ubNode n) (denote n).text.length = true := by
  unfold withinUb
  cases h : ubNode n with
  | none => rfl
  | some k => simpa using length_le_ubNode n k h

theorem mem_splits (a b : List Char) : (a, b) ∈ splits (a ++ b) := by
  unfold splits
  rw [List.mem_map]
  refine ⟨a.length, ?_, ?_⟩
  · simp [List.mem_range]; omega
  · simp

mutual
theorem matchNode_denote : ∀ (n : Node), matchNode n (denote n).text = true
  | .leaf ps => by simp [matchNode, denote]
  | .fmt p cs => by
    rw [matchNode]
    by_cases ho : (Node.fmt p cs).ordered = true
    · simp only [ho, if_true]; simpa using denote_text_eq_spec _ ho
    · simp only [ho, if_false, Bool.false_eq_true]
      by_cases hp : p.plain = true
      · simp only [hp, if_true]
        rw [denote, codeFmtOps_plain p _ hp]; exact matchNodes_denotes cs
      · simp only [hp, if_false, Bool.false_eq_true]
        have h1 := withinUb_denote (.fmt p cs)
        rw [Bool.and_eq_true]
        exact ⟨by rw [denote]; exact window_codeFmtOps p _, h1⟩
  | .gated true p cs => by
    rw [matchNode]
    by_cases ho : (Node.gated true p cs).ordered = true
    · simp only [ho, if_true]; simpa using denote_text_eq_spec _ ho
    · simp only [ho, if_false, Bool.false_eq_true]
      by_cases hp : p.plain = true
      · simp only [hp, if_true]
        rw [denote, codeFmtOps_plain p _ hp]; exact matchNodes_denotes cs
      · simp only [hp, if_false, Bool.false_eq_true]
        have h1 := withinUb_denote (.gated true p cs)
        rw [Bool.and_eq_true]
        exact ⟨by rw [denote]; exact window_codeFmtOps p _, h1⟩
  | .gated false p cs => by
    rw [matchNode]
    by_cases ho : p.ordered = true
    · simp only [ho, if_true]
      have : (Node.gated false p cs).ordered = true := by simpa [Node.ordered] using ho
      simpa using denote_text_eq_spec _ this
    · simp only [ho, if_false, Bool.false_eq_true]; rw [denote]; exact window_codeFmtOps p _
theorem matchNodes_denotes : ∀ (ns : List Node), matchNodes ns (denotes ns).text = true
  | [] => by simp [matchNodes, denotes, Out.text]
  | n :: ns => by
    rw [matchNodes, denotes, text_append]
    by_cases ho : n.ordered = true
    · simp only [ho, if_true]
      rw [denote_text_eq_spec n ho]
      simp [matchNodes_denotes ns]
    · simp only [ho, if_false, Bool.false_eq_true]
      rw [List.any_eq_true]
      exact ⟨((denote n).text, (denotes ns).text), mem_splits _ _,
        by simp [matchNode_denote n, matchNodes_denotes ns]⟩
end

end Log4rs.Pattern
