import Log4rsModel.Pattern.Writers
/-
Lemmas about the byte-level writer model, part 1: the cut function of `MaxWidthWriter`, std's
`write_all` loop, and what one `write_all` does to each layer, for an arbitrary writer below.
Core only.
-/
namespace Log4rs.Pattern
open Log4rs

/-! ### operation streams -/

theorem text_nil : Out.text [] = [] := rfl

theorem text_append (a b : Out) : Out.text (a ++ b) = Out.text a ++ Out.text b := by
  simp [Out.text, List.filterMap_append]

theorem text_cons_ch (c : Char) (o : Out) : Out.text (Op.ch c :: o) = c :: Out.text o := by
  simp [Out.text]

theorem text_cons_style (s : Style) (o : Out) : Out.text (Op.style s :: o) = Out.text o := by
  simp [Out.text]

theorem text_ofText (cs : List Char) : Out.text (ofText cs) = cs := by
  induction cs with
  | nil => rfl
  | cons c cs ih => simp only [ofText, List.map_cons] at *; rw [text_cons_ch, ih]

theorem ofText_append (a b : List Char) : ofText (a ++ b) = ofText a ++ ofText b := by
  simp [ofText]

theorem text_truncOps (M : Nat) (o : Out) : (truncOps M o).text = o.text.take M := by
  induction o generalizing M with
  | nil => cases M <;> simp [truncOps, Out.text]
  | cons x xs ih =>
    cases x with
    | style s => cases M <;> simp [truncOps, text_cons_style, ih]
    | ch c =>
      cases M with
      | zero => simp [truncOps, ih]
      | succ M => simp [truncOps, text_cons_ch, ih]

/-! ### the cut of `MaxWidthWriter::write` -/

/-- the bytes one `MaxWidthWriter::write` call passes on: everything before the first lead byte
met with an exhausted budget -/
def cut : Nat → Bytes → Bytes
  | _, [] => []
  | r, x :: xs =>
    if isLead x then (if r = 0 then [] else x :: cut (r - 1) xs) else x :: cut r xs

theorem scanEnd_eq (r : Nat) (b : Bytes) : scanEnd r b = ((cut r b).length, r - leads (cut r b)) := by
  induction b generalizing r with
  | nil => simp [scanEnd, cut, leads]
  | cons x xs ih =>
    by_cases hx : isLead x
    · by_cases hr : r = 0
      · simp [scanEnd, cut, hx, hr, leads]
      · simp only [scanEnd, cut, hx, hr, if_true, if_false, ih, List.length_cons, leads_cons]
        congr 1; omega
    · simp only [scanEnd, cut, hx, if_false, ih, List.length_cons, leads_cons, Bool.false_eq_true]
      congr 1; omega

theorem cut_prefix (r : Nat) (b : Bytes) : b.take (cut r b).length = cut r b := by
  induction b generalizing r with
  | nil => simp [cut]
  | cons x xs ih =>
    by_cases hx : isLead x
    · by_cases hr : r = 0
      · simp [cut, hx, hr]
      · simp [cut, hx, hr, ih]
    · simp [cut, hx, ih]

theorem cut_length_le (r : Nat) (b : Bytes) : (cut r b).length ≤ b.length := by
  have := congrArg List.length (cut_prefix r b)
  simp at this; omega

theorem leads_cut_le (r : Nat) (b : Bytes) : leads (cut r b) ≤ r := by
  induction b generalizing r with
  | nil => simp [cut, leads]
  | cons x xs ih =>
    by_cases hx : isLead x
    · by_cases hr : r = 0
      · simp [cut, hx, hr, leads]
      · have := ih (r - 1)
        simp only [cut, hx, hr, if_true, if_false, leads_cons]; omega
    · have := ih r
      simp only [cut, hx, if_false, leads_cons, Bool.false_eq_true]; omega

/-- a non-empty buffer with an empty cut: the budget is exhausted (and the buffer starts a
character) — the "act as a sink" branch -/
theorem cut_eq_nil (r : Nat) (b : Bytes) (hb : b ≠ []) (h : cut r b = []) : r = 0 := by
  cases b with
  | nil => exact absurd rfl hb
  | cons x xs =>
    by_cases hx : isLead x
    · by_cases hr : r = 0
      · exact hr
      · simp [cut, hx, hr] at h
    · simp [cut, hx] at h

/-- re-offering the unwritten rest after a short write cuts at the same place -/
theorem cut_drop (r : Nat) (b : Bytes) (n : Nat) (hn : n ≤ (cut r b).length) :
    cut (r - leads ((cut r b).take n)) (b.drop n) = (cut r b).drop n := by
  induction b generalizing r n with
  | nil => simp [cut]
  | cons x xs ih =>
    cases n with
    | zero => simp [leads]
    | succ n =>
      by_cases hx : isLead x
      · by_cases hr : r = 0
        · simp [cut, hx, hr] at hn
        · simp only [cut, hx, hr, if_true, if_false, List.length_cons] at hn ⊢
          simp only [List.take_succ_cons, List.drop_succ_cons, leads_cons, hx, if_true]
          have := ih (r - 1) n (by omega)
          rw [← this]; congr 1; omega
      · simp only [cut, hx, if_false, List.length_cons, Bool.false_eq_true] at hn ⊢
        simp only [List.take_succ_cons, List.drop_succ_cons, leads_cons, hx, if_false,
          Bool.false_eq_true]
        have := ih r n (by omega)
        rw [← this]; congr 1; omega

theorem cut_cont_append (r : Nat) (t rest : Bytes) (ht : ∀ b ∈ t, isLead b = false) :
    cut r (t ++ rest) = t ++ cut r rest := by
  induction t with
  | nil => rfl
  | cons x xs ih =>
    have hx : isLead x = false := ht x List.mem_cons_self
    simp only [List.cons_append, cut, hx, if_false, Bool.false_eq_true]
    rw [ih (fun b hb => ht b (List.mem_cons_of_mem _ hb))]

/-- scanning whole characters with budget `r` stops exactly after the first `r` of them -/
theorem cut_utf8 (r : Nat) (cs : List Char) : cut r (utf8 cs) = utf8 (cs.take r) := by
  induction cs generalizing r with
  | nil => simp [utf8, cut]
  | cons c cs ih =>
    obtain ⟨h, t, e, hl, hc, _⟩ := utf8Char_shape c
    cases r with
    | zero => simp [e, cut, hl, utf8]
    | succ r =>
      simp only [List.take_succ_cons, utf8_cons, e, List.cons_append, cut, hl, if_true]
      simp only [Nat.add_one_ne_zero, if_false, Nat.add_sub_cancel]
      rw [cut_cont_append r t _ hc, ih]

/-- when the next piece starts a character (whole `str`s do), cutting a concatenation is cutting
piece by piece with the running budget -/
theorem cut_append (r : Nat) (a b : Bytes) (hb : b = [] ∨ ∃ x xs, b = x :: xs ∧ isLead x = true) :
    cut r (a ++ b) = cut r a ++ cut (r - leads a) b := by
  induction a generalizing r with
  | nil => simp [cut, leads]
  | cons x xs ih =>
    by_cases hx : isLead x
    · by_cases hr : r = 0
      · subst hr
        simp only [List.cons_append, cut, hx, if_true, List.nil_append, Nat.zero_sub]
        rcases hb with hb | ⟨y, ys, hb, hy⟩
        · subst hb; simp [cut]
        · subst hb; simp [cut, hy]
      · simp only [List.cons_append, cut, hx, hr, if_true, if_false, leads_cons]
        rw [ih (r - 1)]
        have : r - 1 - leads xs = r - (1 + leads xs) := by omega
        rw [this]
    · simp only [List.cons_append, cut, hx, if_false, leads_cons, Bool.false_eq_true]
      rw [ih r]
      have : r - leads xs = r - (0 + leads xs) := by omega
      rw [← this]

/-! ### `write` makes progress, `write_all` unfolds -/

theorem accept_bounds (orc : List Nat) (len : Nat) (h : 1 ≤ len) :
    1 ≤ accept orc len ∧ accept orc len ≤ len := by
  unfold accept
  cases orc with
  | nil => simp; omega
  | cons k _ =>
    by_cases hk : k = 0
    · simp [hk]; omega
    · simp only [hk, if_false]; omega

theorem write_progress (w : W) : ∀ (b : Bytes), b ≠ [] →
    1 ≤ (w.write b).2 ∧ (w.write b).2 ≤ b.length := by
  induction w with
  | sink orc out =>
    intro b hb
    have : 1 ≤ b.length := by cases b with | nil => exact absurd rfl hb | cons _ _ => simp
    simpa [W.write] using accept_bounds orc b.length this
  | maxW r inner ih =>
    intro b hb
    have hlen : 1 ≤ b.length := by cases b with | nil => exact absurd rfl hb | cons _ _ => simp
    simp only [W.write, scanEnd_eq]
    by_cases he : (cut r b).length = 0
    · simp [he]; omega
    · simp only [he, if_false]
      have hne : b.take (cut r b).length ≠ [] := by
        rw [cut_prefix]; intro h; simp [h] at he
      have := ih _ hne
      have hl := cut_length_le r b
      rw [cut_prefix] at this hne
      rw [cut_prefix]
      split <;> simp <;> omega
  | left tf f inner ih =>
    intro b hb
    simpa [W.write] using ih b hb
  | right tf f inner buf _ =>
    intro b hb
    have : 1 ≤ b.length := by cases b with | nil => exact absurd rfl hb | cons _ _ => simp
    simp [W.write]; omega

theorem writeAllFuel_irrel : ∀ (f1 f2 : Nat) (w : W) (b : Bytes), b.length ≤ f1 → b.length ≤ f2 →
    W.writeAllFuel f1 w b = W.writeAllFuel f2 w b := by
  intro f1
  induction f1 with
  | zero =>
    intro f2 w b h1 _
    have : b = [] := List.eq_nil_of_length_eq_zero (by omega)
    subst this
    cases f2 <;> simp [W.writeAllFuel]
  | succ f1 ih =>
    intro f2 w b h1 h2
    cases f2 with
    | zero =>
      have : b = [] := List.eq_nil_of_length_eq_zero (by omega)
      subst this; simp [W.writeAllFuel]
    | succ f2 =>
      by_cases hb : b = []
      · subst hb; simp [W.writeAllFuel]
      · have hp := write_progress w b hb
        have he : b.isEmpty = false := by cases b with | nil => exact absurd rfl hb | cons _ _ => rfl
        simp only [W.writeAllFuel, he, Bool.false_eq_true, if_false]
        apply ih
        · simp; omega
        · simp; omega

theorem writeAll_nil (w : W) : w.writeAll [] = w := by simp [W.writeAll, W.writeAllFuel]

/-- one turn of std's `write_all` loop -/
theorem writeAll_cons (w : W) (b : Bytes) (hb : b ≠ []) :
    w.writeAll b = (w.write b).1.writeAll (b.drop (w.write b).2) := by
  have hp := write_progress w b hb
  have he : b.isEmpty = false := by cases b with | nil => exact absurd rfl hb | cons _ _ => rfl
  obtain ⟨n, hn⟩ : ∃ n, b.length = n + 1 := ⟨b.length - 1, by omega⟩
  unfold W.writeAll
  rw [hn]
  simp only [W.writeAllFuel, he, Bool.false_eq_true, if_false]
  apply writeAllFuel_irrel
  · simp; omega
  · simp

end Log4rs.Pattern
