import Log4rsModel.Pattern.RoundTripLemmas3
/-
Parser round trip for C09, part IV: the top-level loop (`Parser::new(p).collect()`), i.e.
`parse (showPats ps) = piecesOf [] ps` for every well-formed AST.
-/
namespace Log4rs.Pattern.Parse

theorem parseLoop_cons (cc : CharClass) (P : Profile) (n : Nat) (s : List Char) (p : Piece) (r : List Char)
    (h : next cc P s = .ok (some p) r) :
    parseLoop cc P (n + 1) s =
      match parseLoop cc P n r with
      | .ok ps => .ok (p :: ps)
      | .err e => .err e
      | .panic w => .panic w := by
  rw [parseLoop, h]
  cases hq : parseLoop cc P n r <;> simp [hq]

theorem parseLoop_end (cc : CharClass) (P : Profile) (n : Nat) : parseLoop cc P (n + 1) [] = .ok [] := by
  rw [parseLoop]
  simp [next, nextAt, nextWith]

/-- the top-level loop on a printed pattern list with pending ordinary text -/
theorem parseLoop_pats (cc : CharClass) (hcc : CCAscii cc) (P : Profile) (hus : P.underscoreNames = true)
    (hP : P.doubledCloseParen = true) :
    ∀ (ps : List Pat) (pre : List Char) (n : Nat), wfPats P.wordBits false ps = true →
      depthPats ps ≤ P.maxDepth →
      pre.all nonSpecial = true → (pre ++ showPats ps).length < n →
      parseLoop cc P n (pre ++ showPats ps) = .ok (piecesOf pre ps)
  | [], pre, n, _, _, hpre, hlen => by
    rw [showPats_nil, piecesOf_nil]
    rw [showPats_nil] at hlen
    simp only [List.append_nil] at hlen ⊢
    cases pre with
    | nil =>
      cases n with
      | zero => simp at hlen
      | succ n => simpa [flushText] using parseLoop_end cc P n
    | cons c t =>
      simp only [List.all_cons, Bool.and_eq_true] at hpre
      have hc : isSpecial c = false := by simpa [nonSpecial] using hpre.1
      have hn : next cc P (c :: (t ++ [])) = _ := next_text cc P 0 c t [] hc hpre.2 (by simp [StartsSpecial])
      simp only [List.append_nil] at hn
      simp only [List.length_cons] at hlen
      match n, hlen with
      | n + 2, _ =>
        rw [parseLoop_cons cc P (n + 1) _ _ _ hn, parseLoop_end]
        rfl
  | p :: ps, pre, n, hwf, hdep, hpre, hlen => by
    rw [depthPats_cons] at hdep
    have hdp : depthPat p + 0 ≤ P.maxDepth := by omega
    have hdps : depthPats ps ≤ P.maxDepth := by omega
    rw [wfPats_cons] at hwf
    simp only [Bool.and_eq_true] at hwf
    obtain ⟨hp, hps⟩ := hwf
    rw [showPats_cons] at hlen ⊢
    rw [piecesOf_cons]
    cases hpc : plainChar p with
    | some c =>
      obtain ⟨l, hl, he, hc⟩ := plainChar_some hpc
      subst hl
      rw [wfPat_lit] at hp
      have hns := wfLit_plain hp he
      rw [hc] at hns
      have hshow : showPat (.lit l) = [c] := by rw [showPat_lit]; simp [showLit, he, hc]
      rw [hshow] at hlen ⊢
      have ih := parseLoop_pats cc hcc P hus hP ps (pre ++ [c]) n hps hdps (all_nonSpecial_snoc hpre hns)
        (by simpa using hlen)
      simpa using ih
    | none =>
      obtain ⟨hd, tl, hshape, hsp, _⟩ := showPat_head P.wordBits false p (showPats ps) hp hpc
      have hn : next cc P (showPat p ++ showPats ps) = _ :=
        next_nonplain cc hcc P hus hP p 0 false hp hpc hdp (showPats ps)
      have hlt : (showPats ps).length < (hd :: tl).length := by
        have hs := next_shrinks cc P (showPat p ++ showPats ps)
        rw [hn] at hs
        simp only [PR.NextShrinks] at hs
        rw [hshape] at hs
        exact hs.2
      rw [hshape] at hn hlen ⊢
      cases pre with
      | nil =>
        simp only [List.nil_append, flushText] at hlen ⊢
        match n, hlen with
        | n + 1, hlen =>
          rw [parseLoop_cons cc P n _ _ _ hn]
          have ih := parseLoop_pats cc hcc P hus hP ps [] n hps hdps (by simp) (by simp at hlen hlt ⊢; omega)
          simp only [List.nil_append] at ih
          rw [ih]
      | cons c t =>
        simp only [List.all_cons, Bool.and_eq_true] at hpre
        have hc : isSpecial c = false := by simpa [nonSpecial] using hpre.1
        have hn0 : next cc P (c :: (t ++ hd :: tl)) = _ := next_text cc P 0 c t (hd :: tl) hc hpre.2 hsp
        simp only [List.cons_append, List.length_cons, List.length_append] at hlen hlt
        match n, hlen with
        | n + 2, hlen =>
          simp only [List.cons_append]
          rw [parseLoop_cons cc P (n + 1) _ _ _ hn0, parseLoop_cons cc P n _ _ _ hn]
          have ih := parseLoop_pats cc hcc P hus hP ps [] n hps hdps (by simp) (by simp; omega)
          simp only [List.nil_append] at ih
          rw [ih]
          rfl
  termination_by ps => ps.length

/-- `Parser::new(showPats ps).collect()` is `piecesOf [] ps` -/
theorem parse_show (cc : CharClass) (hcc : CCAscii cc) (P : Profile) (hus : P.underscoreNames = true)
    (hP : P.doubledCloseParen = true) (ps : List Pat) (h : WF P ps) :
    parse cc P (showPats ps) = .ok (piecesOf [] ps) := by
  have := parseLoop_pats cc hcc P hus hP ps [] ((showPats ps).length + 1) h.1 h.2 (by simp) (by simp)
  simpa [parse] using this

end Log4rs.Pattern.Parse
