import Log4rsModel.Base.Style
/-
Shared vocabulary of the pattern area (C09, C10, C11).

`Op`      what an encoder asks of its `encode::Write`: emit a character or set a style.
`Params`  the parsed format spec `[[fill]align][min_width]['.' max_width]`.
`specFmt` the law of C10 as the statement words it: cut to the first M characters, then pad with
          the fill character on the chosen side up to m characters (counting scalar values).
`codeFmtOps` what the writer stack of `Chunk::encode` does with the operations of the inner chunk,
          for *all* m and M (the six-way match in `encode/pattern/mod.rs`). C10 proves that the
          byte-level writer model implements `codeFmtOps` and that it agrees with `specFmt` when
          m ≤ M; C09/C11 build the encoder model on top of `codeFmtOps`.
-/
namespace Log4rs.Pattern

inductive Op where
  | ch (c : Char)
  | style (s : Style)
  deriving Repr, DecidableEq

abbrev Out := List Op

def Out.text (o : Out) : List Char :=
  o.filterMap (fun | .ch c => some c | .style _ => none)

def Out.styles (o : Out) : List Style :=
  o.filterMap (fun | .ch _ => none | .style s => some s)

def ofText (cs : List Char) : Out := cs.map Op.ch

structure Params where
  fill : Char := ' '
  right : Bool := false
  minW : Option Nat := none
  maxW : Option Nat := none
  deriving Repr, DecidableEq

def fills (fill : Char) (n : Nat) : List Char := List.replicate n fill

/-- the statement's law on plain text -/
def specFmt (p : Params) (s : List Char) : List Char :=
  let cut := match p.maxW with
    | some M => s.take M
    | none => s
  match p.minW with
  | none => cut
  | some m =>
    let pad := fills p.fill (m - cut.length)
    if p.right then pad ++ cut else cut ++ pad

/-- `MaxWidthWriter`: the first `M` characters pass, later characters are swallowed, style calls
always pass through -/
def truncOps : Nat → Out → Out
  | _, [] => []
  | M, .style s :: rest => .style s :: truncOps M rest
  | 0, .ch _ :: rest => truncOps 0 rest
  | M + 1, .ch c :: rest => .ch c :: truncOps M rest

/-- the six-way composition in `Chunk::encode`.
Left alignment: the inner operations pass through, then `min_width ∸ (characters written)` fill
characters follow (`to_fill` counts every character handed to the writer, also swallowed ones).
Right alignment: everything is buffered, the fill characters come first, then the buffered
operations in order. With a maximum width the whole stream goes through `MaxWidthWriter`. -/
def codeFmtOps (p : Params) (o : Out) : Out :=
  let n := o.text.length
  let padded : Out := match p.minW with
    | none => o
    | some m =>
      let pad := ofText (fills p.fill (m - n))
      if p.right then pad ++ o else o ++ pad
  match p.maxW with
  | none => padded
  | some M => truncOps M padded

end Log4rs.Pattern
