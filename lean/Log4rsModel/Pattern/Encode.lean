import Log4rsModel.Base.Level
import Log4rsModel.Pattern.Chunk
/-
Model of `Chunk::encode`, `FormattedChunk::encode` and `PatternEncoder::{new, encode}`.

The result of an encode is the operation stream the `encode::Write` sink receives (characters and
`set_style` calls), or a panic. The width/fill/alignment writer stack of `Chunk::encode`'s six-way
match is `codeFmtOps` (`Pattern/Format.lean`; C10 proves the byte-level writers implement it).

Environment facts are INPUTS: what chrono answers for a date format (does `Display` succeed, and
the rendered text), thread name and ids, process id, the MDC map, the build profile.

Panic source (F4; since commit 73e36b9 a format with an `Item::Error` no longer reaches the
encoder, `Chunk.lean: dateChunk`): `write!(w, "{}", now.format(fmt))` — std's `io::Write::write_fmt` panics when a
`Display` implementation fails although the sink reported no I/O error, and chrono's
`DelayedFormat` fails on a format string it cannot parse. Nothing of the date is written before.
-/
namespace Log4rs.Pattern.Parse

structure Record where
  /-- `log::Level`: 1 = Error … 5 = Trace -/
  level : Nat
  message : List Char
  target : List Char
  module : Option (List Char) := none
  file : Option (List Char) := none
  line : Option Nat := none
  deriving Repr

structure Env where
  /-- does `write!("{}", now.format(fmt))` succeed. Modelling assumption (checked per case by the
  driver on the harness' facts: Utc and Local rendering at encode time and the Utc trial rendering
  at construction): chrono's verdict depends on the format only, not on zone or instant. -/
  strftimeOk : List Char → Bool
  /-- the text chrono renders for (format, utc?) at the instant of the encode -/
  dateText : List Char → Bool → List Char
  threadName : Option (List Char)
  /-- `thread_id::get()` (also the value cached in the `TID` thread-local) -/
  threadId : Nat
  pid : Nat
  /-- `log_mdc` content of the encoding thread -/
  mdc : List (List Char × List Char)
  /-- `cfg!(debug_assertions)` -/
  debugBuild : Bool
  /-- `encode::NEWLINE` -/
  newline : List Char := ['\n']

def mdcGet (m : List (List Char × List Char)) (k : List Char) : Option (List Char) :=
  match m with
  | [] => none
  | (k', v) :: r => if k' = k then some v else mdcGet r k

def omap {α β} (f : α → β) : Outcome Unit α → Outcome Unit β
  | .ok a => .ok (f a)
  | .err e => .err e
  | .panic w => .panic w

def unknown3 : List Char := ['?', '?', '?']

/-- `FormattedChunk::encode` for the variants without children: the text written -/
def leafText (env : Env) (r : Record) : Leaf → Outcome Unit (List Char)
  | .time fmt utc =>
    if env.strftimeOk fmt then .ok (env.dateText fmt utc)
    else .panic "a formatting trait implementation returned an error when the underlying stream did not"
  | .level => .ok (levelName r.level).toList
  | .message => .ok r.message
  | .module => .ok (r.module.getD unknown3)
  | .file => .ok (r.file.getD unknown3)
  | .line => .ok (match r.line with | some n => Str.decimal n | none => unknown3)
  | .thread => .ok (env.threadName.getD cs!"unnamed")
  | .threadId => .ok (Str.decimal env.threadId)
  | .processId => .ok (Str.decimal env.pid)
  | .systemThreadId => .ok (Str.decimal env.threadId)
  | .target => .ok r.target
  | .newline => .ok env.newline
  | .mdc key dflt => .ok ((mdcGet env.mdc key).getD dflt)

/-- `FormattedChunk::Highlight`: set the level's style, children, reset — nothing for Debug -/
def wrapHighlight (level : Nat) (o : Out) : Out :=
  match highlightStyle level with
  | some s => .style s :: o ++ [.style Style.plain]
  | none => o

/-- the `{ERROR: …}` marker of `Chunk::Error` -/
def errorMarker (e : List Char) : List Char := errOpen ++ e ++ ['}']

mutual
/-- `Chunk::encode` -/
def encChunk (env : Env) (r : Record) : Chunk → Outcome Unit Out
  | .text s => .ok (ofText s)
  | .error e => .ok (ofText (errorMarker e))
  | .leaf k p => omap (fun t => codeFmtOps p (ofText t)) (leafText env r k)
  | .group g cs p =>
    match g with
    | .align => omap (codeFmtOps p) (encList env r cs)
    | .highlight => omap (fun o => codeFmtOps p (wrapHighlight r.level o)) (encList env r cs)
    | .debug => if env.debugBuild then omap (codeFmtOps p) (encList env r cs) else .ok (codeFmtOps p [])
    | .release => if env.debugBuild then .ok (codeFmtOps p []) else omap (codeFmtOps p) (encList env r cs)
/-- `for chunk in chunks { chunk.encode(w, record)?; }` -/
def encList (env : Env) (r : Record) : List Chunk → Outcome Unit Out
  | [] => .ok []
  | c :: cs =>
    match encChunk env r c with
    | .ok o =>
      match encList env r cs with
      | .ok o' => .ok (o ++ o')
      | .err e => .err e
      | .panic w => .panic w
    | .err e => .err e
    | .panic w => .panic w
end

/-! The same encoder split into "which date formats get rendered" and "the operations when none of
them fails" (`Pattern/EncodeLemmas.lean` proves the decomposition). -/

mutual
/-- the (format, utc?) pairs whose rendering the encode actually asks chrono for: groups of the
non-matching build profile are skipped -/
def renderedTimes (env : Env) : Chunk → List (List Char × Bool)
  | .text _ => []
  | .error _ => []
  | .leaf k _ =>
    match k with
    | .time fmt utc => [(fmt, utc)]
    | _ => []
  | .group g cs _ =>
    match g with
    | .debug => if env.debugBuild then renderedTimesL env cs else []
    | .release => if env.debugBuild then [] else renderedTimesL env cs
    | _ => renderedTimesL env cs
def renderedTimesL (env : Env) : List Chunk → List (List Char × Bool)
  | [] => []
  | c :: cs => renderedTimes env c ++ renderedTimesL env cs
end

mutual
/-- all (format, utc?) pairs of the time chunks, at any depth -/
def timesOf : Chunk → List (List Char × Bool)
  | .text _ => []
  | .error _ => []
  | .leaf k _ =>
    match k with
    | .time fmt utc => [(fmt, utc)]
    | _ => []
  | .group _ cs _ => timesOfL cs
def timesOfL : List Chunk → List (List Char × Bool)
  | [] => []
  | c :: cs => timesOf c ++ timesOfL cs
end

/-- text of a childless formatter when chrono accepts the format -/
def leafTextPure (env : Env) (r : Record) (k : Leaf) : List Char :=
  match k with
  | .time fmt utc => env.dateText fmt utc
  | k => match leafText env r k with
    | .ok t => t
    | _ => []

mutual
/-- the operations of a chunk when no date format fails -/
def opsChunk (env : Env) (r : Record) : Chunk → Out
  | .text s => ofText s
  | .error e => ofText (errorMarker e)
  | .leaf k p => codeFmtOps p (ofText (leafTextPure env r k))
  | .group g cs p =>
    match g with
    | .align => codeFmtOps p (opsList env r cs)
    | .highlight => codeFmtOps p (wrapHighlight r.level (opsList env r cs))
    | .debug => codeFmtOps p (if env.debugBuild then opsList env r cs else [])
    | .release => codeFmtOps p (if env.debugBuild then [] else opsList env r cs)
def opsList (env : Env) (r : Record) : List Chunk → Out
  | [] => []
  | c :: cs => opsChunk env r c ++ opsList env r cs
end

/-- the current code's build for an environment: the trial rendering at construction asks chrono
the same question as the encode (`Env.strftimeOk`; chrono's answer depends on the format only) -/
def Build.current (env : Env) : Build := { renderOk := env.strftimeOk }

/-- `PatternEncoder::new` -/
def newEncoder (cc : CharClass) (P : Profile) (B : Build) (pattern : List Char) : Outcome Unit (List Chunk) :=
  omap (compileL B) (parse cc P pattern)

/-- `PatternEncoder::new(pattern).encode(w, record)` -/
def run (cc : CharClass) (P : Profile) (B : Build) (env : Env) (r : Record) (pattern : List Char) :
    Outcome Unit Out :=
  match newEncoder cc P B pattern with
  | .ok cs => encList env r cs
  | .err e => .err e
  | .panic w => .panic w

end Log4rs.Pattern.Parse
