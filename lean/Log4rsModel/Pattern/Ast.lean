import Log4rsModel.Pattern.Encode
/-
The specification side of C09: the documented pattern grammar as an abstract syntax tree, its
printer `showPats`, its meaning `denotePats` (what the module documentation says the output is),
and the decidable well-formedness predicate `wfPats`.

```
format_string := <text> [ format <text> ] *
format        := '{' formatter [ ':' format_spec ] '}'
formatter     := [ name ] [ '(' argument ')' ] *
format_spec   := [ [ fill ] align ] [ min_width ] [ '.' max_width ]
```
Special characters `{ } ( ) \` appear in text doubled or prefixed with a backslash.

`chunkOf` is the direct translation of a tree into the encoder's chunk type; the round-trip theorem
says that parsing and compiling the printed tree encodes like `chunksOf`.
-/
namespace Log4rs.Pattern.Parse

/-- how a literal character is written in the pattern -/
inductive Esc where
  | plain | doubled | backslash
  deriving Repr, DecidableEq

/-- one character of literal text -/
structure Lit where
  c : Char
  esc : Esc
  deriving Repr, DecidableEq

/-- a width as written: its decimal digits (leading zeros allowed) -/
abbrev Digits := List (Fin 10)

def digitChar (d : Fin 10) : Char := Char.ofNat (48 + d.val)
def digitsValue (ds : Digits) : Nat := ds.foldl (fun a d => a * 10 + d.val) 0
def showDigits (ds : Digits) : List Char := ds.map digitChar

/-- `[[fill]align][min_width]['.' max_width]`; `align = some true` is `>` -/
structure FormatSpec where
  fill : Option Char := none
  align : Option Bool := none
  minW : Option Digits := none
  maxW : Option Digits := none
  deriving Repr, DecidableEq

def FormatSpec.params (s : FormatSpec) : Params :=
  { fill := s.fill.getD ' ', right := s.align.getD false,
    minW := s.minW.map digitsValue, maxW := s.maxW.map digitsValue }

def paramsOf : Option FormatSpec → Params
  | none => {}
  | some s => s.params

/-- the formatters without arguments -/
inductive LeafKind where
  | level | message | module | file | line | thread | threadId | pid | tid | target | newline
  deriving Repr, DecidableEq

/-- documented names: short form and alias (`n` has none) -/
def leafName : LeafKind → Bool → List Char
  | .level, false => cs!"l" | .level, true => cs!"level"
  | .message, false => cs!"m" | .message, true => cs!"message"
  | .module, false => cs!"M" | .module, true => cs!"module"
  | .file, false => cs!"f" | .file, true => cs!"file"
  | .line, false => cs!"L" | .line, true => cs!"line"
  | .thread, false => cs!"T" | .thread, true => cs!"thread"
  | .threadId, false => cs!"I" | .threadId, true => cs!"thread_id"
  | .pid, false => cs!"P" | .pid, true => cs!"pid"
  | .tid, false => cs!"i" | .tid, true => cs!"tid"
  | .target, false => cs!"t" | .target, true => cs!"target"
  | .newline, _ => cs!"n"

def groupName : GroupKind → Bool → List Char
  | .align, _ => []
  | .highlight, false => cs!"h" | .highlight, true => cs!"highlight"
  | .debug, false => cs!"D" | .debug, true => cs!"debug"
  | .release, false => cs!"R" | .release, true => cs!"release"

def dateName (long : Bool) : List Char := if long then cs!"date" else cs!"d"
def mdcName (long : Bool) : List Char := if long then cs!"mdc" else cs!"X"

/-- the pattern AST -/
inductive Pat where
  | lit (l : Lit)
  | leaf (k : LeafKind) (long : Bool) (spec : Option FormatSpec)
  /-- `args`: the format text and, after it, optionally the zone (`true` = `utc`) -/
  | date (long : Bool) (args : Option (List Lit × Option Bool)) (spec : Option FormatSpec)
  | mdc (long : Bool) (key : List Lit) (dflt : Option (List Lit)) (spec : Option FormatSpec)
  | group (k : GroupKind) (long : Bool) (body : List Pat) (spec : Option FormatSpec)
  deriving Repr, Inhabited

/-! ### printer -/

def showLit (l : Lit) : List Char :=
  match l.esc with
  | .plain => [l.c]
  | .doubled => [l.c, l.c]
  | .backslash => ['\\', l.c]

def showLits : List Lit → List Char
  | [] => []
  | l :: ls => showLit l ++ showLits ls

def litChars (ls : List Lit) : List Char := ls.map (·.c)

def showAlign : Option Bool → List Char
  | none => []
  | some true => ['>']
  | some false => ['<']

def showFill : Option Char → List Char
  | none => []
  | some f => [f]

def showMin : Option Digits → List Char
  | none => []
  | some ds => showDigits ds

def showMax : Option Digits → List Char
  | none => []
  | some ds => '.' :: showDigits ds

def showSpec : Option FormatSpec → List Char
  | none => []
  | some s => ':' :: (showFill s.fill ++ showAlign s.align ++ showMin s.minW ++ showMax s.maxW)

def zoneName (utc : Bool) : List Char := if utc then cs!"utc" else cs!"local"

def showDateArgs : Option (List Lit × Option Bool) → List Char
  | none => []
  | some (f, none) => '(' :: showLits f ++ [')']
  | some (f, some z) => '(' :: showLits f ++ [')'] ++ ('(' :: zoneName z ++ [')'])

def showDflt : Option (List Lit) → List Char
  | none => []
  | some d => '(' :: showLits d ++ [')']

mutual
def showPat : Pat → List Char
  | .lit l => showLit l
  | .leaf k long spec => '{' :: (leafName k long ++ showSpec spec ++ ['}'])
  | .date long args spec => '{' :: (dateName long ++ showDateArgs args ++ showSpec spec ++ ['}'])
  | .mdc long key dflt spec =>
    '{' :: (mdcName long ++ ('(' :: showLits key ++ [')']) ++ showDflt dflt ++ showSpec spec ++ ['}'])
  | .group k long body spec =>
    '{' :: (groupName k long ++ ('(' :: showPats body ++ [')']) ++ showSpec spec ++ ['}'])
def showPats : List Pat → List Char
  | [] => []
  | p :: ps => showPat p ++ showPats ps
end

/-! ### meaning (what the documentation says is written) -/

def applySpec (spec : Option FormatSpec) (t : List Char) : List Char :=
  match spec with
  | none => t
  | some s => specFmt s.params t

def leafValue (env : Env) (r : Record) : LeafKind → List Char
  | .level => (levelName r.level).toList
  | .message => r.message
  | .module => match r.module with | some m => m | none => ['?', '?', '?']
  | .file => match r.file with | some f => f | none => ['?', '?', '?']
  | .line => match r.line with | some n => Str.decimal n | none => ['?', '?', '?']
  | .thread => match env.threadName with | some n => n | none => cs!"unnamed"
  | .threadId => Str.decimal env.threadId
  | .pid => Str.decimal env.pid
  | .tid => Str.decimal env.threadId
  | .target => r.target
  | .newline => env.newline

/-- (format, utc?) a date formatter asks for: ISO 8601 (`%+`) in local time by default -/
def dateRequest : Option (List Lit × Option Bool) → List Char × Bool
  | none => (cs!"%+", false)
  | some (f, none) => (litChars f, false)
  | some (f, some z) => (litChars f, z)

def mdcValue (env : Env) (key : List Lit) (dflt : Option (List Lit)) : List Char :=
  match mdcGet env.mdc (litChars key) with
  | some v => v
  | none => match dflt with
    | some d => litChars d
    | none => []

mutual
def denotePat (env : Env) (r : Record) : Pat → List Char
  | .lit l => [l.c]
  | .leaf k _ spec => applySpec spec (leafValue env r k)
  | .date _ args spec => applySpec spec (env.dateText (dateRequest args).1 (dateRequest args).2)
  | .mdc _ key dflt spec => applySpec spec (mdcValue env key dflt)
  | .group k _ body spec =>
    applySpec spec (match k with
      | .align => denotePats env r body
      | .highlight => denotePats env r body
      | .debug => if env.debugBuild then denotePats env r body else []
      | .release => if env.debugBuild then [] else denotePats env r body)
def denotePats (env : Env) (r : Record) : List Pat → List Char
  | [] => []
  | p :: ps => denotePat env r p ++ denotePats env r ps
end

mutual
/-- the style calls the documentation promises: set / reset around every rendered highlight group
(nothing for the Debug level), in order -/
def stylesPat (env : Env) (r : Record) : Pat → List Style
  | .group k _ body _ =>
    match k with
    | .align => stylesPats env r body
    | .highlight =>
      match highlightStyle r.level with
      | some s => s :: stylesPats env r body ++ [Style.plain]
      | none => stylesPats env r body
    | .debug => if env.debugBuild then stylesPats env r body else []
    | .release => if env.debugBuild then [] else stylesPats env r body
  | _ => []
def stylesPats (env : Env) (r : Record) : List Pat → List Style
  | [] => []
  | p :: ps => stylesPat env r p ++ stylesPats env r ps
end

mutual
/-- the date formats a pattern asks chrono to render in this build profile -/
def datesPat (env : Env) : Pat → List (List Char × Bool)
  | .date _ args _ => [dateRequest args]
  | .group k _ body _ =>
    match k with
    | .debug => if env.debugBuild then datesPats env body else []
    | .release => if env.debugBuild then [] else datesPats env body
    | _ => datesPats env body
  | _ => []
def datesPats (env : Env) : List Pat → List (List Char × Bool)
  | [] => []
  | p :: ps => datesPat env p ++ datesPats env ps
end

/-! ### well-formedness -/

/-- a literal is written correctly: special characters escaped (doubled or with a backslash —
since the repair of F6a also `))` inside a parenthesised argument), others plain. `inArg` is kept
for the historical reading only and no longer matters. -/
def wfLit (_inArg : Bool) (l : Lit) : Bool :=
  if isSpecial l.c then l.esc != .plain else l.esc == .plain

/-- an ordinary character written as itself -/
def plainLit (l : Lit) : Bool := !isSpecial l.c && l.esc == .plain

def wfDigits (bits : Nat) : Option Digits → Bool
  | none => true
  | some ds => !ds.isEmpty && decide (digitsValue ds < 2 ^ bits)

/-- `m ≤ M` when both are given -/
def orderedWidths (p : Params) : Bool :=
  match p.minW, p.maxW with
  | some m, some M => decide (m ≤ M)
  | _, _ => true

/-- a format spec that says something, whose fill comes with an alignment, whose widths fit the
word size, and with `min_width ≤ max_width` (the side condition of the width law, C10) -/
def wfSpec (bits : Nat) : Option FormatSpec → Bool
  | none => true
  | some s =>
    (s.fill.isNone || s.align.isSome) &&
    (s.align.isSome || s.minW.isSome || s.maxW.isSome) &&
    wfDigits bits s.minW && wfDigits bits s.maxW && orderedWidths s.params

mutual
def wfPat (bits : Nat) (inArg : Bool) : Pat → Bool
  | .lit l => wfLit inArg l
  | .leaf _ _ spec => wfSpec bits spec
  | .date _ args spec =>
    (match args with
      | none => true
      | some (f, _) => f.all (wfLit true)) && wfSpec bits spec
  | .mdc _ key dflt spec =>
    key.all (wfLit true) &&
    (match dflt with
      | none => true
      | some d => d.all (wfLit true)) && wfSpec bits spec
  | .group _ _ body spec => wfPats bits true body && wfSpec bits spec
def wfPats (bits : Nat) (inArg : Bool) : List Pat → Bool
  | [] => true
  | p :: ps => wfPat bits inArg p && wfPats bits inArg ps
end

mutual
/-- how many parenthesised arguments are open at the deepest point of a printed pattern: every
group body, date format / zone argument and MDC key / default is one `(`…`)` (the code counts
exactly these: `Parser::depth`) -/
def depthPat : Pat → Nat
  | .lit _ => 0
  | .leaf _ _ _ => 0
  | .date _ none _ => 0
  | .date _ (some _) _ => 1
  | .mdc _ _ _ _ => 1
  | .group _ _ body _ => depthPats body + 1
def depthPats : List Pat → Nat
  | [] => 0
  | p :: ps => max (depthPat p) (depthPats ps)
end

/-- the top-level elements in front of the first one that is nested deeper than the code's limit:
what still renders when a pattern goes too deep (`C09_depth_limit`) -/
def okPrefix (P : Profile) (ps : List Pat) : List Pat :=
  ps.takeWhile (fun p => decide (depthPat p ≤ P.maxDepth))

/-- well-formed pattern (top level) for a profile's word size: special characters escaped; inside a
parenthesised argument too `)` may be written `\\)` or `))` (since the repair of F6a); MDC key
and default non-empty literal text (escaped specials allowed since the repair of F6b); every
formatter and alias, `thread_id` included (since the repair of F5); widths fit the word and
`min_width ≤ max_width` (an MDC key or default may be empty since the repair of
`C09/mdc-empty-argument`); and parenthesised arguments are nested at most `Profile.maxDepth` (= the
code's `MAX_DEPTH`, 64) deep — the code rejects deeper patterns (C11; `C09_depth_limit`). -/
def WF (P : Profile) (ps : List Pat) : Prop :=
  wfPats P.wordBits false ps = true ∧ depthPats ps ≤ P.maxDepth

instance (P : Profile) (ps : List Pat) : Decidable (WF P ps) := by unfold WF; infer_instance

/-- the decidable clause as a Boolean (drivers) -/
def wfB (P : Profile) (ps : List Pat) : Bool :=
  wfPats P.wordBits false ps && decide (depthPats ps ≤ P.maxDepth)

/-! ### direct translation into chunks -/

def LeafKind.leaf : LeafKind → Leaf
  | .level => .level | .message => .message | .module => .module | .file => .file | .line => .line
  | .thread => .thread | .threadId => .threadId | .pid => .processId | .tid => .systemThreadId
  | .target => .target | .newline => .newline

def dfltChars : Option (List Lit) → List Char
  | none => []
  | some d => litChars d

/-- a date formatter: an error chunk when chrono's item parser rejects the format (repair of F4) -/
def dateChunkOf (B : Build) (args : Option (List Lit × Option Bool)) (spec : Option FormatSpec) : Chunk :=
  if B.dateCheck && !B.dateOk (dateRequest args).1 then .error (eInvalidDateFormat (dateRequest args).1)
  else .leaf (.time (dateRequest args).1 (dateRequest args).2) (paramsOf spec)

mutual
def chunkOf (B : Build) : Pat → Chunk
  | .lit l => .text [l.c]
  | .leaf k _ spec => .leaf k.leaf (paramsOf spec)
  | .date _ args spec => dateChunkOf B args spec
  | .mdc _ key dflt spec => .leaf (.mdc (litChars key) (dfltChars dflt)) (paramsOf spec)
  | .group k _ body spec => .group k (chunksOf B body) (paramsOf spec)
def chunksOf (B : Build) : List Pat → List Chunk
  | [] => []
  | p :: ps => chunkOf B p :: chunksOf B ps
end

mutual
/-- every date format of a pattern, at any depth (all are checked at construction) -/
def allDatesPat : Pat → List (List Char)
  | .date _ args _ => [(dateRequest args).1]
  | .group _ _ body _ => allDatesPats body
  | _ => []
def allDatesPats : List Pat → List (List Char)
  | [] => []
  | p :: ps => allDatesPat p ++ allDatesPats ps
end

/-! ### aliases -/

mutual
/-- the same pattern with every formatter written in its short form -/
def unalias : Pat → Pat
  | .lit l => .lit l
  | .leaf k _ spec => .leaf k false spec
  | .date _ args spec => .date false args spec
  | .mdc _ key dflt spec => .mdc false key dflt spec
  | .group k _ body spec => .group k false (unaliasL body) spec
def unaliasL : List Pat → List Pat
  | [] => []
  | p :: ps => unalias p :: unaliasL ps
end

mutual
/-- does a highlight group occur (at any depth)? -/
def hasHighlight : Pat → Bool
  | .group k _ body _ => k == .highlight || hasHighlightL body
  | _ => false
def hasHighlightL : List Pat → Bool
  | [] => false
  | p :: ps => hasHighlight p || hasHighlightL ps
end

/-- chrono accepts the pattern's date formats: its item parser every one of them (construction),
its renderer those the pattern renders in this build profile (encode) -/
def DatesOk (B : Build) (env : Env) (ps : List Pat) : Prop :=
  (∀ f ∈ allDatesPats ps, B.dateOk f = true) ∧ ∀ x ∈ datesPats env ps, env.strftimeOk x.1 = true

end Log4rs.Pattern.Parse
