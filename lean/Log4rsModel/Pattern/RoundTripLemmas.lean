import Log4rsModel.Pattern.ParserLemmas
import Log4rsModel.Pattern.EncodeLemmas
import Log4rsModel.Pattern.Ast
/-
Parser round trip for C09, part I: fuel-free unfolding equations of the parser, and what the
parser does on the pieces of a printed AST (names, format specs, escapes, text).
-/
namespace Log4rs.Pattern.Parse

/-! ### fuel-free view of the fuelled functions -/

/-- `Parser::args` with the entry fuel -/
def argsL (cc : CharClass) (P : Profile) (d : Nat) (s : List Char) (acc : List (List Piece)) : PR (List (List Piece)) :=
  argsLoop cc P (s.length + 1) d s acc

/-- `Parser::arg` (after its `(`) with the entry fuel -/
def argB (cc : CharClass) (P : Profile) (d : Nat) (s : List Char) (acc : List Piece) : PR (List Piece) :=
  argBody cc P (s.length + 1) d s acc

theorem next_eq (cc : CharClass) (P : Profile) (d : Nat) (s : List Char) :
    nextAt cc P d s = nextWith cc P (fun x => argsL cc P d x []) s := by
  unfold nextAt
  apply nextWith_congr
  intro x hx
  exact argsLoop_fuel_irrel cc P d [] hx (by simp)

/-- does not start with `)` -/
def NoParenHead (s : List Char) : Prop := ∀ t, s ≠ ')' :: t

theorem doubledClose_ne (P : Profile) {c : Char} (r : List Char) (hc : c ≠ ')') : doubledClose P c r = none := by
  simp [doubledClose, hc]

theorem doubledClose_noParen (P : Profile) (c : Char) {r : List Char} (hr : NoParenHead r) :
    doubledClose P c r = none := by
  unfold doubledClose
  split
  · unfold doubled
    split
    · rename_i d r'
      split
      · rename_i hd; subst hd; exact absurd rfl (hr r')
      · rfl
    · rfl
  · rfl

/-- the closing parenthesis of an argument (what follows does not start with `)`) -/
theorem argB_close (cc : CharClass) (P : Profile) (d : Nat) (r : List Char) (acc : List Piece) (hr : NoParenHead r) :
    argB cc P d (')' :: r) acc = .ok acc r := by
  unfold argB
  rw [argBody_succ_none cc P _ d ')' r acc (doubledClose_noParen P ')' hr)]
  simp

/-- before the repair of F6a the first `)` always closed -/
theorem argB_close_unfixed (cc : CharClass) (P : Profile) (d : Nat) (hP : P.doubledCloseParen = false) (r : List Char)
    (acc : List Piece) : argB cc P d (')' :: r) acc = .ok acc r := by
  unfold argB
  rw [argBody_succ_none cc P _ d ')' r acc (by simp [doubledClose, hP])]
  simp

/-- repair of F6a: a doubled `))` inside an argument is the piece `Text(")")` -/
theorem argB_dbl (cc : CharClass) (P : Profile) (d : Nat) (hP : P.doubledCloseParen = true) (r : List Char)
    (acc : List Piece) : argB cc P d (')' :: ')' :: r) acc = argB cc P d r (acc ++ [.text [')']]) := by
  unfold argB
  rw [argBody_succ_some cc P _ d ')' (')' :: r) acc r (by simp [doubledClose, hP, doubled])]
  exact argBody_fuel_irrel cc P d _ (by simp; omega) (by simp)

theorem argB_nil (cc : CharClass) (P : Profile) (d : Nat) (acc : List Piece) :
    argB cc P d [] acc = .fail eUnclosedParen [] := by
  simp [argB, argBody]

/-- one iteration of `arg()`'s loop when the next character is not `)` and `next` yields a piece -/
theorem argB_step (cc : CharClass) (P : Profile) (d : Nat) (c : Char) (r : List Char) (acc : List Piece)
    (hc : c ≠ ')') (p : Piece) (r' : List Char) (hn : nextAt cc P d (c :: r) = .ok (some p) r') :
    argB cc P d (c :: r) acc = argB cc P d r' (acc ++ [p]) := by
  have hs := nextAt_shrinks cc P d (c :: r)
  rw [hn] at hs
  simp only [PR.NextShrinks] at hs
  unfold argB
  rw [argBody_succ_none cc P _ d c r acc (doubledClose_ne P r hc)]
  simp only [hc, if_false]
  have : nextWith cc P (fun x => argsLoop cc P (c :: r).length d x []) (c :: r) = .ok (some p) r' := hn
  rw [this]
  exact argBody_fuel_irrel cc P d _ hs.2 (by simp)

theorem argsL_nil (cc : CharClass) (P : Profile) (d : Nat) (acc : List (List Piece)) :
    argsL cc P d [] acc = .ok acc [] := by
  simp [argsL, argsLoop]

theorem argsL_other (cc : CharClass) (P : Profile) (d : Nat) (c : Char) (r : List Char) (acc : List (List Piece))
    (hc : c ≠ '(') : argsL cc P d (c :: r) acc = .ok acc (c :: r) := by
  simp [argsL, argsLoop, hc]

/-- `args()` on `( body ) tail` when the body parses to `a` -/
theorem argsL_open (cc : CharClass) (P : Profile) (d : Nat) (hd : d ≠ P.maxDepth) (r : List Char) (acc : List (List Piece))
    (a : List Piece) (r' : List Char) (hb : argB cc P (d + 1) r [] = .ok a r') :
    argsL cc P d ('(' :: r) acc = argsL cc P d r' (acc ++ [a]) := by
  have hs := argBody_suffix cc P (r.length + 1) (d + 1) r []
  unfold argB at hb
  rw [hb] at hs
  simp only [PR.RestSuffix] at hs
  have hlen := hs.length_le
  unfold argsL
  rw [argsLoop]
  simp only [if_true, hd, if_false]
  have : argBody cc P ('(' :: r).length (d + 1) r [] = .ok a r' := by
    simpa using hb
  rw [this]
  exact argsLoop_fuel_irrel cc P d _ (by simp; omega) (by simp)

/-! ### character classes: only the ASCII behaviour is assumed -/

/-- the two Unicode predicates agree with their ASCII versions on ASCII -/
def CCAscii (cc : CharClass) : Prop :=
  ∀ c : Char, c.toNat < 128 → cc.alpha c = asciiAlpha c ∧ cc.alnum c = asciiAlnum c

def isNameB (alpha alnum : Char → Bool) : List Char → Bool
  | [] => false
  | a :: rest => alpha a && rest.all alnum

/-- `Parser::name` reads exactly `nm` when `nm` is a letter followed by alphanumerics and what
follows does not start with an alphanumeric -/
theorem name_of_isName (cc : CharClass) (P : Profile) (nm : List Char) (t : Char) (tail : List Char)
    (hn : isNameB cc.alpha (nameChar cc P) nm = true) (ht : nameChar cc P t = false) :
    name cc P (nm ++ t :: tail) = (nm, t :: tail) := by
  cases nm with
  | nil => simp [isNameB] at hn
  | cons a rest =>
    simp only [isNameB, Bool.and_eq_true] at hn
    simp only [List.cons_append, name, hn.1, if_true]
    have h1 : List.takeWhile (nameChar cc P) (rest ++ t :: tail) = rest := by
      rw [List.takeWhile_append_of_pos (by simpa using hn.2)]
      simp [List.takeWhile, ht]
    have h2 : List.dropWhile (nameChar cc P) (rest ++ t :: tail) = t :: tail := by
      rw [List.dropWhile_append_of_pos (by simpa using hn.2)]
      simp [List.dropWhile, ht]
    rw [h1, h2]

theorem all_alnum_ascii (cc : CharClass) (hcc : CCAscii cc) : ∀ (l : List Char),
    l.all (fun c => decide (c.toNat < 128)) = true → l.all cc.alnum = l.all asciiAlnum
  | [], _ => rfl
  | x :: xs, h => by
    simp only [List.all_cons, Bool.and_eq_true, decide_eq_true_eq] at h
    simp only [List.all_cons]
    rw [(hcc x h.1).2, all_alnum_ascii cc hcc xs h.2]

theorem isNameB_ascii (cc : CharClass) (hcc : CCAscii cc) (nm : List Char)
    (hascii : nm.all (fun c => decide (c.toNat < 128)) = true) :
    isNameB cc.alpha cc.alnum nm = isNameB asciiAlpha asciiAlnum nm := by
  cases nm with
  | nil => rfl
  | cons a rest =>
    simp only [List.all_cons, Bool.and_eq_true, decide_eq_true_eq] at hascii
    simp only [isNameB]
    rw [(hcc a hascii.1).1]
    rw [all_alnum_ascii cc hcc rest hascii.2]


/-- a name in the old sense (letter, then alphanumerics) is a name when `_` is accepted too -/
theorem isNameB_nameChar (cc : CharClass) (P : Profile) (nm : List Char)
    (h : isNameB cc.alpha cc.alnum nm = true) : isNameB cc.alpha (nameChar cc P) nm = true := by
  cases nm with
  | nil => simp [isNameB] at h
  | cons a rest =>
    simp only [isNameB, Bool.and_eq_true, List.all_eq_true] at h ⊢
    exact ⟨h.1, fun x hx => by simp [nameChar, h.2 x hx]⟩

/-- `thread_id` is a name once `_` is accepted (repair of F5) -/
theorem isNameB_thread_id (cc : CharClass) (hcc : CCAscii cc) (P : Profile) (hus : P.underscoreNames = true) :
    isNameB cc.alpha (nameChar cc P) cs!"thread_id" = true := by
  have ha : ∀ c : Char, c.toNat < 128 → asciiAlnum c = true → nameChar cc P c = true := by
    intro c hc h; simp [nameChar, (hcc c hc).2, h]
  have hal : cc.alpha 't' = true := by rw [(hcc 't' (by decide)).1]; decide
  simp only [isNameB, hal, Bool.true_and, List.all_cons, List.all_nil, Bool.and_true, Bool.and_eq_true]
  refine ⟨ha _ (by decide) (by decide), ha _ (by decide) (by decide), ha _ (by decide) (by decide),
    ha _ (by decide) (by decide), ha _ (by decide) (by decide), ?_, ha _ (by decide) (by decide),
    ha _ (by decide) (by decide)⟩
  simp [nameChar, hus]

/-! ### format specs -/

theorem digitChar_facts : ∀ d : Fin 10,
    Str.isAsciiDigit (digitChar d) = true ∧ Str.digitVal (digitChar d) = d.val ∧
    digitChar d ≠ '<' ∧ digitChar d ≠ '>' ∧ digitChar d ≠ '.' ∧ digitChar d ≠ '}' ∧ digitChar d ≠ ':' := by
  decide

def dstep (a : Nat) (d : Fin 10) : Nat := a * 10 + d.val

theorem digitsValue_eq (ds : Digits) : digitsValue ds = ds.foldl dstep 0 := rfl

theorem foldl_dstep_ge : ∀ (ds : Digits) (a : Nat), a ≤ ds.foldl dstep a
  | [], a => Nat.le_refl a
  | d :: ds, a => by
    have := foldl_dstep_ge ds (dstep a d)
    simp only [List.foldl_cons]
    unfold dstep at this ⊢
    omega

/-- `Parser::integer` reads a printed width back -/
theorem integerLoop_digits (P : Profile) : ∀ (ds : Digits) (cur : Nat) (found : Bool) (t : Char)
    (tail : List Char), Str.isAsciiDigit t = false → ds.foldl dstep cur < 2 ^ P.wordBits →
    integerLoop P (showDigits ds ++ t :: tail) cur found =
      .ok (if found || !ds.isEmpty then some (ds.foldl dstep cur) else none) (t :: tail)
  | [], cur, found, t, tail, ht, _ => by
    simp [showDigits, integerLoop, ht]
  | d :: ds, cur, found, t, tail, ht, hlt => by
    obtain ⟨hd, hv, _⟩ := digitChar_facts d
    simp only [List.foldl_cons] at hlt
    have hge := foldl_dstep_ge ds (dstep cur d)
    have hlt' : cur * 10 + d.val < 2 ^ P.wordBits := Nat.lt_of_le_of_lt hge hlt
    simp only [showDigits, List.map_cons, List.cons_append, integerLoop, hd, if_true, hv, hlt']
    have := integerLoop_digits P ds (cur * 10 + d.val) true t tail ht hlt
    simp only [showDigits] at this
    rw [this]
    simp [dstep]

theorem integer_none (P : Profile) (t : Char) (tail : List Char) (ht : Str.isAsciiDigit t = false) :
    integer P (t :: tail) = .ok none (t :: tail) := by
  simp [integer, integerLoop, ht]

theorem integer_digits (P : Profile) (ds : Digits) (t : Char) (tail : List Char)
    (ht : Str.isAsciiDigit t = false) (hne : ds ≠ []) (hlt : digitsValue ds < 2 ^ P.wordBits) :
    integer P (showDigits ds ++ t :: tail) = .ok (some (digitsValue ds)) (t :: tail) := by
  unfold integer
  rw [integerLoop_digits P ds 0 false t tail ht (by rwa [digitsValue_eq] at hlt)]
  cases ds with
  | nil => exact absurd rfl hne
  | cons d ds => simp [digitsValue_eq]

theorem wfDigits_some {bits : Nat} {ds : Digits} (h : wfDigits bits (some ds) = true) :
    ds ≠ [] ∧ digitsValue ds < 2 ^ bits := by
  simp only [wfDigits, Bool.and_eq_true, Bool.not_eq_true', decide_eq_true_eq] at h
  refine ⟨?_, h.2⟩
  intro hn; subst hn; simp at h

/-- `integer` on the printed minimum width, followed by the printed maximum width and `}` -/
theorem integer_showMin (P : Profile) (minW maxW : Option Digits) (rest : List Char)
    (h : wfDigits P.wordBits minW = true) :
    integer P (showMin minW ++ (showMax maxW ++ '}' :: rest)) =
      .ok (minW.map digitsValue) (showMax maxW ++ '}' :: rest) := by
  have htail : ∃ t tail, showMax maxW ++ '}' :: rest = t :: tail ∧ Str.isAsciiDigit t = false := by
    cases maxW with
    | none => exact ⟨'}', rest, rfl, by decide⟩
    | some ds => exact ⟨'.', showDigits ds ++ '}' :: rest, rfl, by decide⟩
  obtain ⟨t, tail, ht, hnd⟩ := htail
  rw [ht]
  cases minW with
  | none => simpa [showMin] using integer_none P t tail hnd
  | some ds =>
    obtain ⟨hne, hlt⟩ := wfDigits_some h
    simpa [showMin] using integer_digits P ds t tail hnd hne hlt

theorem integer_showMaxDigits (P : Profile) (ds : Digits) (rest : List Char)
    (h : wfDigits P.wordBits (some ds) = true) :
    integer P (showDigits ds ++ '}' :: rest) = .ok (some (digitsValue ds)) ('}' :: rest) := by
  obtain ⟨hne, hlt⟩ := wfDigits_some h
  exact integer_digits P ds '}' rest (by decide) hne hlt

/-- the text after fill and alignment starts with a digit, `.` or `}` -/
theorem widthsText_head (minW maxW : Option Digits) (rest : List Char) :
    ∃ x0 X', showMin minW ++ (showMax maxW ++ '}' :: rest) = x0 :: X' ∧ x0 ≠ '<' ∧ x0 ≠ '>' := by
  cases minW with
  | none =>
    cases maxW with
    | none => exact ⟨'}', rest, rfl, by decide, by decide⟩
    | some ds => exact ⟨'.', _, rfl, by decide, by decide⟩
  | some ds =>
    cases ds with
    | nil =>
      cases maxW with
      | none => exact ⟨'}', rest, rfl, by decide, by decide⟩
      | some ds => exact ⟨'.', _, rfl, by decide, by decide⟩
    | cons d ds =>
      obtain ⟨_, _, h1, h2, _⟩ := digitChar_facts d
      exact ⟨digitChar d, _, rfl, h1, h2⟩

/-- … and so does its second character when a width is given -/
theorem widthsText_second (bits : Nat) (minW maxW : Option Digits) (rest : List Char)
    (hmin : wfDigits bits minW = true) (hmax : wfDigits bits maxW = true)
    (hany : minW.isSome = true ∨ maxW.isSome = true) :
    ∃ x0 x1 X', showMin minW ++ (showMax maxW ++ '}' :: rest) = x0 :: x1 :: X' ∧
      x1 ≠ '<' ∧ x1 ≠ '>' := by
  cases minW with
  | none =>
    cases maxW with
    | none => simp at hany
    | some ds =>
      obtain ⟨hne, _⟩ := wfDigits_some hmax
      cases ds with
      | nil => exact absurd rfl hne
      | cons d ds =>
        obtain ⟨_, _, h1, h2, _⟩ := digitChar_facts d
        exact ⟨'.', digitChar d, _, rfl, h1, h2⟩
  | some ds =>
    obtain ⟨hne, _⟩ := wfDigits_some hmin
    cases ds with
    | nil => exact absurd rfl hne
    | cons d ds =>
      cases ds with
      | cons d' ds' =>
        obtain ⟨_, _, h1, h2, _⟩ := digitChar_facts d'
        exact ⟨digitChar d, digitChar d', _, rfl, h1, h2⟩
      | nil =>
        cases maxW with
        | none => exact ⟨digitChar d, '}', rest, rfl, by decide, by decide⟩
        | some ds => exact ⟨digitChar d, '.', _, rfl, by decide, by decide⟩

/-- `Parser::parameters` reads a printed format spec back -/
theorem parameters_show (P : Profile) (spec : Option FormatSpec) (rest : List Char)
    (h : wfSpec P.wordBits spec = true) :
    parameters P (showSpec spec ++ '}' :: rest) = .ok (paramsOf spec) ('}' :: rest) := by
  cases spec with
  | none => simp [showSpec, parameters, paramsOf]
  | some s =>
    obtain ⟨fill, align, minW, maxW⟩ := s
    simp only [wfSpec, Bool.and_eq_true, Bool.or_eq_true] at h
    obtain ⟨⟨⟨⟨hfa, hany⟩, hmin⟩, hmax⟩, _⟩ := h
    obtain ⟨x0, X', hX, hx1, hx2⟩ := widthsText_head minW maxW rest
    simp only [showSpec, List.cons_append, parameters, if_true, List.append_assoc, paramsOf,
      FormatSpec.params]
    cases align with
    | none =>
      have hfill : fill = none := by
        cases fill with
        | none => rfl
        | some f => simp at hfa
      subst hfill
      have hany' : minW.isSome = true ∨ maxW.isSome = true := by simpa using hany
      obtain ⟨y0, y1, Y, hY, hy1, hy2⟩ := widthsText_second P.wordBits minW maxW rest hmin hmax hany'
      have hx0 : y0 = x0 := by rw [hX] at hY; cases hY; rfl
      subst hx0
      simp only [showFill, showAlign, List.nil_append]
      rw [hY]
      simp only [fillLookahead, hy1, hy2, Bool.or_self, decide_false, Bool.false_eq_true, if_false,
        alignOf, hx1, hx2]
      rw [← hY]
      rw [integer_showMin P minW maxW rest hmin]
      cases maxW with
      | none => simp [showMax]
      | some ds =>
        simp only [showMax, List.cons_append, if_true]
        rw [integer_showMaxDigits P ds rest hmax]
        simp
    | some a =>
      have hal : ∀ X : List Char, alignOf (showAlign (some a) ++ X) = (a, X) := by
        intro X; cases a <;> simp [showAlign, alignOf]
      have hac : ∃ ac, showAlign (some a) = [ac] ∧ (ac = '<' ∨ ac = '>') := by
        cases a
        · exact ⟨'<', rfl, Or.inl rfl⟩
        · exact ⟨'>', rfl, Or.inr rfl⟩
      obtain ⟨ac, hac, hacv⟩ := hac
      cases fill with
      | none =>
        have hfl : fillLookahead (showAlign (some a) ++ (showMin minW ++ (showMax maxW ++ '}' :: rest))) =
            (' ', showAlign (some a) ++ (showMin minW ++ (showMax maxW ++ '}' :: rest))) := by
          rw [hac, hX]
          simp [fillLookahead, hx1, hx2]
        simp only [showFill, List.nil_append]
        rw [hfl]
        simp only [hal]
        rw [integer_showMin P minW maxW rest hmin]
        cases maxW with
        | none => simp [showMax]
        | some ds =>
          simp only [showMax, List.cons_append, if_true]
          rw [integer_showMaxDigits P ds rest hmax]
          simp
      | some f =>
        have hfl : fillLookahead (f :: (showAlign (some a) ++ (showMin minW ++ (showMax maxW ++ '}' :: rest)))) =
            (f, showAlign (some a) ++ (showMin minW ++ (showMax maxW ++ '}' :: rest))) := by
          rw [hac]
          rcases hacv with h | h <;> subst h <;> simp [fillLookahead]
        simp only [showFill, List.cons_append, List.nil_append]
        rw [hfl]
        simp only [hal]
        rw [integer_showMin P minW maxW rest hmin]
        cases maxW with
        | none => simp [showMax]
        | some ds =>
          simp only [showMax, List.cons_append, if_true]
          rw [integer_showMaxDigits P ds rest hmax]
          simp


/-! ### text and escapes -/

/-- empty, or starting with one of the five special characters -/
def StartsSpecial (s : List Char) : Prop :=
  match s with
  | [] => True
  | h :: _ => isSpecial h = true

def nonSpecial (c : Char) : Bool := !isSpecial c

theorem takeWhile_nonSpecial (t s : List Char) (ht : t.all nonSpecial = true) (hs : StartsSpecial s) :
    (t ++ s).takeWhile (fun x => !isSpecial x) = t ∧ (t ++ s).dropWhile (fun x => !isSpecial x) = s := by
  have ht' : ∀ x ∈ t, (!isSpecial x) = true := by
    intro x hx; exact List.all_eq_true.mp ht x hx
  constructor
  · rw [List.takeWhile_append_of_pos ht']
    cases s with
    | nil => simp
    | cons h s' => simp only [StartsSpecial] at hs; simp [List.takeWhile, hs]
  · rw [List.dropWhile_append_of_pos ht']
    cases s with
    | nil => simp
    | cons h s' => simp only [StartsSpecial] at hs; simp [List.dropWhile, hs]

theorem not_special {c : Char} (h : isSpecial c = false) :
    c ≠ '{' ∧ c ≠ '}' ∧ c ≠ '(' ∧ c ≠ ')' ∧ c ≠ '\\' := by
  simp only [isSpecial, Bool.or_eq_false_iff, decide_eq_false_iff_not] at h
  exact ⟨h.1.1.1.1, h.1.1.1.2, h.1.1.2, h.1.2, h.2⟩

/-- `Parser::text`: a run of ordinary characters up to the next special character -/
theorem next_text (cc : CharClass) (P : Profile) (d : Nat) (c : Char) (t s : List Char)
    (hc : isSpecial c = false) (ht : t.all nonSpecial = true) (hs : StartsSpecial s) :
    nextAt cc P d (c :: (t ++ s)) = .ok (some (.text (c :: t))) s := by
  obtain ⟨h1, h2, h3, h4, h5⟩ := not_special hc
  obtain ⟨htk, hdr⟩ := takeWhile_nonSpecial t s ht hs
  rw [next_eq cc P d]
  simp only [nextWith, h1, h2, h3, h4, h5, if_false, textPiece, htk, hdr]

theorem is_special {c : Char} (h : isSpecial c = true) :
    c = '{' ∨ c = '}' ∨ c = '(' ∨ c = ')' ∨ c = '\\' := by
  simp only [isSpecial, Bool.or_eq_true, decide_eq_true_eq] at h
  rcases h with (((h | h) | h) | h) | h
  · exact Or.inl h
  · exact Or.inr (Or.inl h)
  · exact Or.inr (Or.inr (Or.inl h))
  · exact Or.inr (Or.inr (Or.inr (Or.inl h)))
  · exact Or.inr (Or.inr (Or.inr (Or.inr h)))

/-- a doubled special character is the character -/
theorem next_doubled (cc : CharClass) (P : Profile) (d : Nat) (c : Char) (rest : List Char) (hc : isSpecial c = true) :
    nextAt cc P d (c :: c :: rest) = .ok (some (.text [c])) rest := by
  rw [next_eq cc P d]
  rcases is_special hc with h | h | h | h | h <;> subst h <;> simp [nextWith, doubled, isSpecial]

/-- a backslash-escaped special character is the character -/
theorem next_backslash (cc : CharClass) (P : Profile) (d : Nat) (c : Char) (rest : List Char) (hc : isSpecial c = true) :
    nextAt cc P d ('\\' :: c :: rest) = .ok (some (.text [c])) rest := by
  rw [next_eq cc P d]
  simp [nextWith, hc]

/-- pending ordinary text in front of a special character becomes one `Text` piece -/
theorem argB_flush (cc : CharClass) (P : Profile) (d : Nat) (c : Char) (t s : List Char) (acc : List Piece)
    (hc : isSpecial c = false) (ht : t.all nonSpecial = true) (hs : StartsSpecial s) :
    argB cc P d (c :: (t ++ s)) acc = argB cc P d s (acc ++ [.text (c :: t)]) :=
  argB_step cc P d c (t ++ s) acc (not_special hc).2.2.2.1 _ _ (next_text cc P d c t s hc ht hs)


/-! ### formatters -/

theorem specTail_head (spec : Option FormatSpec) (rest : List Char) :
    ∃ t tl, showSpec spec ++ '}' :: rest = t :: tl ∧ (t = ':' ∨ t = '}') := by
  cases spec with
  | none => exact ⟨'}', rest, rfl, Or.inr rfl⟩
  | some s => exact ⟨':', _, rfl, Or.inl rfl⟩

theorem cc_syntax (cc : CharClass) (hcc : CCAscii cc) :
    cc.alnum ':' = false ∧ cc.alnum '}' = false ∧ cc.alnum '(' = false ∧ cc.alpha '(' = false ∧
    cc.alpha '{' = false ∧ cc.alnum '_' = false := by
  refine ⟨?_, ?_, ?_, ?_, ?_, ?_⟩
  · rw [(hcc ':' (by decide)).2]; decide
  · rw [(hcc '}' (by decide)).2]; decide
  · rw [(hcc '(' (by decide)).2]; decide
  · rw [(hcc '(' (by decide)).1]; decide
  · rw [(hcc '{' (by decide)).1]; decide
  · rw [(hcc '_' (by decide)).2]; decide

/-- the `'{'` branch of `next` on `{ name args spec } rest`, given what `name` and `args` do -/
theorem next_formatter (cc : CharClass) (P : Profile) (d : Nat) (nm tail : List Char) (args : List (List Piece))
    (spec : Option FormatSpec) (rest : List Char)
    (hhead : doubled '{' (nm ++ tail) = none)
    (hname : name cc P (nm ++ tail) = (nm, tail))
    (hargs : argsL cc P d tail [] = .ok args (showSpec spec ++ '}' :: rest))
    (hspec : wfSpec P.wordBits spec = true) :
    nextAt cc P d ('{' :: (nm ++ tail)) = .ok (some (.arg nm args (paramsOf spec))) rest := by
  rw [next_eq cc P d]
  simp only [nextWith, if_true, hhead, argumentWith, hname, hargs, parameters_show P spec rest hspec,
    closeBrace]

/-- a named formatter: `nm` is a letter followed by alphanumerics, the tail starts with `:`, `}` or `(` -/
theorem next_named (cc : CharClass) (hcc : CCAscii cc) (P : Profile) (d : Nat) (nm : List Char) (t : Char)
    (tl : List Char) (args : List (List Piece)) (spec : Option FormatSpec) (rest : List Char)
    (hnm : isNameB cc.alpha (nameChar cc P) nm = true) (ht : t = ':' ∨ t = '}' ∨ t = '(')
    (hargs : argsL cc P d (t :: tl) [] = .ok args (showSpec spec ++ '}' :: rest))
    (hspec : wfSpec P.wordBits spec = true) :
    nextAt cc P d ('{' :: (nm ++ t :: tl)) = .ok (some (.arg nm args (paramsOf spec))) rest := by
  obtain ⟨h1, h2, h3, _, h5, _⟩ := cc_syntax cc hcc
  have htn : nameChar cc P t = false := by
    rcases ht with h | h | h <;> subst h <;> simp [nameChar, h1, h2, h3]
  apply next_formatter cc P d nm (t :: tl) args spec rest _ (name_of_isName cc P nm t tl hnm htn) hargs hspec
  cases nm with
  | nil => simp [isNameB] at hnm
  | cons a r =>
    simp only [isNameB, Bool.and_eq_true] at hnm
    have : a ≠ '{' := by intro h; subst h; rw [h5] at hnm; exact absurd hnm.1 (by simp)
    simp [doubled, this]

/-- the unnamed formatter `{( … ) … }` -/
theorem next_unnamed (cc : CharClass) (hcc : CCAscii cc) (P : Profile) (d : Nat) (tl : List Char)
    (args : List (List Piece)) (spec : Option FormatSpec) (rest : List Char)
    (hargs : argsL cc P d ('(' :: tl) [] = .ok args (showSpec spec ++ '}' :: rest))
    (hspec : wfSpec P.wordBits spec = true) :
    nextAt cc P d ('{' :: '(' :: tl) = .ok (some (.arg [] args (paramsOf spec))) rest := by
  obtain ⟨_, _, _, h4, _, _⟩ := cc_syntax cc hcc
  have := next_formatter cc P d [] ('(' :: tl) args spec rest (by simp [doubled])
    (by simp [name, h4]) hargs hspec
  simpa using this

/-- `args()` stops at the format spec / closing brace -/
theorem argsL_done (cc : CharClass) (P : Profile) (d : Nat) (spec : Option FormatSpec) (rest : List Char)
    (acc : List (List Piece)) :
    argsL cc P d (showSpec spec ++ '}' :: rest) acc = .ok acc (showSpec spec ++ '}' :: rest) := by
  obtain ⟨t, tl, h, ht⟩ := specTail_head spec rest
  rw [h]
  apply argsL_other
  rcases ht with h | h <;> subst h <;> decide

/-- one parenthesised argument in front of `tail` -/
theorem argsL_arg (cc : CharClass) (P : Profile) (d : Nat) (hd : d ≠ P.maxDepth) (body tail : List Char) (acc : List (List Piece))
    (a : List Piece) (hb : argB cc P (d + 1) (body ++ ')' :: tail) [] = .ok a tail) :
    argsL cc P d ('(' :: (body ++ ')' :: tail)) acc = argsL cc P d tail (acc ++ [a]) :=
  argsL_open cc P d hd _ acc a tail hb

theorem isName_leaf (cc : CharClass) (hcc : CCAscii cc) (P : Profile) (hus : P.underscoreNames = true)
    (k : LeafKind) (long : Bool) : isNameB cc.alpha (nameChar cc P) (leafName k long) = true := by
  cases k <;> cases long <;> first
    | (exact isNameB_thread_id cc hcc P hus)
    | (apply isNameB_nameChar; rw [isNameB_ascii cc hcc _ (by decide)]; decide)

theorem isName_date (cc : CharClass) (hcc : CCAscii cc) (P : Profile) (long : Bool) :
    isNameB cc.alpha (nameChar cc P) (dateName long) = true := by
  cases long <;> (apply isNameB_nameChar; rw [isNameB_ascii cc hcc _ (by decide)]; decide)

theorem isName_mdc (cc : CharClass) (hcc : CCAscii cc) (P : Profile) (long : Bool) :
    isNameB cc.alpha (nameChar cc P) (mdcName long) = true := by
  cases long <;> (apply isNameB_nameChar; rw [isNameB_ascii cc hcc _ (by decide)]; decide)

theorem isName_group (cc : CharClass) (hcc : CCAscii cc) (P : Profile) (k : GroupKind) (long : Bool)
    (hk : k ≠ .align) : isNameB cc.alpha (nameChar cc P) (groupName k long) = true := by
  cases k <;> cases long <;> first
    | (exact absurd rfl hk)
    | (apply isNameB_nameChar; rw [isNameB_ascii cc hcc _ (by decide)]; decide)

end Log4rs.Pattern.Parse
