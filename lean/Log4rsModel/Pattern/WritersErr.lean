import Log4rsModel.Pattern.Writers
/-
Error-aware byte-level model of the writer stack of `encode/pattern/mod.rs` (the same code as
`Pattern/Writers.lean`, now with every failure path):

* the bottom writer's `write` may return `Err(e)` (`Acc.fail`), or `Err(Interrupted)` (`Acc.intr`,
  which std's `write_all` retries), its `set_style` may return `Err` after a number of good calls;
* `MaxWidthWriter::write` / `LeftAlignWriter::write`: `Err(e) => Err(e)`, state untouched;
* `write_all`: `Err(ref e) if e.is_interrupted() => {}` (retry), any other error is returned;
* `chunk.encode(&mut w, record)?; w.finish()` — an error skips `finish`: no padding, and a
  `RightAlignWriter` drops everything it buffered;
* a `Display` implementation that returns `Err` although the stream did not fail: std's
  `io::Write::write_fmt` panics ("a formatting trait implementation returned an error when the
  underlying stream did not").

On every failure the writer stack is dropped; what remains observable is what had reached the
bottom writer by then — that is what `Res.stop` carries.
Model file: core only.
-/
namespace Log4rs.Pattern
open Log4rs

/-- the bottom writer's answer to one `write` call -/
inductive Acc where
  /-- accept (0 = the whole buffer, k > 0 = at most k bytes) -/
  | take (k : Nat)
  /-- `Err(e)`, `e.kind() != Interrupted` -/
  | fail
  /-- `Err(e)`, `e.kind() == Interrupted` -/
  | intr
  deriving Repr, DecidableEq

/-- the writer stack over a fallible bottom writer: `styleBudget = some n` — the `n+1`-th
`set_style` call fails -/
inductive WE where
  | sink (orc : List Acc) (styleBudget : Option Nat) (out : List BEv)
  | maxW (remaining : Nat) (inner : WE)
  | left (toFill : Nat) (fill : Char) (inner : WE)
  | right (toFill : Nat) (fill : Char) (inner : WE) (buf : List BufOut)
  deriving Repr

inductive Stop where
  | ioErr
  | fmtPanic
  deriving Repr, DecidableEq

/-- result of one `write` call -/
inductive WRes where
  | ok (w : WE) (n : Nat)
  | intr (w : WE)
  | err (out : List BEv)

/-- result of a composite operation: the new stack, or why it stopped and what the bottom writer
holds -/
inductive Res where
  | ok (w : WE)
  | stop (why : Stop) (out : List BEv)

def Res.bind (r : Res) (f : WE → Res) : Res :=
  match r with
  | .ok w => f w
  | .stop y o => .stop y o

def Res.map (r : Res) (f : WE → WE) : Res :=
  match r with
  | .ok w => .ok (f w)
  | .stop y o => .stop y o

def WE.emitted : WE → List BEv
  | .sink _ _ out => out
  | .maxW _ inner => inner.emitted
  | .left _ _ inner => inner.emitted
  | .right _ _ inner _ => inner.emitted

/-- outcome and what reached the bottom writer -/
def Res.observe : Res → Option Stop × List BEv
  | .ok w => (none, w.emitted)
  | .stop y o => (some y, o)

/-- number of scripted answers left (bounds the `Interrupted` retries of `write_all`) -/
def WE.orcLen : WE → Nat
  | .sink orc _ _ => orc.length
  | .maxW _ inner => inner.orcLen
  | .left _ _ inner => inner.orcLen
  | .right _ _ inner _ => inner.orcLen

/-- `io::Write::write` of each layer -/
def WE.write : WE → Bytes → WRes
  | .sink orc sb out, b =>
    match orc with
    | [] => .ok (.sink [] sb (out ++ b.map BEv.byte)) b.length
    | .take k :: rest =>
      let n := if k = 0 then b.length else min k b.length
      .ok (.sink rest sb (out ++ (b.take n).map BEv.byte)) n
    | .fail :: _ => .err out
    | .intr :: rest => .intr (.sink rest sb out)
  | .maxW r inner, b =>
    let (e, r') := scanEnd r b
    if e = 0 then .ok (.maxW r inner) b.length
    else
      match inner.write (b.take e) with
      | .ok inner' len =>
        if len = e then .ok (.maxW r' inner') len
        else .ok (.maxW (r - leads ((b.take e).take len)) inner') len
      | .intr inner' => .intr (.maxW r inner')
      | .err o => .err o
  | .left tf f inner, b =>
    match inner.write b with
    | .ok inner' len => .ok (.left (tf - leads (b.take len)) f inner') len
    | .intr inner' => .intr (.left tf f inner')
    | .err o => .err o
  | .right tf f inner buf, b =>
    .ok (.right (tf - leads b) f inner (pushData buf b)) b.length

/-- `encode::Write::set_style` of each layer -/
def WE.setStyle : WE → Style → Res
  | .sink orc sb out, s =>
    match sb with
    | none => .ok (.sink orc none (out ++ [BEv.style s]))
    | some 0 => .stop .ioErr out
    | some (n + 1) => .ok (.sink orc (some n) (out ++ [BEv.style s]))
  | .maxW r inner, s => (inner.setStyle s).map (.maxW r)
  | .left tf f inner, s => (inner.setStyle s).map (.left tf f)
  | .right tf f inner buf, s => .ok (.right tf f inner (.style s :: buf))

/-- std's default `write_all`: retry the rest on a short write, retry the same buffer on
`Interrupted`, return any other error -/
def WE.writeAllFuel : Nat → WE → Bytes → Res
  | 0, w, _ => .ok w
  | fuel + 1, w, b =>
    if b.isEmpty then .ok w
    else
      match w.write b with
      | .ok w' n => WE.writeAllFuel fuel w' (b.drop n)
      | .intr w' => WE.writeAllFuel fuel w' b
      | .err o => .stop .ioErr o

/-- every turn of the loop consumes a byte or a scripted answer -/
def WE.writeAll (w : WE) (b : Bytes) : Res := WE.writeAllFuel (b.length + w.orcLen) w b

def WE.writeFills (w : WE) (fill : Char) : Nat → Res
  | 0 => .ok w
  | n + 1 => (w.writeAll (utf8Char fill)).bind fun w' => WE.writeFills w' fill n

def replayE (w : WE) : List BufOut → Res
  | [] => .ok w
  | .data b :: rest => (w.writeAll b).bind fun w' => replayE w' rest
  | .style s :: rest => (w.setStyle s).bind fun w' => replayE w' rest

/-- `LeftAlignWriter::finish` / `RightAlignWriter::finish` with their `?`s -/
def WE.finish : WE → Res
  | .left tf f inner => inner.writeFills f tf
  | .right tf f inner buf => (inner.writeFills f tf).bind fun w' => replayE w' buf.reverse
  | w => .ok w

def WE.dropMax : WE → WE
  | .maxW _ inner => inner
  | w => w

/-- pieces of a leaf; `none` = the `Display` implementation producing them returns `Err` here -/
def WE.feed (w : WE) : List (Option Piece) → Res
  | [] => .ok w
  | some (.data cs) :: rest => (w.writeAll (utf8 cs)).bind fun w' => WE.feed w' rest
  | some (.style s) :: rest => (w.setStyle s).bind fun w' => WE.feed w' rest
  | none :: _ => .stop .fmtPanic w.emitted

/-- the six-way match of `Chunk::encode`: `chunk.encode(&mut w, record)?; w.finish()` -/
def chunkEncodeE (p : Params) (enc : WE → Res) (w : WE) : Res :=
  match p.minW, p.maxW, p.right with
  | none, none, _ => enc w
  | none, some M, _ => (enc (.maxW M w)).map WE.dropMax
  | some m, none, false => (enc (.left m p.fill w)).bind WE.finish
  | some m, none, true => (enc (.right m p.fill w [])).bind WE.finish
  | some m, some M, false => ((enc (.left m p.fill (.maxW M w))).bind WE.finish).map WE.dropMax
  | some m, some M, true => ((enc (.right m p.fill (.maxW M w) [])).bind WE.finish).map WE.dropMax

/-- pattern trees whose leaves may contain a failing `Display` -/
inductive NodeE where
  | leaf (ps : List (Option Piece))
  | fmt (p : Params) (children : List NodeE)
  | gated (active : Bool) (p : Params) (children : List NodeE)
  deriving Repr

mutual
def encodeNodeE : NodeE → WE → Res
  | .leaf ps, w => w.feed ps
  | .fmt p cs, w => chunkEncodeE p (encodeNodesE cs) w
  | .gated true p cs, w => chunkEncodeE p (encodeNodesE cs) w
  | .gated false p _, w => chunkEncodeE p (fun w' => .ok w') w
/-- `for chunk in chunks { chunk.encode(w, record)?; }` -/
def encodeNodesE : List NodeE → WE → Res
  | [], w => .ok w
  | n :: ns, w => (encodeNodeE n w).bind (encodeNodesE ns)
end

/-! ### the error-free run the error-aware one is compared with -/

def takes : List Acc → List Nat
  | [] => []
  | .take k :: rest => k :: takes rest
  | _ :: rest => takes rest

/-- forget the failure schedule -/
def WE.erase : WE → W
  | .sink orc _ out => .sink (takes orc) out
  | .maxW r inner => .maxW r inner.erase
  | .left tf f inner => .left tf f inner.erase
  | .right tf f inner buf => .right tf f inner.erase buf

def erasePieces (ps : List (Option Piece)) : List Piece := ps.filterMap id

mutual
/-- the tree had no `Display` failed -/
def NodeE.erase : NodeE → Node
  | .leaf ps => .leaf (erasePieces ps)
  | .fmt p cs => .fmt p (NodeE.eraseAll cs)
  | .gated a p cs => .gated a p (NodeE.eraseAll cs)
def NodeE.eraseAll : List NodeE → List Node
  | [] => []
  | n :: ns => n.erase :: NodeE.eraseAll ns
end

mutual
def Node.lift : Node → NodeE
  | .leaf ps => .leaf (ps.map some)
  | .fmt p cs => .fmt p (Node.liftAll cs)
  | .gated a p cs => .gated a p (Node.liftAll cs)
def Node.liftAll : List Node → List NodeE
  | [] => []
  | n :: ns => n.lift :: Node.liftAll ns
end

end Log4rs.Pattern
