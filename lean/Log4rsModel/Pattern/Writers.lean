import Log4rsModel.Base.Bytes
import Log4rsModel.Pattern.Format
/-
Byte-level model of the writer stack of `encode/pattern/mod.rs` (lines 153–378):
`MaxWidthWriter`, `LeftAlignWriter`, `RightAlignWriter`, std's `io::Write::write_all` retry loop,
`write!(w, "{}", fill)`, and the six-way composition in `Chunk::encode`.

A writer stack is a value of `W`; the bottom is a capturing sink that accepts, per `write` call,
the number of bytes its acceptance oracle dictates (at least one, at most the buffer), so that
arbitrary short writes of the downstream are covered. `&mut` mutation is a returned new state.
Model file: core only.
-/
namespace Log4rs.Pattern
open Log4rs

/-- what a chunk hands to its writer: a whole `str` (`write_all(s.as_bytes())`, `fmt::Write::write_str`)
or a style call. Rust cannot hand over part of a character: the payload is a `List Char`. -/
inductive Piece where
  | data (cs : List Char)
  | style (s : Style)
  deriving Repr, DecidableEq

/-- what arrives at the bottom writer, byte by byte, style calls in place -/
inductive BEv where
  | byte (b : Nat)
  | style (s : Style)
  deriving Repr, DecidableEq

/-- `BufferedOutput` of `RightAlignWriter` -/
inductive BufOut where
  | data (b : Bytes)
  | style (s : Style)
  deriving Repr, DecidableEq

/-- A writer stack. `right`'s buffer is kept newest-first (`Vec::push` = cons, replayed reversed). -/
inductive W where
  | sink (orc : List Nat) (out : List BEv)
  | maxW (remaining : Nat) (inner : W)
  | left (toFill : Nat) (fill : Char) (inner : W)
  | right (toFill : Nat) (fill : Char) (inner : W) (buf : List BufOut)
  deriving Repr

/-- acceptance oracle of the sink: entry `0` = the whole buffer, `k > 0` = at most `k` bytes; an
exhausted oracle accepts everything. Always between 1 and `len` for a non-empty buffer. -/
def accept (orc : List Nat) (len : Nat) : Nat :=
  match orc with
  | [] => len
  | k :: _ => if k = 0 then len else min k len

/-- the `for` loop of `MaxWidthWriter::write`, relative to the current index: `(end, remaining)`
— `end` is the index of the first lead byte met with `remaining == 0`, or the buffer length -/
def scanEnd : Nat → Bytes → Nat × Nat
  | r, [] => (0, r)
  | r, x :: xs =>
    if isLead x then
      if r = 0 then (0, r)
      else let (e, r') := scanEnd (r - 1) xs; (e + 1, r')
    else let (e, r') := scanEnd r xs; (e + 1, r')

/-- `RightAlignWriter::write`'s push: extend the last `Data` entry or start a new one -/
def pushData : List BufOut → Bytes → List BufOut
  | .data d :: rest, b => .data (d ++ b) :: rest
  | buf, b => .data b :: buf

/-- `io::Write::write` of each layer: new state and the number of bytes reported as written -/
def W.write : W → Bytes → W × Nat
  | .sink orc out, b =>
    let n := accept orc b.length
    (.sink orc.tail (out ++ (b.take n).map BEv.byte), n)
  | .maxW r inner, b =>
    let (e, r') := scanEnd r b
    if e = 0 then (.maxW r inner, b.length)            -- "just act as a sink past this point"
    else
      let (inner', len) := inner.write (b.take e)
      if len = e then (.maxW r' inner', len)
      else (.maxW (r - leads ((b.take e).take len)) inner', len)
  | .left tf f inner, b =>
    let (inner', len) := inner.write b
    (.left (tf - leads (b.take len)) f inner', len)     -- saturating_sub
  | .right tf f inner buf, b =>
    (.right (tf - leads b) f inner (pushData buf b), b.length)

/-- `encode::Write::set_style` of each layer -/
def W.setStyle : W → Style → W
  | .sink orc out, s => .sink orc (out ++ [BEv.style s])
  | .maxW r inner, s => .maxW r (inner.setStyle s)
  | .left tf f inner, s => .left tf f (inner.setStyle s)
  | .right tf f inner buf, s => .right tf f inner (.style s :: buf)

/-- std's default `write_all`: retry with the unwritten rest until the buffer is empty -/
def W.writeAllFuel : Nat → W → Bytes → W
  | 0, w, _ => w
  | fuel + 1, w, b =>
    if b.isEmpty then w
    else
      let (w', n) := w.write b
      W.writeAllFuel fuel w' (b.drop n)

def W.writeAll (w : W) (b : Bytes) : W := W.writeAllFuel b.length w b

/-- `write!(w, "{}", fill)`: one `write_all` of the character's bytes -/
def W.writeFill (w : W) (fill : Char) : W := w.writeAll (utf8Char fill)

def W.writeFills (w : W) (fill : Char) : Nat → W
  | 0 => w
  | n + 1 => W.writeFills (w.writeFill fill) fill n

def replay (w : W) : List BufOut → W
  | [] => w
  | .data b :: rest => replay (w.writeAll b) rest
  | .style s :: rest => replay (w.setStyle s) rest

/-- `LeftAlignWriter::finish` / `RightAlignWriter::finish`: consumes the alignment layer and gives
back the writer below it. In Rust `finish` exists only on the two alignment writers; here it is
the identity on the other shapes, which it never meets: every theorem instantiates the inner
encoder of `chunkEncode` with piece feeding / `encodeNodes`, and `feed_left`, `feed_right`,
`feed_maxW` (WritersLemmas2) prove that these hand back the layer they were given. `chunkEncode`
with an arbitrary, shape-breaking `enc` is outside every statement. -/
def W.finish : W → W
  | .left tf f inner => inner.writeFills f tf
  | .right tf f inner buf => replay (inner.writeFills f tf) buf.reverse
  | w => w

/-- dropping a `MaxWidthWriter` at the end of its scope gives back the borrowed writer (identity on
other shapes, never met — see `W.finish`) -/
def W.dropMax : W → W
  | .maxW _ inner => inner
  | w => w

/-- feeding the operations of a chunk, piece by piece -/
def W.feed (w : W) : List Piece → W
  | [] => w
  | .data cs :: rest => W.feed (w.writeAll (utf8 cs)) rest
  | .style s :: rest => W.feed (w.setStyle s) rest

/-- the six-way `match (params.min_width, params.max_width, params.align)` of `Chunk::encode`;
`enc` is `chunk.encode(&mut w, record)` -/
def chunkEncode (p : Params) (enc : W → W) (w : W) : W :=
  match p.minW, p.maxW, p.right with
  | none, none, _ => enc w
  | none, some M, _ => (enc (.maxW M w)).dropMax
  | some m, none, false => (enc (.left m p.fill w)).finish
  | some m, none, true => (enc (.right m p.fill w [])).finish
  | some m, some M, false => (enc (.left m p.fill (.maxW M w))).finish.dropMax
  | some m, some M, true => (enc (.right m p.fill (.maxW M w) [])).finish.dropMax

/-- what reached the bottom of the stack -/
def W.emitted : W → List BEv
  | .sink _ out => out
  | .maxW _ inner => inner.emitted
  | .left _ _ inner => inner.emitted
  | .right _ _ inner _ => inner.emitted

def bytesOf (evs : List BEv) : Bytes :=
  evs.filterMap (fun | .byte b => some b | .style _ => none)

/-- style calls with the byte offset at which they arrived -/
def stylePositions : List BEv → Nat → List (Nat × Style)
  | [], _ => []
  | .byte _ :: rest, pos => stylePositions rest (pos + 1)
  | .style s :: rest, pos => (pos, s) :: stylePositions rest pos

/-- the byte rendering of an operation stream -/
def render (o : Out) : List BEv :=
  o.flatMap (fun | .ch c => (utf8Char c).map BEv.byte | .style s => [BEv.style s])

def opsOf (ps : List Piece) : Out :=
  ps.flatMap (fun | .data cs => ofText cs | .style s => [Op.style s])

/-- A pattern tree as far as the width law is concerned: a leaf is any formatter (or literal text)
with the pieces it writes; `fmt` is `Chunk::Formatted` whose inner chunk runs its children in
order (`{(..)}`; `{m}` = one leaf child; `{h(..)}` = style leaf, children, reset leaf).
`gated` is a profile-dependent group — `FormattedChunk::Debug` (`{D(..)}`, `{debug(..)}`) and
`FormattedChunk::Release` (`{R(..)}`, `{release(..)}`): `Chunk::Formatted` whose inner chunk runs
its children only `if cfg!(debug_assertions)` resp. `if !cfg!(debug_assertions)`; `active` is the
value of that compile-time condition. An inactive group writes nothing, but it is still a
`Chunk::Formatted` with its parameters: the width spec applies to the empty text. -/
inductive Node where
  | leaf (ps : List Piece)
  | fmt (p : Params) (children : List Node)
  | gated (active : Bool) (p : Params) (children : List Node)
  deriving Repr

/-- `{D(..)}` in a build whose `cfg!(debug_assertions)` is `buildDebug` -/
def Node.debugGroup (buildDebug : Bool) (p : Params) (children : List Node) : Node :=
  .gated buildDebug p children

/-- `{R(..)}` in a build whose `cfg!(debug_assertions)` is `buildDebug` -/
def Node.releaseGroup (buildDebug : Bool) (p : Params) (children : List Node) : Node :=
  .gated (!buildDebug) p children

mutual
/-- `Chunk::encode` on the byte-level stack -/
def encodeNode : Node → W → W
  | .leaf ps, w => w.feed ps
  | .fmt p cs, w => chunkEncode p (encodeNodes cs) w
  | .gated true p cs, w => chunkEncode p (encodeNodes cs) w
  | .gated false p _, w => chunkEncode p (fun w' => w') w
def encodeNodes : List Node → W → W
  | [], w => w
  | n :: ns, w => encodeNodes ns (encodeNode n w)
end

mutual
/-- the same tree on operation streams, through `codeFmtOps` -/
def denote : Node → Out
  | .leaf ps => opsOf ps
  | .fmt p cs => codeFmtOps p (denotes cs)
  | .gated true p cs => codeFmtOps p (denotes cs)
  | .gated false p _ => codeFmtOps p []
def denotes : List Node → Out
  | [] => []
  | n :: ns => denote n ++ denotes ns
end

mutual
/-- the statement's law through the tree, on text -/
def specText : Node → List Char
  | .leaf ps => (opsOf ps).text
  | .fmt p cs => specFmt p (specTexts cs)
  | .gated true p cs => specFmt p (specTexts cs)
  | .gated false p _ => specFmt p []
def specTexts : List Node → List Char
  | [] => []
  | n :: ns => specText n ++ specTexts ns
end

def Params.ordered (p : Params) : Bool :=
  match p.minW, p.maxW with
  | some m, some M => m ≤ M
  | _, _ => true

mutual
/-- every spec in the tree has `m ≤ M` when both are given (the statement's side condition);
the children of an inactive group never run, so their specs are not constrained -/
def Node.ordered : Node → Bool
  | .leaf _ => true
  | .fmt p cs => p.ordered && Node.orderedAll cs
  | .gated true p cs => p.ordered && Node.orderedAll cs
  | .gated false p _ => p.ordered
def Node.orderedAll : List Node → Bool
  | [] => true
  | n :: ns => n.ordered && Node.orderedAll ns
end

end Log4rs.Pattern
