import Log4rsModel.Pattern.MeaningLemmas
/-
C09, meaning side, part II: text, style calls and rendered date formats of the direct translation
`chunksOf` are the AST's `denotePats`, `stylesPats`, `datesPats`; aliases do not matter.
-/
namespace Log4rs.Pattern.Parse

theorem ordered_of_orderedWidths (p : Params) (h : orderedWidths p = true) : p.ordered = true := by
  unfold orderedWidths at h
  unfold Params.ordered
  cases hm : p.minW <;> cases hM : p.maxW <;> simp_all

theorem wfSpec_ordered {bits : Nat} {spec : Option FormatSpec} (h : wfSpec bits spec = true) :
    (paramsOf spec).ordered = true := by
  cases spec with
  | none => rfl
  | some s =>
    simp only [wfSpec, Bool.and_eq_true] at h
    exact ordered_of_orderedWidths _ h.2

/-- the writer stack's effect on the text is the documented format spec (C10), when `m ≤ M` -/
theorem text_codeFmt_spec {bits : Nat} (spec : Option FormatSpec) (o : Out) (h : wfSpec bits spec = true) :
    (codeFmtOps (paramsOf spec) o).text = applySpec spec o.text := by
  rw [codeFmtOps_text_eq_spec _ _ (wfSpec_ordered h)]
  cases spec with
  | none => simp [applySpec, paramsOf, specFmt]
  | some s => rfl

theorem text_nil : Out.text ([] : Out) = [] := rfl
theorem styles_nil : Out.styles ([] : Out) = [] := rfl

theorem styles_append (a b : Out) : Out.styles (a ++ b) = Out.styles a ++ Out.styles b := by
  simp [Out.styles, List.filterMap_append]

theorem styles_ofText (cs : List Char) : Out.styles (ofText cs) = [] := by
  induction cs with
  | nil => rfl
  | cons c cs ih => simp only [ofText, List.map_cons, Out.styles, List.filterMap_cons] at ih ⊢; exact ih

theorem styles_truncOps : ∀ (M : Nat) (o : Out), (truncOps M o).styles = o.styles := by
  intro M o
  induction o generalizing M with
  | nil => cases M <;> rfl
  | cons x xs ih =>
    cases x with
    | style s => cases M <;> simp [truncOps, Out.styles] <;> exact ih _
    | ch c => cases M <;> simp [truncOps, Out.styles] <;> exact ih _

/-- a format spec never drops, duplicates or reorders style calls -/
theorem styles_codeFmtOps (p : Params) (o : Out) : (codeFmtOps p o).styles = o.styles := by
  unfold codeFmtOps
  cases p.minW <;> cases p.maxW <;> cases p.right <;>
    simp [styles_truncOps, styles_append, styles_ofText]

theorem text_wrapHighlight (lvl : Nat) (o : Out) : (wrapHighlight lvl o).text = o.text := by
  unfold wrapHighlight
  cases highlightStyle lvl <;> simp [Out.text, List.filterMap_append]

theorem styles_wrapHighlight (lvl : Nat) (o : Out) :
    (wrapHighlight lvl o).styles =
      match highlightStyle lvl with
      | some s => s :: o.styles ++ [Style.plain]
      | none => o.styles := by
  unfold wrapHighlight
  cases highlightStyle lvl <;> simp [Out.styles, List.filterMap_append]

theorem leafTextPure_leaf (env : Env) (r : Record) (k : LeafKind) :
    leafTextPure env r k.leaf = leafValue env r k := by
  cases k <;> simp [LeafKind.leaf, leafTextPure, leafText, leafValue, unknown3]
  · cases r.module <;> rfl
  · cases r.file <;> rfl
  · cases r.line <;> rfl
  · cases env.threadName <;> rfl

theorem leafTextPure_mdc (env : Env) (r : Record) (key : List Lit) (dflt : Option (List Lit)) :
    leafTextPure env r (.mdc (litChars key) (dfltChars dflt)) = mdcValue env key dflt := by
  simp only [leafTextPure, leafText, mdcValue]
  cases mdcGet env.mdc (litChars key) with
  | some v => rfl
  | none => cases dflt <;> rfl

theorem opsChunk_text (env : Env) (r : Record) (s : List Char) : opsChunk env r (.text s) = ofText s := by
  rw [opsChunk]
theorem opsChunk_leaf (env : Env) (r : Record) (k : Leaf) (p : Params) :
    opsChunk env r (.leaf k p) = codeFmtOps p (ofText (leafTextPure env r k)) := by rw [opsChunk]
theorem opsChunk_group (env : Env) (r : Record) (g : GroupKind) (cs : List Chunk) (p : Params) :
    opsChunk env r (.group g cs p) =
      codeFmtOps p (match g with
        | .align => opsList env r cs
        | .highlight => wrapHighlight r.level (opsList env r cs)
        | .debug => if env.debugBuild then opsList env r cs else []
        | .release => if env.debugBuild then [] else opsList env r cs) := by
  cases g <;> rw [opsChunk]
theorem opsList_nil (env : Env) (r : Record) : opsList env r [] = [] := by rw [opsList]
theorem opsList_cons (env : Env) (r : Record) (c : Chunk) (cs : List Chunk) :
    opsList env r (c :: cs) = opsChunk env r c ++ opsList env r cs := by rw [opsList]

theorem denotePat_lit (env r l) : denotePat env r (.lit l) = [l.c] := by rw [denotePat]
theorem denotePat_leaf (env r k long spec) :
    denotePat env r (.leaf k long spec) = applySpec spec (leafValue env r k) := by rw [denotePat]
theorem denotePat_date (env r long args spec) :
    denotePat env r (.date long args spec) =
      applySpec spec (env.dateText (dateRequest args).1 (dateRequest args).2) := by rw [denotePat]
theorem denotePat_mdc (env r long key dflt spec) :
    denotePat env r (.mdc long key dflt spec) = applySpec spec (mdcValue env key dflt) := by rw [denotePat]
theorem denotePat_group (env : Env) (r : Record) (k long body spec) :
    denotePat env r (.group k long body spec) =
      applySpec spec (match k with
        | .align => denotePats env r body
        | .highlight => denotePats env r body
        | .debug => if env.debugBuild then denotePats env r body else []
        | .release => if env.debugBuild then [] else denotePats env r body) := by
  cases k <;> rw [denotePat]
theorem denotePats_nil (env r) : denotePats env r [] = [] := by rw [denotePats]
theorem denotePats_cons (env r p ps) :
    denotePats env r (p :: ps) = denotePat env r p ++ denotePats env r ps := by rw [denotePats]

theorem allDatesPat_date (long args spec) : allDatesPat (.date long args spec) = [(dateRequest args).1] := by
  rw [allDatesPat]
theorem allDatesPat_group (k long body spec) : allDatesPat (.group k long body spec) = allDatesPats body := by
  rw [allDatesPat]
theorem allDatesPats_cons (p : Pat) (ps : List Pat) : allDatesPats (p :: ps) = allDatesPat p ++ allDatesPats ps := by
  rw [allDatesPats]

theorem dateChunkOf_ok (B : Build) (args : Option (List Lit × Option Bool)) (spec : Option FormatSpec)
    (h : B.dateOk (dateRequest args).1 = true) :
    dateChunkOf B args spec = .leaf (.time (dateRequest args).1 (dateRequest args).2) (paramsOf spec) := by
  simp [dateChunkOf, h]

theorem opsChunk_error (env : Env) (r : Record) (e : List Char) :
    opsChunk env r (.error e) = ofText (errorMarker e) := by rw [opsChunk]

theorem styles_dateChunkOf (B : Build) (env : Env) (r : Record) (args spec) :
    (opsChunk env r (dateChunkOf B args spec)).styles = [] := by
  unfold dateChunkOf
  split
  · rw [opsChunk_error, styles_ofText]
  · rw [opsChunk_leaf, styles_codeFmtOps, styles_ofText]

mutual
theorem text_chunkOf (B : Build) (bits : Nat) (env : Env) (r : Record) :
    ∀ (p : Pat) (inArg : Bool), wfPat bits inArg p = true → (∀ f ∈ allDatesPat p, B.dateOk f = true) →
      (opsChunk env r (chunkOf B p)).text = denotePat env r p
  | .lit l, _, _, _ => by rw [chunkOf_lit, opsChunk_text, denotePat_lit, ofText_text]
  | .leaf k long spec, inArg, h, _ => by
    rw [wfPat_leaf] at h
    rw [chunkOf_leaf, opsChunk_leaf, denotePat_leaf, text_codeFmt_spec spec _ h, ofText_text,
      leafTextPure_leaf]
  | .date long args spec, inArg, h, hD => by
    rw [wfPat_date] at h
    simp only [Bool.and_eq_true] at h
    rw [allDatesPat_date] at hD
    rw [chunkOf_date, dateChunkOf_ok B args spec (hD _ List.mem_cons_self), opsChunk_leaf, denotePat_date,
      text_codeFmt_spec spec _ h.2, ofText_text]
    rfl
  | .mdc long key dflt spec, inArg, h, _ => by
    rw [wfPat_mdc] at h
    simp only [Bool.and_eq_true] at h
    rw [chunkOf_mdc, opsChunk_leaf, denotePat_mdc, text_codeFmt_spec spec _ h.2, ofText_text,
      leafTextPure_mdc]
  | .group k long body spec, inArg, h, hD => by
    rw [wfPat_group] at h
    simp only [Bool.and_eq_true] at h
    rw [allDatesPat_group] at hD
    have ih := text_chunksOf B bits env r body true h.1 hD
    rw [chunkOf_group, opsChunk_group, denotePat_group, text_codeFmt_spec spec _ h.2]
    cases k
    · simp only [ih]
    · simp only [text_wrapHighlight, ih]
    · by_cases hd : env.debugBuild = true <;> simp [hd, ih, text_nil]
    · by_cases hd : env.debugBuild = true <;> simp [hd, ih, text_nil]
theorem text_chunksOf (B : Build) (bits : Nat) (env : Env) (r : Record) :
    ∀ (ps : List Pat) (inArg : Bool), wfPats bits inArg ps = true →
      (∀ f ∈ allDatesPats ps, B.dateOk f = true) →
      (opsList env r (chunksOf B ps)).text = denotePats env r ps
  | [], _, _, _ => by rw [chunksOf_nil, opsList_nil, denotePats_nil]; rfl
  | p :: ps, inArg, h, hD => by
    rw [wfPats_cons] at h
    simp only [Bool.and_eq_true] at h
    rw [allDatesPats_cons] at hD
    rw [chunksOf_cons, opsList_cons, denotePats_cons, text_append,
      text_chunkOf B bits env r p inArg h.1 (fun f hf => hD f (List.mem_append_left _ hf)),
      text_chunksOf B bits env r ps inArg h.2 (fun f hf => hD f (List.mem_append_right _ hf))]
end

theorem stylesPat_group (env : Env) (r : Record) (k long body spec) :
    stylesPat env r (.group k long body spec) =
      match k with
      | .align => stylesPats env r body
      | .highlight =>
        match highlightStyle r.level with
        | some s => s :: stylesPats env r body ++ [Style.plain]
        | none => stylesPats env r body
      | .debug => if env.debugBuild then stylesPats env r body else []
      | .release => if env.debugBuild then [] else stylesPats env r body := by
  cases k <;> rw [stylesPat] <;> try rfl
theorem stylesPat_lit (env r l) : stylesPat env r (.lit l) = [] := by
  rw [stylesPat]; intros; contradiction
theorem stylesPat_leaf (env r k long spec) : stylesPat env r (.leaf k long spec) = [] := by
  rw [stylesPat]; intros; contradiction
theorem stylesPat_date (env r long args spec) : stylesPat env r (.date long args spec) = [] := by
  rw [stylesPat]; intros; contradiction
theorem stylesPat_mdc (env r long key dflt spec) : stylesPat env r (.mdc long key dflt spec) = [] := by
  rw [stylesPat]; intros; contradiction
theorem stylesPats_nil (env r) : stylesPats env r [] = [] := by rw [stylesPats]
theorem stylesPats_cons (env r p ps) :
    stylesPats env r (p :: ps) = stylesPat env r p ++ stylesPats env r ps := by rw [stylesPats]

mutual
theorem styles_chunkOf (B : Build) (env : Env) (r : Record) :
    ∀ (p : Pat), (opsChunk env r (chunkOf B p)).styles = stylesPat env r p
  | .lit l => by rw [chunkOf_lit, opsChunk_text, styles_ofText, stylesPat_lit]
  | .leaf k long spec => by rw [chunkOf_leaf, opsChunk_leaf, styles_codeFmtOps, styles_ofText, stylesPat_leaf]
  | .date long args spec => by rw [chunkOf_date, styles_dateChunkOf, stylesPat_date]
  | .mdc long key dflt spec => by rw [chunkOf_mdc, opsChunk_leaf, styles_codeFmtOps, styles_ofText, stylesPat_mdc]
  | .group k long body spec => by
    have ih := styles_chunksOf B env r body
    rw [chunkOf_group, opsChunk_group, styles_codeFmtOps, stylesPat_group]
    cases k
    · simp only [ih]
    · simp only [styles_wrapHighlight, ih]
    · by_cases hd : env.debugBuild = true <;> simp [hd, ih, styles_nil]
    · by_cases hd : env.debugBuild = true <;> simp [hd, ih, styles_nil]
theorem styles_chunksOf (B : Build) (env : Env) (r : Record) :
    ∀ (ps : List Pat), (opsList env r (chunksOf B ps)).styles = stylesPats env r ps
  | [] => by rw [chunksOf_nil, opsList_nil, stylesPats_nil]; rfl
  | p :: ps => by
    rw [chunksOf_cons, opsList_cons, stylesPats_cons, styles_append, styles_chunkOf B env r p,
      styles_chunksOf B env r ps]
end

theorem datesPat_group (env : Env) (k long body spec) :
    datesPat env (.group k long body spec) =
      match k with
      | .debug => if env.debugBuild then datesPats env body else []
      | .release => if env.debugBuild then [] else datesPats env body
      | _ => datesPats env body := by
  cases k <;> rw [datesPat] <;> first | rfl | (intros; contradiction)
theorem datesPat_lit (env l) : datesPat env (.lit l) = [] := by
  rw [datesPat] <;> (intros; contradiction)
theorem datesPat_leaf (env k long spec) : datesPat env (.leaf k long spec) = [] := by
  rw [datesPat] <;> (intros; contradiction)
theorem datesPat_mdc (env long key dflt spec) : datesPat env (.mdc long key dflt spec) = [] := by
  rw [datesPat] <;> (intros; contradiction)
theorem datesPat_date (env long args spec) : datesPat env (.date long args spec) = [dateRequest args] := by
  rw [datesPat]
theorem datesPats_nil (env) : datesPats env [] = [] := by rw [datesPats]
theorem datesPats_cons (env p ps) : datesPats env (p :: ps) = datesPat env p ++ datesPats env ps := by
  rw [datesPats]

mutual
theorem rendered_chunkOf (B : Build) (env : Env) : ∀ (p : Pat), (∀ f ∈ allDatesPat p, B.dateOk f = true) →
    renderedTimes env (chunkOf B p) = datesPat env p
  | .lit l, _ => by rw [chunkOf_lit, renderedTimes, datesPat_lit]
  | .leaf k long spec, _ => by
    rw [chunkOf_leaf, datesPat_leaf]
    cases k <;> simp only [LeafKind.leaf] <;> rw [renderedTimes] <;> (intros; contradiction)
  | .date long args spec, hD => by
    rw [allDatesPat_date] at hD
    rw [chunkOf_date, dateChunkOf_ok B args spec (hD _ List.mem_cons_self), renderedTimes, datesPat_date]
  | .mdc long key dflt spec, _ => by
    rw [chunkOf_mdc, datesPat_mdc, renderedTimes]
    intros; contradiction
  | .group k long body spec, hD => by
    rw [allDatesPat_group] at hD
    have ih := rendered_chunksOf B env body hD
    rw [chunkOf_group, datesPat_group, ← ih]
    cases k <;> rw [renderedTimes] <;> first | rfl | (intros; contradiction)
theorem rendered_chunksOf (B : Build) (env : Env) : ∀ (ps : List Pat),
    (∀ f ∈ allDatesPats ps, B.dateOk f = true) → renderedTimesL env (chunksOf B ps) = datesPats env ps
  | [], _ => by rw [chunksOf_nil, renderedTimesL, datesPats_nil]
  | p :: ps, hD => by
    rw [allDatesPats_cons] at hD
    rw [chunksOf_cons, renderedTimesL, datesPats_cons,
      rendered_chunkOf B env p (fun f hf => hD f (List.mem_append_left _ hf)),
      rendered_chunksOf B env ps (fun f hf => hD f (List.mem_append_right _ hf))]
end

mutual
theorem chunkOf_unalias (B : Build) : ∀ (p : Pat), chunkOf B (unalias p) = chunkOf B p
  | .lit l => by rw [unalias]
  | .leaf k long spec => by rw [unalias, chunkOf_leaf, chunkOf_leaf]
  | .date long args spec => by rw [unalias, chunkOf_date, chunkOf_date]
  | .mdc long key dflt spec => by rw [unalias, chunkOf_mdc, chunkOf_mdc]
  | .group k long body spec => by rw [unalias, chunkOf_group, chunkOf_group, chunksOf_unalias B body]
theorem chunksOf_unalias (B : Build) : ∀ (ps : List Pat), chunksOf B (unaliasL ps) = chunksOf B ps
  | [] => by rw [unaliasL]
  | p :: ps => by rw [unaliasL, chunksOf_cons, chunksOf_cons, chunkOf_unalias B p, chunksOf_unalias B ps]
end

mutual
theorem wfPat_unalias (bits : Nat) : ∀ (p : Pat) (inArg : Bool), wfPat bits inArg p = true →
    wfPat bits inArg (unalias p) = true
  | .lit l, _, h => by rw [unalias]; exact h
  | .leaf k long spec, inArg, h => by
    rw [wfPat_leaf] at h
    rw [unalias, wfPat_leaf]; exact h
  | .date long args spec, inArg, h => by
    rw [wfPat_date] at h
    rw [unalias, wfPat_date]; exact h
  | .mdc long key dflt spec, inArg, h => by
    rw [wfPat_mdc] at h
    rw [unalias, wfPat_mdc]; exact h
  | .group k long body spec, inArg, h => by
    rw [wfPat_group] at h
    simp only [Bool.and_eq_true] at h
    rw [unalias, wfPat_group]
    simp only [Bool.and_eq_true]
    exact ⟨wfPats_unalias bits body true h.1, h.2⟩
theorem wfPats_unalias (bits : Nat) : ∀ (ps : List Pat) (inArg : Bool), wfPats bits inArg ps = true →
    wfPats bits inArg (unaliasL ps) = true
  | [], _, _ => by rw [unaliasL, wfPats_nil]
  | p :: ps, inArg, h => by
    rw [wfPats_cons] at h
    simp only [Bool.and_eq_true] at h
    rw [unaliasL, wfPats_cons]
    simp only [Bool.and_eq_true]
    exact ⟨wfPat_unalias bits p inArg h.1, wfPats_unalias bits ps inArg h.2⟩
end

mutual
/-- writing a formatter in its short form does not change the nesting depth -/
theorem depthPat_unalias : ∀ (p : Pat), depthPat (unalias p) = depthPat p
  | .lit l => by rw [unalias]
  | .leaf k long spec => by rw [unalias, depthPat_leaf, depthPat_leaf]
  | .date long none spec => by rw [unalias, depthPat_date_none, depthPat_date_none]
  | .date long (some fz) spec => by rw [unalias, depthPat_date_some, depthPat_date_some]
  | .mdc long key dflt spec => by rw [unalias, depthPat_mdc, depthPat_mdc]
  | .group k long body spec => by
    rw [unalias, depthPat_group, depthPat_group, depthPats_unalias body]
theorem depthPats_unalias : ∀ (ps : List Pat), depthPats (unaliasL ps) = depthPats ps
  | [] => by rw [unaliasL]
  | p :: ps => by
    rw [unaliasL, depthPats_cons, depthPats_cons, depthPat_unalias p, depthPats_unalias ps]
end

theorem WF_unalias (P : Profile) (ps : List Pat) (h : WF P ps) : WF P (unaliasL ps) :=
  ⟨wfPats_unalias P.wordBits ps false h.1, by rw [depthPats_unalias]; exact h.2⟩

mutual
theorem stylesPat_noHighlight (env : Env) (r : Record) : ∀ (p : Pat), hasHighlight p = false →
    stylesPat env r p = []
  | .lit l, _ => stylesPat_lit env r l
  | .leaf k long spec, _ => stylesPat_leaf env r k long spec
  | .date long args spec, _ => stylesPat_date env r long args spec
  | .mdc long key dflt spec, _ => stylesPat_mdc env r long key dflt spec
  | .group k long body spec, h => by
    rw [hasHighlight] at h
    simp only [Bool.or_eq_false_iff] at h
    have ih := stylesPats_noHighlight env r body h.2
    rw [stylesPat_group]
    cases k
    · simp only [ih]
    · simp at h
    · simp only [ih]; split <;> rfl
    · simp only [ih]; split <;> rfl
theorem stylesPats_noHighlight (env : Env) (r : Record) : ∀ (ps : List Pat), hasHighlightL ps = false →
    stylesPats env r ps = []
  | [], _ => by rw [stylesPats_nil]
  | p :: ps, h => by
    rw [hasHighlightL] at h
    simp only [Bool.or_eq_false_iff] at h
    rw [stylesPats_cons, stylesPat_noHighlight env r p h.1, stylesPats_noHighlight env r ps h.2]; rfl
end

mutual
theorem stylesPat_unstyledLevel (env : Env) (r : Record) (hl : highlightStyle r.level = none) :
    ∀ (p : Pat), stylesPat env r p = []
  | .lit l => stylesPat_lit env r l
  | .leaf k long spec => stylesPat_leaf env r k long spec
  | .date long args spec => stylesPat_date env r long args spec
  | .mdc long key dflt spec => stylesPat_mdc env r long key dflt spec
  | .group k long body spec => by
    have ih := stylesPats_unstyledLevel env r hl body
    rw [stylesPat_group]
    cases k
    · simp only [ih]
    · simp only [hl, ih]
    · simp only [ih]; split <;> rfl
    · simp only [ih]; split <;> rfl
theorem stylesPats_unstyledLevel (env : Env) (r : Record) (hl : highlightStyle r.level = none) :
    ∀ (ps : List Pat), stylesPats env r ps = []
  | [] => by rw [stylesPats_nil]
  | p :: ps => by
    rw [stylesPats_cons, stylesPat_unstyledLevel env r hl p, stylesPats_unstyledLevel env r hl ps]; rfl
end

/-- a concrete environment and record for witnesses -/
def witnessEnv : Env :=
  { strftimeOk := fun _ => true, dateText := fun _ _ => [], threadName := none,
    threadId := 7, pid := 0, mdc := [], debugBuild := true }

def witnessRecord : Record := { level := 3, message := [], target := [] }

end Log4rs.Pattern.Parse
