import Log4rsModel.Pattern.Parser
/-
Model of `impl From<Piece> for Chunk` in `src/encode/pattern/mod.rs`: the formatter table with its
aliases, the arity checks, the date / MDC argument handling and the error texts, verbatim.

`Chunk::Formatted { chunk: FormattedChunk, params }` is split by shape: formatters without
children are `leaf`, the four formatters that hold `Vec<Chunk>` are `group`.
-/
namespace Log4rs.Pattern.Parse

/-- the `FormattedChunk` variants without children -/
inductive Leaf where
  | time (fmt : List Char) (utc : Bool)
  | level | message | module | file | line | thread | threadId | processId | systemThreadId
  | target | newline
  | mdc (key dflt : List Char)
  deriving Repr, DecidableEq

/-- `Align` (the unnamed formatter), `Highlight`, `Debug`, `Release` -/
inductive GroupKind where
  | align | highlight | debug | release
  deriving Repr, DecidableEq

inductive Chunk where
  | text (s : List Char)
  | error (e : List Char)
  | leaf (k : Leaf) (p : Params)
  | group (k : GroupKind) (cs : List Chunk) (p : Params)
  deriving Repr, Inhabited

def eAtMostTwo : List Char := cs!"expected at most two arguments"
def eExactlyOne : List Char := cs!"expected exactly one argument"
def eUnexpectedArgs : List Char := cs!"unexpected arguments"
def eInvalidTimezone : List Char := cs!"invalid timezone"
def eInvalidMdcKey : List Char := cs!"invalid MDC key"
def eMissingMdcKey : List Char := cs!"missing MDC key"
def eInvalidMdcDefault : List Char := cs!"invalid MDC default"
def eInvalidTimezoneNamed (z : List Char) : List Char := cs!"invalid timezone `" ++ z ++ ['`']
def eUnknownFormatter (n : List Char) : List Char := cs!"unknown formatter `" ++ n ++ ['`']
def errOpen : List Char := cs!"{ERROR: "

/-- the date format string: text pieces concatenated; other pieces leave an error marker *inside
the format string* -/
def dateFormatOf : List Piece → List Char
  | [] => []
  | .text t :: r => t ++ dateFormatOf r
  | .arg _ _ _ :: r => cs!"{ERROR: unexpected formatter}" ++ dateFormatOf r
  | .error e :: r => errOpen ++ e ++ ['}'] ++ dateFormatOf r

/-- `Ok(utc?)` or the error chunk text -/
def timezoneOf (arg : List Piece) : Except (List Char) Bool :=
  match arg with
  | .text z :: _ =>
    if z = cs!"utc" then .ok true
    else if z = cs!"local" then .ok false
    else .error (eInvalidTimezoneNamed z)
  | _ :: _ => .error eInvalidTimezone
  | [] => .error eInvalidTimezone

/-- the MDC key / default: only the FIRST piece of the argument is looked at -/
def mdcTextOf (invalid : List Char) (arg : List Piece) : Except (List Char) (List Char) :=
  match arg with
  | .text k :: _ => .ok k
  | .error e :: _ => .error e
  | .arg _ _ _ :: _ => .error invalid
  | [] => .error invalid

def noArgs (args : List (List Piece)) (p : Params) (k : Leaf) : Chunk :=
  if args.isEmpty then .leaf k p else .error eUnexpectedArgs

def dateChunk (args : List (List Piece)) (p : Params) : Chunk :=
  if args.length > 2 then .error eAtMostTwo
  else
    let format := match args with
      | a :: _ => dateFormatOf a
      | [] => cs!"%+"
    match args with
    | _ :: z :: _ =>
      match timezoneOf z with
      | .ok utc => .leaf (.time format utc) p
      | .error e => .error e
    | _ => .leaf (.time format false) p

def mdcChunk (args : List (List Piece)) (p : Params) : Chunk :=
  if args.length > 2 then .error eAtMostTwo
  else
    match args with
    | [] => .error eMissingMdcKey
    | k :: rest =>
      match mdcTextOf eInvalidMdcKey k with
      | .error e => .error e
      | .ok key =>
        match rest with
        | d :: _ =>
          match mdcTextOf eInvalidMdcDefault d with
          | .error e => .error e
          | .ok dflt => .leaf (.mdc key dflt) p
        | [] => .leaf (.mdc key []) p

/-- the formatters without arguments: name ↦ chunk -/
def leafOfName (n : List Char) : Option Leaf :=
  if n = cs!"l" || n = cs!"level" then some .level
  else if n = cs!"m" || n = cs!"message" then some .message
  else if n = cs!"M" || n = cs!"module" then some .module
  else if n = cs!"n" then some .newline
  else if n = cs!"f" || n = cs!"file" then some .file
  else if n = cs!"L" || n = cs!"line" then some .line
  else if n = cs!"T" || n = cs!"thread" then some .thread
  else if n = cs!"I" || n = cs!"thread_id" then some .threadId
  else if n = cs!"P" || n = cs!"pid" then some .processId
  else if n = cs!"i" || n = cs!"tid" then some .systemThreadId
  else if n = cs!"t" || n = cs!"target" then some .target
  else none

/-- the formatters with exactly one pattern argument -/
def groupOfName (n : List Char) : Option GroupKind :=
  if n = cs!"h" || n = cs!"highlight" then some .highlight
  else if n = cs!"D" || n = cs!"debug" then some .debug
  else if n = cs!"R" || n = cs!"release" then some .release
  else if n = [] then some .align
  else none

mutual
/-- `impl From<Piece> for Chunk` -/
def compile : Piece → Chunk
  | .text s => .text s
  | .error e => .error e
  | .arg n args p =>
    if n = cs!"d" || n = cs!"date" then dateChunk args p
    else match groupOfName n with
      | some g =>
        match args with
        | [a] => .group g (compileL a) p
        | _ => .error eExactlyOne
      | none =>
        match leafOfName n with
        | some k => noArgs args p k
        | none =>
          if n = cs!"X" || n = cs!"mdc" then mdcChunk args p
          else .error (eUnknownFormatter n)
def compileL : List Piece → List Chunk
  | [] => []
  | p :: ps => compile p :: compileL ps
end

end Log4rs.Pattern.Parse
