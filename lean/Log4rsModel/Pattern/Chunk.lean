import Log4rsModel.Pattern.Parser
/-
Model of `impl From<Piece> for Chunk` in `src/encode/pattern/mod.rs`: the formatter table with its
aliases, the arity checks, the date / MDC argument handling and the error texts, verbatim.

`Chunk::Formatted { chunk: FormattedChunk, params }` is split by shape: formatters without
children are `leaf`, the four formatters that hold `Vec<Chunk>` are `group`.
-/
namespace Log4rs.Pattern.Parse

/-- the `FormattedChunk` variants without children -/
inductive Leaf where
  | time (fmt : List Char) (utc : Bool)
  | level | message | module | file | line | thread | threadId | processId | systemThreadId
  | target | newline
  | mdc (key dflt : List Char)
  deriving Repr, DecidableEq

/-- `Align` (the unnamed formatter), `Highlight`, `Debug`, `Release` -/
inductive GroupKind where
  | align | highlight | debug | release
  deriving Repr, DecidableEq

inductive Chunk where
  | text (s : List Char)
  | error (e : List Char)
  | leaf (k : Leaf) (p : Params)
  | group (k : GroupKind) (cs : List Chunk) (p : Params)
  deriving Repr, Inhabited

/-- input facts and repair switches of `impl From<Piece> for Chunk` -/
structure Build where
  /-- `write!(String, "{}", Utc::now().format(fmt))` succeeds: the trial rendering at construction
  (commit ea62e36). An input: chrono's verdict, reported by the harness. -/
  renderOk : List Char → Bool
  /-- historical (commit 73e36b9, superseded): `chrono::format::StrftimeItems::new(fmt)` yields no
  `Item::Error` -/
  itemsOk : List Char → Bool := fun _ => true
  /-- repair of F4: a date format chrono rejects is an error chunk at construction.
  `false` = the code before the repair. -/
  dateCheck : Bool := true
  /-- `true` = the intermediate repair 73e36b9 (items scan, lets the parse-only `%#z` through);
  `false` = the current code (trial rendering) -/
  itemsScan : Bool := false
  /-- repair of F6b (commit 7be4123): an MDC key / default is all text pieces of its argument
  joined (`plain_text`). `false` = the code before the repair (first piece only). -/
  mdcWhole : Bool := true
  /-- FINDING `C11/timezone-junk-accepted` (open): the time-zone argument of `d`/`date` is judged by
  its FIRST piece only (`arg.first()`, mod.rs:424-440), so `(utc}x)`, `(utc{m})`, `(local{{junk)` are
  accepted silently. `false` = the code as it is; `true` = the proposed repair (the argument is
  read whole through `plain_text`, like the MDC key since 7be4123). -/
  tzWholeArg : Bool := true
  /-- repair of `C09/mdc-empty-argument` (round 6): an explicitly EMPTY MDC key or default argument
  (`{X()}`, `{X(k)()}`) is the empty string — the documentation says the default "defaults to the
  empty string", and `""` is a legal MDC key. `false` = the code before the repair: `plain_text`
  answers `invalid MDC key` / `invalid MDC default` for an empty argument. -/
  mdcEmptyOk : Bool := true

/-- the verdict the construction-time check consults -/
def Build.dateOk (B : Build) (fmt : List Char) : Bool :=
  if B.itemsScan then B.itemsOk fmt else B.renderOk fmt

def eAtMostTwo : List Char := cs!"expected at most two arguments"
def eExactlyOne : List Char := cs!"expected exactly one argument"
def eUnexpectedArgs : List Char := cs!"unexpected arguments"
def eInvalidTimezone : List Char := cs!"invalid timezone"
def eInvalidMdcKey : List Char := cs!"invalid MDC key"
def eMissingMdcKey : List Char := cs!"missing MDC key"
def eInvalidMdcDefault : List Char := cs!"invalid MDC default"
def eInvalidTimezoneNamed (z : List Char) : List Char := cs!"invalid timezone `" ++ z ++ ['`']
def eUnknownFormatter (n : List Char) : List Char := cs!"unknown formatter `" ++ n ++ ['`']
def eInvalidDateFormat (f : List Char) : List Char := cs!"invalid date format `" ++ f ++ ['`']
def errOpen : List Char := cs!"{ERROR: "

/-- the date format string: text pieces concatenated; other pieces leave an error marker *inside
the format string* -/
def dateFormatOf : List Piece → List Char
  | [] => []
  | .text t :: r => t ++ dateFormatOf r
  | .arg _ _ _ :: r => cs!"{ERROR: unexpected formatter}" ++ dateFormatOf r
  | .error e :: r => errOpen ++ e ++ ['}'] ++ dateFormatOf r

/-- `Ok(utc?)` or the error chunk text -/
def timezoneOf (arg : List Piece) : Except (List Char) Bool :=
  match arg with
  | .text z :: _ =>
    if z = cs!"utc" then .ok true
    else if z = cs!"local" then .ok false
    else .error (eInvalidTimezoneNamed z)
  | _ :: _ => .error eInvalidTimezone
  | [] => .error eInvalidTimezone

/-- the MDC key / default: only the FIRST piece of the argument is looked at -/
def mdcTextOf (invalid : List Char) (arg : List Piece) : Except (List Char) (List Char) :=
  match arg with
  | .text k :: _ => .ok k
  | .error e :: _ => .error e
  | .arg _ _ _ :: _ => .error invalid
  | [] => .error invalid

/-- the loop of `plain_text`: text pieces joined; the first error or nested formatter decides -/
def plainTextLoop (invalid : List Char) : List Piece → Except (List Char) (List Char)
  | [] => .ok []
  | .text t :: r =>
    match plainTextLoop invalid r with
    | .ok rest => .ok (t ++ rest)
    | .error e => .error e
  | .error e :: _ => .error e
  | .arg _ _ _ :: _ => .error invalid

/-- `plain_text(arg, invalid)` (repair of F6b): an empty argument is invalid -/
def plainTextOf (invalid : List Char) (arg : List Piece) : Except (List Char) (List Char) :=
  match arg with
  | [] => .error invalid
  | _ :: _ => plainTextLoop invalid arg

/-- the MDC key / default of an argument, before or after the repair -/
def mdcArgText (B : Build) (invalid : List Char) (arg : List Piece) : Except (List Char) (List Char) :=
  if B.mdcWhole then plainTextOf invalid arg else mdcTextOf invalid arg

/-- proposed repair: the whole argument must be the text `utc` / `local`; a syntax error inside it
surfaces as itself, anything else is `invalid timezone` -/
def timezoneOfWhole (arg : List Piece) : Except (List Char) Bool :=
  match plainTextOf eInvalidTimezone arg with
  | .ok z =>
    if z = cs!"utc" then .ok true
    else if z = cs!"local" then .ok false
    else .error (eInvalidTimezoneNamed z)
  | .error e => .error e

/-- is the zone argument, read whole, exactly the text `utc` or `local` -/
def zoneArgValid (z : List Piece) : Bool :=
  match plainTextOf eInvalidTimezone z with
  | .ok t => t = cs!"utc" || t = cs!"local"
  | .error _ => false

/-- the time-zone argument, as the code reads it now or after the proposed repair -/
def tzOf (B : Build) (arg : List Piece) : Except (List Char) Bool :=
  if B.tzWholeArg then timezoneOfWhole arg else timezoneOf arg

def noArgs (args : List (List Piece)) (p : Params) (k : Leaf) : Chunk :=
  if args.isEmpty then .leaf k p else .error eUnexpectedArgs

/-- the format string of a date formatter's arguments -/
def dateFormatArg (args : List (List Piece)) : List Char :=
  match args with
  | a :: _ => dateFormatOf a
  | [] => cs!"%+"

def dateChunk (B : Build) (args : List (List Piece)) (p : Params) : Chunk :=
  if args.length > 2 then .error eAtMostTwo
  else
    let format := dateFormatArg args
    if B.dateCheck && !B.dateOk format then .error (eInvalidDateFormat format)
    else
    match args with
    | _ :: z :: _ =>
      match tzOf B z with
      | .ok utc => .leaf (.time format utc) p
      | .error e => .error e
    | _ => .leaf (.time format false) p

/-- `Some(arg) if arg.is_empty() => String::new()` in front of `plain_text` (the repair) -/
def mdcArg (B : Build) (invalid : List Char) (arg : List Piece) : Except (List Char) (List Char) :=
  if B.mdcEmptyOk && arg.isEmpty then .ok [] else mdcArgText B invalid arg

def mdcChunk (B : Build) (args : List (List Piece)) (p : Params) : Chunk :=
  if args.length > 2 then .error eAtMostTwo
  else
    match args with
    | [] => .error eMissingMdcKey
    | k :: rest =>
      match mdcArg B eInvalidMdcKey k with
      | .error e => .error e
      | .ok key =>
        match rest with
        | d :: _ =>
          match mdcArg B eInvalidMdcDefault d with
          | .error e => .error e
          | .ok dflt => .leaf (.mdc key dflt) p
        | [] => .leaf (.mdc key []) p

/-- the formatters without arguments: name ↦ chunk (the `no_args` arms of the `match`) -/
def leafTable : List (List Char × Leaf) := [
  (cs!"l", .level), (cs!"level", .level),
  (cs!"m", .message), (cs!"message", .message),
  (cs!"M", .module), (cs!"module", .module),
  (cs!"n", .newline),
  (cs!"f", .file), (cs!"file", .file),
  (cs!"L", .line), (cs!"line", .line),
  (cs!"T", .thread), (cs!"thread", .thread),
  (cs!"I", .threadId), (cs!"thread_id", .threadId),
  (cs!"P", .processId), (cs!"pid", .processId),
  (cs!"i", .systemThreadId), (cs!"tid", .systemThreadId),
  (cs!"t", .target), (cs!"target", .target)]

def leafLookup (n : List Char) : List (List Char × Leaf) → Option Leaf
  | [] => none
  | (m, k) :: rest => if n = m then some k else leafLookup n rest

def leafOfName (n : List Char) : Option Leaf := leafLookup n leafTable

/-- the formatters with exactly one pattern argument -/
def groupOfName (n : List Char) : Option GroupKind :=
  if n = cs!"h" || n = cs!"highlight" then some .highlight
  else if n = cs!"D" || n = cs!"debug" then some .debug
  else if n = cs!"R" || n = cs!"release" then some .release
  else if n = [] then some .align
  else none

mutual
/-- `impl From<Piece> for Chunk` -/
def compile (B : Build) : Piece → Chunk
  | .text s => .text s
  | .error e => .error e
  | .arg n args p =>
    if n = cs!"d" || n = cs!"date" then dateChunk B args p
    else match groupOfName n with
      | some g =>
        match args with
        | [a] => .group g (compileL B a) p
        | _ => .error eExactlyOne
      | none =>
        match leafOfName n with
        | some k => noArgs args p k
        | none =>
          if n = cs!"X" || n = cs!"mdc" then mdcChunk B args p
          else .error (eUnknownFormatter n)
def compileL (B : Build) : List Piece → List Chunk
  | [] => []
  | p :: ps => compile B p :: compileL B ps
end

mutual
/-- the date formats `compile` asks chrono about (any depth) — the facts the driver needs -/
def neededFormats : Piece → List (List Char)
  | .text _ => []
  | .error _ => []
  | .arg n args _ =>
    (if n = cs!"d" || n = cs!"date" then [dateFormatArg args] else []) ++ neededFormatsLL args
def neededFormatsL : List Piece → List (List Char)
  | [] => []
  | p :: ps => neededFormats p ++ neededFormatsL ps
def neededFormatsLL : List (List Piece) → List (List Char)
  | [] => []
  | a :: as => neededFormatsL a ++ neededFormatsLL as
end

end Log4rs.Pattern.Parse
