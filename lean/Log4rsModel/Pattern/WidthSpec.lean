import Log4rsModel.Pattern.Writers
/-
Executable specification pieces for C10 beyond `specFmt` / `specTexts`:

* `specOrCode` — a hypothesis-free law through the tree: a spec with m ≤ M follows the statement
  (`specFmt`); a spec with m > M (outside the statement) follows the code's documented behaviour
  (pad the uncut text to m, keep M characters). One m > M node no longer voids the law for its
  siblings and ancestors.
* `matchNodes` — what the STATEMENT alone allows for a forest: a subtree whose every spec has m ≤ M
  must produce exactly its `specText`; a group without min/max is transparent; any other node (one
  with an m > M spec in or below it) may produce any text within its length window (≤ M always —
  "in every case at most M characters" —, ≥ m when its own spec is ordered). The driver accepts an
  observation iff its text can be cut into such segments.
* `decodeUpTo` — a byte prefix as complete characters plus at most one incomplete last character
  (failing runs).
Spec file: core only.
-/
namespace Log4rs.Pattern
open Log4rs

/-- the code's behaviour on text, for ALL m and M -/
def codeText (p : Params) (t : List Char) : List Char :=
  match p.maxW with
  | none => specFmt { p with maxW := none } t
  | some M => (specFmt { p with maxW := none } t).take M

def specOrCodeFmt (p : Params) (t : List Char) : List Char :=
  if p.ordered then specFmt p t else codeText p t

mutual
def specOrCode : Node → List Char
  | .leaf ps => (opsOf ps).text
  | .fmt p cs => specOrCodeFmt p (specOrCodes cs)
  | .gated true p cs => specOrCodeFmt p (specOrCodes cs)
  | .gated false p _ => specOrCodeFmt p []
def specOrCodes : List Node → List Char
  | [] => []
  | n :: ns => specOrCode n ++ specOrCodes ns
end

def Params.plain (p : Params) : Bool := p.minW.isNone && p.maxW.isNone

/-- the lengths the statement leaves to a spec'd node whose content it does not determine -/
def Params.window (p : Params) (n : Nat) : Bool :=
  (match p.maxW with | some M => decide (n ≤ M) | none => true) &&
  (match p.minW with | some m => !p.ordered || decide (m ≤ n) | none => true)

/-- length of `specFmt p t` as a function of the length of `t` -/
def Params.outLen (p : Params) (n : Nat) : Nat :=
  let c := match p.maxW with
    | some M => min M n
    | none => n
  match p.minW with
  | some m => max m c
  | none => c

mutual
/-- an upper bound the STATEMENT gives for the number of characters of a node (`none`: no bound):
exact for subtrees inside the statement, M for a node with an m > M spec, and for an m ≤ M node
above such nodes what its law makes of its children's bounds -/
def ubNode : Node → Option Nat
  | .leaf ps => some (opsOf ps).text.length
  | .fmt p cs => if p.ordered then (ubNodes cs).map p.outLen else p.maxW
  | .gated true p cs => if p.ordered then (ubNodes cs).map p.outLen else p.maxW
  | .gated false p _ => if p.ordered then some (p.outLen 0) else p.maxW
def ubNodes : List Node → Option Nat
  | [] => some 0
  | n :: ns =>
    match ubNode n, ubNodes ns with
    | some a, some b => some (a + b)
    | _, _ => none
end

def withinUb (ub : Option Nat) (n : Nat) : Bool :=
  match ub with
  | some k => decide (n ≤ k)
  | none => true

/-- all ways to cut `t` in two -/
def splits (t : List Char) : List (List Char × List Char) :=
  (List.range (t.length + 1)).map fun k => (t.take k, t.drop k)

mutual
def matchNode : Node → List Char → Bool
  | .leaf ps, t => decide (t = (opsOf ps).text)
  | .fmt p cs, t =>
    if (Node.fmt p cs).ordered then decide (t = specText (.fmt p cs))
    else if p.plain then matchNodes cs t
    else p.window t.length && withinUb (ubNode (.fmt p cs)) t.length
  | .gated true p cs, t =>
    if (Node.gated true p cs).ordered then decide (t = specText (.gated true p cs))
    else if p.plain then matchNodes cs t
    else p.window t.length && withinUb (ubNode (.gated true p cs)) t.length
  | .gated false p cs, t =>
    if p.ordered then decide (t = specText (.gated false p cs)) else p.window t.length
def matchNodes : List Node → List Char → Bool
  | [], t => t.isEmpty
  | n :: ns, t =>
    if n.ordered then
      let s := specText n
      decide (t.take s.length = s) && matchNodes ns (t.drop s.length)
    else (splits t).any fun (a, b) => matchNode n a && matchNodes ns b
end

/-- complete characters of a byte prefix, tolerating one incomplete character at the end: the
longest decodable prefix obtained by dropping at most 3 trailing bytes that begin with a lead byte
and contain no other -/
def decodeUpTo (b : Bytes) : Option (List Char × Bytes) :=
  (List.range (min 4 (b.length + 1))).findSome? fun k =>
    let body := b.take (b.length - k)
    let tail := b.drop (b.length - k)
    let tailOk := match tail with
      | [] => true
      | x :: rest => isLead x && decide (x ≥ 192) && rest.all (fun y => !isLead y)
    if tailOk then (decodeUtf8 body).map fun cs => (cs, tail) else none

end Log4rs.Pattern
