/-
Rust `str`/`char` semantics on `List Char`, written once and validated by the
correspondence check wherever used.
-/
namespace Log4rs.Str

/-- `char::is_ascii_digit` -/
def isAsciiDigit (c : Char) : Bool := '0'.toNat ≤ c.toNat && c.toNat ≤ '9'.toNat

/-- `char::is_whitespace` : the Unicode `White_Space` property (25 code points). -/
def isWhitespace (c : Char) : Bool :=
  let n := c.toNat
  (9 ≤ n && n ≤ 13) || n = 0x20 || n = 0x85 || n = 0xA0 || n = 0x1680 ||
  (0x2000 ≤ n && n ≤ 0x200A) || n = 0x2028 || n = 0x2029 || n = 0x202F ||
  n = 0x205F || n = 0x3000

def trimStart (s : List Char) : List Char := s.dropWhile isWhitespace

def trimEnd (s : List Char) : List Char := (s.reverse.dropWhile isWhitespace).reverse

/-- `str::trim` -/
def trim (s : List Char) : List Char := trimEnd (trimStart s)

/-- `char::to_ascii_lowercase` -/
def toAsciiLower (c : Char) : Char :=
  if 'A'.toNat ≤ c.toNat ∧ c.toNat ≤ 'Z'.toNat then Char.ofNat (c.toNat + 32) else c

/-- `str::eq_ignore_ascii_case` -/
def eqIgnoreAsciiCase (a b : List Char) : Bool := a.map toAsciiLower = b.map toAsciiLower

def digitVal (c : Char) : Nat := c.toNat - '0'.toNat

/-- value of a string of ASCII digits, most significant first (unbounded) -/
def digitsVal (ds : List Char) : Nat := ds.foldl (fun acc c => acc * 10 + digitVal c) 0

/-- decimal rendering, `u32::to_string` / `usize::to_string` -/
def decimal (n : Nat) : List Char := Nat.toDigits 10 n

/-- is `p` a prefix of `s` -/
def isPrefix : List Char → List Char → Bool
  | [], _ => true
  | _ :: _, [] => false
  | a :: p, b :: s => a = b && isPrefix p s

/-- `str::split(sep)` for a non-empty separator: leftmost, non-overlapping. Structural on a fuel
that equals the input length. -/
def splitOnAux (sep : List Char) : Nat → List Char → List Char → List (List Char)
  | 0, _, cur => [cur.reverse]
  | fuel + 1, s, cur =>
    match s with
    | [] => [cur.reverse]
    | c :: rest =>
      if isPrefix sep s then cur.reverse :: splitOnAux sep fuel (s.drop sep.length) []
      else splitOnAux sep fuel rest (c :: cur)

def splitOn (sep s : List Char) : List (List Char) := splitOnAux sep (s.length + 1) s []

end Log4rs.Str
