namespace Log4rs

/-- Result of a modelled Rust function that may return an error or panic. "Never panics" is a
theorem about this type, not an artefact of totality. -/
inductive Outcome (ε α : Type) where
  | ok (a : α)
  | err (e : ε)
  | panic (why : String)
  deriving Repr, DecidableEq

namespace Outcome
def isPanic {ε α} : Outcome ε α → Bool
  | panic _ => true
  | _ => false
def isOk {ε α} : Outcome ε α → Bool
  | ok _ => true
  | _ => false
end Outcome

end Log4rs
