/-
`encode::Style` / `encode::Color`. Colours are 0..7 in the order of the Rust enum
(Black Red Green Yellow Blue Magenta Cyan White), which is also the SGR digit.
-/
namespace Log4rs

structure Style where
  text : Option Nat := none
  background : Option Nat := none
  intense : Option Bool := none
  deriving Repr, DecidableEq

def Style.plain : Style := {}

/-- the styles `FormattedChunk::Highlight` sets per record level (1=Error … 5=Trace); `none` = no
style call at all (Debug) -/
def highlightStyle : Nat → Option Style
  | 1 => some { text := some 1, intense := some true }   -- Error: red, intense
  | 2 => some { text := some 3 }                          -- Warn: yellow
  | 3 => some { text := some 2 }                          -- Info: green
  | 5 => some { text := some 6 }                          -- Trace: cyan
  | _ => none

end Log4rs
