/-
UTF-8 as the pattern writers see it: bytes are `Nat`s below 256, a *lead* byte is one that starts
a character (`is_char_boundary(b) = (b as i8) >= -0x40`, i.e. `b < 128 || b >= 192`), every other
byte is a continuation byte. `leads` is `char_starts` of `encode/pattern/mod.rs`.
Model file: core only.
-/
namespace Log4rs

abbrev Bytes := List Nat

/-- the 1–4 byte UTF-8 encoding of one scalar value (`char::encode_utf8`) -/
def utf8Char (c : Char) : Bytes :=
  let n := c.toNat
  if n < 0x80 then [n]
  else if n < 0x800 then [0xC0 + n / 64, 0x80 + n % 64]
  else if n < 0x10000 then [0xE0 + n / 4096, 0x80 + (n / 64) % 64, 0x80 + n % 64]
  else [0xF0 + n / 262144, 0x80 + (n / 4096) % 64, 0x80 + (n / 64) % 64, 0x80 + n % 64]

/-- `str::as_bytes` -/
def utf8 (s : List Char) : Bytes := s.flatMap utf8Char

/-- `is_char_boundary` of `encode/pattern/mod.rs` -/
def isLead (b : Nat) : Bool := b < 128 || b ≥ 192

/-- `char_starts` of `encode/pattern/mod.rs` -/
def leads (b : Bytes) : Nat := (b.filter isLead).length

/-- strict UTF-8 decoder (used by the driver for the `String::from_utf8` clause): the code point of
the next character and the number of bytes it occupies -/
def decodeOne : Bytes → Option (Nat × Nat)
  | [] => none
  | b0 :: rest =>
    let cont (b : Nat) : Bool := 128 ≤ b && b < 192
    if b0 < 128 then some (b0, 1)
    else if 192 ≤ b0 && b0 < 224 then
      match rest with
      | b1 :: _ => if cont b1 then some ((b0 - 192) * 64 + (b1 - 128), 2) else none
      | _ => none
    else if 224 ≤ b0 && b0 < 240 then
      match rest with
      | b1 :: b2 :: _ =>
        if cont b1 && cont b2 then some ((b0 - 224) * 4096 + (b1 - 128) * 64 + (b2 - 128), 3) else none
      | _ => none
    else if 240 ≤ b0 && b0 < 248 then
      match rest with
      | b1 :: b2 :: b3 :: _ =>
        if cont b1 && cont b2 && cont b3 then
          some ((b0 - 240) * 262144 + (b1 - 128) * 4096 + (b2 - 128) * 64 + (b3 - 128), 4)
        else none
      | _ => none
    else none

/-- `String::from_utf8`: `some cs` iff the bytes are exactly `utf8 cs` (shortest form, no
surrogates); fuel = number of bytes -/
def decodeUtf8Fuel : Nat → Bytes → Option (List Char)
  | _, [] => some []
  | 0, _ :: _ => none
  | fuel + 1, b =>
    match decodeOne b with
    | none => none
    | some (n, k) =>
      if h : n.isValidChar then
        let c := Char.ofNatAux n h
        if utf8Char c = b.take k then
          match decodeUtf8Fuel fuel (b.drop k) with
          | some cs => some (c :: cs)
          | none => none
        else none
      else none

def decodeUtf8 (b : Bytes) : Option (List Char) := decodeUtf8Fuel b.length b


/-! ### lemmas (core only) -/

theorem leads_nil : leads [] = 0 := rfl

theorem leads_cons (x : Nat) (xs : Bytes) :
    leads (x :: xs) = (if isLead x then 1 else 0) + leads xs := by
  unfold leads
  by_cases h : isLead x <;> simp [h] <;> omega

theorem leads_append (a b : Bytes) : leads (a ++ b) = leads a + leads b := by
  simp [leads, List.filter_append]

theorem leads_take_add_drop (b : Bytes) (n : Nat) : leads (b.take n) + leads (b.drop n) = leads b := by
  rw [← leads_append, List.take_append_drop]

theorem leads_le_length (b : Bytes) : leads b ≤ b.length := List.length_filter_le _ _

/-- shape of one encoded character: a lead byte followed by continuation bytes only -/
theorem utf8Char_shape (c : Char) :
    ∃ h t, utf8Char c = h :: t ∧ isLead h = true ∧ (∀ b ∈ t, isLead b = false) ∧ t.length ≤ 3 := by
  have hv : c.toNat < 0x110000 := by
    have := c.valid
    unfold UInt32.isValidChar Nat.isValidChar at this
    show c.val.toNat < _
    omega
  unfold utf8Char
  simp only
  by_cases h1 : c.toNat < 0x80
  · refine ⟨c.toNat, [], by simp [h1], ?_, by simp, by simp⟩
    simp [isLead]; omega
  · by_cases h2 : c.toNat < 0x800
    · refine ⟨0xC0 + c.toNat / 64, [0x80 + c.toNat % 64], by simp [h1, h2], ?_, ?_, by simp⟩
      · simp [isLead]
      · intro b hb; simp at hb; subst hb; simp [isLead]; omega
    · by_cases h3 : c.toNat < 0x10000
      · refine ⟨0xE0 + c.toNat / 4096, [0x80 + (c.toNat / 64) % 64, 0x80 + c.toNat % 64],
          by simp [h1, h2, h3], ?_, ?_, by simp⟩
        · simp [isLead]; omega
        · intro b hb; simp at hb; rcases hb with hb | hb <;> subst hb <;> simp [isLead] <;> omega
      · refine ⟨0xF0 + c.toNat / 262144,
          [0x80 + (c.toNat / 4096) % 64, 0x80 + (c.toNat / 64) % 64, 0x80 + c.toNat % 64],
          by simp [h1, h2, h3], ?_, ?_, by simp⟩
        · simp [isLead]; omega
        · intro b hb; simp at hb
          rcases hb with hb | hb | hb <;> subst hb <;> simp [isLead] <;> omega

theorem utf8Char_head_lead (c : Char) : ∃ h t, utf8Char c = h :: t ∧ isLead h = true := by
  obtain ⟨h, t, e, hl, _, _⟩ := utf8Char_shape c
  exact ⟨h, t, e, hl⟩

theorem utf8Char_tail_cont (c : Char) : ∀ b ∈ (utf8Char c).tail, isLead b = false := by
  obtain ⟨h, t, e, _, hc, _⟩ := utf8Char_shape c
  rw [e]; exact hc

theorem utf8Char_length (c : Char) : 1 ≤ (utf8Char c).length ∧ (utf8Char c).length ≤ 4 := by
  obtain ⟨h, t, e, _, _, hl⟩ := utf8Char_shape c
  rw [e]; simp; omega

theorem leads_cont (t : Bytes) (h : ∀ b ∈ t, isLead b = false) : leads t = 0 := by
  induction t with
  | nil => rfl
  | cons x xs ih =>
    rw [leads_cons, ih (fun b hb => h b (List.mem_cons_of_mem _ hb))]
    simp [h x (List.mem_cons_self)]

theorem leads_utf8Char (c : Char) : leads (utf8Char c) = 1 := by
  obtain ⟨h, t, e, hl, hc, _⟩ := utf8Char_shape c
  rw [e, leads_cons, leads_cont t hc]; simp [hl]

theorem utf8_nil : utf8 [] = [] := rfl

theorem utf8_cons (c : Char) (cs : List Char) : utf8 (c :: cs) = utf8Char c ++ utf8 cs := by
  simp [utf8]

theorem utf8_append (a b : List Char) : utf8 (a ++ b) = utf8 a ++ utf8 b := by
  simp [utf8]

theorem utf8_singleton (c : Char) : utf8 [c] = utf8Char c := by simp [utf8]

/-- `char_starts(s.as_bytes()) = s.chars().count()` -/
theorem leads_utf8 (cs : List Char) : leads (utf8 cs) = cs.length := by
  induction cs with
  | nil => rfl
  | cons c cs ih => rw [utf8_cons, leads_append, leads_utf8Char, ih]; simp; omega

theorem utf8_eq_nil (cs : List Char) : utf8 cs = [] ↔ cs = [] := by
  constructor
  · intro h
    cases cs with
    | nil => rfl
    | cons c cs =>
      have := leads_utf8 (c :: cs)
      rw [h] at this; simp [leads] at this
  · intro h; subst h; rfl

/-- the decoder only accepts what the encoder produces: `String::from_utf8(b) = Ok(s)` implies
`b = s.as_bytes()` -/
theorem decodeUtf8Fuel_sound : ∀ fuel b cs, decodeUtf8Fuel fuel b = some cs → b = utf8 cs := by
  intro fuel
  induction fuel with
  | zero =>
    intro b cs h
    cases b with
    | nil => simp [decodeUtf8Fuel] at h; subst h; rfl
    | cons x xs => simp [decodeUtf8Fuel] at h
  | succ fuel ih =>
    intro b cs h
    cases b with
    | nil => simp [decodeUtf8Fuel] at h; subst h; rfl
    | cons x xs =>
      simp only [decodeUtf8Fuel] at h
      split at h
      · exact absurd h (by simp)
      · rename_i n k _
        split at h
        · rename_i hv
          split at h
          · rename_i henc
            split at h
            · rename_i cs' hrec
              simp at h; subst h
              have := ih _ _ hrec
              rw [utf8_cons, henc, ← this, List.take_append_drop]
            · exact absurd h (by simp)
          · exact absurd h (by simp)
        · exact absurd h (by simp)

theorem decodeUtf8_sound (b : Bytes) (cs : List Char) (h : decodeUtf8 b = some cs) : b = utf8 cs :=
  decodeUtf8Fuel_sound _ _ _ h

/-! ### the decoder accepts every encoding (completeness) -/

theorem char_toNat_lt (c : Char) : c.toNat < 0x110000 := by
  have := c.valid
  unfold UInt32.isValidChar Nat.isValidChar at this
  show c.val.toNat < _
  omega

theorem decodeOne_utf8Char (c : Char) (rest : Bytes) :
    decodeOne (utf8Char c ++ rest) = some (c.toNat, (utf8Char c).length) := by
  have hv := char_toNat_lt c
  unfold utf8Char
  simp only
  by_cases h1 : c.toNat < 0x80
  · simp [h1, decodeOne]
  · by_cases h2 : c.toNat < 0x800
    · simp only [h1, h2, if_true, if_false, List.cons_append, List.nil_append, decodeOne]
      have a1 : ¬ (192 + c.toNat / 64 < 128) := by omega
      have a2 : (192 ≤ 192 + c.toNat / 64 ∧ 192 + c.toNat / 64 < 224) := by omega
      have a3 : (128 ≤ 128 + c.toNat % 64 ∧ 128 + c.toNat % 64 < 192) := by omega
      simp [a1, a2, a3]
      omega
    · by_cases h3 : c.toNat < 0x10000
      · simp only [h1, h2, h3, if_true, if_false, List.cons_append, List.nil_append, decodeOne]
        have a1 : ¬ (224 + c.toNat / 4096 < 128) := by omega
        have a2 : ¬ (192 ≤ 224 + c.toNat / 4096 ∧ 224 + c.toNat / 4096 < 224) := by omega
        have a2' : (224 ≤ 224 + c.toNat / 4096 ∧ 224 + c.toNat / 4096 < 240) := by omega
        have a3 : (128 ≤ 128 + c.toNat / 64 % 64 ∧ 128 + c.toNat / 64 % 64 < 192) := by omega
        have a4 : (128 ≤ 128 + c.toNat % 64 ∧ 128 + c.toNat % 64 < 192) := by omega
        simp [a1, a2, a2', a3, a4]
        omega
      · simp only [h1, h2, h3, if_false, List.cons_append, List.nil_append, decodeOne]
        have a1 : ¬ (240 + c.toNat / 262144 < 128) := by omega
        have a2 : ¬ (192 ≤ 240 + c.toNat / 262144 ∧ 240 + c.toNat / 262144 < 224) := by omega
        have a2' : ¬ (224 ≤ 240 + c.toNat / 262144 ∧ 240 + c.toNat / 262144 < 240) := by omega
        have a2'' : (240 ≤ 240 + c.toNat / 262144 ∧ 240 + c.toNat / 262144 < 248) := by omega
        have a3 : (128 ≤ 128 + c.toNat / 4096 % 64 ∧ 128 + c.toNat / 4096 % 64 < 192) := by omega
        have a4 : (128 ≤ 128 + c.toNat / 64 % 64 ∧ 128 + c.toNat / 64 % 64 < 192) := by omega
        have a5 : (128 ≤ 128 + c.toNat % 64 ∧ 128 + c.toNat % 64 < 192) := by omega
        simp [a1, a2, a2', a2'', a3, a4, a5]
        omega

theorem ofNatAux_toNat (c : Char) (h : c.toNat.isValidChar) : Char.ofNatAux c.toNat h = c := by
  have h1 : Char.ofNat c.toNat = c := Char.ofNat_toNat c
  have h2 : Char.ofNat c.toNat = Char.ofNatAux c.toNat h := by
    unfold Char.ofNat; simp only [h, dite_true]
  rw [← h2, h1]

theorem decodeUtf8Fuel_complete : ∀ (cs : List Char) (fuel : Nat), (utf8 cs).length ≤ fuel →
    decodeUtf8Fuel fuel (utf8 cs) = some cs := by
  intro cs
  induction cs with
  | nil => intro fuel _; cases fuel <;> simp [utf8, decodeUtf8Fuel]
  | cons c cs ih =>
    intro fuel hf
    have hl := utf8Char_length c
    rw [utf8_cons] at hf ⊢
    simp only [List.length_append] at hf
    cases fuel with
    | zero => omega
    | succ fuel =>
      obtain ⟨h0, t0, e0, _⟩ := utf8Char_head_lead c
      have hne : utf8Char c ++ utf8 cs = h0 :: (t0 ++ utf8 cs) := by rw [e0]; rfl
      have hvalid : c.toNat.isValidChar := c.valid
      rw [hne, decodeUtf8Fuel, ← hne, decodeOne_utf8Char]
      case x_2 => simp
      simp only [hvalid, dite_true, ofNatAux_toNat, List.take_left', List.drop_left', if_true]
      rw [ih fuel (by omega)]

theorem decodeUtf8_complete (cs : List Char) : decodeUtf8 (utf8 cs) = some cs :=
  decodeUtf8Fuel_complete cs _ (Nat.le_refl _)

/-! ### the hand-written encoder is Lean core's UTF-8 encoder, for every scalar value -/

/-- `utf8Char` = `String.utf8EncodeChar` (the encoder behind `String.toUTF8`), byte for byte -/
theorem utf8Char_core (c : Char) : (String.utf8EncodeChar c).map UInt8.toNat = utf8Char c := by
  have hv := char_toNat_lt c
  have hn : c.val.toNat = c.toNat := rfl
  unfold String.utf8EncodeChar utf8Char
  simp only [hn]
  by_cases h1 : c.toNat < 0x80
  · have : c.toNat ≤ 127 := by omega
    simp [h1, this]; omega
  · by_cases h2 : c.toNat < 0x800
    · have a : ¬ c.toNat ≤ 127 := by omega
      have b : c.toNat ≤ 2047 := by omega
      simp [h1, h2, a, b]; omega
    · by_cases h3 : c.toNat < 0x10000
      · have a : ¬ c.toNat ≤ 127 := by omega
        have b : ¬ c.toNat ≤ 2047 := by omega
        have d : c.toNat ≤ 65535 := by omega
        simp [h1, h2, h3, a, b, d]; omega
      · have a : ¬ c.toNat ≤ 127 := by omega
        have b : ¬ c.toNat ≤ 2047 := by omega
        have d : ¬ c.toNat ≤ 65535 := by omega
        simp [h1, h2, h3, a, b, d]; omega


/-- … hence `utf8 cs` is exactly the bytes of the Lean string with these characters -/
theorem utf8_core (cs : List Char) :
    (String.ofList cs).toUTF8.data.toList.map UInt8.toNat = utf8 cs := by
  have h : (String.ofList cs).toUTF8 = cs.utf8Encode := by simp
  rw [h, List.utf8Encode]
  clear h
  simp only [List.data_toByteArray]
  induction cs with
  | nil => rfl
  | cons c cs ih => simp only [List.flatMap_cons, List.map_append, utf8Char_core, ih, utf8_cons]

end Log4rs
