/-
`log::LevelFilter` as Nat: Off=0 Error=1 Warn=2 Info=3 Debug=4 Trace=5; `log::Level` = 1..5.
-/
namespace Log4rs

/-- `ConfiguredLogger::enabled`: `self.level >= level` -/
def admits (filter level : Nat) : Bool := decide (filter ≥ level)

def levelName : Nat → String
  | 1 => "ERROR" | 2 => "WARN" | 3 => "INFO" | 4 => "DEBUG" | 5 => "TRACE" | _ => "OFF"

end Log4rs
