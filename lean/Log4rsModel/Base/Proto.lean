/-
Line-protocol helpers shared by every driver module.
Encodings (see DESIGN.md §2.2):
  string  : dot-separated lower-case hex Unicode scalar values, `_` for the empty string
  nat/int : decimal
  list    : separator-joined (`,` level 1, `;` level 2, `|` level 3), `~` for the empty list
  option  : `-` for none
All decoders are total and return `none` on malformed input; the driver answers `bad-case`.
-/
namespace Log4rs.Proto

def hexDigit? (c : Char) : Option Nat :=
  if '0' ≤ c ∧ c ≤ '9' then some (c.toNat - '0'.toNat)
  else if 'a' ≤ c ∧ c ≤ 'f' then some (c.toNat - 'a'.toNat + 10)
  else none

def hexNat? (s : String) : Option Nat :=
  if s.isEmpty then none else
  s.toList.foldl (fun acc c => match acc, hexDigit? c with
    | some a, some d => some (a * 16 + d)
    | _, _ => none) (some 0)

def hexOf (n : Nat) : String := String.ofList (Nat.toDigits 16 n)

def splitOnChar (sep : Char) (s : String) : List String :=
  let rec go (cs : List Char) (cur : List Char) (acc : List String) : List String :=
    match cs with
    | [] => (String.ofList cur.reverse :: acc).reverse
    | c :: cs => if c = sep then go cs [] (String.ofList cur.reverse :: acc) else go cs (c :: cur) acc
  go s.toList [] []

def decList (sep : Char) (s : String) : List String :=
  if s = "~" then [] else splitOnChar sep s

def encList (sep : String) (xs : List String) : String :=
  if xs.isEmpty then "~" else sep.intercalate xs

def mapM? {α β} (f : α → Option β) : List α → Option (List β)
  | [] => some []
  | x :: xs => match f x, mapM? f xs with
    | some y, some ys => some (y :: ys)
    | _, _ => none

def decStr (s : String) : Option (List Char) :=
  if s = "_" then some [] else
  mapM? (fun h => match hexNat? h with
    | some n => if h : n.isValidChar then some (Char.ofNatAux n h) else none
    | none => none) (splitOnChar '.' s)

def encStr (cs : List Char) : String :=
  if cs.isEmpty then "_" else ".".intercalate (cs.map (fun c => hexOf c.toNat))

def decNat (s : String) : Option Nat := s.toNat?

def decInt (s : String) : Option Int := s.toInt?

def decBool (s : String) : Option Bool :=
  if s = "1" then some true else if s = "0" then some false else none

def encBool (b : Bool) : String := if b then "1" else "0"

def decOpt {α} (f : String → Option α) (s : String) : Option (Option α) :=
  if s = "-" then some none else (f s).map some

def encOpt {α} (f : α → String) : Option α → String
  | none => "-"
  | some a => f a

/-- bytes: contiguous lower-case hex, two digits per byte, `_` for empty -/
def decBytes (s : String) : Option (List Nat) :=
  if s = "_" then some [] else
  let rec go : List Char → Option (List Nat)
    | [] => some []
    | [_] => none
    | a :: b :: rest => match hexDigit? a, hexDigit? b, go rest with
      | some x, some y, some r => some ((x * 16 + y) :: r)
      | _, _, _ => none
  go s.toList

def hex2 (n : Nat) : String :=
  let d := Nat.toDigits 16 n
  String.ofList (if d.length < 2 then '0' :: d else d)

def encBytes (bs : List Nat) : String :=
  if bs.isEmpty then "_" else String.join (bs.map hex2)

end Log4rs.Proto
