#!/bin/sh
# Build the framework from files on disk only (offline): Lean models, proofs and driver; Rust harness.
set -e
cd "$(dirname "$0")"
export CARGO_NET_OFFLINE=true
( cd lean && lake build )
[ -f harness/Cargo.lock ] || cp /repo/Cargo.lock harness/Cargo.lock
( cd harness && cargo build --release --offline && cargo build --release --offline --features bg --target-dir target_bg )
mkdir -p .scratch evidence replays
echo setup-ok
