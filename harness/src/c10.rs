//! C10 — width / fill / alignment. Real code: `PatternEncoder::new(pattern).encode(..)` into a
//! capturing `encode::Write` whose `write` accepts a scripted number of bytes per call; the message
//! is a `Display` impl that emits its text in scripted `write_str` pieces.
//!
//! Case fields (see lean/Driver/C10.lean): forest tokens, level, message pieces, sink script, build
//! profile (`debug`/`release` = `cfg!(debug_assertions)` of this build; needed by `{D(..)}`/`{R(..)}`).
use crate::proto::*;
use crate::rng::Rng;
use log::{Level, Record};
use log4rs::encode::{self, pattern::PatternEncoder, Color, Encode, Style};
use std::fmt;
use std::io;

#[derive(Clone, Debug)]
struct P {
    fill: Option<char>,
    right: Option<bool>,
    min: Option<usize>,
    max: Option<usize>,
}

#[derive(Clone, Debug)]
enum Node {
    M(P),
    L(P),
    T(String),
    G(P, Vec<Node>),
    H(P, Vec<Node>),
    /// `{D(..)}` (`true`: the alias `{debug(..)}`)
    D(bool, P, Vec<Node>),
    /// `{R(..)}` (`true`: the alias `{release(..)}`)
    R(bool, P, Vec<Node>),
    /// any other formatter `{<src><spec>}` with the pieces it writes (an input of the case)
    X(String, Vec<String>, P),
    /// a raw pattern snippet that carries no spec of its own (`Chunk::Error`), with its pieces
    W(String, Vec<String>),
    /// `{m<rawspec>}`: the message under a non-canonical spelling that must parse to `P`
    Y(String, P),
}

/// The record and environment every case is encoded with; the texts of the `X` formatters below
/// are derived from THIS table by the generator (never by running the code).
const TARGET: &str = "tgt";
const MODULE: &str = "mod::p";
const FILE: &str = "src/f.rs";
const LINE: u32 = 42;
const MDC_KEY: &str = "k";
const MDC_VAL: &str = "v中é";

/// (formatter source, the pieces it writes)
fn other_formatters() -> Vec<(&'static str, Vec<&'static str>)> {
    vec![
        ("t", vec![TARGET]),
        ("target", vec![TARGET]),
        ("M", vec![MODULE]),
        ("module", vec![MODULE]),
        ("f", vec![FILE]),
        ("L", vec!["42"]),
        ("n", vec!["\n"]),
        ("X(k)", vec![MDC_VAL]),
        ("mdc(k)(dflt)", vec![MDC_VAL]),
        ("X(nokey)(d中)", vec!["d中"]),
        ("X(nokey)", vec![""]),
        ("T", vec!["main"]),
        ("thread", vec!["main"]),
        ("d(abc é)", vec!["abc é"]),
        ("date(x中y)(utc)", vec!["x中y"]),
    ]
}

/// raw snippets that become `Chunk::Error` — whatever spec they carry is dropped with them
fn error_snippets() -> Vec<(&'static str, Vec<&'static str>)> {
    vec![
        ("{bogus}", vec!["{ERROR: ", "unknown formatter `bogus`", "}"]),
        ("{bogus:>9.2}", vec!["{ERROR: ", "unknown formatter `bogus`", "}"]),
        ("{m(x):~<30}", vec!["{ERROR: ", "unexpected arguments", "}"]),
        ("{h:3}", vec!["{ERROR: ", "expected exactly one argument", "}"]),
        ("{X:>4}", vec!["{ERROR: ", "missing MDC key", "}"]),
    ]
}

/// non-canonical spellings of a spec and what `Parser::parameters` makes of them
fn odd_specs() -> Vec<(&'static str, P)> {
    let p = |fill: Option<char>, right: Option<bool>, min: Option<usize>, max: Option<usize>| P { fill, right, min, max };
    vec![
        (":", p(None, None, None, None)),
        (":.", p(None, None, None, None)),
        (":5.", p(None, None, Some(5), None)),
        (":<", p(None, Some(false), None, None)),
        (":>", p(None, Some(true), None, None)),
        (":>.", p(None, Some(true), None, None)),
        (":007.010", p(None, None, Some(7), Some(10))),
        (":05", p(None, None, Some(5), None)),
        (":00", p(None, None, Some(0), None)),
        (":~<", p(Some('~'), Some(false), None, None)),
        (":<<", p(Some('<'), Some(false), None, None)),
        (":><3", p(Some('>'), Some(false), Some(3), None)),
        (":.>.3", p(Some('.'), Some(true), None, Some(3))),
        (":0>6.", p(Some('0'), Some(true), Some(6), None)),
        (":中>04.004", p(Some('中'), Some(true), Some(4), Some(4))),
    ]
}

/// `cfg!(debug_assertions)` of this build. The harness and log4rs are compiled under the same cargo
/// profile (`[profile.release] debug-assertions = true` in harness/Cargo.toml applies to every
/// package), so this is also the value log4rs' `FormattedChunk::{Debug,Release}` see.
pub fn build_profile() -> &'static str {
    if cfg!(debug_assertions) {
        "debug"
    } else {
        "release"
    }
}

/// Start-up assertion: ask the real encoder which of the two spec-less groups is active and
/// compare with `build_profile()`. Evaluated once; a disagreement poisons every case that
/// contains a profile-dependent group.
fn profile_probe_ok() -> bool {
    static OK: std::sync::OnceLock<bool> = std::sync::OnceLock::new();
    *OK.get_or_init(|| {
        let r = guarded(|| {
            let enc = PatternEncoder::new("{D(d)}{R(r)}{debug(D)}{release(R)}");
            let mut cap = Cap::new(vec![], None);
            let _ = enc.encode(&mut cap, &Record::builder().level(Level::Info).args(format_args!("x")).build());
            cap.bytes
        });
        match r {
            Ok(b) => b == if cfg!(debug_assertions) { b"dD".to_vec() } else { b"rR".to_vec() },
            Err(_) => false,
        }
    })
}

fn has_gated(n: &Node) -> bool {
    match n {
        Node::D(..) | Node::R(..) => true,
        Node::G(_, cs) | Node::H(_, cs) => cs.iter().any(has_gated),
        _ => false,
    }
}

// ---------------------------------------------------------------------------------------------
// printing: case tokens and pattern text
// ---------------------------------------------------------------------------------------------
fn p_token(p: &P) -> String {
    format!(
        "{}/{}/{}/{}",
        enc_opt(p.fill, |c| format!("{:x}", c as u32)),
        match p.right {
            None => "-",
            Some(false) => "L",
            Some(true) => "R",
        },
        enc_opt(p.min, |n| n.to_string()),
        enc_opt(p.max, |n| n.to_string())
    )
}

fn tokens(n: &Node, out: &mut Vec<String>) {
    match n {
        Node::M(p) => out.push(format!("m:{}", p_token(p))),
        Node::L(p) => out.push(format!("l:{}", p_token(p))),
        Node::T(s) => out.push(format!("t:{}", enc_str(s))),
        Node::G(p, cs) => {
            out.push(format!("g{}:{}", cs.len(), p_token(p)));
            for c in cs {
                tokens(c, out);
            }
        }
        Node::H(p, cs) => {
            out.push(format!("h{}:{}", cs.len(), p_token(p)));
            for c in cs {
                tokens(c, out);
            }
        }
        Node::X(src, pieces, p) => {
            let ps: Vec<String> = pieces.iter().map(|x| enc_str(x)).collect();
            out.push(format!("x:{}/{}/{}", enc_str(src), enc_list(";", &ps), p_token(p)));
        }
        Node::W(raw, pieces) => {
            let ps: Vec<String> = pieces.iter().map(|x| enc_str(x)).collect();
            out.push(format!("w:{}/{}", enc_str(raw), enc_list(";", &ps)));
        }
        Node::Y(raw, p) => out.push(format!("y:{}/{}", enc_str(raw), p_token(p))),
        Node::D(long, p, cs) | Node::R(long, p, cs) => {
            let k = match (n, long) {
                (Node::D(..), false) => 'd',
                (Node::D(..), true) => 'D',
                (_, false) => 'r',
                (_, true) => 'R',
            };
            out.push(format!("{}{}:{}", k, cs.len(), p_token(p)));
            for c in cs {
                tokens(c, out);
            }
        }
    }
}

/// `[[fill]align][min]['.' max]` so that `Parser::parameters` reads back exactly `p`:
/// a fill is always followed by its alignment character (the parser only recognises a fill when
/// the character after it is `<` or `>`); without a fill the first character after `:` is an
/// alignment character, a digit, `.` or `}` and the one after it is never `<`/`>`.
fn p_pattern(p: &P) -> String {
    if p.fill.is_none() && p.right.is_none() && p.min.is_none() && p.max.is_none() {
        return String::new();
    }
    let mut s = String::from(":");
    if let Some(f) = p.fill {
        s.push(f);
    }
    match p.right {
        Some(false) => s.push('<'),
        Some(true) => s.push('>'),
        None => {}
    }
    if let Some(m) = p.min {
        s.push_str(&m.to_string());
    }
    if let Some(m) = p.max {
        s.push('.');
        s.push_str(&m.to_string());
    }
    s
}

fn pattern(n: &Node, out: &mut String) {
    match n {
        Node::M(p) => {
            out.push_str("{m");
            out.push_str(&p_pattern(p));
            out.push('}');
        }
        Node::L(p) => {
            out.push_str("{l");
            out.push_str(&p_pattern(p));
            out.push('}');
        }
        Node::X(src, _, p) => {
            out.push('{');
            out.push_str(src);
            out.push_str(&p_pattern(p));
            out.push('}');
        }
        Node::W(raw, _) => out.push_str(raw),
        Node::Y(raw, _) => {
            out.push_str("{m");
            out.push_str(raw);
            out.push('}');
        }
        Node::T(s) => {
            for c in s.chars() {
                if matches!(c, '{' | '}' | '(' | ')' | '\\') {
                    out.push('\\');
                }
                out.push(c);
            }
        }
        Node::G(p, cs) | Node::H(p, cs) | Node::D(_, p, cs) | Node::R(_, p, cs) => {
            out.push_str(match n {
                Node::H(..) => "{h(",
                Node::D(false, ..) => "{D(",
                Node::D(true, ..) => "{debug(",
                Node::R(false, ..) => "{R(",
                Node::R(true, ..) => "{release(",
                _ => "{(",
            });
            for c in cs {
                pattern(c, out);
            }
            out.push(')');
            out.push_str(&p_pattern(p));
            out.push('}');
        }
    }
}

// ---------------------------------------------------------------------------------------------
// decoding a case
// ---------------------------------------------------------------------------------------------
fn dec_p(s: &str) -> Option<P> {
    let f: Vec<&str> = s.split('/').collect();
    if f.len() != 4 {
        return None;
    }
    let fill = if f[0] == "-" {
        None
    } else {
        Some(u32::from_str_radix(f[0], 16).ok().and_then(char::from_u32)?)
    };
    let right = match f[1] {
        "-" => None,
        "L" => Some(false),
        "R" => Some(true),
        _ => return None,
    };
    let num = |x: &str| -> Option<Option<usize>> {
        if x == "-" {
            Some(None)
        } else {
            x.parse().ok().map(Some)
        }
    };
    if fill.is_some() && right.is_none() {
        return None;
    }
    Some(P { fill, right, min: num(f[2])?, max: num(f[3])? })
}

fn parse_nodes(toks: &[String], pos: &mut usize, k: usize) -> Option<Vec<Node>> {
    let mut v = vec![];
    for _ in 0..k {
        let tok = toks.get(*pos)?;
        *pos += 1;
        let (head, arg) = tok.split_once(':')?;
        let kind = head.chars().next()?;
        let cnt = &head[kind.len_utf8()..];
        let node = match kind {
            'm' if cnt.is_empty() => Node::M(dec_p(arg)?),
            'l' if cnt.is_empty() => Node::L(dec_p(arg)?),
            't' if cnt.is_empty() => Node::T(dec_str(arg)?),
            'x' if cnt.is_empty() => {
                let f: Vec<&str> = arg.splitn(3, '/').collect();
                if f.len() != 3 {
                    return None;
                }
                let pieces: Option<Vec<String>> = dec_list(';', f[1]).iter().map(|x| dec_str(x)).collect();
                Node::X(dec_str(f[0])?, pieces?, dec_p(f[2])?)
            }
            'w' if cnt.is_empty() => {
                let f: Vec<&str> = arg.splitn(2, '/').collect();
                if f.len() != 2 {
                    return None;
                }
                let pieces: Option<Vec<String>> = dec_list(';', f[1]).iter().map(|x| dec_str(x)).collect();
                Node::W(dec_str(f[0])?, pieces?)
            }
            'y' if cnt.is_empty() => {
                let f: Vec<&str> = arg.splitn(2, '/').collect();
                if f.len() != 2 {
                    return None;
                }
                Node::Y(dec_str(f[0])?, dec_p(f[1])?)
            }
            'g' | 'h' | 'd' | 'D' | 'r' | 'R' => {
                let n: usize = cnt.parse().ok()?;
                let p = dec_p(arg)?;
                let cs = parse_nodes(toks, pos, n)?;
                match kind {
                    'g' => Node::G(p, cs),
                    'h' => Node::H(p, cs),
                    'd' => Node::D(false, p, cs),
                    'D' => Node::D(true, p, cs),
                    'r' => Node::R(false, p, cs),
                    _ => Node::R(true, p, cs),
                }
            }
            _ => return None,
        };
        v.push(node);
    }
    Some(v)
}

fn parse_forest(field: &str) -> Option<Vec<Node>> {
    let toks = dec_list(',', field);
    let mut pos = 0;
    let mut v = vec![];
    while pos < toks.len() {
        v.extend(parse_nodes(&toks, &mut pos, 1)?);
    }
    Some(v)
}

// ---------------------------------------------------------------------------------------------
// the capturing writer and the piecewise message
// ---------------------------------------------------------------------------------------------
/// one scripted answer of the sink's `write`
#[derive(Clone, Copy, Debug, PartialEq)]
enum Acc {
    /// accept (0 = everything, k = at most k bytes)
    Take(usize),
    /// `Err(io::Error::other(..))`
    Fail,
    /// the error a real stream gives: the bytes are written to `/dev/full`, the OS answers ENOSPC
    DevFull,
    /// `Err(ErrorKind::Interrupted)` — std's `write_all` retries
    Intr,
}

fn enc_acc(a: &Acc) -> String {
    match a {
        Acc::Take(k) => k.to_string(),
        Acc::Fail => "e".to_owned(),
        Acc::DevFull => "f".to_owned(),
        Acc::Intr => "i".to_owned(),
    }
}

fn dec_acc(s: &str) -> Option<Acc> {
    match s {
        "e" => Some(Acc::Fail),
        "f" => Some(Acc::DevFull),
        "i" => Some(Acc::Intr),
        _ => s.parse().ok().map(Acc::Take),
    }
}

struct Cap {
    script: Vec<Acc>,
    idx: usize,
    /// `Some(n)`: the n+1-th `set_style` call fails
    style_budget: Option<usize>,
    bytes: Vec<u8>,
    styles: Vec<(usize, Style)>,
}

impl Cap {
    fn new(script: Vec<Acc>, style_budget: Option<usize>) -> Cap {
        Cap { script, idx: 0, style_budget, bytes: vec![], styles: vec![] }
    }
}

impl io::Write for Cap {
    fn write(&mut self, buf: &[u8]) -> io::Result<usize> {
        let a = self.script.get(self.idx).copied().unwrap_or(Acc::Take(0));
        self.idx += 1;
        match a {
            Acc::Take(k) => {
                let n = if k == 0 { buf.len() } else { k.min(buf.len()) };
                self.bytes.extend_from_slice(&buf[..n]);
                Ok(n)
            }
            Acc::Fail => Err(io::Error::new(io::ErrorKind::Other, "scripted failure")),
            Acc::Intr => Err(io::Error::new(io::ErrorKind::Interrupted, "scripted interruption")),
            Acc::DevFull => {
                let mut f = std::fs::OpenOptions::new().write(true).open("/dev/full")?;
                match io::Write::write(&mut f, buf) {
                    // /dev/full never accepts anything; should it, report that as a (wrong) success
                    Ok(n) => {
                        self.bytes.extend_from_slice(&buf[..n]);
                        Ok(n)
                    }
                    Err(e) => Err(e),
                }
            }
        }
    }
    fn flush(&mut self) -> io::Result<()> {
        Ok(())
    }
}

impl encode::Write for Cap {
    fn set_style(&mut self, style: &Style) -> io::Result<()> {
        match self.style_budget {
            Some(0) => return Err(io::Error::new(io::ErrorKind::Other, "scripted set_style failure")),
            Some(n) => self.style_budget = Some(n - 1),
            None => {}
        }
        self.styles.push((self.bytes.len(), style.clone()));
        Ok(())
    }
}

/// the message: `Some(piece)` = one `write_str`, `None` = the `Display` impl returns `Err` here
struct Piecewise(Vec<Option<String>>);

impl fmt::Display for Piecewise {
    fn fmt(&self, f: &mut fmt::Formatter<'_>) -> fmt::Result {
        for p in &self.0 {
            match p {
                Some(p) => f.write_str(p)?,
                None => return Err(fmt::Error),
            }
        }
        Ok(())
    }
}

fn color_no(c: &Color) -> u32 {
    match c {
        Color::Black => 0,
        Color::Red => 1,
        Color::Green => 2,
        Color::Yellow => 3,
        Color::Blue => 4,
        Color::Magenta => 5,
        Color::Cyan => 6,
        Color::White => 7,
    }
}

fn enc_style(s: &Style) -> String {
    format!(
        "{}/{}/{}",
        enc_opt(s.text.as_ref(), |c| color_no(c).to_string()),
        enc_opt(s.background.as_ref(), |c| color_no(c).to_string()),
        enc_opt(s.intense, |b| enc_bool(b).to_owned())
    )
}

pub fn exec(fields: &[&str]) -> String {
    // a trailing `@<alt build>` field only routes the case to a harness binary (see ./check)
    let fields: &[&str] = match fields.last() {
        Some(f) if f.starts_with('@') => &fields[..fields.len() - 1],
        _ => fields,
    };
    if fields.len() < 4 || fields.len() > 6 {
        return "bad-case".to_owned();
    }
    let style_budget: Option<usize> = match fields.get(5) {
        None | Some(&"-") => None,
        Some(s) => match s.parse() {
            Ok(n) => Some(n),
            Err(_) => return "bad-case".to_owned(),
        },
    };
    let forest = match parse_forest(fields[0]) {
        Some(f) => f,
        None => return "bad-case".to_owned(),
    };
    if fields.len() >= 5 {
        if fields[4] != "debug" && fields[4] != "release" {
            return "bad-case".to_owned();
        }
        if fields[4] != build_profile() {
            return format!("profile-mismatch:this-build-is-{}", build_profile());
        }
    }
    if forest.iter().any(has_gated) {
        if fields.len() < 5 {
            return "bad-case".to_owned();
        }
        if !profile_probe_ok() {
            return "profile-probe-disagrees-with-build".to_owned();
        }
    }
    let level = match fields[1] {
        "1" => Level::Error,
        "2" => Level::Warn,
        "3" => Level::Info,
        "4" => Level::Debug,
        "5" => Level::Trace,
        _ => return "bad-case".to_owned(),
    };
    let pieces: Option<Vec<Option<String>>> = dec_list(',', fields[2])
        .iter()
        .map(|s| if s == "!" { Some(None) } else { dec_str(s).map(Some) })
        .collect();
    let pieces = match pieces {
        Some(p) => p,
        None => return "bad-case".to_owned(),
    };
    let script: Option<Vec<Acc>> = dec_list(',', fields[3]).iter().map(|s| dec_acc(s)).collect();
    let script = match script {
        Some(s) => s,
        None => return "bad-case".to_owned(),
    };
    let mut pat = String::new();
    for n in &forest {
        pattern(n, &mut pat);
    }
    // the sink outlives the encode (and a panic inside it): what reached it is always observable
    let mut cap = Cap::new(script, style_budget);
    let r = {
        let cap = &mut cap;
        guarded(std::panic::AssertUnwindSafe(move || {
            log_mdc::clear();
            log_mdc::insert(MDC_KEY, MDC_VAL);
            let enc = PatternEncoder::new(&pat);
            let msg = Piecewise(pieces);
            let res = enc.encode(
                cap,
                &Record::builder()
                    .level(level)
                    .target(TARGET)
                    .module_path(Some(MODULE))
                    .file(Some(FILE))
                    .line(Some(LINE))
                    .args(format_args!("{}", msg))
                    .build(),
            );
            res.is_ok()
        }))
    };
    let st: Vec<String> = cap.styles.iter().map(|(pos, s)| format!("{}:{}", pos, enc_style(s))).collect();
    let seen = format!("{} {}", enc_bytes(&cap.bytes), enc_list(",", &st));
    match r {
        Err(_) => format!("PANIC {}", seen),
        Ok(false) => format!("err {}", seen),
        Ok(true) => seen,
    }
}

// ---------------------------------------------------------------------------------------------
// generation
// ---------------------------------------------------------------------------------------------
const FILLS: &[char] = &[
    ' ', '~', 'é', '中', '😀', '}', ':', '<', '>', '0', '7', '.', '-', '{', '(', ')', '\\', '\u{301}', 'm',
];
const ALPHA: &[char] = &[
    'a', 'b', 'Z', ' ', '1', 'é', 'ß', '中', '€', '😀', '𝄞', '\u{301}', '\u{200d}', 'e', '~', ':', '>',
];
const LIT: &[char] = &['x', '-', ' ', 'é', '中', '😀', '{', '}', '(', ')', '\\', ':', '\u{308}'];
const TEXTS: &[&str] = &[
    "",
    "a",
    "hello",
    "héllo wörld",
    "中文字符串",
    "a😀b😀c",
    "e\u{301}e\u{301}e\u{301}",
    "ab中😀é",
    "😀",
    "𝄞𝄞𝄞𝄞𝄞𝄞𝄞𝄞",
    "ééééééééééééé",
    "the quick brown fox",
];

fn rand_text(rng: &mut Rng, alpha: &[char], max: u64) -> String {
    let n = rng.range(0, max);
    (0..n).map(|_| *rng.pick(alpha)).collect()
}

fn split_pieces(rng: &mut Rng, s: &str) -> Vec<String> {
    let cs: Vec<char> = s.chars().collect();
    let mode = rng.below(4);
    let mut out = vec![];
    let mut cur = String::new();
    for c in cs {
        cur.push(c);
        let cut = match mode {
            0 => false,
            1 => true,
            _ => rng.chance(1, 3),
        };
        if cut {
            out.push(std::mem::take(&mut cur));
            if rng.chance(1, 8) {
                out.push(String::new());
            }
        }
    }
    if !cur.is_empty() || out.is_empty() && rng.chance(1, 2) {
        out.push(cur);
    }
    out
}

/// a fault schedule on top of an accept script: one failing answer (synthetic or /dev/full) at a
/// random call and/or Interrupted answers sprinkled in
fn with_faults(rng: &mut Rng, script: &[usize]) -> Vec<Acc> {
    let mut v: Vec<Acc> = script.iter().map(|k| Acc::Take(*k)).collect();
    let want = rng.range(1, 16) as usize;
    v.truncate(want);
    while v.len() < want {
        v.push(Acc::Take(*rng.pick(&[0usize, 1, 1, 2, 3])));
    }
    if rng.chance(1, 2) {
        for a in v.iter_mut() {
            if rng.chance(1, 6) {
                *a = Acc::Intr;
            }
        }
    }
    if rng.chance(3, 4) {
        let at = rng.below(v.len() as u64) as usize;
        v[at] = if rng.chance(1, 3) { Acc::DevFull } else { Acc::Fail };
    }
    v
}

fn rand_script(rng: &mut Rng) -> Vec<usize> {
    if rng.chance(1, 8) {
        return (0..rng.range(1, 40)).map(|_| *rng.pick(&[0usize, 1, 4, 6, 7, 8, 13, 16, 31, 64])).collect();
    }
    match rng.below(5) {
        0 => vec![],
        1 => vec![1; 80],
        2 => (0..rng.range(1, 60)).map(|_| rng.range(1, 3) as usize).collect(),
        3 => (0..rng.range(1, 60)).map(|_| *rng.pick(&[0usize, 1, 2, 3, 5])).collect(),
        _ => (0..rng.range(1, 60)).map(|_| if rng.chance(1, 2) { 0 } else { rng.range(1, 4) as usize }).collect(),
    }
}

fn rand_width(rng: &mut Rng, big: bool) -> Option<usize> {
    match rng.below(10) {
        0 | 1 => None,
        2 => Some(0),
        3 if big => Some(rng.range(13, 40) as usize),
        _ => Some(rng.range(0, 12) as usize),
    }
}

fn rand_p(rng: &mut Rng, big: bool) -> P {
    if rng.chance(1, 8) {
        return P { fill: None, right: None, min: None, max: None };
    }
    let right = match rng.below(5) {
        0 => None,
        1 | 2 => Some(false),
        _ => Some(true),
    };
    let fill = if right.is_some() && rng.chance(2, 3) { Some(*rng.pick(FILLS)) } else { None };
    let mut min = rand_width(rng, big);
    let mut max = rand_width(rng, big);
    // most cases inside the statement's region m <= M, a solid share outside
    if let (Some(a), Some(b)) = (min, max) {
        if a > b && rng.chance(2, 3) {
            min = Some(b);
            max = Some(a);
        }
    }
    P { fill, right, min, max }
}

fn rand_node(rng: &mut Rng, depth: u64, big: bool) -> Node {
    let leaf = depth == 0 || rng.chance(1, 3);
    if leaf {
        match rng.below(10) {
            0 | 1 | 2 | 3 => Node::M(rand_p(rng, big)),
            4 => Node::L(rand_p(rng, big)),
            5 => {
                let fs = other_formatters();
                let (src, pcs) = rng.pick(&fs).clone();
                Node::X(src.to_owned(), pcs.iter().map(|x| x.to_string()).collect(), rand_p(rng, big))
            }
            6 => {
                if rng.chance(1, 2) {
                    let es = error_snippets();
                    let (raw, pcs) = rng.pick(&es).clone();
                    Node::W(raw.to_owned(), pcs.iter().map(|x| x.to_string()).collect())
                } else {
                    let os = odd_specs();
                    let (raw, p) = rng.pick(&os).clone();
                    Node::Y(raw.to_owned(), p)
                }
            }
            _ => Node::T(rand_text(rng, LIT, 5)),
        }
    } else {
        let k = rng.range(0, 3);
        let cs = (0..k).map(|_| rand_node(rng, depth - 1, big)).collect();
        match rng.below(12) {
            0..=2 => Node::H(rand_p(rng, big), cs),
            3 | 4 => Node::D(rng.chance(1, 4), rand_p(rng, big), cs),
            5 | 6 => Node::R(rng.chance(1, 4), rand_p(rng, big), cs),
            _ => Node::G(rand_p(rng, big), cs),
        }
    }
}

fn case_line(forest: &[Node], level: u64, pieces: &[String], script: &[usize]) -> String {
    let ps: Vec<Option<String>> = pieces.iter().map(|p| Some(p.clone())).collect();
    let sc: Vec<Acc> = script.iter().map(|k| Acc::Take(*k)).collect();
    case_line_x(forest, level, &ps, &sc, None)
}

/// the parser merges neighbouring literal text into one piece: do the same to the tree
fn merge_literals(ns: &[Node]) -> Vec<Node> {
    let mut out: Vec<Node> = vec![];
    for n in ns {
        let n = match n {
            Node::G(p, cs) => Node::G(p.clone(), merge_literals(cs)),
            Node::H(p, cs) => Node::H(p.clone(), merge_literals(cs)),
            Node::D(a, p, cs) => Node::D(*a, p.clone(), merge_literals(cs)),
            Node::R(a, p, cs) => Node::R(*a, p.clone(), merge_literals(cs)),
            other => other.clone(),
        };
        match (out.last_mut(), &n) {
            (Some(Node::T(a)), Node::T(b)) => a.push_str(b),
            _ => out.push(n),
        }
    }
    out
}

fn case_line_x(forest: &[Node], level: u64, pieces: &[Option<String>], script: &[Acc], style_budget: Option<usize>) -> String {
    let forest = merge_literals(forest);
    let mut toks = vec![];
    for n in &forest {
        tokens(n, &mut toks);
    }
    let ps: Vec<String> = pieces.iter().map(|p| match p {
        Some(p) => enc_str(p),
        None => "!".to_owned(),
    }).collect();
    let sc: Vec<String> = script.iter().map(enc_acc).collect();
    let mut line = format!(
        "{}\t{}\t{}\t{}\t{}",
        enc_list(",", &toks),
        level,
        enc_list(",", &ps),
        enc_list(",", &sc),
        build_profile()
    );
    if let Some(n) = style_budget {
        line.push_str(&format!("\t{}", n));
    }
    if !cfg!(debug_assertions) {
        // generated by a build without debug assertions: must be executed by such a build
        line.push_str("\t@nodebug");
    }
    line
}

fn chars_split(s: &str) -> Vec<String> {
    s.chars().map(|c| c.to_string()).collect()
}

pub fn gen(rng: &mut Rng, n: usize, thorough: bool, emit: &mut dyn FnMut(String)) {
    // deterministic grid: one width spec on the message, every (m, M) pair of the grid, both
    // alignments, several fills, whole-buffer and byte-by-byte sinks, whole and per-char pieces
    let widths: Vec<Option<usize>> = if thorough {
        let mut v = vec![None];
        v.extend((0..=12).map(Some));
        v
    } else {
        vec![None, Some(0), Some(1), Some(2), Some(3), Some(5), Some(7), Some(12)]
    };
    let fills: &[char] = if thorough { &[' ', '~', 'é', '中', '😀', '}', ':', '<', '0'] } else { &['~', '中', '😀'] };
    let texts: &[&str] = if thorough { TEXTS } else { &TEXTS[..9] };
    for text in texts {
        for m in &widths {
            for mx in &widths {
                for right in [false, true] {
                    for (fi, fill) in fills.iter().enumerate() {
                        if m.is_none() && fi > 0 {
                            continue;
                        }
                        let p = P { fill: Some(*fill), right: Some(right), min: *m, max: *mx };
                        let (pieces, script): (Vec<String>, Vec<usize>) = match (fi + right as usize) % 3 {
                            0 => (vec![text.to_string()], vec![]),
                            1 => (chars_split(text), vec![1; 120]),
                            _ => (vec![text.to_string()], vec![2; 120]),
                        };
                        emit(case_line(&[Node::M(p)], 3, &pieces, &script));
                    }
                }
            }
        }
    }
    // nested grid: {({m:>a.b}|{l:c}):f>m.M} shapes
    let small: &[Option<usize>] = &[None, Some(0), Some(2), Some(4), Some(9)];
    for text in &["ab中😀é", "e\u{301}x", ""] {
        for a in small {
            for b in small {
                for m in small {
                    for mx in small {
                        let inner = Node::M(P { fill: Some('é'), right: Some(true), min: *a, max: *b });
                        let lvl = Node::L(P { fill: None, right: None, min: Some(2), max: None });
                        let outer = Node::G(
                            P { fill: Some('😀'), right: Some(a.is_some()), min: *m, max: *mx },
                            vec![inner.clone(), Node::T("|".to_owned()), lvl.clone()],
                        );
                        let hl = Node::H(P { fill: Some('<'), right: Some(true), min: *mx, max: *m }, vec![outer.clone()]);
                        emit(case_line(&[outer], 2, &chars_split(text), &[1; 200]));
                        if thorough || b.is_none() {
                            emit(case_line(&[hl], 1, &[text.to_string()], &[3, 1, 2, 0, 1, 1, 4]));
                        }
                    }
                }
            }
        }
    }
    // profile-dependent groups {D(..)} / {R(..)} (and their aliases): the active one behaves like
    // the unnamed group, the inactive one writes nothing but its width spec still applies.
    // Every spec shape, alone / between texts / inside an outer spec / around an inner spec.
    let w_none = P { fill: None, right: None, min: None, max: None };
    let mut specs: Vec<P> = vec![w_none.clone()];
    let gw: &[Option<usize>] = if thorough { &[None, Some(0), Some(1), Some(4), Some(9)] } else { &[None, Some(0), Some(3), Some(6)] };
    for m in gw {
        for mx in gw {
            if m.is_none() && mx.is_none() {
                continue;
            }
            specs.push(P { fill: None, right: None, min: *m, max: *mx });
            specs.push(P { fill: None, right: Some(true), min: *m, max: *mx });
            for fill in ['.', '中', '#'] {
                specs.push(P { fill: Some(fill), right: Some(false), min: *m, max: *mx });
                specs.push(P { fill: Some(fill), right: Some(true), min: *m, max: *mx });
            }
        }
    }
    let inner_sets: Vec<Vec<Node>> = vec![
        vec![],
        vec![Node::L(w_none.clone()), Node::T(" ".to_owned()), Node::M(w_none.clone())],
        vec![Node::M(P { fill: Some('é'), right: Some(true), min: Some(5), max: Some(7) })],
        vec![Node::G(P { fill: None, right: Some(true), min: Some(2), max: None }, vec![])],
    ];
    let outer_specs: Vec<P> = vec![
        P { fill: Some('#'), right: Some(true), min: Some(12), max: Some(12) },
        P { fill: Some('😀'), right: Some(false), min: Some(7), max: None },
        P { fill: None, right: None, min: None, max: Some(3) },
        P { fill: Some('~'), right: Some(true), min: Some(9), max: Some(4) },
    ];
    for (si, spec) in specs.iter().enumerate() {
        for (ii, inner) in inner_sets.iter().enumerate() {
            for which in 0..4usize {
                let long = which >= 2;
                let gated = if which % 2 == 0 {
                    Node::D(long, spec.clone(), inner.clone())
                } else {
                    Node::R(long, spec.clone(), inner.clone())
                };
                let script: Vec<usize> = if (si + ii + which) % 2 == 0 { vec![] } else { vec![1; 200] };
                let pieces = if (si + which) % 3 == 0 { chars_split("héy 中") } else { vec!["héy 中".to_owned()] };
                // [ gated ]
                let alone = vec![Node::T("[".to_owned()), gated.clone(), Node::T("]".to_owned())];
                emit(case_line(&alone, 3, &pieces, &script));
                if !thorough && (long || ii == 3) {
                    continue;
                }
                // inside an outer spec, with siblings: {({l}<gated>|):<outer>}
                let o = &outer_specs[(si + ii + which) % outer_specs.len()];
                let inside = Node::G(
                    o.clone(),
                    vec![Node::L(w_none.clone()), gated.clone(), Node::T("|".to_owned())],
                );
                emit(case_line(&[inside.clone()], 3, &pieces, &script));
                // the gated group around a spec'd group and inside a highlight
                let around = if which % 2 == 0 {
                    Node::D(long, spec.clone(), vec![inside])
                } else {
                    Node::R(long, spec.clone(), vec![inside])
                };
                emit(case_line(&[Node::H(o.clone(), vec![around])], 2, &pieces, &script));
            }
        }
    }
    // zero-length texts under every spec shape: empty message, {():..}, {h():..}, empty literal pieces
    for spec in &specs {
        for (k, forest) in [
            vec![Node::G(spec.clone(), vec![])],
            vec![Node::H(spec.clone(), vec![])],
            vec![Node::M(spec.clone())],
            vec![Node::G(spec.clone(), vec![Node::G(w_none.clone(), vec![]), Node::M(w_none.clone())])],
            vec![Node::T("<".to_owned()), Node::G(spec.clone(), vec![Node::M(spec.clone())]), Node::T(">".to_owned())],
        ]
        .iter()
        .enumerate()
        {
            let pieces: Vec<String> = if k % 2 == 0 { vec![] } else { vec![String::new(), String::new()] };
            emit(case_line(forest, 1, &pieces, &[1, 1, 1, 1, 1, 1, 1, 1, 1, 1, 1, 1, 1, 1, 1, 1]));
        }
    }
    // every other formatter, every error snippet and every non-canonical spelling: alone, under a
    // cutting / padding spec of its own, and inside a group with a spec
    let fspecs: Vec<P> = vec![
        w_none.clone(),
        P { fill: Some('·'), right: Some(true), min: Some(9), max: None },
        P { fill: Some('~'), right: Some(false), min: Some(4), max: Some(5) },
        P { fill: None, right: None, min: None, max: Some(2) },
        P { fill: Some('😀'), right: Some(true), min: Some(7), max: Some(3) },
    ];
    for (src, pcs) in other_formatters() {
        for (i, sp) in fspecs.iter().enumerate() {
            let x = Node::X(src.to_owned(), pcs.iter().map(|x| x.to_string()).collect(), sp.clone());
            let script: Vec<usize> = if i % 2 == 0 { vec![] } else { vec![1; 120] };
            emit(case_line(&[Node::T("<".to_owned()), x.clone(), Node::T(">".to_owned())], 3, &["msg".to_owned()], &script));
            let o = &outer_specs[i % outer_specs.len()];
            emit(case_line(&[Node::G(o.clone(), vec![x.clone(), Node::T("|".to_owned()), Node::M(w_none.clone())])], 2, &["m中".to_owned()], &script));
        }
    }
    for (raw, pcs) in error_snippets() {
        let wnode = Node::W(raw.to_owned(), pcs.iter().map(|x| x.to_string()).collect());
        emit(case_line(&[wnode.clone()], 3, &["x".to_owned()], &[]));
        for (i, o) in outer_specs.iter().enumerate() {
            let script: Vec<usize> = if i % 2 == 0 { vec![] } else { vec![3; 120] };
            emit(case_line(&[Node::G(o.clone(), vec![Node::L(w_none.clone()), wnode.clone()])], 3, &["x".to_owned()], &script));
            emit(case_line(&[Node::H(o.clone(), vec![wnode.clone(), Node::T("é".to_owned())])], 1, &["x".to_owned()], &script));
        }
    }
    for (raw, p) in odd_specs() {
        for text in ["", "ab", "héllo wörld 中文"] {
            let y = Node::Y(raw.to_owned(), p.clone());
            emit(case_line(&[Node::T("[".to_owned()), y.clone(), Node::T("]".to_owned())], 3, &chars_split(text), &[2; 60]));
            emit(case_line(&[Node::G(outer_specs[0].clone(), vec![y])], 3, &[text.to_owned()], &[]));
        }
    }
    // failing runs, deterministic: a byte-by-byte sink that fails at its k-th call, for EVERY k up to
    // the length of the output — after every possible number of emitted bytes, also in the middle
    // of a multi-byte character —, for left/right alignment with and without a maximum, nested,
    // with a highlight (failing set_style for every budget) and with a failing Display at every
    // piece position
    let fail_forests: Vec<Vec<Node>> = vec![
        vec![Node::M(P { fill: Some('~'), right: Some(false), min: Some(7), max: None })],
        vec![Node::M(P { fill: Some('中'), right: Some(true), min: Some(6), max: Some(8) })],
        vec![Node::M(P { fill: None, right: None, min: None, max: Some(3) })],
        vec![Node::T("[é".to_owned()), Node::G(
            P { fill: Some('😀'), right: Some(false), min: Some(8), max: Some(9) },
            vec![Node::L(w_none.clone()), Node::T(":".to_owned()), Node::M(P { fill: Some('.'), right: Some(true), min: Some(4), max: None })],
        ), Node::T("]".to_owned())],
        vec![Node::H(P { fill: Some('*'), right: Some(true), min: Some(9), max: None }, vec![Node::M(w_none.clone()), Node::H(w_none.clone(), vec![Node::L(w_none.clone())])])],
        vec![Node::R(false, P { fill: Some('#'), right: Some(false), min: Some(3), max: None }, vec![]), Node::D(false, P { fill: Some('#'), right: Some(true), min: Some(5), max: Some(4) }, vec![Node::M(w_none.clone())])],
    ];
    let fail_kinds: &[Acc] = if thorough { &[Acc::Fail, Acc::DevFull] } else { &[Acc::Fail] };
    for (fi, forest) in fail_forests.iter().enumerate() {
        let text = if fi % 2 == 0 { "aé中" } else { "😀b" };
        let pieces: Vec<Option<String>> = chars_split(text).into_iter().map(Some).collect();
        for k in 0..26usize {
            for kind in fail_kinds {
                let mut sc = vec![Acc::Take(1); k];
                if k % 3 == 2 {
                    sc.insert(k / 2, Acc::Intr);
                }
                sc.push(*kind);
                emit(case_line_x(forest, 1, &pieces, &sc, None));
            }
        }
        for b in 0..5usize {
            emit(case_line_x(forest, 1, &pieces, &[Acc::Take(2); 50], Some(b)));
        }
        for at in 0..=pieces.len() {
            let mut ps = pieces.clone();
            ps.insert(at, None);
            emit(case_line_x(forest, 2, &ps, &[Acc::Take(1); 50], None));
            emit(case_line_x(forest, 2, &ps, &[], None));
        }
    }
    // random stream
    for _ in 0..n {
        let big = thorough && rng.chance(1, 10);
        let depth = if thorough { rng.range(0, 4) } else { rng.range(0, 3) };
        let k = if rng.chance(3, 4) { 1 } else { rng.range(0, 3) };
        let forest: Vec<Node> = (0..k).map(|_| rand_node(rng, depth, big)).collect();
        let text = if rng.chance(1, 3) {
            rng.pick(TEXTS).to_string()
        } else {
            rand_text(rng, ALPHA, if thorough { 24 } else { 14 })
        };
        let pieces = split_pieces(rng, &text);
        let script = rand_script(rng);
        let level = rng.range(1, 5);
        if rng.chance(1, 4) {
            // a failing run: sink error / interruption, failing set_style, failing Display
            let mut ps: Vec<Option<String>> = pieces.iter().map(|p| Some(p.clone())).collect();
            let mut sc: Vec<Acc> = script.iter().map(|k| Acc::Take(*k)).collect();
            let mut budget = None;
            match rng.below(6) {
                0 | 1 | 2 => sc = with_faults(rng, &script),
                3 => budget = Some(rng.range(0, 3) as usize),
                4 => {
                    let at = rng.below(ps.len() as u64 + 1) as usize;
                    ps.insert(at, None);
                }
                _ => {
                    sc = with_faults(rng, &script);
                    budget = Some(rng.range(0, 4) as usize);
                    if rng.chance(1, 2) {
                        let at = rng.below(ps.len() as u64 + 1) as usize;
                        ps.insert(at, None);
                    }
                }
            }
            emit(case_line_x(&forest, level, &ps, &sc, budget));
        } else {
            emit(case_line(&forest, level, &pieces, &script));
        }
    }
}

/// child-process entry point (`verif-harness child c10 …`) — not needed for C10
pub fn child(_args: &[String]) -> i32 {
    2
}
