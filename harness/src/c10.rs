//! C10 — width / fill / alignment. Real code: `PatternEncoder::new(pattern).encode(..)` into a
//! capturing `encode::Write` whose `write` accepts a scripted number of bytes per call; the message
//! is a `Display` impl that emits its text in scripted `write_str` pieces.
//!
//! Case fields (see lean/Driver/C10.lean): forest tokens, level, message pieces, sink script.
use crate::proto::*;
use crate::rng::Rng;
use log::{Level, Record};
use log4rs::encode::{self, pattern::PatternEncoder, Color, Encode, Style};
use std::fmt;
use std::io;

#[derive(Clone, Debug)]
struct P {
    fill: Option<char>,
    right: Option<bool>,
    min: Option<usize>,
    max: Option<usize>,
}

#[derive(Clone, Debug)]
enum Node {
    M(P),
    L(P),
    T(String),
    G(P, Vec<Node>),
    H(P, Vec<Node>),
}

// ---------------------------------------------------------------------------------------------
// printing: case tokens and pattern text
// ---------------------------------------------------------------------------------------------
fn p_token(p: &P) -> String {
    format!(
        "{}/{}/{}/{}",
        enc_opt(p.fill, |c| format!("{:x}", c as u32)),
        match p.right {
            None => "-",
            Some(false) => "L",
            Some(true) => "R",
        },
        enc_opt(p.min, |n| n.to_string()),
        enc_opt(p.max, |n| n.to_string())
    )
}

fn tokens(n: &Node, out: &mut Vec<String>) {
    match n {
        Node::M(p) => out.push(format!("m:{}", p_token(p))),
        Node::L(p) => out.push(format!("l:{}", p_token(p))),
        Node::T(s) => out.push(format!("t:{}", enc_str(s))),
        Node::G(p, cs) => {
            out.push(format!("g{}:{}", cs.len(), p_token(p)));
            for c in cs {
                tokens(c, out);
            }
        }
        Node::H(p, cs) => {
            out.push(format!("h{}:{}", cs.len(), p_token(p)));
            for c in cs {
                tokens(c, out);
            }
        }
    }
}

/// `[[fill]align][min]['.' max]` so that `Parser::parameters` reads back exactly `p`:
/// a fill is always followed by its alignment character (the parser only recognises a fill when
/// the character after it is `<` or `>`); without a fill the first character after `:` is an
/// alignment character, a digit, `.` or `}` and the one after it is never `<`/`>`.
fn p_pattern(p: &P) -> String {
    if p.fill.is_none() && p.right.is_none() && p.min.is_none() && p.max.is_none() {
        return String::new();
    }
    let mut s = String::from(":");
    if let Some(f) = p.fill {
        s.push(f);
    }
    match p.right {
        Some(false) => s.push('<'),
        Some(true) => s.push('>'),
        None => {}
    }
    if let Some(m) = p.min {
        s.push_str(&m.to_string());
    }
    if let Some(m) = p.max {
        s.push('.');
        s.push_str(&m.to_string());
    }
    s
}

fn pattern(n: &Node, out: &mut String) {
    match n {
        Node::M(p) => {
            out.push_str("{m");
            out.push_str(&p_pattern(p));
            out.push('}');
        }
        Node::L(p) => {
            out.push_str("{l");
            out.push_str(&p_pattern(p));
            out.push('}');
        }
        Node::T(s) => {
            for c in s.chars() {
                if matches!(c, '{' | '}' | '(' | ')' | '\\') {
                    out.push('\\');
                }
                out.push(c);
            }
        }
        Node::G(p, cs) | Node::H(p, cs) => {
            out.push_str(if matches!(n, Node::H(..)) { "{h(" } else { "{(" });
            for c in cs {
                pattern(c, out);
            }
            out.push(')');
            out.push_str(&p_pattern(p));
            out.push('}');
        }
    }
}

// ---------------------------------------------------------------------------------------------
// decoding a case
// ---------------------------------------------------------------------------------------------
fn dec_p(s: &str) -> Option<P> {
    let f: Vec<&str> = s.split('/').collect();
    if f.len() != 4 {
        return None;
    }
    let fill = if f[0] == "-" {
        None
    } else {
        Some(u32::from_str_radix(f[0], 16).ok().and_then(char::from_u32)?)
    };
    let right = match f[1] {
        "-" => None,
        "L" => Some(false),
        "R" => Some(true),
        _ => return None,
    };
    let num = |x: &str| -> Option<Option<usize>> {
        if x == "-" {
            Some(None)
        } else {
            x.parse().ok().map(Some)
        }
    };
    if fill.is_some() && right.is_none() {
        return None;
    }
    Some(P { fill, right, min: num(f[2])?, max: num(f[3])? })
}

fn parse_nodes(toks: &[String], pos: &mut usize, k: usize) -> Option<Vec<Node>> {
    let mut v = vec![];
    for _ in 0..k {
        let tok = toks.get(*pos)?;
        *pos += 1;
        let (head, arg) = tok.split_once(':')?;
        let kind = head.chars().next()?;
        let cnt = &head[kind.len_utf8()..];
        let node = match kind {
            'm' if cnt.is_empty() => Node::M(dec_p(arg)?),
            'l' if cnt.is_empty() => Node::L(dec_p(arg)?),
            't' if cnt.is_empty() => Node::T(dec_str(arg)?),
            'g' | 'h' => {
                let n: usize = cnt.parse().ok()?;
                let p = dec_p(arg)?;
                let cs = parse_nodes(toks, pos, n)?;
                if kind == 'g' {
                    Node::G(p, cs)
                } else {
                    Node::H(p, cs)
                }
            }
            _ => return None,
        };
        v.push(node);
    }
    Some(v)
}

fn parse_forest(field: &str) -> Option<Vec<Node>> {
    let toks = dec_list(',', field);
    let mut pos = 0;
    let mut v = vec![];
    while pos < toks.len() {
        v.extend(parse_nodes(&toks, &mut pos, 1)?);
    }
    Some(v)
}

// ---------------------------------------------------------------------------------------------
// the capturing writer and the piecewise message
// ---------------------------------------------------------------------------------------------
struct Cap {
    script: Vec<usize>,
    idx: usize,
    bytes: Vec<u8>,
    styles: Vec<(usize, Style)>,
}

impl io::Write for Cap {
    fn write(&mut self, buf: &[u8]) -> io::Result<usize> {
        let k = self.script.get(self.idx).copied().unwrap_or(0);
        self.idx += 1;
        let n = if k == 0 { buf.len() } else { k.min(buf.len()) };
        self.bytes.extend_from_slice(&buf[..n]);
        Ok(n)
    }
    fn flush(&mut self) -> io::Result<()> {
        Ok(())
    }
}

impl encode::Write for Cap {
    fn set_style(&mut self, style: &Style) -> io::Result<()> {
        self.styles.push((self.bytes.len(), style.clone()));
        Ok(())
    }
}

struct Piecewise(Vec<String>);

impl fmt::Display for Piecewise {
    fn fmt(&self, f: &mut fmt::Formatter<'_>) -> fmt::Result {
        for p in &self.0 {
            f.write_str(p)?;
        }
        Ok(())
    }
}

fn color_no(c: &Color) -> u32 {
    match c {
        Color::Black => 0,
        Color::Red => 1,
        Color::Green => 2,
        Color::Yellow => 3,
        Color::Blue => 4,
        Color::Magenta => 5,
        Color::Cyan => 6,
        Color::White => 7,
    }
}

fn enc_style(s: &Style) -> String {
    format!(
        "{}/{}/{}",
        enc_opt(s.text.as_ref(), |c| color_no(c).to_string()),
        enc_opt(s.background.as_ref(), |c| color_no(c).to_string()),
        enc_opt(s.intense, |b| enc_bool(b).to_owned())
    )
}

pub fn exec(fields: &[&str]) -> String {
    if fields.len() != 4 {
        return "bad-case".to_owned();
    }
    let forest = match parse_forest(fields[0]) {
        Some(f) => f,
        None => return "bad-case".to_owned(),
    };
    let level = match fields[1] {
        "1" => Level::Error,
        "2" => Level::Warn,
        "3" => Level::Info,
        "4" => Level::Debug,
        "5" => Level::Trace,
        _ => return "bad-case".to_owned(),
    };
    let pieces: Option<Vec<String>> = dec_list(',', fields[2]).iter().map(|s| dec_str(s)).collect();
    let pieces = match pieces {
        Some(p) => p,
        None => return "bad-case".to_owned(),
    };
    let script: Option<Vec<usize>> = dec_list(',', fields[3]).iter().map(|s| s.parse().ok()).collect();
    let script = match script {
        Some(s) => s,
        None => return "bad-case".to_owned(),
    };
    let mut pat = String::new();
    for n in &forest {
        pattern(n, &mut pat);
    }
    let r = guarded(move || {
        let enc = PatternEncoder::new(&pat);
        let mut cap = Cap { script, idx: 0, bytes: vec![], styles: vec![] };
        let msg = Piecewise(pieces);
        let res = enc.encode(
            &mut cap,
            &Record::builder().level(level).target("t").args(format_args!("{}", msg)).build(),
        );
        (res.is_ok(), cap.bytes, cap.styles)
    });
    match r {
        Err(_) => "PANIC".to_owned(),
        Ok((false, _, _)) => "err".to_owned(),
        Ok((true, bytes, styles)) => {
            let st: Vec<String> = styles.iter().map(|(pos, s)| format!("{}:{}", pos, enc_style(s))).collect();
            format!("{} {}", enc_bytes(&bytes), enc_list(",", &st))
        }
    }
}

// ---------------------------------------------------------------------------------------------
// generation
// ---------------------------------------------------------------------------------------------
const FILLS: &[char] = &[
    ' ', '~', 'é', '中', '😀', '}', ':', '<', '>', '0', '7', '.', '-', '{', '(', ')', '\\', '\u{301}', 'm',
];
const ALPHA: &[char] = &[
    'a', 'b', 'Z', ' ', '1', 'é', 'ß', '中', '€', '😀', '𝄞', '\u{301}', '\u{200d}', 'e', '~', ':', '>',
];
const LIT: &[char] = &['x', '-', ' ', 'é', '中', '😀', '{', '}', '(', ')', '\\', ':', '\u{308}'];
const TEXTS: &[&str] = &[
    "",
    "a",
    "hello",
    "héllo wörld",
    "中文字符串",
    "a😀b😀c",
    "e\u{301}e\u{301}e\u{301}",
    "ab中😀é",
    "😀",
    "𝄞𝄞𝄞𝄞𝄞𝄞𝄞𝄞",
    "ééééééééééééé",
    "the quick brown fox",
];

fn rand_text(rng: &mut Rng, alpha: &[char], max: u64) -> String {
    let n = rng.range(0, max);
    (0..n).map(|_| *rng.pick(alpha)).collect()
}

fn split_pieces(rng: &mut Rng, s: &str) -> Vec<String> {
    let cs: Vec<char> = s.chars().collect();
    let mode = rng.below(4);
    let mut out = vec![];
    let mut cur = String::new();
    for c in cs {
        cur.push(c);
        let cut = match mode {
            0 => false,
            1 => true,
            _ => rng.chance(1, 3),
        };
        if cut {
            out.push(std::mem::take(&mut cur));
            if rng.chance(1, 8) {
                out.push(String::new());
            }
        }
    }
    if !cur.is_empty() || out.is_empty() && rng.chance(1, 2) {
        out.push(cur);
    }
    out
}

fn rand_script(rng: &mut Rng) -> Vec<usize> {
    match rng.below(5) {
        0 => vec![],
        1 => vec![1; 80],
        2 => (0..rng.range(1, 60)).map(|_| rng.range(1, 3) as usize).collect(),
        3 => (0..rng.range(1, 60)).map(|_| *rng.pick(&[0usize, 1, 2, 3, 5])).collect(),
        _ => (0..rng.range(1, 60)).map(|_| if rng.chance(1, 2) { 0 } else { rng.range(1, 4) as usize }).collect(),
    }
}

fn rand_width(rng: &mut Rng, big: bool) -> Option<usize> {
    match rng.below(10) {
        0 | 1 => None,
        2 => Some(0),
        3 if big => Some(rng.range(13, 40) as usize),
        _ => Some(rng.range(0, 12) as usize),
    }
}

fn rand_p(rng: &mut Rng, big: bool) -> P {
    if rng.chance(1, 8) {
        return P { fill: None, right: None, min: None, max: None };
    }
    let right = match rng.below(5) {
        0 => None,
        1 | 2 => Some(false),
        _ => Some(true),
    };
    let fill = if right.is_some() && rng.chance(2, 3) { Some(*rng.pick(FILLS)) } else { None };
    let mut min = rand_width(rng, big);
    let mut max = rand_width(rng, big);
    // most cases inside the statement's region m <= M, a solid share outside
    if let (Some(a), Some(b)) = (min, max) {
        if a > b && rng.chance(2, 3) {
            min = Some(b);
            max = Some(a);
        }
    }
    P { fill, right, min, max }
}

fn rand_node(rng: &mut Rng, depth: u64, big: bool) -> Node {
    let leaf = depth == 0 || rng.chance(1, 3);
    if leaf {
        match rng.below(6) {
            0 | 1 | 2 => Node::M(rand_p(rng, big)),
            3 => Node::L(rand_p(rng, big)),
            _ => Node::T(rand_text(rng, LIT, 5)),
        }
    } else {
        let k = rng.range(0, 3);
        let cs = (0..k).map(|_| rand_node(rng, depth - 1, big)).collect();
        if rng.chance(1, 3) {
            Node::H(rand_p(rng, big), cs)
        } else {
            Node::G(rand_p(rng, big), cs)
        }
    }
}

fn case_line(forest: &[Node], level: u64, pieces: &[String], script: &[usize]) -> String {
    let mut toks = vec![];
    for n in forest {
        tokens(n, &mut toks);
    }
    let ps: Vec<String> = pieces.iter().map(|p| enc_str(p)).collect();
    let sc: Vec<String> = script.iter().map(|k| k.to_string()).collect();
    format!("{}\t{}\t{}\t{}", enc_list(",", &toks), level, enc_list(",", &ps), enc_list(",", &sc))
}

fn chars_split(s: &str) -> Vec<String> {
    s.chars().map(|c| c.to_string()).collect()
}

pub fn gen(rng: &mut Rng, n: usize, thorough: bool, emit: &mut dyn FnMut(String)) {
    // deterministic grid: one width spec on the message, every (m, M) pair of the grid, both
    // alignments, several fills, whole-buffer and byte-by-byte sinks, whole and per-char pieces
    let widths: Vec<Option<usize>> = if thorough {
        let mut v = vec![None];
        v.extend((0..=12).map(Some));
        v
    } else {
        vec![None, Some(0), Some(1), Some(2), Some(3), Some(5), Some(7), Some(12)]
    };
    let fills: &[char] = if thorough { &[' ', '~', 'é', '中', '😀', '}', ':', '<', '0'] } else { &['~', '中', '😀'] };
    let texts: &[&str] = if thorough { TEXTS } else { &TEXTS[..9] };
    for text in texts {
        for m in &widths {
            for mx in &widths {
                for right in [false, true] {
                    for (fi, fill) in fills.iter().enumerate() {
                        if m.is_none() && fi > 0 {
                            continue;
                        }
                        let p = P { fill: Some(*fill), right: Some(right), min: *m, max: *mx };
                        let (pieces, script): (Vec<String>, Vec<usize>) = match (fi + right as usize) % 3 {
                            0 => (vec![text.to_string()], vec![]),
                            1 => (chars_split(text), vec![1; 120]),
                            _ => (vec![text.to_string()], vec![2; 120]),
                        };
                        emit(case_line(&[Node::M(p)], 3, &pieces, &script));
                    }
                }
            }
        }
    }
    // nested grid: {({m:>a.b}|{l:c}):f>m.M} shapes
    let small: &[Option<usize>] = &[None, Some(0), Some(2), Some(4), Some(9)];
    for text in &["ab中😀é", "e\u{301}x", ""] {
        for a in small {
            for b in small {
                for m in small {
                    for mx in small {
                        let inner = Node::M(P { fill: Some('é'), right: Some(true), min: *a, max: *b });
                        let lvl = Node::L(P { fill: None, right: None, min: Some(2), max: None });
                        let outer = Node::G(
                            P { fill: Some('😀'), right: Some(a.is_some()), min: *m, max: *mx },
                            vec![inner.clone(), Node::T("|".to_owned()), lvl.clone()],
                        );
                        let hl = Node::H(P { fill: Some('<'), right: Some(true), min: *mx, max: *m }, vec![outer.clone()]);
                        emit(case_line(&[outer], 2, &chars_split(text), &[1; 200]));
                        if thorough || b.is_none() {
                            emit(case_line(&[hl], 1, &[text.to_string()], &[3, 1, 2, 0, 1, 1, 4]));
                        }
                    }
                }
            }
        }
    }
    // random stream
    for _ in 0..n {
        let big = thorough && rng.chance(1, 10);
        let depth = if thorough { rng.range(0, 4) } else { rng.range(0, 3) };
        let k = if rng.chance(3, 4) { 1 } else { rng.range(0, 3) };
        let forest: Vec<Node> = (0..k).map(|_| rand_node(rng, depth, big)).collect();
        let text = if rng.chance(1, 3) {
            rng.pick(TEXTS).to_string()
        } else {
            rand_text(rng, ALPHA, if thorough { 24 } else { 14 })
        };
        let pieces = split_pieces(rng, &text);
        let script = rand_script(rng);
        let level = rng.range(1, 5);
        emit(case_line(&forest, level, &pieces, &script));
    }
}

/// child-process entry point (`verif-harness child c10 …`) — not needed for C10
pub fn child(_args: &[String]) -> i32 {
    2
}
