//! C13 — `ConfigBuilder::build` / `build_lossy` on raw builder input, then `Logger::new` + `Log::log`
//! on whatever configuration came back.
//! on whatever configuration came back, observing which `Append` objects receive each probe record.
//! case: rootLevel TAB appenders TAB rootRefs TAB loggers   (see lean/Driver/C13.lean)
use crate::proto::*;
use crate::rng::Rng;
use log::{Level, LevelFilter, Log, Record};
use log4rs::append::Append;
use log4rs::config::runtime::{ConfigError, ConfigErrors};
use log4rs::config::{Appender, Config, Logger, Root};

type Calls = std::sync::Arc<std::sync::Mutex<Vec<usize>>>;

/// the boxed `Append` object; the first field is the position at which it was handed to the builder
/// (its identity), the second the shared list of deliveries
struct Dummy(usize, Calls);

impl std::fmt::Debug for Dummy {
    fn fmt(&self, f: &mut std::fmt::Formatter<'_>) -> std::fmt::Result {
        write!(f, "Dummy({})", self.0)
    }
}

impl Append for Dummy {
    fn append(&self, _: &Record) -> anyhow::Result<()> {
        self.1.lock().unwrap().push(self.0);
        // every second object fails AFTER recording the call: the logger built by `Logger::new` hands the
        // error to its default handler, which reports on stderr (fd 2 is on /dev/full during `exec`) and
        // must neither panic nor keep the later appenders from being called
        if self.0 % 2 == 0 {
            anyhow::bail!("dummy {} fails", self.0)
        }
        Ok(())
    }
    fn flush(&self) {}
}

fn level_of(n: u64) -> Option<LevelFilter> {
    Some(match n {
        0 => LevelFilter::Off,
        1 => LevelFilter::Error,
        2 => LevelFilter::Warn,
        3 => LevelFilter::Info,
        4 => LevelFilter::Debug,
        5 => LevelFilter::Trace,
        _ => return None,
    })
}

fn level_num(l: LevelFilter) -> u64 {
    l as usize as u64
}

struct LoggerIn {
    name: String,
    level: LevelFilter,
    additive: bool,
    refs: Vec<String>,
}

struct Input {
    root_level: LevelFilter,
    appenders: Vec<String>,
    root_refs: Vec<String>,
    loggers: Vec<LoggerIn>,
}

fn dec_names(sep: char, s: &str) -> Option<Vec<String>> {
    dec_list(sep, s).iter().map(|x| dec_str(x)).collect()
}

fn decode(fields: &[&str]) -> Option<Input> {
    if fields.len() != 4 {
        return None;
    }
    let root_level = level_of(fields[0].parse().ok()?)?;
    let appenders = dec_names(',', fields[1])?;
    let root_refs = dec_names(',', fields[2])?;
    let mut loggers = vec![];
    for l in dec_list(',', fields[3]) {
        let p: Vec<&str> = l.split(';').collect();
        if p.len() != 4 {
            return None;
        }
        loggers.push(LoggerIn {
            name: dec_str(p[0])?,
            level: level_of(p[1].parse().ok()?)?,
            additive: match p[2] {
                "1" => true,
                "0" => false,
                _ => return None,
            },
            refs: dec_names('|', p[3])?,
        });
    }
    Some(Input { root_level, appenders, root_refs, loggers })
}

fn builder_of(inp: &Input, calls: &Calls) -> (log4rs::config::runtime::ConfigBuilder, Root) {
    let mut b = Config::builder();
    for (i, a) in inp.appenders.iter().enumerate() {
        b = b.appender(Appender::builder().build(a.clone(), Box::new(Dummy(i, calls.clone()))));
    }
    for l in &inp.loggers {
        b = b.logger(
            Logger::builder()
                .additive(l.additive)
                .appenders(l.refs.iter().cloned())
                .build(l.name.clone(), l.level),
        );
    }
    let root = Root::builder().appenders(inp.root_refs.iter().cloned()).build(inp.root_level);
    (b, root)
}

fn render_errs(e: &ConfigErrors) -> String {
    let v: Vec<String> = e
        .errors()
        .iter()
        .map(|e| match e {
            ConfigError::DuplicateAppenderName(n) => format!("da:{}", enc_str(n)),
            ConfigError::NonexistentAppender(n) => format!("ne:{}", enc_str(n)),
            ConfigError::DuplicateLoggerName(n) => format!("dl:{}", enc_str(n)),
            ConfigError::InvalidLoggerName(n) => format!("il:{}", enc_str(n)),
            _ => "other:_".to_owned(),
        })
        .collect();
    enc_list(",", &v)
}

fn dummy_id(a: &Appender) -> String {
    // Debug of the boxed object is `Dummy(<id>)`
    let d = format!("{:?}", a.appender());
    d.trim_start_matches("Dummy(").trim_end_matches(')').to_owned()
}

fn render_cfg(c: &Config) -> String {
    let apps: Vec<String> = c.appenders().iter().map(|a| format!("{}:{}", enc_str(a.name()), dummy_id(a))).collect();
    let root_refs: Vec<String> = c.root().appenders().iter().map(|r| enc_str(r)).collect();
    let logs: Vec<String> = c
        .loggers()
        .iter()
        .map(|l| {
            let refs: Vec<String> = l.appenders().iter().map(|r| enc_str(r)).collect();
            format!(
                "{};{};{};{}",
                enc_str(l.name()),
                level_num(l.level()),
                enc_bool(l.additive()),
                enc_list("|", &refs)
            )
        })
        .collect();
    format!(
        "{}/{};{}/{}",
        enc_list(",", &apps),
        level_num(c.root().level()),
        enc_list("|", &root_refs),
        enc_list(",", &logs)
    )
}

/// `Logger::new(config)` and `Log::log` for every probe target at the levels Error and Trace — nothing
/// may panic. Returns the outcome and, per probe, the identities of the objects called, in order.
fn install_and_log(c: Config, targets: Vec<String>, calls: &Calls) -> (&'static str, String) {
    let calls = calls.clone();
    let r = guarded(std::panic::AssertUnwindSafe(move || {
        let logger = log4rs::Logger::new(c);
        let mut rows = vec![];
        for t in &targets {
            for (n, lvl) in [(1, Level::Error), (5, Level::Trace)] {
                calls.lock().unwrap().clear();
                logger.log(&Record::builder().level(lvl).target(t).args(format_args!("m")).build());
                let ids: Vec<String> = calls.lock().unwrap().iter().map(|i| i.to_string()).collect();
                rows.push(format!("{}:{}:{}", enc_str(t), n, enc_list("|", &ids)));
            }
        }
        Log::flush(&logger);
        enc_list(",", &rows)
    }));
    match r {
        Ok(rows) => ("ok", rows),
        Err(_) => ("PANIC", "-".to_owned()),
    }
}

fn targets_of(inp: &Input) -> Vec<String> {
    let mut t = vec!["".to_owned(), "zz".to_owned()];
    for l in &inp.loggers {
        t.push(l.name.clone());
        t.push(format!("{}::x", l.name));
    }
    t
}

pub fn exec(fields: &[&str]) -> String {
    let inp = match decode(fields) {
        Some(i) => i,
        None => return "bad-case".to_owned(),
    };
    let calls: Calls = Default::default();
    let r = guarded(std::panic::AssertUnwindSafe(|| {
        let (b, root) = builder_of(&inp, &calls);
        let (lossy, errors) = b.build_lossy(root);
        let errors_s = render_errs(&errors);
        let lossy_s = render_cfg(&lossy);
        let (install, deliv) = install_and_log(lossy, targets_of(&inp), &calls);
        let (b, root) = builder_of(&inp, &calls);
        let (strict, serrors, scfg, sinstall, sdeliv) = match b.build(root) {
            Ok(c) => {
                let s = render_cfg(&c);
                let (i, d) = install_and_log(c, targets_of(&inp), &calls);
                ("ok", "-".to_owned(), s, i, d)
            }
            Err(e) => ("err", render_errs(&e), "-".to_owned(), "-", "-".to_owned()),
        };
        format!(
            "strict={} serrors={} errors={} lossy={} install={} strictcfg={} strictinstall={} deliv={} sdeliv={}",
            strict, serrors, errors_s, lossy_s, install, scfg, sinstall, deliv, sdeliv
        )
    }));
    match r {
        Ok(s) => s,
        Err(_) => "PANIC".to_owned(),
    }
}

// ------------------------------------------------------------------------------------------------

fn emit_case(
    emit: &mut dyn FnMut(String),
    root_level: u64,
    apps: &[String],
    root_refs: &[String],
    loggers: &[(String, u64, bool, Vec<String>)],
) {
    let a: Vec<String> = apps.iter().map(|s| enc_str(s)).collect();
    let r: Vec<String> = root_refs.iter().map(|s| enc_str(s)).collect();
    let l: Vec<String> = loggers
        .iter()
        .map(|(n, lv, ad, refs)| {
            let rs: Vec<String> = refs.iter().map(|s| enc_str(s)).collect();
            format!("{};{};{};{}", enc_str(n), lv, enc_bool(*ad), enc_list("|", &rs))
        })
        .collect();
    emit(format!("{}\t{}\t{}\t{}", root_level, enc_list(",", &a), enc_list(",", &r), enc_list(",", &l)));
}

const APP_POOL: &[&str] = &["a", "b", "c", "d", "", "a::b", "A", "é", "𝒂"];
// the first six are well-formed; then malformed names, non-ASCII names (2-, 3- and 4-byte scalars) and
// colon look-alikes (U+FF1A FULLWIDTH COLON, U+A789 MODIFIER LETTER COLON are ordinary characters)
const NAME_POOL: &[&str] = &[
    "a", "b", "a::b", "a::b::c", "b::a", "::a", "a::", "a:b", "a:::b", "", ":", "::", "a::::b", "x::y", "::a::b", "é::ü",
    "a b", "a::b:", ":a", "a：b", "a：：b", "𝒂::b", "꞉a", "é", "a::é::𝒂", "c", "d", "A",
];

pub fn gen(rng: &mut Rng, n: usize, thorough: bool, emit: &mut dyn FnMut(String)) {
    // exhaustive block: every logger name over {a,b,:} up to the length bound, alone in a builder
    // with one declared appender that it references
    let max_len = if thorough { 7 } else { 5 };
    let alphabet = ['a', 'b', ':'];
    let mut names: Vec<String> = vec![String::new()];
    let mut layer: Vec<String> = vec![String::new()];
    for _ in 0..max_len {
        let mut next = vec![];
        for s in &layer {
            for c in alphabet {
                let mut t = s.clone();
                t.push(c);
                next.push(t);
            }
        }
        names.extend(next.iter().cloned());
        layer = next;
    }
    for name in &names {
        emit_case(emit, 3, &["a".to_owned()], &["a".to_owned()], &[(name.clone(), 4, true, vec!["a".to_owned()])]);
    }
    // every pair of names of length ≤ 2 as two loggers (duplicate × invalid interplay)
    let short: Vec<&String> = names.iter().filter(|s| s.chars().count() <= 2).collect();
    for x in &short {
        for y in &short {
            emit_case(
                emit,
                3,
                &["a".to_owned()],
                &[],
                &[((*x).clone(), 4, true, vec!["q".to_owned()]), ((*y).clone(), 2, false, vec!["a".to_owned()])],
            );
        }
    }
    // small-scope block over appenders × references × two loggers: appender lists over {a,b} of length
    // ≤ 3, root references over {a,b,z} of length ≤ 2, a first logger with a name from
    // {a, b, a::b, "a:", ""} and references over {a,z} of length ≤ 2, a second one with such a name
    // and ≤ 1 reference; additive alternating. thorough: all (≈100 000); quick: every 41st.
    let lists = |alpha: &[&str], max: usize| -> Vec<Vec<String>> {
        let mut out: Vec<Vec<String>> = vec![vec![]];
        let mut layer: Vec<Vec<String>> = vec![vec![]];
        for _ in 0..max {
            let mut next = vec![];
            for l in &layer {
                for a in alpha {
                    let mut m = l.clone();
                    m.push(a.to_string());
                    next.push(m);
                }
            }
            out.extend(next.iter().cloned());
            layer = next;
        }
        out
    };
    let app_lists = lists(&["a", "b"], 3);
    let root_lists = lists(&["a", "b", "z"], 2);
    let ref2 = lists(&["a", "z"], 2);
    let ref1 = lists(&["a", "z"], 1);
    let lnames = ["a", "b", "a::b", "a:", ""];
    let mut k = 0usize;
    for apps in &app_lists {
        for root in &root_lists {
            for n1 in lnames {
                for r1 in &ref2 {
                    for n2 in lnames {
                        for r2 in &ref1 {
                            k += 1;
                            if !thorough && k % 41 != 0 {
                                continue;
                            }
                            emit_case(
                                emit,
                                2 + (k as u64 % 4),
                                apps,
                                root,
                                &[(n1.to_string(), 1 + (k as u64 % 5), k % 2 == 0, r1.clone()), (n2.to_string(), 5 - (k as u64 % 3), k % 3 != 0, r2.clone())],
                            );
                        }
                    }
                }
            }
        }
    }
    // classes named by earlier seeded changes, deterministically: a logger named like an appender;
    // consecutive dangling references; a non-additive logger with a dangling reference; a duplicate of
    // an invalid name; triple duplicates; references to a duplicated appender; non-ASCII names
    for (apps, root, logs) in [
        (vec!["a", "b"], vec!["a"], vec![("a", true, vec!["b"]), ("b", false, vec!["a", "b"])]),
        (vec!["a"], vec!["z", "y", "a"], vec![("x", true, vec!["q", "r", "a", "s"])]),
        (vec!["a", "b"], vec!["a"], vec![("x", false, vec!["z", "b"]), ("x::y", true, vec!["a"])]),
        (vec!["a"], vec![], vec![("a:", true, vec!["z"]), ("a:", false, vec!["a"]), ("a:", true, vec![])]),
        (vec!["a", "a", "a", "b"], vec!["a", "a"], vec![("x", true, vec!["a", "b", "a"]), ("x", true, vec![]), ("x", false, vec!["a"])]),
        (vec!["é", "𝒂", "é"], vec!["𝒂", "e"], vec![("a：b", true, vec!["é"]), ("𝒂::b", false, vec!["𝒂", "𝒃"]), ("꞉a", true, vec![])]),
        (vec!["", "a"], vec![""], vec![("::a", true, vec![""]), ("a", true, vec!["", "a"])]),
    ] {
        let apps: Vec<String> = apps.iter().map(|s| s.to_string()).collect();
        let root: Vec<String> = root.iter().map(|s| s.to_string()).collect();
        let logs: Vec<(String, u64, bool, Vec<String>)> =
            logs.iter().map(|(n, add, r)| (n.to_string(), 4, *add, r.iter().map(|s| s.to_string()).collect())).collect();
        for lvl in [2, 5] {
            emit_case(emit, lvl, &apps, &root, &logs);
        }
    }
    // random stream
    for _ in 0..n {
        let wide = rng.chance(1, 4);
        let n_apps = rng.range(0, if wide { 8 } else { 4 });
        let pool_n = rng.range(1, APP_POOL.len() as u64) as usize;
        let pool = &APP_POOL[..pool_n];
        let apps: Vec<String> = (0..n_apps).map(|_| rng.pick(pool).to_string()).collect();
        let pick_ref = |rng: &mut Rng| -> String {
            // declared names, names from the wider pool (possibly dangling), never-declared names
            match rng.below(10) {
                0..=5 if !apps.is_empty() => rng.pick(&apps).clone(),
                6..=8 => rng.pick(APP_POOL).to_string(),
                _ => rng.pick(&["zz", "a ", "missing"]).to_string(),
            }
        };
        let n_root = rng.range(0, 4);
        let root_refs: Vec<String> = (0..n_root).map(|_| pick_ref(rng)).collect();
        let n_log = rng.range(0, if wide { 8 } else { 4 });
        let valid_bias = rng.chance(1, 2);
        let mut loggers: Vec<(String, u64, bool, Vec<String>)> = vec![];
        for _ in 0..n_log {
            let name = if !loggers.is_empty() && rng.chance(1, 4) {
                rng.pick(&loggers).0.clone()
            } else if valid_bias && rng.chance(3, 4) {
                rng.pick(&NAME_POOL[..5]).to_string()
            } else if !apps.is_empty() && rng.chance(1, 8) {
                // a logger named like an appender
                rng.pick(&apps).clone()
            } else {
                rng.pick(NAME_POOL).to_string()
            };
            let n_refs = rng.range(0, if wide { 5 } else { 3 });
            let mut refs: Vec<String> = (0..n_refs).map(|_| pick_ref(rng)).collect();
            if rng.chance(1, 10) {
                // consecutive dangling references
                let at = rng.below(refs.len() as u64 + 1) as usize;
                refs.insert(at, "zz".to_owned());
                refs.insert(at, "missing".to_owned());
            }
            loggers.push((name, rng.range(0, 5), rng.chance(1, 2), refs));
        }
        // a fully well-formed variant now and then: unique names, only declared references
        if rng.chance(1, 5) {
            let mut seen = std::collections::BTreeSet::new();
            let apps2: Vec<String> = apps.iter().filter(|a| seen.insert((*a).clone())).cloned().collect();
            let mut seen_l = std::collections::BTreeSet::new();
            let loggers2: Vec<(String, u64, bool, Vec<String>)> = loggers
                .iter()
                .filter(|l| NAME_POOL[..6].contains(&l.0.as_str()) && seen_l.insert(l.0.clone()))
                .map(|l| (l.0.clone(), l.1, l.2, l.3.iter().filter(|r| apps2.contains(r)).cloned().collect()))
                .collect();
            let root2: Vec<String> = root_refs.iter().filter(|r| apps2.contains(r)).cloned().collect();
            emit_case(emit, rng.range(0, 5), &apps2, &root2, &loggers2);
        } else {
            emit_case(emit, rng.range(0, 5), &apps, &root_refs, &loggers);
        }
    }
}

/// child-process entry point (unused by this property)
pub fn child(_args: &[String]) -> i32 {
    2
}
