//! C18 — console appender: tty_only, colour policy, SGR sequences, highlight resets.
//!
//! Three kinds of cases (see lean/Driver/C18.lean for the field layout):
//!   style    all 243 `Style`s through the real `AnsiWriter(Vec<u8>)::set_style` (exhaustive, every run)
//!   hl       random nested `{h(…)}` patterns × level through `PatternEncoder::encode` into an
//!            `AnsiWriter(Vec<u8>)` (colour) or a `SimpleWriter(Vec<u8>)` (no colour)
//!   hlf      the same with format specs (fill, alignment, min/max width; max 0 and min > max
//!            included) ON highlight groups and on plain groups AROUND them, group nesting ≤ 3,
//!            contents shorter than / equal to / longer than the maximum width, a message of
//!            varying length; a systematic block (templates × 5 levels × lengths around the
//!            limit) on every run plus random patterns
//!   planp    like plan, every appender using a given pattern (nested / width parameters, a message
//!            with a newline in the middle) instead of the fixed one: the REAL ConsoleAppender and its
//!            WriterLock / LineWriter path under such patterns
//!   fsize    one appender whose target is a file limited by RLIMIT_FSIZE: the stream fails after N bytes
//!   plan     like console, but the child gets a PLAN: several appenders (target, tty_only, builder
//!            call order / config deserializer), built in the given order, each then appending one
//!            record per level; stdout and stderr independently a pty or a pipe
//!   console  a child process (`verif-harness child c18 <target> <tty_only>`) that builds a real
//!            `ConsoleAppender` and appends one record per level; its stdout / stderr are each a
//!            pseudo-terminal or a pipe (tools/pty_run.py), under each of the 27 settings of
//!            NO_COLOR / CLICOLOR / CLICOLOR_FORCE (unset, "0", "1"). thorough: all 432 set-ups
//!            (27 env × 2 × 2 stream kinds × 2 targets × 2 tty_only); quick: a covering subset that
//!            contains every row of the F2 region.
use crate::proto::*;
use crate::rng::Rng;
use log::{Level, Record};
use log4rs::append::console::{ConsoleAppender, Target};
use log4rs::append::Append;
use log4rs::encode::pattern::PatternEncoder;
use log4rs::encode::writer::ansi::AnsiWriter;
use log4rs::encode::writer::simple::SimpleWriter;
use log4rs::encode::{Color, Encode, Style, Write as EncodeWrite};
use std::panic::AssertUnwindSafe;
use std::path::PathBuf;
use std::process::Command;

const CHILD_PATTERN: &str = "{h({l} {m})}{n}";
const ENV_VALS: [&str; 3] = ["-", "0", "1"];
const VARS: [&str; 3] = ["NO_COLOR", "CLICOLOR", "CLICOLOR_FORCE"];

fn color(n: u8) -> Color {
    match n {
        0 => Color::Black,
        1 => Color::Red,
        2 => Color::Green,
        3 => Color::Yellow,
        4 => Color::Blue,
        5 => Color::Magenta,
        6 => Color::Cyan,
        _ => Color::White,
    }
}

fn level(n: u8) -> Option<Level> {
    match n {
        1 => Some(Level::Error),
        2 => Some(Level::Warn),
        3 => Some(Level::Info),
        4 => Some(Level::Debug),
        5 => Some(Level::Trace),
        _ => None,
    }
}

// ---------------------------------------------------------------------------------------------
// generator
// ---------------------------------------------------------------------------------------------

/// the colour decision, used ONLY to select which console rows the quick tier runs
/// (0 = auto, 1 = always, 2 = never)
fn mode_for_selection(nc: &str, cc: &str, cf: &str) -> u8 {
    if nc == "1" {
        2
    } else if cf == "1" {
        1
    } else if cc == "0" {
        2
    } else {
        0
    }
}

fn console_line(env: [&str; 3], tty_out: bool, tty_err: bool, target: &str, tty_only: bool) -> String {
    format!(
        "console\t{}\t{}\t{}\t{}\t{}\t{}\t{}",
        env[0],
        env[1],
        env[2],
        enc_bool(tty_out),
        enc_bool(tty_err),
        target,
        enc_bool(tty_only)
    )
}

/// target stream of the given kind, the other stream of the opposite kind (so that a check of the
/// wrong file descriptor shows)
fn console_target_kind(env: [&str; 3], target: &str, target_tty: bool, tty_only: bool) -> String {
    let (o, e) = if target == "stdout" { (target_tty, !target_tty) } else { (!target_tty, target_tty) };
    console_line(env, o, e, target, tty_only)
}

const TEXT_ALPHABET: &[&str] = &[
    "a", "b", "Z", "0", "9", " ", ".", ":", "-", "_", "=", "[", "]", "m", ";", "é", "→", "\u{1F600}", "x", "y",
];

fn gen_chunks(rng: &mut Rng, depth: u32, max_depth: u32, out: &mut Vec<String>) {
    let items = rng.range(if depth == 0 { 1 } else { 0 }, 3);
    for _ in 0..items {
        let r = rng.below(10);
        // at the top level groups dominate, so that few patterns are group-free
        if (r < 4 || (depth == 0 && r < 8)) && depth < max_depth {
            out.push("H".to_owned());
            gen_chunks(rng, depth + 1, max_depth, out);
            out.push("E".to_owned());
        } else if r < 6 {
            out.push("L".to_owned());
        } else {
            let len = rng.range(1, 5);
            let mut s = String::new();
            for _ in 0..len {
                let t: &&str = rng.pick(TEXT_ALPHABET);
                s.push_str(t);
            }
            out.push(format!("T{}", enc_bytes(s.as_bytes())));
        }
    }
}

const MSG_ALPHABET: &[&str] = &["a", "b", "c", "d", "e", "f", "g", "h", "0", "1", " ", "é", "→", "\u{1F600}", "m", ";", "["];
const FILLS: &[char] = &[' ', ' ', '*', '.', '_', '0', '#', 'é', '→'];
/// content that carries ESC bytes itself (a logged string with colour codes, a stray ESC)
const ESC_PIECES: &[&str] = &["\u{1b}", "\u{1b}[0m", "\u{1b}[31m", "\u{1b}[", "x\u{1b}y"];

#[derive(Clone, Copy)]
struct FOpts {
    /// ESC may occur in text and as a fill character
    esc: bool,
    /// every minimum width ≤ its maximum width
    ordered: bool,
    /// `{D(..)}`, `{R(..)}`, `{nosuch}` may occur
    extras: bool,
}

fn level_name_len(lvl: u8) -> usize {
    match lvl {
        1 | 4 | 5 => 5,
        _ => 4,
    }
}

/// chunk list with parameters on groups; returns the (rough) number of characters it renders,
/// which the caller uses to aim maximum widths below, at and above the content length
fn gen_fchunks(rng: &mut Rng, depth: u32, max_depth: u32, lvl: u8, msg_len: usize, o: FOpts, out: &mut Vec<String>) -> usize {
    let items = rng.range(if depth == 0 { 1 } else { 0 }, 3);
    let mut total = 0usize;
    for _ in 0..items {
        let r = rng.below(12);
        if (r < 5 || (depth == 0 && r < 9)) && depth < max_depth {
            let highlight = rng.chance(2, 3);
            // a plain group may also be a `{D(..)}` (kept in this build) or `{R(..)}` (dropped) group
            let plain_kind = if !highlight && o.extras && rng.chance(1, 3) {
                if rng.chance(1, 2) { "D" } else { "R" }
            } else {
                "G"
            };
            let at = out.len();
            out.push(String::new());
            let inner = gen_fchunks(rng, depth + 1, max_depth, lvl, msg_len, o, out);
            out.push("E".to_owned());
            let with_params = rng.chance(if highlight { 3 } else { 9 }, if highlight { 4 } else { 10 });
            let mut rendered = inner;
            let tok = if !with_params {
                if highlight {
                    "H".to_owned()
                } else {
                    format!("{}/-/l/-/-", plain_kind)
                }
            } else {
                let near = |rng: &mut Rng| -> usize {
                    match rng.below(8) {
                        0 => 0,
                        1 => inner.saturating_sub(1),
                        2 => inner,
                        3 => inner + 1,
                        4 => inner / 2,
                        5 => inner + rng.range(2, 6) as usize,
                        _ => rng.range(0, 10) as usize,
                    }
                };
                let max_w = if rng.chance(4, 5) { Some(near(rng)) } else { None };
                let mut min_w = if rng.chance(1, 2) { Some(near(rng)) } else { None };
                if let (true, Some(m), Some(mx)) = (o.ordered, min_w, max_w) {
                    min_w = Some(m.min(mx));
                }
                let fill = if o.esc && rng.chance(1, 6) { '\u{1b}' } else { *rng.pick(FILLS) };
                let right = rng.chance(1, 2);
                if let Some(m) = min_w {
                    rendered = rendered.max(m);
                }
                if let Some(m) = max_w {
                    rendered = rendered.min(m);
                }
                format!(
                    "{}/{}/{}/{}/{}",
                    if highlight { "H" } else { plain_kind },
                    if fill == ' ' { "-".to_owned() } else { format!("{:x}", fill as u32) },
                    if right { "r" } else { "l" },
                    enc_opt(min_w, |m| m.to_string()),
                    enc_opt(max_w, |m| m.to_string())
                )
            };
            out[at] = tok;
            total += if plain_kind == "R" { rendered.saturating_sub(inner.min(rendered)) } else { rendered };
        } else if r < 7 {
            out.push("M".to_owned());
            total += msg_len;
        } else if r < 8 {
            out.push("L".to_owned());
            total += level_name_len(lvl);
        } else if o.extras && r == 8 && rng.chance(1, 3) {
            out.push("U".to_owned());
            total += 35;
        } else {
            let len = rng.range(1, 5);
            let mut s = String::new();
            for _ in 0..len {
                let t: &&str = if o.esc && rng.chance(1, 4) { rng.pick(ESC_PIECES) } else { rng.pick(TEXT_ALPHABET) };
                s.push_str(t);
            }
            total += s.chars().count();
            out.push(format!("T{}", enc_bytes(s.as_bytes())));
        }
    }
    total
}

pub fn gen(rng: &mut Rng, n: usize, thorough: bool, emit: &mut dyn FnMut(String)) {
    // 1. all 243 styles (exhaustive in both tiers)
    let cols = ["-", "0", "1", "2", "3", "4", "5", "6", "7"];
    for t in cols {
        for b in cols {
            for i in ["-", "1", "0"] {
                emit(format!("style\t{}\t{}\t{}", t, b, i));
            }
        }
    }
    // 2. console matrix
    let mut envs: Vec<[&str; 3]> = vec![];
    for nc in ENV_VALS {
        for cc in ENV_VALS {
            for cf in ENV_VALS {
                envs.push([nc, cc, cf]);
            }
        }
    }
    if thorough {
        for env in &envs {
            for tty_out in [true, false] {
                for tty_err in [true, false] {
                    for target in ["stdout", "stderr"] {
                        for tty_only in [true, false] {
                            emit(console_line(*env, tty_out, tty_err, target, tty_only));
                        }
                    }
                }
            }
        }
    } else {
        // the ordinary interactive set-up and the ordinary redirected one
        for target in ["stdout", "stderr"] {
            for tty_only in [true, false] {
                emit(console_line(["-", "-", "-"], true, true, target, tty_only));
                emit(console_line(["-", "-", "-"], false, false, target, tty_only));
            }
        }
        for env in &envs {
            let mode = mode_for_selection(env[0], env[1], env[2]);
            for target in ["stdout", "stderr"] {
                match mode {
                    // every row on which "colour writer obtained" and "is a terminal" differ (F2 region)
                    2 => emit(console_target_kind(*env, target, true, true)),
                    1 => emit(console_target_kind(*env, target, false, true)),
                    _ => {
                        // colour-neutral rows: restricted appender on a terminal and on a pipe
                        emit(console_target_kind(*env, target, true, true));
                        emit(console_target_kind(*env, target, false, true));
                    }
                }
            }
            // one unrestricted appender and one restricted non-F2 row per environment, drawn at random
            let target = *rng.pick(&["stdout", "stderr"]);
            emit(console_target_kind(*env, target, rng.chance(1, 2), false));
            let target = *rng.pick(&["stdout", "stderr"]);
            let tty = match mode {
                2 => false,
                1 => true,
                _ => rng.chance(1, 2),
            };
            emit(console_line(*env, tty, tty, target, true));
        }
    }
    // 2b. several appenders in one process / other builder call orders (`plan` cases).
    //     item = <o|e><tty_only><a|b|c>: a = .target().tty_only(), b = .tty_only().target(), c = config deserializer
    let bools = [true, false];
    let unset = ["-", "-", "-"];
    let plan_line = |env: [&str; 3], tty_out: bool, tty_err: bool, items: &str| -> String {
        format!("plan\t{}\t{}\t{}\t{}\t{}\t{}", env[0], env[1], env[2], enc_bool(tty_out), enc_bool(tty_err), items)
    };
    let singles: Vec<String> = {
        let mut v = vec![];
        for t in ["o", "e"] {
            for b in ["1", "0"] {
                for o in ["a", "b", "c"] {
                    v.push(format!("{}{}{}", t, b, o));
                }
            }
        }
        v
    };
    if thorough {
        // nothing set in the environment: every single appender and every ordered pair of the 12
        for tty_out in bools {
            for tty_err in bools {
                for a in &singles {
                    emit(plan_line(unset, tty_out, tty_err, a));
                    for b in &singles {
                        emit(plan_line(unset, tty_out, tty_err, &format!("{},{}", a, b)));
                    }
                }
                emit(plan_line(unset, tty_out, tty_err, "o1b,e1b,o0c"));
                emit(plan_line(unset, tty_out, tty_err, "e0a,e1b,o1b,e1c"));
            }
        }
        // every environment: single appenders in call orders b and c (a is the console matrix above)
        // and the pairs on different streams, both build orders, all tty_only combinations
        for env in &envs {
            for tty_out in bools {
                for tty_err in bools {
                    for a in singles.iter().filter(|s| !s.ends_with('a')) {
                        emit(plan_line(*env, tty_out, tty_err, a));
                    }
                    // (streams of the same kind: only the call order that looks things up early)
                    let orders: &[&str] = if tty_out != tty_err { &["a", "b", "c"] } else { &["b"] };
                    for o in orders {
                        for bo in ["1", "0"] {
                            for be in ["1", "0"] {
                                emit(plan_line(*env, tty_out, tty_err, &format!("o{}{},e{}{}", bo, o, be, o)));
                                emit(plan_line(*env, tty_out, tty_err, &format!("e{}{},o{}{}", be, o, bo, o)));
                            }
                        }
                    }
                }
            }
        }
    } else {
        for tty_out in bools {
            for tty_err in bools {
                // single restricted / unrestricted appender, call orders b and c, both targets
                for a in singles.iter().filter(|s| !s.ends_with('a')) {
                    emit(plan_line(unset, tty_out, tty_err, a));
                }
                // two appenders on different streams: both build orders × call orders × tty_only
                for o in ["a", "b", "c"] {
                    for (bo, be) in [("1", "1"), ("0", "0"), ("1", "0"), ("0", "1")] {
                        emit(plan_line(unset, tty_out, tty_err, &format!("o{}{},e{}{}", bo, o, be, o)));
                        emit(plan_line(unset, tty_out, tty_err, &format!("e{}{},o{}{}", be, o, bo, o)));
                    }
                }
                // mixed call orders, same stream twice, three appenders
                emit(plan_line(unset, tty_out, tty_err, "o1b,e1a"));
                emit(plan_line(unset, tty_out, tty_err, "e1c,o1b"));
                emit(plan_line(unset, tty_out, tty_err, "e1b,e0b"));
                emit(plan_line(unset, tty_out, tty_err, "o1b,e1b,o0c"));
                // forced / disabled colour with two restricted appenders, tty_only called first
                for env in [["1", "-", "-"], ["-", "0", "-"], ["-", "-", "1"], ["-", "0", "1"]] {
                    emit(plan_line(env, tty_out, tty_err, "o1b,e1b"));
                    emit(plan_line(env, tty_out, tty_err, "e0b,o0b"));
                }
            }
        }
        // one random two-appender plan per environment
        for env in &envs {
            let a: &String = rng.pick(&singles);
            let b: &String = rng.pick(&singles);
            emit(plan_line(*env, rng.chance(1, 2), rng.chance(1, 2), &format!("{},{}", a, b)));
        }
    }
    // 2c. environment values outside the quantifier: e = "", 00, f = "false" (all "some other
    //     string" for the code) and x = a value that is not valid Unicode (treated as unset)
    {
        let extra = ["e", "00", "f", "x"];
        let others: Vec<[&str; 2]> = if thorough {
            let mut v = vec![];
            for a in ENV_VALS {
                for b in ENV_VALS {
                    v.push([a, b]);
                }
            }
            v
        } else {
            vec![["-", "-"], ["1", "-"], ["-", "1"], ["0", "1"]]
        };
        for pos in 0..3 {
            for x in extra {
                for rest in &others {
                    let mut env = ["-"; 3];
                    let mut it = rest.iter();
                    for (i, slot) in env.iter_mut().enumerate() {
                        *slot = if i == pos { x } else { *it.next().unwrap() };
                    }
                    for tty in bools {
                        if thorough || tty || pos != 1 {
                            emit(plan_line(env, tty, !tty, if tty { "o0a" } else { "o1b,e0a" }));
                        }
                    }
                }
            }
        }
        emit(plan_line(["x", "x", "x"], true, true, "o0a"));
        emit(plan_line(["e", "e", "e"], true, true, "o0a"));
    }
    // 2d. config documents that leave default-valued keys out (call order d)
    for tty_out in bools {
        for tty_err in bools {
            for items in ["o0d", "o1d", "e0d", "e1d", "e1d,o0d"] {
                emit(plan_line(unset, tty_out, tty_err, items));
            }
        }
    }
    // 2e. the REAL appender with nested / width patterns and a newline inside the message
    {
        let pats = [
            "H/-/l/-/5,M,E,T7c0a",                     // {h({m}):.5}|\n
            "H/2a/r/3/5,M,E,T7c0a",                    // {h({m}):*>3.5}|\n
            "G/-/l/-/3,H,M,E,E,T7c0a",                 // {({h({m})}):.3}|\n
            "H/-/l/-/6,T5b,H/-/l/-/3,M,E,T5d,E,T0a",   // {h([{h({m}):.3}]):.6}\n
            "H,L,T20,H/-/l/4/4,M,E,E,T0a",             // {h({l} {h({m}):4.4})}\n
            "T3e,H/5f/l/12/-,M,T2f,L,E,T3c",           // >{h({m}/{l}):_<12}<   (no newline at the end)
        ];
        let msgs = ["ab\ncdefgh", "xy", ""];
        let envs3: [[&str; 3]; 3] = [["-", "-", "-"], ["-", "-", "1"], ["1", "-", "-"]];
        let plans = ["o0a,e0a", "e1b,o1c", "o1a"];
        let mut k = 0usize;
        for (pi, pat) in pats.iter().enumerate() {
            for (mi, msg) in msgs.iter().enumerate() {
                for (ei, env) in envs3.iter().enumerate() {
                    for tty_out in bools {
                        for (li, items) in plans.iter().enumerate() {
                            k += 1;
                            // quick: a Latin-square style selection (about 36 of the 324)
                            if thorough || (pi + mi + ei + li + tty_out as usize) % 9 == 0 || k % 53 == 0 {
                                emit(format!(
                                    "planp\t{}\t{}\t{}\t{}\t{}\t{}\t{}\t{}",
                                    env[0], env[1], env[2], enc_bool(tty_out), enc_bool(!tty_out), items, enc_str(msg), pat
                                ));
                            }
                        }
                    }
                }
            }
        }
        // a few random ordered, ESC-free patterns as well
        for _ in 0..(if thorough { 60 } else { 8 }) {
            let mut toks = vec![];
            let o = FOpts { esc: false, ordered: true, extras: false };
            gen_fchunks(rng, 0, 3, 1, 4, o, &mut toks);
            toks.push("T0a".to_owned());
            let tty_out = rng.chance(1, 2);
            emit(format!(
                "planp\t-\t-\t-\t{}\t{}\t{}\t{}\t{}",
                enc_bool(tty_out), enc_bool(!tty_out), rng.pick(&plans), enc_str("m\nsg!"), enc_list(",", &toks)
            ));
        }
    }
    // 2f. a target stream that fails after N bytes (RLIMIT_FSIZE on a file)
    for limit in [0usize, 1, 8, 9, 14, 18, 22, 23, 24, 40, 60, 98, 99, 100, 4096] {
        emit(format!("fsize\t{}\to", limit));
        if thorough || limit % 2 == 0 {
            emit(format!("fsize\t{}\te", limit));
        }
    }
    // 3. highlight groups with width parameters, systematic: templates × level × message length
    //    around the limit (`W` in a template is the limit; the message has W-1, W, W+1 … characters)
    let templates: [(&str, usize); 12] = [
        ("H/-/l/-/5,M,E,T7c", 5),                       // {h({m}):.5}|
        ("H/-/l/8/5,M,E,T7c", 5),                       // {h({m}):<8.5}|
        ("H/2a/r/8/5,M,E,T7c", 5),                      // {h({m}):*>8.5}|
        ("G/-/l/-/3,H,M,E,E,T7c", 3),                   // {({h({m})}):.3}|
        ("H/-/l/-/0,M,E,T7c", 0),                       // {h({m}):.0}|
        ("G/-/r/6/4,T61,H/-/l/-/2,M,E,T62,E", 2),       // {(a{h({m}):.2}b):>6.4}
        ("H/-/l/-/9,L,T20,M,E,T0a", 3),                 // {h({l} {m}):.9}\n
        ("H/-/l/-/6,T5b,H/-/l/-/3,M,E,T5d,E", 3),       // {h([{h({m}):.3}]):.6}
        ("G/-/l/-/4,G/-/l/-/6,H/-/l/-/8,M,E,E,E,T7c", 4), // three levels, the outermost is the tightest
        ("H/-/r/-/4,M,E,H/-/l/-/4,M,E", 4),             // two groups in a row
        ("H/5f/l/3/-,M,E,T7c", 3),                      // {h({m}):_<3}|   (no maximum)
        ("G/-/l/-/1,Tc3a9,H,Te28692,M,E,E", 1),         // multi-byte characters at the cut
    ];
    let letters = "abcdefghijklmnop";
    for (tokens, w) in templates.iter() {
        for lvl in 1..=5u8 {
            let mut lens: Vec<usize> = vec![0, w.saturating_sub(1), *w, w + 1, w + 7];
            lens.dedup();
            for len in lens {
                let msg: String = letters.chars().take(len).collect();
                emit(format!("hlf\tansi\t{}\t{}\t{}", lvl, enc_str(&msg), tokens));
            }
        }
        emit(format!("hlf\tsimple\t1\t{}\t{}", enc_str("abcdefgh"), tokens));
    }
    // 4. random patterns: one third without parameters, two thirds with
    for k in 0..n {
        let writer = if rng.chance(3, 4) { "ansi" } else { "simple" };
        let lvl = rng.range(1, 5);
        if k % 3 == 0 {
            let max_depth = 1 + (k as u32 % 6);
            let mut toks = vec![];
            gen_chunks(rng, 0, max_depth, &mut toks);
            emit(format!("hl\t{}\t{}\t{}", writer, lvl, enc_list(",", &toks)));
        } else {
            let o = FOpts { esc: k % 8 == 1, ordered: k % 2 == 0, extras: true };
            let msg_len = rng.range(0, 12) as usize;
            let mut msg = String::new();
            for _ in 0..msg_len {
                let t: &&str = if o.esc && rng.chance(1, 5) { rng.pick(ESC_PIECES) } else { rng.pick(MSG_ALPHABET) };
                msg.push_str(t);
            }
            let mut toks = vec![];
            gen_fchunks(rng, 0, 1 + (k as u32 % 5), lvl as u8, msg.chars().count(), o, &mut toks);
            emit(format!("hlf\t{}\t{}\t{}\t{}", writer, lvl, enc_str(&msg), enc_list(",", &toks)));
        }
    }
}

// ---------------------------------------------------------------------------------------------
// executor
// ---------------------------------------------------------------------------------------------

fn exec_style(t: &str, b: &str, i: &str) -> String {
    let parse_col = |s: &str| -> Option<Option<u8>> {
        if s == "-" {
            Some(None)
        } else {
            s.parse::<u8>().ok().filter(|n| *n < 8).map(Some)
        }
    };
    let (t, b) = match (parse_col(t), parse_col(b)) {
        (Some(t), Some(b)) => (t, b),
        _ => return "bad-case".to_owned(),
    };
    let i = match i {
        "-" => None,
        "1" => Some(true),
        "0" => Some(false),
        _ => return "bad-case".to_owned(),
    };
    let mut style = Style::new();
    if let Some(c) = t {
        style.text(color(c));
    }
    if let Some(c) = b {
        style.background(color(c));
    }
    if let Some(x) = i {
        style.intense(x);
    }
    let r = guarded(AssertUnwindSafe(|| {
        let mut w = AnsiWriter(Vec::<u8>::new());
        w.set_style(&style).map(|_| w.0)
    }));
    match r {
        Ok(Ok(bytes)) => enc_bytes(&bytes),
        Ok(Err(_)) => "ERR".to_owned(),
        Err(_) => "PANIC".to_owned(),
    }
}

/// `f/a/m/M` → the format spec text after the closing parenthesis (`:*>8.5`), empty if it says nothing
fn spec_text(parts: &[&str]) -> Option<String> {
    if parts.len() != 4 {
        return None;
    }
    let fill = if parts[0] == "-" { ' ' } else { char::from_u32(u32::from_str_radix(parts[0], 16).ok()?)? };
    let right = match parts[1] {
        "r" => true,
        "l" => false,
        _ => return None,
    };
    let num = |s: &str| -> Option<Option<usize>> {
        if s == "-" {
            Some(None)
        } else {
            s.parse::<usize>().ok().map(Some)
        }
    };
    let (min_w, max_w) = (num(parts[2])?, num(parts[3])?);
    let mut t = String::new();
    if fill != ' ' {
        t.push(fill);
        t.push(if right { '>' } else { '<' });
    } else if right {
        t.push('>');
    }
    if let Some(m) = min_w {
        t.push_str(&m.to_string());
    }
    if let Some(m) = max_w {
        t.push('.');
        t.push_str(&m.to_string());
    }
    Some(if t.is_empty() { t } else { format!(":{}", t) })
}

fn pattern_of_tokens(toks: &[String]) -> Option<String> {
    let mut p = String::new();
    let mut closers: Vec<String> = vec![];
    for t in toks {
        let parts: Vec<&str> = t.split('/').collect();
        match parts[0] {
            "H" | "G" | "D" | "R" if parts.len() == 1 || parts.len() == 5 => {
                if parts[0] != "H" && parts.len() == 1 {
                    return None;
                }
                p.push_str(match parts[0] {
                    "H" => "{h(",
                    "D" => "{D(",
                    "R" => "{R(",
                    _ => "{(",
                });
                let spec = if parts.len() == 5 { spec_text(&parts[1..])? } else { String::new() };
                closers.push(format!("){}}}", spec));
            }
            "E" if parts.len() == 1 => p.push_str(&closers.pop()?),
            "L" if parts.len() == 1 => p.push_str("{l}"),
            "M" if parts.len() == 1 => p.push_str("{m}"),
            "U" if parts.len() == 1 => p.push_str("{nosuch}"),
            _ => {
                let bytes = dec_bytes(t.strip_prefix('T')?)?;
                p.push_str(&String::from_utf8(bytes).ok()?);
            }
        }
    }
    if closers.is_empty() {
        Some(p)
    } else {
        None
    }
}

fn exec_hl(writer: &str, lvl: &str, msg: &str, toks: &str) -> String {
    let lvl = match lvl.parse::<u8>().ok().and_then(level) {
        Some(l) => l,
        None => return "bad-case".to_owned(),
    };
    let pattern = match pattern_of_tokens(&dec_list(',', toks)) {
        Some(p) => p,
        None => return "bad-case".to_owned(),
    };
    let ansi = match writer {
        "ansi" => true,
        "simple" => false,
        _ => return "bad-case".to_owned(),
    };
    let r = guarded(AssertUnwindSafe(|| {
        let enc = PatternEncoder::new(&pattern);
        if ansi {
            let mut w = AnsiWriter(Vec::<u8>::new());
            enc.encode(&mut w, &Record::builder().level(lvl).target("t").args(format_args!("{}", msg)).build())
                .map(|_| w.0)
        } else {
            let mut w = SimpleWriter(Vec::<u8>::new());
            enc.encode(&mut w, &Record::builder().level(lvl).target("t").args(format_args!("{}", msg)).build())
                .map(|_| w.0)
        }
    }));
    match r {
        Ok(Ok(bytes)) => enc_bytes(&bytes),
        Ok(Err(_)) => "ERR".to_owned(),
        Err(_) => "PANIC".to_owned(),
    }
}

/// tools/pty_run.py: `$VERIF_PTY_RUN`, else next to the scratch directory `check` passes
/// (`$VERIF_SCRATCH/../tools`), else relative to the harness executable (`target/release/` → root)
fn pty_helper() -> Option<PathBuf> {
    let mut cands: Vec<PathBuf> = vec![];
    if let Ok(p) = std::env::var("VERIF_PTY_RUN") {
        cands.push(PathBuf::from(p));
    }
    if let Ok(s) = std::env::var("VERIF_SCRATCH") {
        if let Some(root) = PathBuf::from(s).parent() {
            cands.push(root.join("tools").join("pty_run.py"));
        }
    }
    if let Ok(exe) = std::env::current_exe() {
        if let Some(dir) = exe.parent() {
            cands.push(dir.join("../../../tools/pty_run.py"));
        }
    }
    cands.into_iter().find(|p| p.is_file())
}

fn valid_item(it: &str) -> bool {
    let b = it.as_bytes();
    b.len() == 3 && (b[0] == b'o' || b[0] == b'e') && (b[1] == b'0' || b[1] == b'1') && (b'a'..=b'd').contains(&b[2])
}

/// f = [NO_COLOR, CLICOLOR, CLICOLOR_FORCE, tty stdout?, tty stderr?], items = the plan
/// the value a case's environment code stands for (`None` = the variable is removed)
fn env_value(code: &str) -> Option<std::ffi::OsString> {
    use std::os::unix::ffi::OsStringExt;
    match code {
        "-" => None,
        "e" => Some("".into()),
        "f" => Some("false".into()),
        "x" => Some(std::ffi::OsString::from_vec(vec![0xff])),
        other => Some(other.into()), // "0", "1", "00"
    }
}

fn exec_plan(f: &[&str], items: &str, pattern: Option<(&str, &str)>) -> String {
    let ok_env = |s: &str| ["-", "0", "1", "e", "00", "f", "x"].contains(&s);
    let ok_bool = |s: &str| s == "0" || s == "1";
    if !(f.len() == 5 && ok_env(f[0]) && ok_env(f[1]) && ok_env(f[2]) && ok_bool(f[3]) && ok_bool(f[4]))
        || !dec_list(',', items).iter().all(|it| valid_item(it))
    {
        return "bad-case".to_owned();
    }
    let helper = match pty_helper() {
        Some(p) => p,
        None => return "INFRA:tools/pty_run.py-not-found".to_owned(),
    };
    let exe = match std::env::current_exe() {
        Ok(e) => e,
        Err(_) => return "INFRA:current_exe".to_owned(),
    };
    let kind = |s: &str| if s == "1" { "tty" } else { "pipe" };
    let mut cmd = Command::new("python3");
    cmd.arg(&helper).arg(kind(f[3])).arg(kind(f[4])).arg("--").arg(&exe).args(["child", "c18", "plan", items]);
    if let Some((msg, toks)) = pattern {
        cmd.arg(toks).arg(msg);
    }
    // a controlled environment: the three variables exactly as the case says, nothing inherited
    for (var, val) in VARS.iter().zip(f[0..3].iter()) {
        cmd.env_remove(var);
        if let Some(v) = env_value(val) {
            cmd.env(var, v);
        }
    }
    cmd.stdin(std::process::Stdio::null());
    match cmd.output() {
        Ok(o) if o.status.success() => {
            let s = String::from_utf8_lossy(&o.stdout);
            let line = s.lines().next().unwrap_or("").trim().to_owned();
            if line.starts_with("rc=") {
                line
            } else {
                "INFRA:pty_run-output".to_owned()
            }
        }
        Ok(_) => "INFRA:pty_run-failed".to_owned(),
        Err(_) => "INFRA:python3-not-runnable".to_owned(),
    }
}

static FSIZE_SEQ: std::sync::atomic::AtomicUsize = std::sync::atomic::AtomicUsize::new(0);

/// one unrestricted appender, colour forced, whose target descriptor is a file that accepts `limit`
/// bytes (RLIMIT_FSIZE in the child, SIGXFSZ ignored) and fails every later write
fn exec_fsize(limit: &str, tg: &str) -> String {
    if limit.parse::<u64>().is_err() || !(tg == "o" || tg == "e") {
        return "bad-case".to_owned();
    }
    let exe = match std::env::current_exe() {
        Ok(e) => e,
        Err(_) => return "INFRA:current_exe".to_owned(),
    };
    let dir = std::env::var("VERIF_SCRATCH").map(PathBuf::from).unwrap_or_else(|_| std::env::temp_dir());
    let _ = std::fs::create_dir_all(&dir);
    let n = FSIZE_SEQ.fetch_add(1, std::sync::atomic::Ordering::SeqCst);
    let path = dir.join(format!("c18_fsize_{}_{}", std::process::id(), n));
    let mut cmd = Command::new(&exe);
    cmd.args(["child", "c18", "fsize", limit]).arg(&path).arg(tg);
    for var in VARS.iter() {
        cmd.env_remove(var);
    }
    cmd.env("CLICOLOR_FORCE", "1");
    cmd.stdin(std::process::Stdio::null());
    let out = cmd.output();
    let bytes = std::fs::read(&path).unwrap_or_default();
    let _ = std::fs::remove_file(&path);
    match out {
        Ok(o) => match o.status.code() {
            Some(rc) => format!("rc={} file={}", rc, enc_bytes(&bytes)),
            None => "INFRA:child-killed-by-signal".to_owned(),
        },
        Err(_) => "INFRA:child-not-runnable".to_owned(),
    }
}

/// the old single-appender case: `<target> <tty_only>` = the plan `<o|e><tty_only>a`
fn exec_console(f: &[&str]) -> String {
    let t = match f[5] {
        "stdout" => "o",
        "stderr" => "e",
        _ => return "bad-case".to_owned(),
    };
    if !(f[6] == "0" || f[6] == "1") {
        return "bad-case".to_owned();
    }
    exec_plan(&f[0..5], &format!("{}{}a", t, f[6]), None)
}

pub fn exec(fields: &[&str]) -> String {
    match fields {
        ["style", t, b, i] => exec_style(t, b, i),
        ["hl", w, l, toks] => exec_hl(w, l, "msg", toks),
        ["hlf", w, l, msg, toks] => match dec_str(msg) {
            Some(m) => exec_hl(w, l, &m, toks),
            None => "bad-case".to_owned(),
        },
        [kind, rest @ ..] if *kind == "console" && rest.len() == 7 => exec_console(rest),
        ["plan", nc, cc, cf, to, te, items] => exec_plan(&[nc, cc, cf, to, te], items, None),
        ["planp", nc, cc, cf, to, te, items, msg, toks] => exec_plan(&[nc, cc, cf, to, te], items, Some((msg, toks))),
        ["fsize", limit, tg] => exec_fsize(limit, tg),
        _ => "bad-case".to_owned(),
    }
}

// ---------------------------------------------------------------------------------------------
// child process: `verif-harness child c18 <stdout|stderr> <0|1>`
// exit code 0 = all five appends returned Ok, 3 = panic, 4 = an append returned Err, 2 = usage
// ---------------------------------------------------------------------------------------------
pub fn child(args: &[String]) -> i32 {
    if let [k, limit, path, tg] = args {
        if k == "fsize" {
            return child_fsize(limit, path, tg);
        }
    }
    let (items, pattern, msg): (Vec<String>, String, String) = match args {
        [p, items] if p == "plan" => (dec_list(',', items), CHILD_PATTERN.to_owned(), "msg".to_owned()),
        [p, items, toks, msg] if p == "plan" => {
            match (pattern_of_tokens(&dec_list(',', toks)), dec_str(msg)) {
                (Some(pat), Some(m)) => (dec_list(',', items), pat, m),
                _ => return 2,
            }
        }
        [t, b] if (t == "stdout" || t == "stderr") && (b == "0" || b == "1") => (
            vec![format!("{}{}a", if t == "stdout" { "o" } else { "e" }, b)],
            CHILD_PATTERN.to_owned(),
            "msg".to_owned(),
        ),
        _ => return 2,
    };
    if !items.iter().all(|it| valid_item(it)) {
        return 2;
    }
    let r = guarded(AssertUnwindSafe(|| {
        // build every appender of the plan, in order …
        let mut built: Vec<Box<dyn Append>> = vec![];
        for it in &items {
            let b = it.as_bytes();
            let target = if b[0] == b'o' { Target::Stdout } else { Target::Stderr };
            let tty_only = b[1] == b'1';
            let appender: Box<dyn Append> = match b[2] {
                b'a' => Box::new(
                    ConsoleAppender::builder()
                        .encoder(Box::new(PatternEncoder::new(&pattern)))
                        .target(target)
                        .tty_only(tty_only)
                        .build(),
                ),
                b'b' => Box::new(
                    ConsoleAppender::builder()
                        .tty_only(tty_only)
                        .target(target)
                        .encoder(Box::new(PatternEncoder::new(&pattern)))
                        .build(),
                ),
                order => {
                    // through the registered `console` deserializer, as a config file would;
                    // order d leaves out the keys whose value is the default
                    let omit = order == b'd';
                    let mut doc = serde_json::Map::new();
                    doc.insert("kind".into(), "console".into());
                    if !(omit && b[0] == b'o') {
                        doc.insert("target".into(), (if b[0] == b'o' { "stdout" } else { "stderr" }).into());
                    }
                    if !(omit && !tty_only) {
                        doc.insert("tty_only".into(), tty_only.into());
                    }
                    let mut enc = serde_json::Map::new();
                    enc.insert("kind".into(), "pattern".into());
                    enc.insert("pattern".into(), pattern.clone().into());
                    doc.insert("encoder".into(), serde_json::Value::Object(enc));
                    match deserialize_console(&serde_json::Value::Object(doc).to_string()) {
                        Some(a) => a,
                        None => return true,
                    }
                }
            };
            built.push(appender);
        }
        // … then each appends one record per level
        let mut failed = false;
        for appender in &built {
            for lvl in [Level::Error, Level::Warn, Level::Info, Level::Debug, Level::Trace] {
                if appender
                    .append(&Record::builder().level(lvl).target("t").args(format_args!("{}", msg)).build())
                    .is_err()
                {
                    failed = true;
                }
            }
        }
        failed
    }));
    match r {
        Ok(false) => 0,
        Ok(true) => 4,
        Err(_) => 3,
    }
}

/// `child c18 fsize <limit> <path> <o|e>`: the target descriptor becomes a file that accepts
/// `limit` bytes; exit code 0 = every append Ok, 4 = some append returned Err, 3 = panic
fn child_fsize(limit: &str, path: &str, tg: &str) -> i32 {
    let limit: u64 = match limit.parse() {
        Ok(l) => l,
        Err(_) => return 2,
    };
    let (fd, target) = match tg {
        "o" => (libc::STDOUT_FILENO, Target::Stdout),
        "e" => (libc::STDERR_FILENO, Target::Stderr),
        _ => return 2,
    };
    let c = match std::ffi::CString::new(path) {
        Ok(c) => c,
        Err(_) => return 2,
    };
    unsafe {
        let f = libc::open(c.as_ptr(), libc::O_WRONLY | libc::O_CREAT | libc::O_TRUNC, 0o600);
        if f < 0 || libc::dup2(f, fd) < 0 {
            return 2;
        }
        libc::close(f);
        libc::signal(libc::SIGXFSZ, libc::SIG_IGN);
        let lim = libc::rlimit { rlim_cur: limit as libc::rlim_t, rlim_max: limit as libc::rlim_t };
        if libc::setrlimit(libc::RLIMIT_FSIZE, &lim) != 0 {
            return 2;
        }
    }
    let r = guarded(AssertUnwindSafe(|| {
        let appender = ConsoleAppender::builder()
            .encoder(Box::new(PatternEncoder::new(CHILD_PATTERN)))
            .target(target)
            .build();
        let mut failed = false;
        for lvl in [Level::Error, Level::Warn, Level::Info, Level::Debug, Level::Trace] {
            if appender
                .append(&Record::builder().level(lvl).target("t").args(format_args!("msg")).build())
                .is_err()
            {
                failed = true;
            }
        }
        failed
    }));
    match r {
        Ok(false) => 0,
        Ok(true) => 4,
        Err(_) => 3,
    }
}

/// one appender through `Deserializers::default()` (kind `console`), the way `load_config_file` does it
fn deserialize_console(appender_json: &str) -> Option<Box<dyn Append>> {
    let doc = format!(r#"{{"appenders":{{"a":{}}}}}"#, appender_json);
    let raw: log4rs::config::RawConfig = serde_json::from_str(&doc).ok()?;
    let (apps, errs) = raw.appenders_lossy(&log4rs::config::Deserializers::default());
    if !errs.is_empty() || apps.len() != 1 {
        return None;
    }
    // `config::Appender` owns the `Box<dyn Append>`; wrap it so that it can live in the plan's list
    struct Owned(log4rs::config::Appender);
    impl std::fmt::Debug for Owned {
        fn fmt(&self, f: &mut std::fmt::Formatter) -> std::fmt::Result {
            f.write_str("Owned")
        }
    }
    impl Append for Owned {
        fn append(&self, record: &Record) -> anyhow::Result<()> {
            self.0.appender().append(record)
        }
        fn flush(&self) {}
    }
    apps.into_iter().next().map(|a| Box::new(Owned(a)) as Box<dyn Append>)
}
