//! C19 — `$ENV{NAME}` path expansion. Real code: `env_util::expand_env_vars` through the
//! `verif_hooks::expand_env_vars` re-export (fast path), and its three call sites
//! `FileAppender::builder().build`, `RollingFileAppender::builder().build` and
//! `FixedWindowRoller::roll` (observation = which files exist afterwards), each of them both through
//! the builder API and through a configuration FILE (`load_config_file` + `Logger::new` + one record
//! per roll): kinds `file-cfg`, `rolling-cfg`, `roller-cfg`. The two rolling kinds run a HISTORY
//! (size trigger limit 2, one byte per record, fixed-window roller count 2 or delete roller) and
//! observe after build and after every append which files exist, their content, and which file the
//! process holds open (`/proc/self/fd`).
//!
//! The environment may hold variables that are not valid Unicode (entries `b:<name>;<value>` as
//! bytes): bystanders the path never names, and referenced variables with a non-UTF-8 value.
//!
//! The process environment is controlled: at the first case every inherited variable is removed,
//! and around each case exactly the variables the case carries are installed and removed again
//! (`exec` is single-threaded).
use crate::proto::*;
use crate::rng::Rng;
use log4rs::append::file::FileAppender;
use log4rs::append::rolling_file::policy::compound::{
    roll::{delete::DeleteRoller, fixed_window::FixedWindowRoller, Roll},
    trigger::size::SizeTrigger,
    CompoundPolicy,
};
use log4rs::append::rolling_file::RollingFileAppender;
use log4rs::append::Append;
use log4rs::encode::pattern::PatternEncoder;
use std::ffi::OsString;
use std::os::unix::ffi::OsStringExt;
use log4rs::config::{load_config_file, Deserializers};
use std::path::{Path, PathBuf};
use std::sync::atomic::{AtomicUsize, Ordering};
use std::sync::OnceLock;

/// Non-ASCII sample characters with their `char::is_alphanumeric` value — the same table as
/// `sampleTable` in lean/Driver/C19.lean. Checked against Rust at start-up.
const SAMPLES: &[(u32, bool)] = &[
    (0xE9, true),
    (0xDF, true),
    (0x416, true),
    (0x4E2D, true),
    (0x1D4B3, true),
    (0x663, true),
    (0xB2, true),
    (0xBD, true),
    (0x20AC, false),
    (0x2014, false),
    (0xA0, false),
    (0x1F600, false),
    (0x301, false),
];

fn check_samples() {
    for (cp, want) in SAMPLES {
        let c = char::from_u32(*cp).expect("sample is a scalar value");
        if c.is_alphanumeric() != *want {
            eprintln!("C19: char::is_alphanumeric(U+{:X}) = {} but the model's table says {}", cp, !want, want);
            std::process::exit(2);
        }
    }
    for b in 0u8..128 {
        let c = b as char;
        if c.is_alphanumeric() != c.is_ascii_alphanumeric() {
            eprintln!("C19: ASCII classification differs at {}", b);
            std::process::exit(2);
        }
    }
}

// ---------------------------------------------------------------------------------------------
// generator
// ---------------------------------------------------------------------------------------------
const NAMES: &[&str] = &[
    "A", "B", "C", "x", "VP_HOME", "VP_a.b", "_", "_x", "1A", "VP_\u{e9}", "\u{416}", "VP_\u{4e2d}", "n\u{b2}",
    "\u{1d4b3}y", "\u{663}", "A0", "A1", "B2", "Bx", "VP_LOG.DIR",
];
const VALUES: &[&str] = &[
    "", "v", "val", "E", "EN", "ENV", "ENV{", "NV{B}", "ENV{B}", "ENV{B", "V{B}", "{", "}", "{}", "x}", "B}", "\u{e9}",
    "\u{4e2d}\u{416}x", "d/e", "w w", "x", "B", "A}", "{B}", "NV{", "\u{1f600}", "0", "_",
];
const VALUES_FS: &[&str] = &[
    "", "v", "val", "E", "EN", "ENV{", "NV{B}", "ENV{B}", "V{B}", "{", "}", "{}", "x}", "B}", "\u{e9}", "\u{4e2d}x",
    "d/e", "w w", "x", "B", "{B}", "0",
];
const LIT_ASCII: &[&str] = &[
    "a", "log", "/", ".", "-", "x.log", "ENV", "NV{", "E", "ENV{", "V{B}", "NV{B}", "B}", "A}", " ", "_", "0", "logs/",
    "ENV{B}", "x", "B",
];
const LIT_ASCII_FS: &[&str] = &["a", "log", "-", "x.log", "ENV", "NV{", "E", "ENV{", "V{B}", "NV{B}", "B}", "A}", "_", "0", "d/f", "ENV{B}", "x", "B"];
const LIT_UNI: &[&str] = &["\u{e9}", "\u{4e2d}", "\u{20ac}", "\u{1f600}", "\u{1d4b3}", "\u{301}", "\u{a0}", "\u{2014}", "\u{df}\u{416}", "\u{663}\u{b2}\u{bd}"];
const STRAY: &[&str] = &["$", "{", "}", "{}", "$ENV{", "$$", "$E", "$EN", "$ENV", "$ENV{$", "}}", "${", "$}"];

fn unset_name(rng: &mut Rng, env: &[(String, String)]) -> String {
    for _ in 0..20 {
        let n = *rng.pick(NAMES);
        if !env.iter().any(|e| e.0 == n) {
            return n.to_owned();
        }
    }
    "VP_NEVER_SET".to_owned()
}

fn set_name(rng: &mut Rng, env: &[(String, String)]) -> Option<String> {
    if env.is_empty() {
        None
    } else {
        Some(rng.pick(env).0.clone())
    }
}

fn malformed(rng: &mut Rng, env: &[(String, String)]) -> String {
    let n = set_name(rng, env).unwrap_or_else(|| "A".to_owned());
    let m = set_name(rng, env).unwrap_or_else(|| "B".to_owned());
    match rng.below(16) {
        0 => "$ENV{}".to_owned(),
        1 => format!("$ENV{{.{}}}", n),
        2 => format!("$ENV{{-{}}}", n),
        3 => format!("$ENV{{{}-{}}}", n, m),
        4 => format!("$ENV{{{} {}}}", n, m),
        5 => format!("$ENV{{{}\u{20ac}}}", n),
        6 => format!("$ENV{{{}", n),
        7 => format!("$ENV{{{}$ENV{{{}}}}}", n, m),
        8 => format!("$ENV{{$ENV{{{}}}}}", n),
        9 => format!("$ENV{{{}{{}}}}", n),
        10 => format!("$ENV{{{}}}}}", n), // well-formed followed by a stray brace
        11 => format!("$ENV{{{}\u{301}}}", n),
        12 => format!("$ENV {{{}}}", n),
        13 => format!("$env{{{}}}", n),
        14 => format!("$ENV{{{}\u{a0}}}", n),
        _ => format!("$ENV{{ {}}}", n),
    }
}

/// F7 family: `$` + p + `$ENV{X}` + s where p ++ value(X) ++ s spells `ENV{Y}` for a set Y
/// (the env map is extended accordingly)
fn f7_family(rng: &mut Rng, env: &mut Vec<(String, String)>, fs: bool) -> String {
    let y = set_name(rng, env).unwrap_or_else(|| {
        env.push(("B".to_owned(), "v".to_owned()));
        "B".to_owned()
    });
    let target: Vec<char> = format!("ENV{{{}}}", y).chars().collect();
    let a = rng.below(target.len() as u64 + 1) as usize;
    let b = rng.range(a as u64, target.len() as u64) as usize;
    let p: String = target[..a].iter().collect();
    let v: String = target[a..b].iter().collect();
    let s: String = target[b..].iter().collect();
    let _ = fs;
    // a variable carrying exactly `v`
    let x = match env.iter().find(|e| e.1 == v && e.0 != y) {
        Some(e) => e.0.clone(),
        None => {
            let mut name = None;
            for cand in ["A", "C", "x", "VP_HOME", "_x", "A0", "VP_F7"] {
                if !env.iter().any(|e| e.0 == cand) {
                    name = Some(cand.to_owned());
                    break;
                }
            }
            match name {
                Some(n) => {
                    env.push((n.clone(), v.clone()));
                    n
                }
                None => return "$".to_owned(),
            }
        }
    };
    let tail = match rng.below(3) {
        0 => format!("$ENV{{{}}}", y),
        1 => format!("x$ENV{{{}}}", y),
        _ => String::new(),
    };
    format!("${}$ENV{{{}}}{}{}", p, x, s, tail)
}

/// inputs on which a SECOND application of the expansion would change the result: a malformed outer
/// reference wrapping a well-formed one whose value is the name of a set variable
/// (`$ENV{$ENV{W}}`), a stray `$` directly before a reference whose value reads `ENV{Y}`, and the
/// split forms of the latter. The env map is extended accordingly.
fn reexpand_family(rng: &mut Rng, env: &mut Vec<(String, String)>) -> String {
    let y = set_name(rng, env).unwrap_or_else(|| {
        env.push(("B".to_owned(), "v".to_owned()));
        "B".to_owned()
    });
    // a variable carrying exactly `want`
    fn carrier(env: &mut Vec<(String, String)>, want: &str, not: &str) -> Option<String> {
        if let Some(e) = env.iter().find(|e| e.1 == want && e.0 != not) {
            return Some(e.0.clone());
        }
        for cand in ["W", "VP_WHICH", "C", "x", "_x", "VP_TAIL", "A0", "VP_\u{e9}"] {
            if !env.iter().any(|e| e.0 == cand) {
                env.push((cand.to_owned(), want.to_owned()));
                return Some(cand.to_owned());
            }
        }
        None
    }
    match rng.below(4) {
        0 => match carrier(env, &y, &y) {
            Some(w) => format!("$ENV{{$ENV{{{}}}}}", w),
            None => "$".to_owned(),
        },
        1 => match carrier(env, &format!("ENV{{{}}}", y), &y) {
            Some(t) => format!("$$ENV{{{}}}", t),
            None => "$".to_owned(),
        },
        2 => match carrier(env, &format!("{}}}", y), &y) {
            Some(t) => format!("$ENV{{$ENV{{{}}}", t),
            None => "$".to_owned(),
        },
        _ => match carrier(env, &format!("NV{{{}", y), &y) {
            Some(t) => format!("$E$ENV{{{}}}}}", t),
            None => "$".to_owned(),
        },
    }
}

fn gen_env(rng: &mut Rng, max: u64, fs: bool) -> Vec<(String, String)> {
    let k = rng.range(0, max);
    let mut env: Vec<(String, String)> = Vec::new();
    for _ in 0..k {
        let n = *rng.pick(NAMES);
        if env.iter().any(|e| e.0 == n) {
            continue;
        }
        let v = if fs { *rng.pick(VALUES_FS) } else { *rng.pick(VALUES) };
        let v = if rng.chance(1, 6) {
            format!("{}{}", v, if fs { *rng.pick(VALUES_FS) } else { *rng.pick(VALUES) })
        } else {
            v.to_owned()
        };
        env.push((n.to_owned(), v));
    }
    env
}

fn gen_path(rng: &mut Rng, env: &mut Vec<(String, String)>, max_tokens: u64, fs: bool) -> String {
    let m = rng.range(1, max_tokens);
    let mut s = String::new();
    let mut last_ref: Option<String> = None;
    for _ in 0..m {
        let t: String = match rng.below(22) {
            20..=21 => reexpand_family(rng, env),
            0..=2 => (if fs { *rng.pick(LIT_ASCII_FS) } else { *rng.pick(LIT_ASCII) }).to_owned(),
            3 => (*rng.pick(LIT_UNI)).to_owned(),
            4..=5 => (*rng.pick(STRAY)).to_owned(),
            6..=9 => match set_name(rng, env) {
                Some(n) => {
                    last_ref = Some(n.clone());
                    format!("$ENV{{{}}}", n)
                }
                None => format!("$ENV{{{}}}", unset_name(rng, env)),
            },
            10..=11 => format!("$ENV{{{}}}", unset_name(rng, env)),
            12 => match &last_ref {
                // repeated reference
                Some(n) => format!("$ENV{{{}}}", n),
                None => "$".to_owned(),
            },
            13 => match (set_name(rng, env), set_name(rng, env)) {
                // adjacent references
                (Some(a), Some(b)) => format!("$ENV{{{}}}$ENV{{{}}}", a, b),
                _ => "$ENV{".to_owned(),
            },
            14..=16 => malformed(rng, env),
            17 => f7_family(rng, env, fs),
            _ => "$".to_owned(),
        };
        s.push_str(&t);
    }
    s
}

/// string entries plus byte entries (`b:<hex>;<hex>`)
fn enc_env2(env: &[(String, String)], foreign: &[(Vec<u8>, Vec<u8>)]) -> String {
    let mut items: Vec<String> = env.iter().map(|(k, v)| format!("{};{}", enc_str(k), enc_str(v))).collect();
    items.extend(foreign.iter().map(|(k, v)| format!("b:{};{}", enc_bytes(k), enc_bytes(v))));
    enc_list(",", &items)
}

const BYSTANDERS: &[(&[u8], &[u8])] = &[
    (b"VP_BY_LATIN1", b"caf\xe9"),
    (b"VP_BY_\xff\xfe", b"x"),
    (b"VP_BY_\xe9t\xe9", b"\xc3\x28"),
    (b"VP_BY_TRUNC", b"\xe4\xb8"),
    (b"VP_BY_SURR", b"\xed\xa0\x80"),
    (b"VP_BY_OK", b"plain"),
    (b"\x80", b""),
];
const BAD_VALUES: &[&[u8]] = &[b"caf\xe9", b"\xff", b"v\xc3", b"\xed\xa0\x80x", b"d/\xe9"];

/// bystanders (never named by the path) and, sometimes, a REFERENCED variable whose value is not
/// valid Unicode: `std::env::var` answers `Err(NotUnicode)`, the reference must stay as written
fn gen_foreign(rng: &mut Rng, env: &[(String, String)], body: &mut String) -> Vec<(Vec<u8>, Vec<u8>)> {
    let mut foreign: Vec<(Vec<u8>, Vec<u8>)> = Vec::new();
    if rng.chance(1, 4) {
        for _ in 0..rng.range(1, 2) {
            let (k, v) = *rng.pick(BYSTANDERS);
            if !foreign.iter().any(|e| e.0 == k) {
                foreign.push((k.to_vec(), v.to_vec()));
            }
        }
    }
    if rng.chance(1, 10) {
        let n = unset_name(rng, env);
        let v = *rng.pick(BAD_VALUES);
        foreign.push((n.as_bytes().to_vec(), v.to_vec()));
        if rng.chance(1, 2) {
            body.push_str(&format!("$ENV{{{}}}", n));
        } else {
            *body = format!("$ENV{{{}}}{}", n, body);
        }
    }
    foreign
}

fn enc_env(env: &[(String, String)]) -> String {
    enc_list(",", &env.iter().map(|(k, v)| format!("{};{}", enc_str(k), enc_str(v))).collect::<Vec<_>>())
}

/// small-scope block: every token sequence up to `len` over a fixed alphabet, env A=E, B=v
fn exhaustive(len: usize, emit: &mut dyn FnMut(String)) {
    const ALPHA: &[&str] = &["$", "$ENV{", "A", "}", "NV{B}", "$ENV{A}", "$ENV{B}", "{", "E", "x"];
    let env = enc_env(&[("A".to_owned(), "E".to_owned()), ("B".to_owned(), "v".to_owned())]);
    let mut idx: Vec<usize> = Vec::new();
    fn rec(idx: &mut Vec<usize>, len: usize, env: &str, emit: &mut dyn FnMut(String)) {
        if !idx.is_empty() {
            let s: String = idx.iter().map(|i| ALPHA[*i]).collect();
            emit(format!("hook\t{}\t{}", env, enc_str(&s)));
        }
        if idx.len() == len {
            return;
        }
        for i in 0..ALPHA.len() {
            idx.push(i);
            rec(idx, len, env, emit);
            idx.pop();
        }
    }
    rec(&mut idx, len, &env, emit);
}

pub fn gen(rng: &mut Rng, n: usize, thorough: bool, emit: &mut dyn FnMut(String)) {
    let (max_env, max_tokens) = if thorough { (5, 14) } else { (3, 8) };
    exhaustive(if thorough { 4 } else { 3 }, emit);
    // every malformed form and every name/value pair once, deterministically
    for n in NAMES {
        for v in ["v", "", "\u{4e2d}"] {
            let env = vec![((*n).to_owned(), v.to_owned())];
            emit(format!("hook\t{}\t{}", enc_env(&env), enc_str(&format!("a/$ENV{{{}}}/$ENV{{{}}}.log", n, n))));
            emit(format!("hook\t{}\t{}", enc_env(&[]), enc_str(&format!("a/$ENV{{{}}}/b", n))));
        }
    }
    // the non-idempotent inputs once for every call-site kind, deterministically
    {
        let env = vec![
            ("W".to_owned(), "T".to_owned()),
            ("T".to_owned(), "r".to_owned()),
            ("VP_TAIL".to_owned(), "ENV{T}".to_owned()),
        ];
        for body in ["$ENV{$ENV{W}}", "$$ENV{VP_TAIL}", "d/$ENV{$ENV{W}}/$$ENV{VP_TAIL}"] {
            for kind in ["file", "file-cfg"] {
                emit(format!("{}\t{}\t{}", kind, enc_env(&env), enc_str(&format!("p{}q.log", body))));
            }
            for kind in ["rolling", "rolling-cfg"] {
                for roller in ["fw", "del"] {
                    emit(format!("{}\t{}\t{}\t{}\t8", kind, enc_env(&env), enc_str(&format!("p{}q.log", body)), roller));
                }
            }
            for kind in ["roller", "roller-cfg"] {
                emit(format!("{}\t{}\t{}\t0\t2\t3", kind, enc_env(&env), enc_str(&format!("p{}q.{{}}", body))));
            }
            emit(format!("hook\t{}\t{}", enc_env(&env), enc_str(body)));
        }
    }
    // a foreign environment once for every kind: bystanders that are not valid Unicode, and a
    // referenced variable whose value is not valid Unicode (stays as written)
    {
        let env = vec![("A".to_owned(), "v".to_owned())];
        let foreign: Vec<(Vec<u8>, Vec<u8>)> = vec![
            (b"VP_BY_LATIN1".to_vec(), b"caf\xe9".to_vec()),
            (b"VP_BY_\xff".to_vec(), b"x".to_vec()),
            (b"B".to_vec(), b"caf\xe9".to_vec()),
        ];
        let e = enc_env2(&env, &foreign);
        for body in ["$ENV{A}", "$ENV{U}", "$ENV{B}", "x$ENV{A}$ENV{B}y", "no-reference", "$ENV{"] {
            emit(format!("hook\t{}\t{}", e, enc_str(body)));
            for kind in ["file", "file-cfg"] {
                emit(format!("{}\t{}\t{}", kind, e, enc_str(&format!("p{}q.log", body))));
            }
            for kind in ["rolling", "rolling-cfg"] {
                emit(format!("{}\t{}\t{}\tfw\t7", kind, e, enc_str(&format!("p{}q.log", body))));
            }
            for kind in ["roller", "roller-cfg"] {
                emit(format!("{}\t{}\t{}\t0\t2\t2", kind, e, enc_str(&format!("p{}q.{{}}", body))));
            }
        }
    }
    // rolling histories with the reference in a directory component and in the file name
    {
        let env = vec![("A".to_owned(), "v".to_owned()), ("VP_LOG.DIR".to_owned(), "d/e".to_owned())];
        for path in ["$ENV{A}.log", "$ENV{VP_LOG.DIR}/app.log", "logs/$ENV{A}/$ENV{U}/a$ENV{A}.log", "plain.log"] {
            for kind in ["rolling", "rolling-cfg"] {
                for roller in ["fw", "del"] {
                    for appends in [0, 2, 3, 4, 6, 9] {
                        emit(format!("{}\t{}\t{}\t{}\t{}", kind, enc_env(&env), enc_str(path), roller, appends));
                    }
                }
            }
        }
    }
    for i in 0..n {
        // one case in 20 goes through a call site (builder API or configuration file)
        const KINDS: [&str; 6] = ["file", "file-cfg", "rolling", "rolling-cfg", "roller", "roller-cfg"];
        let kind = if i % 20 == 19 { KINDS[(i / 20) % 6] } else { "hook" };
        let fs = kind != "hook";
        let mut env = gen_env(rng, max_env, fs);
        let mut body = gen_path(rng, &mut env, if fs { max_tokens.min(6) } else { max_tokens }, fs);
        if fs && rng.chance(1, 3) {
            // make sure every call-site kind regularly sees an input that must not be expanded twice
            let extra = reexpand_family(rng, &mut env);
            if rng.chance(1, 2) {
                body.push_str(&extra);
            } else {
                body = format!("{}{}", extra, body);
            }
        }
        let foreign = gen_foreign(rng, &env, &mut body);
        let e = enc_env2(&env, &foreign);
        match kind {
            "hook" => emit(format!("hook\t{}\t{}", e, enc_str(&body))),
            "file" | "file-cfg" => emit(format!("{}\t{}\t{}", kind, e, enc_str(&format!("p{}q.log", body)))),
            "rolling" | "rolling-cfg" => {
                // enough appends for two rolls (three one-byte records each) and some more
                let roller = if rng.chance(1, 2) { "fw" } else { "del" };
                let appends = *rng.pick(&[7u64, 8, 8, 9, 9, 4, 6]);
                emit(format!("{}\t{}\t{}\t{}\t{}", kind, e, enc_str(&format!("p{}q.log", body)), roller, appends))
            }
            _ => {
                let base = *rng.pick(&[0u64, 0, 1, 7]);
                let count = rng.range(0, 3);
                let rolls = rng.range(1, 4);
                let pat = match rng.below(4) {
                    0 => format!("p{}.{{}}.log", body),
                    1 => format!("a{{}}{}q", body),
                    2 => format!("d{{}}/p{}q", body),
                    _ => format!("p{}$ENV{{A{{}}}}q.{{}}", body),
                };
                emit(format!("{}\t{}\t{}\t{}\t{}\t{}", kind, e, enc_str(&pat), base, count, rolls));
            }
        }
    }
}

// ---------------------------------------------------------------------------------------------
// executor
// ---------------------------------------------------------------------------------------------
static SCRATCH: OnceLock<PathBuf> = OnceLock::new();
static COUNTER: AtomicUsize = AtomicUsize::new(0);

fn init() -> &'static PathBuf {
    SCRATCH.get_or_init(|| {
        check_samples();
        let scratch = std::env::var_os("VERIF_SCRATCH").map(PathBuf::from).unwrap_or_else(std::env::temp_dir);
        // the case's environment is the whole environment
        let keys: Vec<_> = std::env::vars_os().map(|(k, _)| k).collect();
        for k in keys {
            if !k.is_empty() && !k.to_string_lossy().contains('=') {
                std::env::remove_var(&k);
            }
        }
        std::fs::create_dir_all(&scratch).ok();
        scratch
    })
}

fn dec_env(s: &str) -> Option<Vec<(OsString, OsString)>> {
    dec_list(',', s)
        .iter()
        .map(|e| {
            if let Some(rest) = e.strip_prefix("b:") {
                let mut it = rest.split(';');
                match (it.next(), it.next(), it.next()) {
                    (Some(k), Some(v), None) => Some((OsString::from_vec(dec_bytes(k)?), OsString::from_vec(dec_bytes(v)?))),
                    _ => None,
                }
            } else {
                let mut it = e.split(';');
                match (it.next(), it.next(), it.next()) {
                    (Some(k), Some(v), None) => Some((OsString::from(dec_str(k)?), OsString::from(dec_str(v)?))),
                    _ => None,
                }
            }
        })
        .collect()
}

fn list_files(root: &Path, rel: &str, out: &mut Vec<(String, Vec<u8>)>) {
    let mut entries: Vec<_> = match std::fs::read_dir(root) {
        Ok(r) => r.filter_map(|e| e.ok()).collect(),
        Err(_) => return,
    };
    entries.sort_by_key(|e| e.file_name());
    for e in entries {
        let name = e.file_name().to_string_lossy().into_owned();
        let rel2 = if rel.is_empty() { name.clone() } else { format!("{}/{}", rel, name) };
        let p = e.path();
        if p.is_dir() {
            list_files(&p, &rel2, out);
        } else {
            out.push((rel2, std::fs::read(&p).unwrap_or_default()));
        }
    }
}

#[derive(Clone, Copy, PartialEq)]
enum Content {
    /// only which files exist
    None,
    /// the bytes of every file
    Raw,
    /// files hold a decimal number (the record text): print that number
    Digits,
}

/// Runs `f` with a fresh scratch directory as current directory; `f` gets the path of a (not yet
/// existing) configuration file OUTSIDE that directory. Observation = the files found afterwards.
fn in_scratch(f: impl FnOnce(&Path) -> Result<(), String> + std::panic::UnwindSafe, content: Content) -> String {
    let root = init();
    let n = COUNTER.fetch_add(1, Ordering::SeqCst);
    let dir = root.join(format!("c19_{}_{}", std::process::id(), n));
    let cfg = root.join(format!("c19_{}_{}.yaml", std::process::id(), n));
    if std::fs::create_dir_all(&dir).is_err() || std::env::set_current_dir(&dir).is_err() {
        return "scratch-error".to_owned();
    }
    let cfg2 = cfg.clone();
    let r = guarded(move || f(&cfg2));
    let mut files = Vec::new();
    list_files(&dir, "", &mut files);
    let _ = std::env::set_current_dir(root);
    let _ = std::fs::remove_dir_all(&dir);
    let _ = std::fs::remove_file(&cfg);
    match r {
        Err(_) => "PANIC".to_owned(),
        Ok(Err(_)) => "err".to_owned(),
        Ok(Ok(())) => {
            let mut items: Vec<String> = files
                .iter()
                .map(|(p, c)| match content {
                    Content::None => enc_str(p),
                    Content::Raw => {
                        format!("{}={}", enc_str(p), c.iter().map(|b| b.to_string()).collect::<Vec<_>>().join(","))
                    }
                    Content::Digits => match std::str::from_utf8(c).ok().and_then(|t| t.parse::<u32>().ok()) {
                        Some(k) => format!("{}={}", enc_str(p), k),
                        None => format!("{}=x{}", enc_str(p), enc_bytes(c)),
                    },
                })
                .collect();
            items.sort();
            if content == Content::None {
                format!("created:{}", enc_list(",", &items))
            } else {
                format!("files:{}", enc_list(",", &items))
            }
        }
    }
}

/// a YAML double-quoted scalar (the JSON string syntax is a subset of it)
fn yaml_str(s: &str) -> String {
    serde_json::to_string(s).unwrap()
}

/// load the configuration file, build the logger (not installed globally), log `records` records
/// whose text is their number
fn run_config(cfg: &Path, yaml: &str, records: u32) -> Result<(), String> {
    std::fs::write(cfg, yaml).map_err(|e| e.to_string())?;
    let config = load_config_file(cfg, Deserializers::default()).map_err(|e| e.to_string())?;
    let logger = log4rs::Logger::new(config);
    for k in 0..records {
        log::Log::log(
            &logger,
            &log::Record::builder().level(log::Level::Info).target("c19").args(format_args!("{}", k)).build(),
        );
    }
    log::Log::flush(&logger);
    drop(logger);
    Ok(())
}

fn content_text(c: &[u8]) -> String {
    if c.is_empty() {
        "_".to_owned()
    } else if c.iter().all(|b| b.is_ascii_digit()) {
        String::from_utf8_lossy(c).into_owned()
    } else {
        format!("x{}", enc_bytes(c))
    }
}

/// files below `dir` the process currently holds open
fn open_files_under(dir: &Path) -> Vec<String> {
    let mut out = Vec::new();
    if let Ok(rd) = std::fs::read_dir("/proc/self/fd") {
        for e in rd.filter_map(|e| e.ok()) {
            if let Ok(target) = std::fs::read_link(e.path()) {
                if let Ok(rel) = target.strip_prefix(dir) {
                    out.push(rel.to_string_lossy().into_owned());
                }
            }
        }
    }
    out.sort();
    out
}

/// one step of a history: `<file>=<content>,…;open=<file held open|->`
fn snapshot(dir: &Path) -> String {
    let mut files = Vec::new();
    list_files(dir, "", &mut files);
    let mut items: Vec<String> = files.iter().map(|(p, c)| format!("{}={}", enc_str(p), content_text(c))).collect();
    items.sort();
    let open = open_files_under(dir);
    format!(
        "{};open={}",
        enc_list(",", &items),
        if open.is_empty() { "-".to_owned() } else { open.iter().map(|p| enc_str(p)).collect::<Vec<_>>().join("+") }
    )
}

/// like `in_scratch`, but the closure produces the observation itself; it gets the configuration
/// file path and the (canonical) scratch directory it runs in
fn in_scratch_obs(f: impl FnOnce(&Path, &Path) -> Result<String, String> + std::panic::UnwindSafe) -> String {
    let root = init();
    let n = COUNTER.fetch_add(1, Ordering::SeqCst);
    let dir = root.join(format!("c19_{}_{}", std::process::id(), n));
    let cfg = root.join(format!("c19_{}_{}.yaml", std::process::id(), n));
    if std::fs::create_dir_all(&dir).is_err() || std::env::set_current_dir(&dir).is_err() {
        return "scratch-error".to_owned();
    }
    let canon = std::fs::canonicalize(&dir).unwrap_or_else(|_| dir.clone());
    let cfg2 = cfg.clone();
    let r = guarded(move || f(&cfg2, &canon));
    let _ = std::env::set_current_dir(root);
    let _ = std::fs::remove_dir_all(&dir);
    let _ = std::fs::remove_file(&cfg);
    match r {
        Err(_) => "PANIC".to_owned(),
        Ok(Err(_)) => "err".to_owned(),
        Ok(Ok(obs)) => obs,
    }
}

fn digit_record(k: u32, f: &mut dyn FnMut(&log::Record)) {
    f(&log::Record::builder().level(log::Level::Info).target("c19").args(format_args!("{}", k % 10)).build());
}

pub fn exec(fields: &[&str]) -> String {
    init();
    if fields.len() < 3 {
        return "bad-case".to_owned();
    }
    let kind = fields[0];
    let (env, path) = match (dec_env(fields[1]), dec_str(fields[2])) {
        (Some(e), Some(p)) => (e, p),
        _ => return "bad-case".to_owned(),
    };
    {
        use std::os::unix::ffi::OsStrExt;
        if env.iter().any(|(k, v)| {
            let (k, v) = (k.as_bytes(), v.as_bytes());
            k.is_empty() || k.contains(&b'=') || k.contains(&0) || v.contains(&0)
        }) {
            return "bad-case".to_owned();
        }
    }
    // first entry wins, as in the model's association list
    for (k, v) in env.iter().rev() {
        std::env::set_var(k, v);
    }
    let obs = match (kind, fields.len()) {
        ("hook", 3) => {
            let p = path.clone();
            match guarded(move || log4rs::verif_hooks::expand_env_vars(&p)) {
                Ok(s) => format!("ok:{}", enc_str(&s)),
                Err(_) => "PANIC".to_owned(),
            }
        }
        ("file", 3) => {
            let p = path.clone();
            in_scratch(
                move |_| {
                    let a = FileAppender::builder().build(&p).map_err(|e| e.to_string())?;
                    drop(a);
                    Ok(())
                },
                Content::None,
            )
        }
        ("rolling", 3) | ("rolling", 5) | ("rolling-cfg", 3) | ("rolling-cfg", 5) => {
            let (fw, appends) = if fields.len() == 5 {
                match (fields[3], fields[4].parse::<u32>().ok()) {
                    ("fw", Some(a)) if a <= 10 => (true, a),
                    ("del", Some(a)) if a <= 10 => (false, a),
                    _ => return "bad-case".to_owned(),
                }
            } else {
                (true, 8)
            };
            let p = path.clone();
            if kind == "rolling" {
                in_scratch_obs(move |_, dir| {
                    let roller: Box<dyn Roll> = if fw {
                        Box::new(FixedWindowRoller::builder().build("r.{}.log", 2).map_err(|e| e.to_string())?)
                    } else {
                        Box::new(DeleteRoller::new())
                    };
                    let policy = CompoundPolicy::new(Box::new(SizeTrigger::new(2)), roller);
                    let a = RollingFileAppender::builder()
                        .encoder(Box::new(PatternEncoder::new("{m}")))
                        .build(&p, Box::new(policy))
                        .map_err(|e| e.to_string())?;
                    let mut steps = vec![snapshot(dir)];
                    for k in 0..appends {
                        digit_record(k, &mut |r| {
                            let _ = a.append(r);
                        });
                        steps.push(snapshot(dir));
                    }
                    drop(a);
                    Ok(format!("hist:{}", steps.join("|")))
                })
            } else {
                let roller = if fw {
                    "        kind: fixed_window\n        pattern: \"r.{}.log\"\n        count: 2\n"
                } else {
                    "        kind: delete\n"
                };
                let yaml = format!(
                    "appenders:\n  out:\n    kind: rolling_file\n    path: {}\n    encoder:\n      pattern: \"{{m}}\"\n    policy:\n      kind: compound\n      trigger:\n        kind: size\n        limit: 2\n      roller:\n{}root:\n  level: info\n  appenders: [out]\n",
                    yaml_str(&p), roller
                );
                in_scratch_obs(move |cfg, dir| {
                    std::fs::write(cfg, &yaml).map_err(|e| e.to_string())?;
                    let config = load_config_file(cfg, Deserializers::default()).map_err(|e| e.to_string())?;
                    let logger = log4rs::Logger::new(config);
                    let mut steps = vec![snapshot(dir)];
                    for k in 0..appends {
                        digit_record(k, &mut |r| log::Log::log(&logger, r));
                        steps.push(snapshot(dir));
                    }
                    drop(logger);
                    Ok(format!("hist:{}", steps.join("|")))
                })
            }
        }
        ("file-cfg", 3) => {
            let yaml = format!(
                "appenders:\n  out:\n    kind: file\n    path: {}\n    encoder:\n      pattern: \"{{m}}\"\nroot:\n  level: info\n  appenders: [out]\n",
                yaml_str(&path)
            );
            in_scratch(move |cfg| run_config(cfg, &yaml, 1), Content::None)
        }
        ("roller-cfg", 6) => {
            let nums: Vec<Option<u32>> = fields[3..6].iter().map(|s| s.parse().ok()).collect();
            match (nums[0], nums[1], nums[2]) {
                (Some(base), Some(count), Some(rolls)) if rolls < 200 => {
                    // every record exceeds the size limit 0, so every record forces one roll
                    let yaml = format!(
                        "appenders:\n  out:\n    kind: rolling_file\n    path: \"cur.log\"\n    encoder:\n      pattern: \"{{m}}\"\n    policy:\n      kind: compound\n      trigger:\n        kind: size\n        limit: 0\n      roller:\n        kind: fixed_window\n        pattern: {}\n        base: {}\n        count: {}\nroot:\n  level: info\n  appenders: [out]\n",
                        yaml_str(&path), base, count
                    );
                    in_scratch(move |cfg| run_config(cfg, &yaml, rolls), Content::Digits)
                }
                _ => "bad-case".to_owned(),
            }
        }
        ("roller", 6) => {
            let nums: Vec<Option<u32>> = fields[3..6].iter().map(|s| s.parse().ok()).collect();
            match (nums[0], nums[1], nums[2]) {
                (Some(base), Some(count), Some(rolls)) if rolls < 200 => {
                    let p = path.clone();
                    in_scratch(
                        move |_| {
                            let roller = FixedWindowRoller::builder().base(base).build(&p, count).map_err(|e| e.to_string())?;
                            for k in 0..rolls {
                                std::fs::write("cur.log", [k as u8]).map_err(|e| e.to_string())?;
                                roller.roll(Path::new("cur.log")).map_err(|e| e.to_string())?;
                            }
                            Ok(())
                        },
                        Content::Raw,
                    )
                }
                _ => "bad-case".to_owned(),
            }
        }
        _ => "bad-case".to_owned(),
    };
    for (k, _) in env.iter() {
        std::env::remove_var(k);
    }
    obs
}

/// child-process entry point (unused by this property)
pub fn child(_args: &[String]) -> i32 {
    2
}
