//! C19 — `$ENV{NAME}` path expansion. Real code: `env_util::expand_env_vars` through the
//! `verif_hooks::expand_env_vars` re-export (fast path), and its call sites: `FileAppender`,
//! `RollingFileAppender` and `FixedWindowRoller`, each through the builder API and through a
//! configuration FILE (`load_config_file` + `Logger::new`; YAML, for the file appender also JSON
//! and TOML). Observation of the call-site kinds = the TREE of the scratch directory afterwards:
//! directories, files and their content (so that a directory created at a wrong place and a write
//! landing elsewhere are seen); the rolling kinds run a HISTORY (size trigger: limit 2, one byte
//! per record; or time trigger = pre-process branch, clock hook) and observe the tree and the file
//! the process holds open (`/proc/self/fd`) after build and after every append.
//!
//! The process environment is controlled: at the first case every inherited variable is removed,
//! and around each case exactly the variables the case carries are installed and removed again
//! (`exec` is single-threaded). Variables may be byte strings that are not valid UTF-8.
//! A value or path that starts with `/SCRATCH` stands for the absolute scratch directory.
//! A trailing field `@bg` marks cases for the harness build with `background_rotation`.
use crate::proto::*;
use crate::rng::Rng;
use log4rs::append::file::FileAppender;
use log4rs::append::rolling_file::policy::compound::{
    roll::{delete::DeleteRoller, fixed_window::FixedWindowRoller, Roll},
    trigger::size::SizeTrigger,
    CompoundPolicy,
};
use log4rs::append::rolling_file::policy::compound::trigger::time::{TimeTrigger, TimeTriggerInterval};
use log4rs::append::rolling_file::policy::compound::trigger::Trigger;
use log4rs::append::rolling_file::RollingFileAppender;
use log4rs::append::Append;
use log4rs::encode::pattern::PatternEncoder;
use std::ffi::OsString;
use std::os::unix::ffi::OsStringExt;
use log4rs::config::{load_config_file, Deserializers};
use std::path::{Path, PathBuf};
use std::sync::atomic::{AtomicI64, AtomicUsize, Ordering};
use std::sync::OnceLock;

/// Non-ASCII sample characters with their `char::is_alphanumeric` value — the same table as
/// `sampleTable` in lean/Driver/C19.lean. Checked against Rust at start-up.
const SAMPLES: &[(u32, bool)] = &[
    (0xE9, true),
    (0xDF, true),
    (0x416, true),
    (0x4E2D, true),
    (0x1D4B3, true),
    (0x663, true),
    (0xB2, true),
    (0xBD, true),
    (0x20AC, false),
    (0x2014, false),
    (0xA0, false),
    (0x1F600, false),
    (0x301, false),
    (0xFFFD, false),
];

/// `std::env::var` must answer `Err` — not panic — for names `getenv` cannot hold
fn check_env_var_contract() {
    for name in ["", "A=B", "=", "a\0b", "\0"] {
        match std::panic::catch_unwind(|| std::env::var(name)) {
            Ok(Err(_)) => {}
            other => {
                eprintln!("C19: std::env::var({:?}) = {:?}, the model says Err without panic", name, other.map(|r| r.is_ok()));
                std::process::exit(2);
            }
        }
    }
}

fn check_samples() {
    for (cp, want) in SAMPLES {
        let c = char::from_u32(*cp).expect("sample is a scalar value");
        if c.is_alphanumeric() != *want {
            eprintln!("C19: char::is_alphanumeric(U+{:X}) = {} but the model's table says {}", cp, !want, want);
            std::process::exit(2);
        }
    }
    for b in 0u8..128 {
        let c = b as char;
        if c.is_alphanumeric() != c.is_ascii_alphanumeric() {
            eprintln!("C19: ASCII classification differs at {}", b);
            std::process::exit(2);
        }
    }
}

// ---------------------------------------------------------------------------------------------
// generator
// ---------------------------------------------------------------------------------------------
const NAMES: &[&str] = &[
    "A", "B", "C", "x", "VP_HOME", "VP_a.b", "_", "_x", "1A", "VP_\u{e9}", "\u{416}", "VP_\u{4e2d}", "n\u{b2}",
    "\u{1d4b3}y", "\u{663}", "A0", "A1", "B2", "Bx", "VP_LOG.DIR",
];
const VALUES: &[&str] = &[
    "", "v", "val", "E", "EN", "ENV", "ENV{", "NV{B}", "ENV{B}", "ENV{B", "V{B}", "{", "}", "{}", "x}", "B}", "\u{e9}",
    "\u{4e2d}\u{416}x", "d/e", "w w", "x", "B", "A}", "{B}", "NV{", "\u{1f600}", "0", "_",
];
const VALUES_FS: &[&str] = &[
    "", "v", "val", "E", "EN", "ENV{", "NV{B}", "ENV{B}", "V{B}", "{", "}", "{}", "x}", "B}", "\u{e9}", "\u{4e2d}x",
    "d/e", "w w", "x", "B", "{B}", "0",
];
const LIT_ASCII: &[&str] = &[
    "a", "log", "/", ".", "-", "x.log", "ENV", "NV{", "E", "ENV{", "V{B}", "NV{B}", "B}", "A}", " ", "_", "0", "logs/",
    "ENV{B}", "x", "B",
];
const LIT_ASCII_FS: &[&str] = &["a", "log", "-", "x.log", "ENV", "NV{", "E", "ENV{", "V{B}", "NV{B}", "B}", "A}", "_", "0", "d/f", "ENV{B}", "x", "B"];
const LIT_UNI: &[&str] = &["\u{e9}", "\u{4e2d}", "\u{20ac}", "\u{1f600}", "\u{1d4b3}", "\u{301}", "\u{a0}", "\u{2014}", "\u{df}\u{416}", "\u{663}\u{b2}\u{bd}"];
const STRAY: &[&str] = &["$", "{", "}", "{}", "$ENV{", "$$", "$E", "$EN", "$ENV", "$ENV{$", "}}", "${", "$}"];

fn unset_name(rng: &mut Rng, env: &[(String, String)]) -> String {
    for _ in 0..20 {
        let n = *rng.pick(NAMES);
        if !env.iter().any(|e| e.0 == n) {
            return n.to_owned();
        }
    }
    "VP_NEVER_SET".to_owned()
}

fn set_name(rng: &mut Rng, env: &[(String, String)]) -> Option<String> {
    if env.is_empty() {
        None
    } else {
        Some(rng.pick(env).0.clone())
    }
}

fn malformed(rng: &mut Rng, env: &[(String, String)]) -> String {
    let n = set_name(rng, env).unwrap_or_else(|| "A".to_owned());
    let m = set_name(rng, env).unwrap_or_else(|| "B".to_owned());
    match rng.below(16) {
        0 => "$ENV{}".to_owned(),
        1 => format!("$ENV{{.{}}}", n),
        2 => format!("$ENV{{-{}}}", n),
        3 => format!("$ENV{{{}-{}}}", n, m),
        4 => format!("$ENV{{{} {}}}", n, m),
        5 => format!("$ENV{{{}\u{20ac}}}", n),
        6 => format!("$ENV{{{}", n),
        7 => format!("$ENV{{{}$ENV{{{}}}}}", n, m),
        8 => format!("$ENV{{$ENV{{{}}}}}", n),
        9 => format!("$ENV{{{}{{}}}}", n),
        10 => format!("$ENV{{{}}}}}", n), // well-formed followed by a stray brace
        11 => format!("$ENV{{{}\u{301}}}", n),
        12 => format!("$ENV {{{}}}", n),
        13 => format!("$env{{{}}}", n),
        14 => format!("$ENV{{{}\u{a0}}}", n),
        _ => format!("$ENV{{ {}}}", n),
    }
}

/// F7 family: `$` + p + `$ENV{X}` + s where p ++ value(X) ++ s spells `ENV{Y}` for a set Y
/// (the env map is extended accordingly)
fn f7_family(rng: &mut Rng, env: &mut Vec<(String, String)>, fs: bool) -> String {
    let y = set_name(rng, env).unwrap_or_else(|| {
        env.push(("B".to_owned(), "v".to_owned()));
        "B".to_owned()
    });
    let target: Vec<char> = format!("ENV{{{}}}", y).chars().collect();
    let a = rng.below(target.len() as u64 + 1) as usize;
    let b = rng.range(a as u64, target.len() as u64) as usize;
    let p: String = target[..a].iter().collect();
    let v: String = target[a..b].iter().collect();
    let s: String = target[b..].iter().collect();
    let _ = fs;
    // a variable carrying exactly `v`
    let x = match env.iter().find(|e| e.1 == v && e.0 != y) {
        Some(e) => e.0.clone(),
        None => {
            let mut name = None;
            for cand in ["A", "C", "x", "VP_HOME", "_x", "A0", "VP_F7"] {
                if !env.iter().any(|e| e.0 == cand) {
                    name = Some(cand.to_owned());
                    break;
                }
            }
            match name {
                Some(n) => {
                    env.push((n.clone(), v.clone()));
                    n
                }
                None => return "$".to_owned(),
            }
        }
    };
    let tail = match rng.below(3) {
        0 => format!("$ENV{{{}}}", y),
        1 => format!("x$ENV{{{}}}", y),
        _ => String::new(),
    };
    format!("${}$ENV{{{}}}{}{}", p, x, s, tail)
}

/// inputs on which a SECOND application of the expansion would change the result: a malformed outer
/// reference wrapping a well-formed one whose value is the name of a set variable
/// (`$ENV{$ENV{W}}`), a stray `$` directly before a reference whose value reads `ENV{Y}`, and the
/// split forms of the latter. The env map is extended accordingly.
fn reexpand_family(rng: &mut Rng, env: &mut Vec<(String, String)>) -> String {
    let y = set_name(rng, env).unwrap_or_else(|| {
        env.push(("B".to_owned(), "v".to_owned()));
        "B".to_owned()
    });
    // a variable carrying exactly `want`
    fn carrier(env: &mut Vec<(String, String)>, want: &str, not: &str) -> Option<String> {
        if let Some(e) = env.iter().find(|e| e.1 == want && e.0 != not) {
            return Some(e.0.clone());
        }
        for cand in ["W", "VP_WHICH", "C", "x", "_x", "VP_TAIL", "A0", "VP_\u{e9}"] {
            if !env.iter().any(|e| e.0 == cand) {
                env.push((cand.to_owned(), want.to_owned()));
                return Some(cand.to_owned());
            }
        }
        None
    }
    match rng.below(4) {
        0 => match carrier(env, &y, &y) {
            Some(w) => format!("$ENV{{$ENV{{{}}}}}", w),
            None => "$".to_owned(),
        },
        1 => match carrier(env, &format!("ENV{{{}}}", y), &y) {
            Some(t) => format!("$$ENV{{{}}}", t),
            None => "$".to_owned(),
        },
        2 => match carrier(env, &format!("{}}}", y), &y) {
            Some(t) => format!("$ENV{{$ENV{{{}}}", t),
            None => "$".to_owned(),
        },
        _ => match carrier(env, &format!("NV{{{}", y), &y) {
            Some(t) => format!("$E$ENV{{{}}}}}", t),
            None => "$".to_owned(),
        },
    }
}

fn gen_env(rng: &mut Rng, max: u64, fs: bool) -> Vec<(String, String)> {
    let k = rng.range(0, max);
    let mut env: Vec<(String, String)> = Vec::new();
    for _ in 0..k {
        let n = *rng.pick(NAMES);
        if env.iter().any(|e| e.0 == n) {
            continue;
        }
        let v = if fs { *rng.pick(VALUES_FS) } else { *rng.pick(VALUES) };
        let v = if rng.chance(1, 6) {
            format!("{}{}", v, if fs { *rng.pick(VALUES_FS) } else { *rng.pick(VALUES) })
        } else {
            v.to_owned()
        };
        env.push((n.to_owned(), v));
    }
    env
}

fn gen_path(rng: &mut Rng, env: &mut Vec<(String, String)>, max_tokens: u64, fs: bool) -> String {
    let m = rng.range(1, max_tokens);
    let mut s = String::new();
    let mut last_ref: Option<String> = None;
    for _ in 0..m {
        let t: String = match rng.below(22) {
            20..=21 => reexpand_family(rng, env),
            0..=2 => (if fs { *rng.pick(LIT_ASCII_FS) } else { *rng.pick(LIT_ASCII) }).to_owned(),
            3 => (*rng.pick(LIT_UNI)).to_owned(),
            4..=5 => (*rng.pick(STRAY)).to_owned(),
            6..=9 => match set_name(rng, env) {
                Some(n) => {
                    last_ref = Some(n.clone());
                    format!("$ENV{{{}}}", n)
                }
                None => format!("$ENV{{{}}}", unset_name(rng, env)),
            },
            10..=11 => format!("$ENV{{{}}}", unset_name(rng, env)),
            12 => match &last_ref {
                // repeated reference
                Some(n) => format!("$ENV{{{}}}", n),
                None => "$".to_owned(),
            },
            13 => match (set_name(rng, env), set_name(rng, env)) {
                // adjacent references
                (Some(a), Some(b)) => format!("$ENV{{{}}}$ENV{{{}}}", a, b),
                _ => "$ENV{".to_owned(),
            },
            14..=16 => malformed(rng, env),
            17 => f7_family(rng, env, fs),
            _ => "$".to_owned(),
        };
        s.push_str(&t);
    }
    s
}

/// string entries plus byte entries (`b:<hex>;<hex>`)
fn enc_env2(env: &[(String, String)], foreign: &[(Vec<u8>, Vec<u8>)]) -> String {
    let mut items: Vec<String> = env.iter().map(|(k, v)| format!("{};{}", enc_str(k), enc_str(v))).collect();
    items.extend(foreign.iter().map(|(k, v)| format!("b:{};{}", enc_bytes(k), enc_bytes(v))));
    enc_list(",", &items)
}

const BYSTANDERS: &[(&[u8], &[u8])] = &[
    (b"VP_BY_LATIN1", b"caf\xe9"),
    (b"VP_BY_\xff\xfe", b"x"),
    (b"VP_BY_\xe9t\xe9", b"\xc3\x28"),
    (b"VP_BY_TRUNC", b"\xe4\xb8"),
    (b"VP_BY_SURR", b"\xed\xa0\x80"),
    (b"VP_BY_OK", b"plain"),
    (b"\x80", b""),
];
const BAD_VALUES: &[&[u8]] = &[b"caf\xe9", b"\xff", b"v\xc3", b"\xed\xa0\x80x", b"d/\xe9"];

/// bystanders (never named by the path) and, sometimes, a REFERENCED variable whose value is not
/// valid Unicode: `std::env::var` answers `Err(NotUnicode)`, the reference must stay as written
fn gen_foreign(rng: &mut Rng, env: &[(String, String)], body: &mut String) -> Vec<(Vec<u8>, Vec<u8>)> {
    let mut foreign: Vec<(Vec<u8>, Vec<u8>)> = Vec::new();
    if rng.chance(1, 4) {
        for _ in 0..rng.range(1, 2) {
            let (k, v) = *rng.pick(BYSTANDERS);
            if !foreign.iter().any(|e| e.0 == k) {
                foreign.push((k.to_vec(), v.to_vec()));
            }
        }
    }
    if rng.chance(1, 10) {
        let n = unset_name(rng, env);
        let v = *rng.pick(BAD_VALUES);
        foreign.push((n.as_bytes().to_vec(), v.to_vec()));
        if rng.chance(1, 2) {
            body.push_str(&format!("$ENV{{{}}}", n));
        } else {
            *body = format!("$ENV{{{}}}{}", n, body);
        }
    }
    foreign
}

fn enc_env(env: &[(String, String)]) -> String {
    enc_list(",", &env.iter().map(|(k, v)| format!("{};{}", enc_str(k), enc_str(v))).collect::<Vec<_>>())
}

/// small-scope block: every token sequence up to `len` over a fixed alphabet, under `env`, through `kind`
fn exhaustive(kind: &str, env: &[(String, String)], len: usize, emit: &mut dyn FnMut(String)) {
    const ALPHA: &[&str] = &["$", "$ENV{", "A", "}", "NV{B}", "$ENV{A}", "$ENV{B}", "{", "E", "x"];
    let env = enc_env(env);
    let mut idx: Vec<usize> = Vec::new();
    fn rec(kind: &str, idx: &mut Vec<usize>, len: usize, env: &str, emit: &mut dyn FnMut(String)) {
        if !idx.is_empty() {
            let s: String = idx.iter().map(|i| ALPHA[*i]).collect();
            emit(format!("{}\t{}\t{}", kind, env, enc_str(&s)));
        }
        if idx.len() == len {
            return;
        }
        for i in 0..ALPHA.len() {
            idx.push(i);
            rec(kind, idx, len, env, emit);
            idx.pop();
        }
    }
    rec(kind, &mut idx, len, &env, emit);
}

fn pair(k: &str, v: &str) -> (String, String) {
    (k.to_owned(), v.to_owned())
}

const DIRVALS: &[&str] = &["d", "d/e", "/SCRATCH/abs", "/SCRATCH", "\u{e9}", "d/", "a/../b", "d//e", "./d", "d/./e"];
const DIRVALS_REL: &[&str] = &["d", "d/e", "\u{e9}", "d/", "a/../b", "d//e", "./d"];
const FILEVALS_REL: &[&str] = &["x.log", "e/x.log", "x", "\u{4e2d}.log"];

/// structured appender paths: the standard use (`$ENV{DIR}/logs/app.log`), the whole path one
/// reference, absolute locations, `..`, `//`, `.`, trailing `/`, a value containing `$`, …
fn site_path(rng: &mut Rng) -> (Vec<(String, String)>, String) {
    let d = *rng.pick(DIRVALS);
    let dr = *rng.pick(DIRVALS_REL);
    let f = *rng.pick(FILEVALS_REL);
    match rng.below(13) {
        0 | 1 => (vec![pair("VP_DIR", d)], "$ENV{VP_DIR}/logs/app.log".to_owned()),
        2 => (vec![pair("VP_FILE", *rng.pick(&["x.log", "d/e/x.log", "/SCRATCH/a/x.log"]))], "$ENV{VP_FILE}".to_owned()),
        3 => (vec![pair("VP_DIR", d), pair("VP_FILE", f)], "$ENV{VP_DIR}/$ENV{VP_FILE}".to_owned()),
        4 => (vec![pair("VP_FILE", f)], "a/../b/$ENV{VP_FILE}".to_owned()),
        5 => (vec![pair("VP_FILE", f)], format!("{}$ENV{{VP_FILE}}", *rng.pick(&["logs//", "./", "logs/./", "logs///"]))),
        6 => (vec![pair("VP_DIR", dr)], "logs/$ENV{VP_DIR}/".to_owned()),
        7 => (vec![pair("A", "$ENV{B}/x.log"), pair("B", "v")], "$ENV{A}".to_owned()),
        8 => (vec![pair("B", "v")], "$ENV{VP_UNSET}/x.log".to_owned()),
        9 => (vec![pair("VP_DIR", "d/")], "$ENV{VP_DIR}x.log".to_owned()),
        10 => (vec![pair("VP_FILE", f)], "/SCRATCH/abs/$ENV{VP_FILE}".to_owned()),
        11 => (vec![pair("VP_DIR", dr)], "$ENV{VP_DIR}/..".to_owned()),
        _ => (vec![pair("VP_DIR", d), pair("A", "v")], "$ENV{VP_DIR}/$ENV{A}/$ENV{A}.log".to_owned()),
    }
}

/// structured roller patterns: (env, pattern, base, count)
fn roller_pattern(rng: &mut Rng) -> (Vec<(String, String)>, String, u64, u64) {
    let d = *rng.pick(DIRVALS);
    let f = *rng.pick(FILEVALS_REL);
    let base = *rng.pick(&[0u64, 0, 1, 7]);
    let count = rng.range(0, 3);
    match rng.below(9) {
        0 | 1 => (vec![pair("VP_RDIR", d)], "$ENV{VP_RDIR}/arch.{}.log".to_owned(), base, count),
        2 => (vec![pair("VP_RFILE", f)], "arch/{}/$ENV{VP_RFILE}".to_owned(), base, count),
        3 => (
            vec![pair("A0", "s0"), pair("A1", "s1/t"), pair("A2", "s2"), pair("A3", "s3/t")],
            "$ENV{A{}}/x.log".to_owned(),
            *rng.pick(&[0u64, 1]),
            count,
        ),
        4 => (vec![pair("VP_X", *rng.pick(&["gz", "log.gz", "zst"]))], "a.{}.$ENV{VP_X}".to_owned(), base, count),
        5 => {
            if rng.chance(1, 2) {
                (vec![], "arch.log".to_owned(), base, count)
            } else {
                // the placeholder only arrives through a value: the builder looks at the pattern text
                (vec![pair("VP_BR", "{}")], "a.$ENV{VP_BR}".to_owned(), base, count)
            }
        }
        6 => (vec![], "a.{}".to_owned(), 4294967295, *rng.pick(&[1u64, 2, 3])),
        7 => (vec![pair("VP_RDIR", d)], "$ENV{VP_RDIR}/{}".to_owned(), base, count),
        _ => (vec![], "/SCRATCH/abs/a.{}".to_owned(), base, count),
    }
}

pub fn gen(rng: &mut Rng, n: usize, thorough: bool, emit: &mut dyn FnMut(String)) {
    let (max_env, max_tokens) = if thorough { (5, 14) } else { (3, 8) };
    let e1 = vec![pair("A", "E"), pair("B", "v")];
    let e2 = vec![pair("A", ""), pair("B", "ENV{A}")];
    let e3 = vec![pair("A", "B}"), pair("B", "$ENV{A}")];
    exhaustive("hook", &e1, if thorough { 4 } else { 3 }, emit);
    exhaustive("hook", &e2, if thorough { 3 } else { 2 }, emit);
    exhaustive("hook", &e3, if thorough { 3 } else { 2 }, emit);
    exhaustive("file", &e1, 2, emit);
    exhaustive("file", &e2, if thorough { 2 } else { 1 }, emit);
    if thorough {
        exhaustive("file-cfg", &e1, 2, emit);
    }
    // values containing `$` are never scanned again (outside the property's quantifier, inside the theorem)
    {
        let env = vec![pair("A", "$ENV{B}"), pair("B", "v"), pair("C", "$"), pair("D", "x$ENV{")];
        for body in ["x$ENV{A}y$ENV{B}", "$ENV{A}", "$ENV{C}ENV{B}", "$ENV{D}B}", "$ENV{C}$ENV{C}"] {
            emit(format!("hook\t{}\t{}", enc_env(&env), enc_str(body)));
            emit(format!("file\t{}\t{}", enc_env(&env), enc_str(&format!("p{}q.log", body))));
        }
    }
    // an `OsStr` path that is not valid UTF-8 goes through `to_string_lossy` before the expansion
    {
        let env = enc_env(&[pair("A", "v")]);
        for bytes in [&b"p\xffq.log"[..], b"d\xe9/x$ENV{A}.log", b"$ENV{A}/caf\xe9.log", b"\xe4\xb8/x", b"a\xed\xa0\x80b", b"\xf0\x9f\x98$ENV{A}"] {
            emit(format!("file-os\t{}\t{}", env, enc_bytes(bytes)));
        }
    }
    // structured call-site cases, every shape several times, every kind
    for round in 0..(if thorough { 40 } else { 6 }) {
        for kind in ["file", "file-cfg", "file-json", "file-toml"] {
            let (env, path) = site_path(rng);
            emit(format!("{}\t{}\t{}", kind, enc_env(&env), enc_str(&path)));
        }
        for kind in ["rolling", "rolling-cfg"] {
            let (mut env, path) = site_path(rng);
            let roller = if rng.chance(2, 3) { "fw" } else { "del" };
            let (pat, trig) = if rng.chance(1, 2) {
                let (penv, pat, _, _) = roller_pattern(rng);
                for e in penv {
                    if !env.iter().any(|x| x.0 == e.0) {
                        env.push(e);
                    }
                }
                (enc_str(&pat), if rng.chance(1, 2) { "time" } else { "size" })
            } else {
                ("-".to_owned(), if rng.chance(1, 3) { "time" } else { "size" })
            };
            let appends = *rng.pick(&[3u64, 4, 7, 8, 9]);
            let bg = if roller == "fw" && round % 3 == 2 { "\t@bg" } else { "" };
            emit(format!("{}\t{}\t{}\t{}\t{}\t{}\t{}{}", kind, enc_env(&env), enc_str(&path), roller, appends, pat, trig, bg));
        }
        for kind in ["roller", "roller-cfg"] {
            let (env, pat, base, count) = roller_pattern(rng);
            let bg = if round % 3 == 1 { "\t@bg" } else { "" };
            emit(format!("{}\t{}\t{}\t{}\t{}\t{}{}", kind, enc_env(&env), enc_str(&pat), base, count, rng.range(1, 4), bg));
        }
    }
    // every malformed form and every name/value pair once, deterministically
    for n in NAMES {
        for v in ["v", "", "\u{4e2d}"] {
            let env = vec![((*n).to_owned(), v.to_owned())];
            emit(format!("hook\t{}\t{}", enc_env(&env), enc_str(&format!("a/$ENV{{{}}}/$ENV{{{}}}.log", n, n))));
            emit(format!("hook\t{}\t{}", enc_env(&[]), enc_str(&format!("a/$ENV{{{}}}/b", n))));
        }
    }
    // the non-idempotent inputs once for every call-site kind, deterministically
    {
        let env = vec![
            ("W".to_owned(), "T".to_owned()),
            ("T".to_owned(), "r".to_owned()),
            ("VP_TAIL".to_owned(), "ENV{T}".to_owned()),
        ];
        for body in ["$ENV{$ENV{W}}", "$$ENV{VP_TAIL}", "d/$ENV{$ENV{W}}/$$ENV{VP_TAIL}"] {
            for kind in ["file", "file-cfg"] {
                emit(format!("{}\t{}\t{}", kind, enc_env(&env), enc_str(&format!("p{}q.log", body))));
            }
            for kind in ["rolling", "rolling-cfg"] {
                for roller in ["fw", "del"] {
                    emit(format!("{}\t{}\t{}\t{}\t8", kind, enc_env(&env), enc_str(&format!("p{}q.log", body)), roller));
                }
            }
            for kind in ["roller", "roller-cfg"] {
                emit(format!("{}\t{}\t{}\t0\t2\t3", kind, enc_env(&env), enc_str(&format!("p{}q.{{}}", body))));
            }
            emit(format!("hook\t{}\t{}", enc_env(&env), enc_str(body)));
        }
    }
    // a foreign environment once for every kind: bystanders that are not valid Unicode, and a
    // referenced variable whose value is not valid Unicode (stays as written)
    {
        let env = vec![("A".to_owned(), "v".to_owned())];
        let foreign: Vec<(Vec<u8>, Vec<u8>)> = vec![
            (b"VP_BY_LATIN1".to_vec(), b"caf\xe9".to_vec()),
            (b"VP_BY_\xff".to_vec(), b"x".to_vec()),
            (b"B".to_vec(), b"caf\xe9".to_vec()),
        ];
        let e = enc_env2(&env, &foreign);
        for body in ["$ENV{A}", "$ENV{U}", "$ENV{B}", "x$ENV{A}$ENV{B}y", "no-reference", "$ENV{"] {
            emit(format!("hook\t{}\t{}", e, enc_str(body)));
            for kind in ["file", "file-cfg"] {
                emit(format!("{}\t{}\t{}", kind, e, enc_str(&format!("p{}q.log", body))));
            }
            for kind in ["rolling", "rolling-cfg"] {
                emit(format!("{}\t{}\t{}\tfw\t7", kind, e, enc_str(&format!("p{}q.log", body))));
            }
            for kind in ["roller", "roller-cfg"] {
                emit(format!("{}\t{}\t{}\t0\t2\t2", kind, e, enc_str(&format!("p{}q.{{}}", body))));
            }
        }
    }
    // rolling histories with the reference in a directory component and in the file name
    {
        let env = vec![("A".to_owned(), "v".to_owned()), ("VP_LOG.DIR".to_owned(), "d/e".to_owned())];
        for path in ["$ENV{A}.log", "$ENV{VP_LOG.DIR}/app.log", "logs/$ENV{A}/$ENV{U}/a$ENV{A}.log", "plain.log"] {
            for kind in ["rolling", "rolling-cfg"] {
                for roller in ["fw", "del"] {
                    for appends in [0, 2, 3, 4, 6, 9] {
                        emit(format!("{}\t{}\t{}\t{}\t{}", kind, enc_env(&env), enc_str(path), roller, appends));
                    }
                }
            }
        }
    }
    for i in 0..n {
        // one case in 5 (thorough: 10) goes through a call site (builder API or configuration file)
        const KINDS: [&str; 8] = ["file", "file-cfg", "rolling", "rolling-cfg", "roller", "roller-cfg", "file-json", "file-toml"];
        let every = if thorough { 10 } else { 5 };
        let kind = if i % every == every - 1 { KINDS[(i / every) % 8] } else { "hook" };
        // half of the call-site cases are structured (leading reference, absolute, `..`, …)
        if kind != "hook" && rng.chance(1, 2) {
            let bg = if rng.chance(1, 6) { "\t@bg" } else { "" };
            match kind {
                "rolling" | "rolling-cfg" => {
                    let (mut env, path) = site_path(rng);
                    let roller = if rng.chance(2, 3) { "fw" } else { "del" };
                    let (pat, trig) = if rng.chance(1, 2) {
                        let (penv, pat, _, _) = roller_pattern(rng);
                        for e in penv {
                            if !env.iter().any(|x| x.0 == e.0) {
                                env.push(e);
                            }
                        }
                        (enc_str(&pat), if rng.chance(1, 2) { "time" } else { "size" })
                    } else {
                        ("-".to_owned(), if rng.chance(1, 3) { "time" } else { "size" })
                    };
                    let appends = *rng.pick(&[3u64, 4, 7, 8, 9]);
                    let bg = if roller == "fw" { bg } else { "" };
                    emit(format!("{}\t{}\t{}\t{}\t{}\t{}\t{}{}", kind, enc_env(&env), enc_str(&path), roller, appends, pat, trig, bg));
                }
                "roller" | "roller-cfg" => {
                    let (env, pat, base, count) = roller_pattern(rng);
                    emit(format!("{}\t{}\t{}\t{}\t{}\t{}{}", kind, enc_env(&env), enc_str(&pat), base, count, rng.range(1, 4), bg));
                }
                _ => {
                    let (env, path) = site_path(rng);
                    emit(format!("{}\t{}\t{}", kind, enc_env(&env), enc_str(&path)));
                }
            }
            continue;
        }
        let fs = kind != "hook";
        let mut env = gen_env(rng, max_env, fs);
        let mut body = gen_path(rng, &mut env, if fs { max_tokens.min(6) } else { max_tokens }, fs);
        if fs && rng.chance(1, 3) {
            // make sure every call-site kind regularly sees an input that must not be expanded twice
            let extra = reexpand_family(rng, &mut env);
            if rng.chance(1, 2) {
                body.push_str(&extra);
            } else {
                body = format!("{}{}", extra, body);
            }
        }
        let foreign = gen_foreign(rng, &env, &mut body);
        let e = enc_env2(&env, &foreign);
        match kind {
            "hook" => emit(format!("hook\t{}\t{}", e, enc_str(&body))),
            "file" | "file-cfg" | "file-json" | "file-toml" => {
                emit(format!("{}\t{}\t{}", kind, e, enc_str(&format!("p{}q.log", body))))
            }
            "rolling" | "rolling-cfg" => {
                // enough appends for two rolls (three one-byte records each) and some more
                let roller = if rng.chance(1, 2) { "fw" } else { "del" };
                let appends = *rng.pick(&[7u64, 8, 8, 9, 9, 4, 6]);
                emit(format!("{}\t{}\t{}\t{}\t{}", kind, e, enc_str(&format!("p{}q.log", body)), roller, appends))
            }
            _ => {
                let base = *rng.pick(&[0u64, 0, 1, 7]);
                let count = rng.range(0, 3);
                let rolls = rng.range(1, 4);
                let pat = match rng.below(4) {
                    0 => format!("p{}.{{}}.log", body),
                    1 => format!("a{{}}{}q", body),
                    2 => format!("d{{}}/p{}q", body),
                    _ => format!("p{}$ENV{{A{{}}}}q.{{}}", body),
                };
                emit(format!("{}\t{}\t{}\t{}\t{}\t{}", kind, e, enc_str(&pat), base, count, rolls));
            }
        }
    }
}

// ---------------------------------------------------------------------------------------------
// executor
// ---------------------------------------------------------------------------------------------
static SCRATCH: OnceLock<PathBuf> = OnceLock::new();
static COUNTER: AtomicUsize = AtomicUsize::new(0);
/// the clock the time trigger sees (hook `set_now`)
static NOW: AtomicI64 = AtomicI64::new(T0);
const T0: i64 = 1_700_000_000;

fn init() -> &'static PathBuf {
    SCRATCH.get_or_init(|| {
        check_samples();
        check_env_var_contract();
        let scratch = std::env::var_os("VERIF_SCRATCH").map(PathBuf::from).unwrap_or_else(std::env::temp_dir);
        // the case's environment is the whole environment
        let keys: Vec<_> = std::env::vars_os().map(|(k, _)| k).collect();
        for k in keys {
            if !k.is_empty() && !k.to_string_lossy().contains('=') {
                std::env::remove_var(&k);
            }
        }
        std::fs::create_dir_all(&scratch).ok();
        log4rs::verif_hooks::set_now(Some(std::sync::Arc::new(|| Some((NOW.load(Ordering::SeqCst), 0)))));
        std::fs::canonicalize(&scratch).unwrap_or(scratch)
    })
}

enum EnvEntry {
    Text(String, String),
    Bytes(Vec<u8>, Vec<u8>),
}

fn dec_env(s: &str) -> Option<Vec<EnvEntry>> {
    dec_list(',', s)
        .iter()
        .map(|e| {
            if let Some(rest) = e.strip_prefix("b:") {
                let mut it = rest.split(';');
                match (it.next(), it.next(), it.next()) {
                    (Some(k), Some(v), None) => Some(EnvEntry::Bytes(dec_bytes(k)?, dec_bytes(v)?)),
                    _ => None,
                }
            } else {
                let mut it = e.split(';');
                match (it.next(), it.next(), it.next()) {
                    (Some(k), Some(v), None) => Some(EnvEntry::Text(dec_str(k)?, dec_str(v)?)),
                    _ => None,
                }
            }
        })
        .collect()
}

/// `/SCRATCH…` at the start of a value or path = the absolute scratch directory of the case
fn subst_scratch(s: &str, dir: Option<&Path>) -> String {
    match (dir, s.strip_prefix("/SCRATCH")) {
        (Some(d), Some(rest)) => format!("{}{}", d.to_string_lossy(), rest),
        _ => s.to_owned(),
    }
}

fn os_entries(env: &[EnvEntry], dir: Option<&Path>) -> Vec<(OsString, OsString)> {
    env.iter()
        .map(|e| match e {
            EnvEntry::Text(k, v) => (OsString::from(k.clone()), OsString::from(subst_scratch(v, dir))),
            EnvEntry::Bytes(k, v) => (OsString::from_vec(k.clone()), OsString::from_vec(v.clone())),
        })
        .collect()
}

fn content_text(c: &[u8]) -> String {
    if c.is_empty() {
        "_".to_owned()
    } else if c.iter().all(|b| b.is_ascii_digit()) {
        String::from_utf8_lossy(c).into_owned()
    } else {
        format!("x{}", enc_bytes(c))
    }
}

/// every directory (`d:<path>`) and every file (`f:<path>=<content>`) below `root`
fn walk(root: &Path, rel: &str, out: &mut Vec<String>) {
    let entries: Vec<_> = match std::fs::read_dir(root) {
        Ok(r) => r.filter_map(|e| e.ok()).collect(),
        Err(_) => return,
    };
    for e in entries {
        let name = e.file_name().to_string_lossy().into_owned();
        let rel2 = if rel.is_empty() { name.clone() } else { format!("{}/{}", rel, name) };
        let p = e.path();
        let is_dir = std::fs::symlink_metadata(&p).map(|m| m.is_dir()).unwrap_or(false);
        if is_dir {
            out.push(format!("d:{}", enc_str(&rel2)));
            walk(&p, &rel2, out);
        } else {
            out.push(format!("f:{}={}", enc_str(&rel2), content_text(&std::fs::read(&p).unwrap_or_default())));
        }
    }
}

fn entries(dir: &Path) -> String {
    let mut items = Vec::new();
    walk(dir, "", &mut items);
    items.sort();
    enc_list(",", &items)
}

/// files below `dir` the process currently holds open
fn open_files_under(dir: &Path) -> Vec<String> {
    let mut out = Vec::new();
    if let Ok(rd) = std::fs::read_dir("/proc/self/fd") {
        for e in rd.filter_map(|e| e.ok()) {
            if let Ok(target) = std::fs::read_link(e.path()) {
                if let Ok(rel) = target.strip_prefix(dir) {
                    out.push(rel.to_string_lossy().into_owned());
                }
            }
        }
    }
    out.sort();
    out
}

/// one step of a history: `<entries>;open=<file held open|->`
fn snapshot(dir: &Path) -> String {
    let open = open_files_under(dir);
    format!(
        "{};open={}",
        entries(dir),
        if open.is_empty() { "-".to_owned() } else { open.iter().map(|p| enc_str(p)).collect::<Vec<_>>().join("+") }
    )
}

/// does `p` (as the process would resolve it from `dir`) stay inside `dir`?
fn stays_inside(p: &str, dir: &Path) -> bool {
    let rest: String = if p.starts_with('/') {
        match p.strip_prefix(&*dir.to_string_lossy()) {
            Some(r) if r.is_empty() || r.starts_with('/') => r.to_owned(),
            _ => return false,
        }
    } else {
        p.to_owned()
    };
    let mut depth: i64 = 0;
    for c in rest.split('/') {
        match c {
            "" | "." => {}
            ".." => {
                depth -= 1;
                if depth < 0 {
                    return false;
                }
            }
            _ => depth += 1,
        }
    }
    // the scratch directory may only appear at the very start (the `/SCRATCH` device)
    let d = dir.to_string_lossy();
    let tail = p.char_indices().nth(1).map(|(i, _)| i).unwrap_or(p.len());
    !p.contains('\0') && !p[tail..].contains(&*d)
}

/// number of threads of this process: above the baseline = a background rotation is running
fn n_threads() -> usize {
    std::fs::read_dir("/proc/self/task").map(|d| d.count()).unwrap_or(1)
}

fn wait_quiescent(baseline: usize) {
    let t0 = std::time::Instant::now();
    while n_threads() > baseline && t0.elapsed() < std::time::Duration::from_secs(60) {
        std::thread::sleep(std::time::Duration::from_micros(200));
    }
}

struct Scratch {
    dir: PathBuf,
    cfg_stem: PathBuf,
}

/// Runs `f` with a fresh scratch directory as current directory and the case's environment
/// installed (after the `/SCRATCH` substitution); cleans up afterwards.
/// set by the executors whose every file-system access goes through the case's (guarded) locations: the
/// file and rolling appender call sites; the bare roller cases write their active file relative to the cwd
static CWD_MAY_GO: std::sync::atomic::AtomicBool = std::sync::atomic::AtomicBool::new(false);

fn in_scratch(
    env: &[EnvEntry],
    guard_paths: &dyn Fn(&Path) -> Vec<String>,
    f: impl FnOnce(&Scratch) -> Result<String, String> + std::panic::UnwindSafe,
) -> String {
    let root = init();
    let n = COUNTER.fetch_add(1, Ordering::SeqCst);
    let dir = root.join(format!("c19_{}_{}", std::process::id(), n));
    let cfg_stem = root.join(format!("c19_{}_{}_cfg", std::process::id(), n));
    if std::fs::create_dir_all(&dir).is_err() || std::env::set_current_dir(&dir).is_err() {
        return "scratch-error".to_owned();
    }
    let os = os_entries(env, Some(&dir));
    for (k, v) in os.iter().rev() {
        std::env::set_var(k, v);
    }
    // safety: every location the case is going to use must stay inside the scratch directory
    let safe = guard_paths(&dir).iter().all(|given| {
        let g = given.clone();
        match guarded(move || log4rs::verif_hooks::expand_env_vars(&g)) {
            Ok(loc) => stays_inside(&loc, &dir),
            Err(_) => true, // a panic will show as the observation
        }
    });
    // process condition: when every location of the case is ABSOLUTE, the case runs in a process whose
    // working directory has been deleted (`current_dir()` fails with ENOENT there): nothing the appenders
    // and the roller do with an absolute, expanded location may depend on it (independently seeded change
    // C19_r7_2: a builder that asked for the current directory unconditionally)
    let all_absolute = safe
        && CWD_MAY_GO.swap(false, Ordering::SeqCst)
        && guard_paths(&dir).iter().all(|given| {
            let g = given.clone();
            matches!(guarded(move || log4rs::verif_hooks::expand_env_vars(&g)), Ok(loc) if loc.starts_with('/'))
        });
    if all_absolute {
        let gone = dir.join(".cwd-gone");
        if std::fs::create_dir(&gone).is_ok() && std::env::set_current_dir(&gone).is_ok() {
            let _ = std::fs::remove_dir(&gone);
        }
    }
    let sc = Scratch { dir: dir.clone(), cfg_stem: cfg_stem.clone() };
    let r = if safe { Some(guarded(move || f(&sc))) } else { None };
    for (k, _) in os.iter() {
        std::env::remove_var(k);
    }
    let _ = std::env::set_current_dir(root);
    let _ = std::fs::remove_dir_all(&dir);
    for ext in ["yaml", "json", "toml"] {
        let _ = std::fs::remove_file(cfg_stem.with_extension(ext));
    }
    match r {
        None => "bad-case".to_owned(),
        Some(Err(_)) => "PANIC".to_owned(),
        Some(Ok(Err(_))) => "err".to_owned(),
        Some(Ok(Ok(obs))) => obs,
    }
}

/// a YAML double-quoted / JSON / TOML basic string (the JSON string syntax is valid in all three)
fn quoted(s: &str) -> String {
    serde_json::to_string(s).unwrap()
}

fn digit_record(k: u32, f: &mut dyn FnMut(&log::Record)) {
    f(&log::Record::builder().level(log::Level::Info).target("c19").args(format_args!("{}", k % 10)).build());
}

/// load the configuration file and build the logger (not installed globally); `Err` when the
/// configuration does not yield its one appender
fn load_logger(sc: &Scratch, ext: &str, doc: &str) -> Result<log4rs::Logger, String> {
    let cfg = sc.cfg_stem.with_extension(ext);
    std::fs::write(&cfg, doc).map_err(|e| e.to_string())?;
    let config = load_config_file(&cfg, Deserializers::default()).map_err(|e| e.to_string())?;
    if config.appenders().len() != 1 {
        return Err("appender not built".to_owned());
    }
    Ok(log4rs::Logger::new(config))
}

fn file_config_doc(kind: &str, path: &str) -> (&'static str, String) {
    match kind {
        "file-json" => (
            "json",
            format!(
                "{{\"appenders\":{{\"out\":{{\"kind\":\"file\",\"path\":{},\"encoder\":{{\"pattern\":\"{{m}}\"}}}}}},\"root\":{{\"level\":\"info\",\"appenders\":[\"out\"]}}}}",
                quoted(path)
            ),
        ),
        "file-toml" => (
            "toml",
            format!(
                "[appenders.out]\nkind = \"file\"\npath = {}\n[appenders.out.encoder]\npattern = \"{{m}}\"\n[root]\nlevel = \"info\"\nappenders = [\"out\"]\n",
                quoted(path)
            ),
        ),
        _ => (
            "yaml",
            format!(
                "appenders:\n  out:\n    kind: file\n    path: {}\n    encoder:\n      pattern: \"{{m}}\"\nroot:\n  level: info\n  appenders: [out]\n",
                quoted(path)
            ),
        ),
    }
}

fn exec_file(kind: &str, env: &[EnvEntry], given: Vec<u8>) -> String {
    CWD_MAY_GO.store(true, Ordering::SeqCst);
    let given_text = String::from_utf8_lossy(&given).into_owned();
    let gt = given_text.clone();
    let kind = kind.to_owned();
    in_scratch(
        env,
        &move |dir| vec![subst_scratch(&gt, Some(dir))],
        move |sc| {
            if kind == "file" || kind == "file-os" {
                use std::os::unix::ffi::OsStrExt;
                let bytes = if kind == "file" { subst_scratch(&given_text, Some(&sc.dir)).into_bytes() } else { given.clone() };
                let a = FileAppender::builder()
                    .encoder(Box::new(PatternEncoder::new("{m}")))
                    .build(std::ffi::OsStr::from_bytes(&bytes))
                    .map_err(|e| e.to_string())?;
                for k in 0..2 {
                    digit_record(k, &mut |r| {
                        let _ = a.append(r);
                    });
                }
                drop(a);
            } else {
                let (ext, doc) = file_config_doc(&kind, &subst_scratch(&given_text, Some(&sc.dir)));
                let logger = load_logger(sc, ext, &doc)?;
                for k in 0..2 {
                    digit_record(k, &mut |r| log::Log::log(&logger, r));
                }
                log::Log::flush(&logger);
                drop(logger);
            }
            Ok(format!("tree:{}", entries(&sc.dir)))
        },
    )
}

struct RollingOpts {
    fw: bool,
    appends: u32,
    pattern: String,
    time: bool,
    bg: bool,
}

fn exec_rolling(kind: &str, env: &[EnvEntry], path: String, o: RollingOpts) -> String {
    CWD_MAY_GO.store(true, Ordering::SeqCst);
    let (p1, pat1) = (path.clone(), o.pattern.clone());
    let fw = o.fw;
    let cfg_kind = kind == "rolling-cfg";
    in_scratch(
        env,
        &move |dir| {
            let mut v = vec![subst_scratch(&p1, Some(dir))];
            if fw {
                for i in 0..3 {
                    v.push(subst_scratch(&pat1, Some(dir)).replace("{}", &i.to_string()));
                }
            }
            v
        },
        move |sc| {
            let path = subst_scratch(&path, Some(&sc.dir));
            let pattern = subst_scratch(&o.pattern, Some(&sc.dir));
            let baseline = n_threads();
            NOW.store(T0, Ordering::SeqCst);
            let mut steps: Vec<String> = Vec::new();
            let mut after = |steps: &mut Vec<String>| {
                if o.bg {
                    wait_quiescent(baseline);
                }
                steps.push(snapshot(&sc.dir));
            };
            if !cfg_kind {
                let roller: Box<dyn Roll> = if o.fw {
                    Box::new(FixedWindowRoller::builder().build(&pattern, 2).map_err(|e| e.to_string())?)
                } else {
                    Box::new(DeleteRoller::new())
                };
                let trigger: Box<dyn Trigger> = if o.time {
                    Box::new(TimeTrigger::new(TimeTrigger::verif_config(TimeTriggerInterval::Second(10), false, 0)))
                } else {
                    Box::new(SizeTrigger::new(2))
                };
                let policy = CompoundPolicy::new(trigger, roller);
                let a = RollingFileAppender::builder()
                    .encoder(Box::new(PatternEncoder::new("{m}")))
                    .build(&path, Box::new(policy))
                    .map_err(|e| e.to_string())?;
                after(&mut steps);
                for k in 0..o.appends {
                    NOW.store(T0 + 100 * k as i64, Ordering::SeqCst);
                    digit_record(k, &mut |r| {
                        let _ = a.append(r);
                    });
                    after(&mut steps);
                }
                drop(a);
            } else {
                let roller = if o.fw {
                    format!("        kind: fixed_window\n        pattern: {}\n        count: 2\n", quoted(&pattern))
                } else {
                    "        kind: delete\n".to_owned()
                };
                let trigger = if o.time {
                    "        kind: time\n        interval: 10 seconds\n"
                } else {
                    "        kind: size\n        limit: 2\n"
                };
                let doc = format!(
                    "appenders:\n  out:\n    kind: rolling_file\n    path: {}\n    encoder:\n      pattern: \"{{m}}\"\n    policy:\n      kind: compound\n      trigger:\n{}      roller:\n{}root:\n  level: info\n  appenders: [out]\n",
                    quoted(&path), trigger, roller
                );
                let logger = load_logger(sc, "yaml", &doc)?;
                after(&mut steps);
                for k in 0..o.appends {
                    NOW.store(T0 + 100 * k as i64, Ordering::SeqCst);
                    digit_record(k, &mut |r| log::Log::log(&logger, r));
                    after(&mut steps);
                }
                drop(logger);
            }
            Ok(format!("hist:{}", steps.join("|")))
        },
    )
}

fn exec_roller(kind: &str, env: &[EnvEntry], pattern: String, base: u32, count: u32, rolls: u32, bg: bool) -> String {
    let pat1 = pattern.clone();
    let cfg_kind = kind == "roller-cfg";
    in_scratch(
        env,
        &move |dir| {
            (0..=count.min(8)).map(|j| subst_scratch(&pat1, Some(dir)).replace("{}", &(base as u64 + j as u64).to_string())).collect()
        },
        move |sc| {
            let pattern = subst_scratch(&pattern, Some(&sc.dir));
            let baseline = n_threads();
            if !cfg_kind {
                let roller = FixedWindowRoller::builder().base(base).build(&pattern, count).map_err(|e| e.to_string())?;
                for k in 0..rolls {
                    std::fs::write("cur.log", (k % 10).to_string()).map_err(|e| e.to_string())?;
                    roller.roll(Path::new("cur.log")).map_err(|e| e.to_string())?;
                    if bg {
                        wait_quiescent(baseline);
                    }
                }
            } else {
                // every record exceeds the size limit 0, so every record forces one roll
                let doc = format!(
                    "appenders:\n  out:\n    kind: rolling_file\n    path: \"cur.log\"\n    encoder:\n      pattern: \"{{m}}\"\n    policy:\n      kind: compound\n      trigger:\n        kind: size\n        limit: 0\n      roller:\n        kind: fixed_window\n        pattern: {}\n        base: {}\n        count: {}\nroot:\n  level: info\n  appenders: [out]\n",
                    quoted(&pattern), base, count
                );
                let logger = load_logger(sc, "yaml", &doc)?;
                // the appender created `cur.log` at build; the model's history starts without it
                for k in 0..rolls {
                    digit_record(k, &mut |r| log::Log::log(&logger, r));
                    if bg {
                        wait_quiescent(baseline);
                    }
                }
                drop(logger);
                if rolls == 0 {
                    let _ = std::fs::remove_file("cur.log");
                }
            }
            Ok(format!("tree:{}", entries(&sc.dir)))
        },
    )
}

pub fn exec(fields: &[&str]) -> String {
    CWD_MAY_GO.store(false, Ordering::SeqCst);
    init();
    let (fields, bg) = match fields.last() {
        Some(&"@bg") => (&fields[..fields.len() - 1], true),
        _ => (fields, false),
    };
    if fields.len() < 3 {
        return "bad-case".to_owned();
    }
    let kind = fields[0];
    let env = match dec_env(fields[1]) {
        Some(e) => e,
        None => return "bad-case".to_owned(),
    };
    {
        let os = os_entries(&env, None);
        use std::os::unix::ffi::OsStrExt;
        if os.iter().any(|(k, v)| {
            let (k, v) = (k.as_bytes(), v.as_bytes());
            k.is_empty() || k.contains(&b'=') || k.contains(&0) || v.contains(&0)
        }) {
            return "bad-case".to_owned();
        }
    }
    match (kind, fields.len()) {
        ("hook", 3) => {
            let path = match dec_str(fields[2]) {
                Some(p) => p,
                None => return "bad-case".to_owned(),
            };
            let os = os_entries(&env, None);
            // first entry wins, as in the model's association list
            for (k, v) in os.iter().rev() {
                std::env::set_var(k, v);
            }
            let obs = match guarded(move || log4rs::verif_hooks::expand_env_vars(&path)) {
                Ok(s) => format!("ok:{}", enc_str(&s)),
                Err(_) => "PANIC".to_owned(),
            };
            for (k, _) in os.iter() {
                std::env::remove_var(k);
            }
            obs
        }
        ("file-os", 3) => match dec_bytes(fields[2]) {
            Some(b) if !b.contains(&0) => exec_file(kind, &env, b),
            _ => "bad-case".to_owned(),
        },
        ("file", 3) | ("file-cfg", 3) | ("file-json", 3) | ("file-toml", 3) => match dec_str(fields[2]) {
            Some(p) => exec_file(kind, &env, p.into_bytes()),
            None => "bad-case".to_owned(),
        },
        ("rolling", 3) | ("rolling", 5) | ("rolling", 7) | ("rolling-cfg", 3) | ("rolling-cfg", 5) | ("rolling-cfg", 7) => {
            let path = match dec_str(fields[2]) {
                Some(p) => p,
                None => return "bad-case".to_owned(),
            };
            let mut o = RollingOpts { fw: true, appends: 8, pattern: "r.{}.log".to_owned(), time: false, bg };
            if fields.len() >= 5 {
                match (fields[3], fields[4].parse::<u32>().ok()) {
                    ("fw", Some(a)) if a <= 10 => o.appends = a,
                    ("del", Some(a)) if a <= 10 => {
                        o.fw = false;
                        o.appends = a
                    }
                    _ => return "bad-case".to_owned(),
                }
            }
            if fields.len() == 7 {
                if fields[5] != "-" {
                    match dec_str(fields[5]) {
                        Some(p) => o.pattern = p,
                        None => return "bad-case".to_owned(),
                    }
                }
                match fields[6] {
                    "size" => {}
                    "time" => o.time = true,
                    _ => return "bad-case".to_owned(),
                }
            }
            exec_rolling(kind, &env, path, o)
        }
        ("roller", 6) | ("roller-cfg", 6) => {
            let pattern = match dec_str(fields[2]) {
                Some(p) => p,
                None => return "bad-case".to_owned(),
            };
            let nums: Vec<Option<u32>> = fields[3..6].iter().map(|s| s.parse().ok()).collect();
            match (nums[0], nums[1], nums[2]) {
                (Some(base), Some(count), Some(rolls)) if rolls <= 20 && count <= 8 => {
                    exec_roller(kind, &env, pattern, base, count, rolls, bg)
                }
                _ => "bad-case".to_owned(),
            }
        }
        _ => "bad-case".to_owned(),
    }
}

pub fn child(_args: &[String]) -> i32 {
    2
}
