//! C01 — routing. Real code: `log4rs::Logger::new(config)` + `log::Log::log`, with one capturing
//! `Append` per declared appender that records its own name per call into a shared vector.
//! case:   appenders(,)  rootLevel  rootRefs(,)  loggers(, of name;level;additive;refs(|))  probes(, of target;level)
//!         optional 6th field failing(,): these appenders record the call and then return Err
//! obs:    per probe (,) the sequence (;) of appender names called (`~` none);
//!         with the 6th field: calls!errors (errors = what reached the error handler, in order)
use crate::proto::*;
use crate::rng::Rng;
use log::{Level, LevelFilter, Log, Record};
use log4rs::append::Append;
use log4rs::config::{Appender, Config, Logger, Root};
use std::sync::{Arc, Mutex};

// ------------------------------------------------------------------------------------------------
// logical configuration shared with C02
// ------------------------------------------------------------------------------------------------
#[derive(Clone, Debug)]
pub struct LCfg {
    pub name: String,
    pub level: u8,
    pub additive: bool,
    pub refs: Vec<String>,
}

#[derive(Clone, Debug)]
pub struct Cfg {
    pub appenders: Vec<String>,
    pub root_level: u8,
    pub root_refs: Vec<String>,
    pub loggers: Vec<LCfg>,
}

pub fn level_filter(n: u8) -> LevelFilter {
    match n {
        0 => LevelFilter::Off,
        1 => LevelFilter::Error,
        2 => LevelFilter::Warn,
        3 => LevelFilter::Info,
        4 => LevelFilter::Debug,
        _ => LevelFilter::Trace,
    }
}

pub fn level_of(n: u8) -> Level {
    match n {
        1 => Level::Error,
        2 => Level::Warn,
        3 => Level::Info,
        4 => Level::Debug,
        _ => Level::Trace,
    }
}

pub fn filter_num(l: LevelFilter) -> u8 {
    l as usize as u8
}

impl Cfg {
    /// the four case fields of one configuration
    pub fn encode(&self) -> String {
        let apps: Vec<String> = self.appenders.iter().map(|a| enc_str(a)).collect();
        let rr: Vec<String> = self.root_refs.iter().map(|a| enc_str(a)).collect();
        let ls: Vec<String> = self
            .loggers
            .iter()
            .map(|l| {
                let refs: Vec<String> = l.refs.iter().map(|a| enc_str(a)).collect();
                format!("{};{};{};{}", enc_str(&l.name), l.level, enc_bool(l.additive), enc_list("|", &refs))
            })
            .collect();
        format!("{}\t{}\t{}\t{}", enc_list(",", &apps), self.root_level, enc_list(",", &rr), enc_list(",", &ls))
    }

    pub fn decode(f: &[&str]) -> Option<Cfg> {
        if f.len() != 4 {
            return None;
        }
        let names = |sep: char, s: &str| -> Option<Vec<String>> { dec_list(sep, s).iter().map(|x| dec_str(x)).collect() };
        let mut loggers = vec![];
        for l in dec_list(',', f[3]) {
            let p: Vec<&str> = l.split(';').collect();
            if p.len() != 4 {
                return None;
            }
            loggers.push(LCfg {
                name: dec_str(p[0])?,
                level: p[1].parse().ok()?,
                additive: match p[2] {
                    "1" => true,
                    "0" => false,
                    _ => return None,
                },
                refs: names('|', p[3])?,
            });
        }
        Some(Cfg { appenders: names(',', f[0])?, root_level: f[1].parse().ok()?, root_refs: names(',', f[2])?, loggers })
    }
}

#[derive(Debug)]
pub struct Capture {
    pub name: String,
    pub sink: Arc<Mutex<Vec<String>>>,
    pub fail: bool,
}

impl Append for Capture {
    fn append(&self, _record: &Record) -> anyhow::Result<()> {
        self.sink.lock().unwrap().push(self.name.clone());
        if self.fail {
            return Err(anyhow::anyhow!("{}", enc_str(&self.name)));
        }
        Ok(())
    }
    fn flush(&self) {}
}

/// `Config::builder()…build(root)` with capturing appenders; Err = the builder rejected it
pub fn build_config(c: &Cfg, sink: &Arc<Mutex<Vec<String>>>) -> Result<Config, String> {
    build_config_f(c, sink, &[])
}

/// … where the appenders named in `failing` return Err from `append` (after recording the call)
pub fn build_config_f(c: &Cfg, sink: &Arc<Mutex<Vec<String>>>, failing: &[String]) -> Result<Config, String> {
    let mut b = Config::builder();
    for a in &c.appenders {
        let cap = Capture { name: a.clone(), sink: sink.clone(), fail: failing.contains(a) };
        b = b.appender(Appender::builder().build(a.clone(), Box::new(cap)));
    }
    for l in &c.loggers {
        b = b.logger(
            Logger::builder()
                .appenders(l.refs.iter().cloned())
                .additive(l.additive)
                .build(l.name.clone(), level_filter(l.level)),
        );
    }
    // Every other configuration (decided by its content, so a case replays identically) is built with a
    // different root level first and brought to the wanted one through the public mutator
    // `Config::root_mut().set_level(..)` — the resulting `Config` is the same logical configuration.
    let via_mutator = (c.root_level as usize + c.loggers.len() + c.appenders.len()) % 2 == 1;
    let build_level = if via_mutator { if c.root_level == 0 { 5 } else { 0 } } else { c.root_level };
    let mut config = b
        .build(Root::builder().appenders(c.root_refs.iter().cloned()).build(level_filter(build_level)))
        .map_err(|e| format!("{:?}", e))?;
    if via_mutator {
        config.root_mut().set_level(level_filter(c.root_level));
    }
    Ok(config)
}

pub fn render_names(ns: &[String]) -> String {
    let v: Vec<String> = ns.iter().map(|n| enc_str(n)).collect();
    enc_list(";", &v)
}

// ------------------------------------------------------------------------------------------------
// generator
// ------------------------------------------------------------------------------------------------
const COMPS: &[&str] = &["a", "b", "ab", "bb", "a", "b", "é", "日本", "a_b", "B"];
const APPS: &[&str] = &["x", "y", "z", "ω"];
pub const SPECIAL_TARGETS: &[&str] =
    &["", ":", "a:::b", "a::", "::", "::a", "a::::b", "a:b", "a::b:", ":a::b", "a::b::", "::::", "é", "a::é::日本"];

fn rand_name(rng: &mut Rng, existing: &[String], max_depth: usize) -> String {
    let depth_of = |s: &str| s.split("::").count();
    if !existing.is_empty() && rng.chance(1, 2) {
        let base = rng.pick(existing).clone();
        if rng.chance(2, 3) && depth_of(&base) < max_depth {
            // extend by one or two components (two ⇒ implied intermediate)
            let mut s = base;
            for _ in 0..(if rng.chance(1, 3) { 2 } else { 1 }) {
                if depth_of(&s) < max_depth {
                    s = format!("{}::{}", s, rng.pick(COMPS));
                }
            }
            return s;
        }
        // a component prefix of an existing name, or a textual variation of it
        let parts: Vec<&str> = base.split("::").collect();
        if parts.len() > 1 && rng.chance(1, 2) {
            let k = rng.range(1, parts.len() as u64 - 1) as usize;
            let p = parts[..k].join("::");
            if !p.is_empty() {
                return p;
            }
        }
        return format!("{}{}", base, rng.pick(&["b", "a", "bb"]));
    }
    let depth = rng.range(1, max_depth as u64) as usize;
    let mut parts: Vec<String> = (0..depth).map(|_| rng.pick(COMPS).to_string()).collect();
    if depth >= 2 && rng.chance(1, 12) {
        parts[0] = String::new(); // "::a" passes check_logger_name
    }
    parts.join("::")
}

pub fn rand_cfg(rng: &mut Rng, max_loggers: u64, max_depth: usize) -> Cfg {
    let napps = rng.range(1, APPS.len() as u64) as usize;
    let mut appenders: Vec<String> = APPS[..napps].iter().map(|s| s.to_string()).collect();
    rng.shuffle(&mut appenders);
    let refs = |rng: &mut Rng, max: u64| -> Vec<String> {
        let k = rng.range(0, max);
        (0..k).map(|_| rng.pick(&appenders).clone()).collect()
    };
    let root_level = rng.range(0, 5) as u8;
    let root_refs = refs(rng, 2);
    let nlog = rng.range(0, max_loggers);
    let mut names: Vec<String> = vec![];
    let mut guard = 0;
    while (names.len() as u64) < nlog && guard < 100 {
        guard += 1;
        let n = rand_name(rng, &names, max_depth);
        if !n.is_empty() && !names.contains(&n) {
            names.push(n);
        }
    }
    rng.shuffle(&mut names);
    let loggers = names
        .into_iter()
        .map(|name| LCfg { name, level: rng.range(0, 5) as u8, additive: !rng.chance(1, 4), refs: refs(rng, 3) })
        .collect();
    Cfg { appenders, root_level, root_refs, loggers }
}

pub fn targets_for(rng: &mut Rng, c: &Cfg, max: usize) -> Vec<String> {
    let mut t: Vec<String> = vec![];
    for l in &c.loggers {
        let n = &l.name;
        t.push(n.clone());
        let parts: Vec<&str> = n.split("::").collect();
        for k in 1..parts.len() {
            t.push(parts[..k].join("::"));
        }
        t.push(format!("{}::{}", n, rng.pick(COMPS)));
        t.push(format!("{}::{}::{}", n, rng.pick(COMPS), rng.pick(COMPS)));
        t.push(format!("{}{}", n, rng.pick(&["b", "a", ":", "::", ":::b"])));
        let mut cs: Vec<char> = n.chars().collect();
        cs.pop();
        t.push(cs.into_iter().collect());
    }
    for s in SPECIAL_TARGETS {
        t.push(s.to_string());
    }
    for _ in 0..3 {
        let d = rng.range(1, 5);
        let parts: Vec<&str> = (0..d).map(|_| *rng.pick(COMPS)).collect();
        t.push(parts.join("::"));
    }
    t.sort();
    t.dedup();
    rng.shuffle(&mut t);
    // configured names and the special targets first in line when truncating
    let mut keep: Vec<String> = c.loggers.iter().map(|l| l.name.clone()).collect();
    for x in t {
        if keep.len() >= max {
            break;
        }
        if !keep.contains(&x) {
            keep.push(x);
        }
    }
    keep
}

fn emit_case(c: &Cfg, probes: &[(String, u8)], emit: &mut dyn FnMut(String)) {
    let ps: Vec<String> = probes.iter().map(|(t, l)| format!("{};{}", enc_str(t), l)).collect();
    emit(format!("{}\t{}", c.encode(), enc_list(",", &ps)));
}

fn emit_case_f(c: &Cfg, probes: &[(String, u8)], failing: &[String], emit: &mut dyn FnMut(String)) {
    let ps: Vec<String> = probes.iter().map(|(t, l)| format!("{};{}", enc_str(t), l)).collect();
    let fs: Vec<String> = failing.iter().map(|a| enc_str(a)).collect();
    emit(format!("{}\t{}\t{}", c.encode(), enc_list(",", &ps), enc_list(",", &fs)));
}

pub fn shuffled(rng: &mut Rng, c: &Cfg) -> Cfg {
    let mut d = c.clone();
    rng.shuffle(&mut d.loggers);
    rng.shuffle(&mut d.appenders);
    d
}

const POOL: &[&str] = &["a", "b", "a::b", "a::bb", "a::b::a", "ab", "a::a", "b::a", "a::b::a::b", "::a"];
const EX_TARGETS: &[&str] = &[
    "a", "b", "a::b", "a::bb", "a::b::a", "a::b::a::b", "a::b::a::b::a", "ab", "a::a", "b::a", "", "a::", "::a", "a:::b",
];

/// every configuration with at most `k` loggers from the 10-name pool × 2 levels × additive × 2 attachments,
/// declared longest name first (so a missing sort shows), probed on 14 targets × levels 1,3,5
fn exhaustive(k: usize, failing: &[String], emit: &mut dyn FnMut(String)) {
    let probes: Vec<(String, u8)> =
        EX_TARGETS.iter().flat_map(|t| [1u8, 3, 5].iter().map(move |l| (t.to_string(), *l))).collect();
    let n = POOL.len();
    let mut subsets: Vec<Vec<usize>> = vec![vec![]];
    for size in 1..=k {
        let mut idx: Vec<usize> = (0..size).collect();
        loop {
            subsets.push(idx.clone());
            let mut i = size;
            while i > 0 && idx[i - 1] == n - size + i - 1 {
                i -= 1;
            }
            if i == 0 {
                break;
            }
            idx[i - 1] += 1;
            for j in i..size {
                idx[j] = idx[j - 1] + 1;
            }
        }
    }
    for s in subsets {
        let mut names: Vec<&str> = s.iter().map(|i| POOL[*i]).collect();
        names.sort_by_key(|x| std::cmp::Reverse(x.len()));
        let m = names.len();
        for opts in 0..(8usize.pow(m as u32)) {
            let loggers: Vec<LCfg> = names
                .iter()
                .enumerate()
                .map(|(i, name)| {
                    let o = (opts >> (3 * i)) & 7;
                    LCfg {
                        name: name.to_string(),
                        level: if o & 1 == 0 { 1 } else { 4 },
                        additive: o & 2 == 0,
                        refs: vec![if o & 4 == 0 { "x".to_string() } else { "y".to_string() }],
                    }
                })
                .collect();
            let c = Cfg {
                appenders: vec!["r".into(), "x".into(), "y".into()],
                root_level: 3,
                root_refs: vec!["r".into()],
                loggers,
            };
            if failing.is_empty() {
                emit_case(&c, &probes, emit);
            } else {
                emit_case_f(&c, &probes, failing, emit);
            }
        }
    }
}

pub fn gen(rng: &mut Rng, n: usize, thorough: bool, emit: &mut dyn FnMut(String)) {
    // exhaustive small-scope block
    exhaustive(if thorough { 3 } else { 2 }, &[], emit);
    // the same small scope with a failing appender in front of / behind the healthy ones
    exhaustive(2, &["x".to_string()], emit);
    exhaustive(if thorough { 2 } else { 1 }, &["r".to_string(), "y".to_string()], emit);
    // random stream: each configuration twice, as declared and shuffled
    for i in 0..n {
        let (max_loggers, max_depth) = if thorough && i % 4 == 0 { (9, 6) } else { (6, 4) };
        let c = rand_cfg(rng, max_loggers, max_depth);
        let targets = targets_for(rng, &c, if thorough { 24 } else { 14 });
        let mut probes: Vec<(String, u8)> = vec![];
        for t in &targets {
            for l in 1..=5u8 {
                probes.push((t.clone(), l));
            }
        }
        if i % 3 == 2 {
            // some appenders return Err: the others must still be called, the failures reported
            let mut failing: Vec<String> = c.appenders.iter().filter(|_| rng.chance(1, 2)).cloned().collect();
            if failing.is_empty() {
                failing.push(c.appenders[0].clone());
            }
            emit_case_f(&c, &probes, &failing, emit);
            let d = shuffled(rng, &c);
            emit_case_f(&d, &probes, &failing, emit);
            continue;
        }
        emit_case(&c, &probes, emit);
        let d = shuffled(rng, &c);
        emit_case(&d, &probes, emit);
    }
}

// ------------------------------------------------------------------------------------------------
// execution on the real code
// ------------------------------------------------------------------------------------------------
pub fn exec(fields: &[&str]) -> String {
    if fields.len() != 5 && fields.len() != 6 {
        return "bad-case".to_owned();
    }
    let failing: Option<Vec<String>> = if fields.len() == 6 {
        match dec_list(',', fields[5]).iter().map(|x| dec_str(x)).collect::<Option<Vec<String>>>() {
            Some(f) => Some(f),
            None => return "bad-case".to_owned(),
        }
    } else {
        None
    };
    let cfg = match Cfg::decode(&fields[..4]) {
        Some(c) => c,
        None => return "bad-case".to_owned(),
    };
    let mut probes: Vec<(String, u8)> = vec![];
    for p in dec_list(',', fields[4]) {
        let q: Vec<&str> = p.split(';').collect();
        if q.len() != 2 {
            return "bad-case".to_owned();
        }
        match (dec_str(q[0]), q[1].parse::<u8>()) {
            (Some(t), Ok(l)) if (1..=5).contains(&l) => probes.push((t, l)),
            _ => return "bad-case".to_owned(),
        }
    }
    let sink = Arc::new(Mutex::new(Vec::<String>::new()));
    let errs = Arc::new(Mutex::new(Vec::<String>::new()));
    let config = match build_config_f(&cfg, &sink, failing.as_deref().unwrap_or(&[])) {
        Ok(c) => c,
        Err(_) => return "INVALID".to_owned(),
    };
    let sink2 = sink.clone();
    let errs2 = errs.clone();
    let with_errs = failing.is_some();
    let r = guarded(std::panic::AssertUnwindSafe(move || {
        let logger = if with_errs {
            let e3 = errs2.clone();
            log4rs::Logger::new_with_err_handler(
                config,
                Box::new(move |e: &anyhow::Error| {
                    let m = e.to_string();
                    e3.lock().unwrap().push(dec_str(&m).unwrap_or(format!("?{}", m)));
                }),
            )
        } else {
            log4rs::Logger::new(config)
        };
        let mut out: Vec<String> = vec![];
        for (t, l) in &probes {
            sink2.lock().unwrap().clear();
            errs2.lock().unwrap().clear();
            logger.log(&Record::builder().target(t).level(level_of(*l)).args(format_args!("x")).build());
            if with_errs {
                out.push(format!("{}!{}", render_names(&sink2.lock().unwrap()), render_names(&errs2.lock().unwrap())));
            } else {
                out.push(render_names(&sink2.lock().unwrap()));
            }
        }
        enc_list(",", &out)
    }));
    match r {
        Ok(s) => s,
        Err(_) => "PANIC".to_owned(),
    }
}

/// child-process entry point (unused by C01)
pub fn child(_args: &[String]) -> i32 {
    2
}
