//! C01 — routing. Real code: `log4rs::Logger::new(config)` + `log::Log::log`, with one capturing
//! `Append` per declared appender that records its own name per call into a shared vector.
//! case:   appenders(,)  rootLevel  rootRefs(,)  loggers(, of name;level;additive;refs(|))  probes(, of target;level)
//!         optional 6th field failing(,): these appenders record the call and then return Err (`-` = none)
//!         optional fields 7-10: the same configuration declared in another order; obs = first#second
//! obs:    per probe (,) the sequence (;) of appender names called (`~` none);
//!         with the 6th field: calls!errors (errors = what reached the error handler, in order)
use crate::proto::*;
use crate::rng::Rng;
use log::{Level, LevelFilter, Log, Record};
use log4rs::append::Append;
use log4rs::config::{Appender, Config, Logger, Root};
use std::sync::{Arc, Mutex};

// ------------------------------------------------------------------------------------------------
// logical configuration shared with C02
// ------------------------------------------------------------------------------------------------
#[derive(Clone, Debug)]
pub struct LCfg {
    pub name: String,
    pub level: u8,
    pub additive: bool,
    pub refs: Vec<String>,
}

#[derive(Clone, Debug)]
pub struct Cfg {
    pub appenders: Vec<String>,
    pub root_level: u8,
    pub root_refs: Vec<String>,
    pub loggers: Vec<LCfg>,
}

pub fn level_filter(n: u8) -> LevelFilter {
    match n {
        0 => LevelFilter::Off,
        1 => LevelFilter::Error,
        2 => LevelFilter::Warn,
        3 => LevelFilter::Info,
        4 => LevelFilter::Debug,
        _ => LevelFilter::Trace,
    }
}

pub fn level_of(n: u8) -> Level {
    match n {
        1 => Level::Error,
        2 => Level::Warn,
        3 => Level::Info,
        4 => Level::Debug,
        _ => Level::Trace,
    }
}

pub fn filter_num(l: LevelFilter) -> u8 {
    l as usize as u8
}

impl Cfg {
    /// the four case fields of one configuration
    pub fn encode(&self) -> String {
        let apps: Vec<String> = self.appenders.iter().map(|a| enc_str(a)).collect();
        let rr: Vec<String> = self.root_refs.iter().map(|a| enc_str(a)).collect();
        let ls: Vec<String> = self
            .loggers
            .iter()
            .map(|l| {
                let refs: Vec<String> = l.refs.iter().map(|a| enc_str(a)).collect();
                format!("{};{};{};{}", enc_str(&l.name), l.level, enc_bool(l.additive), enc_list("|", &refs))
            })
            .collect();
        format!("{}\t{}\t{}\t{}", enc_list(",", &apps), self.root_level, enc_list(",", &rr), enc_list(",", &ls))
    }

    pub fn decode(f: &[&str]) -> Option<Cfg> {
        if f.len() != 4 {
            return None;
        }
        let names = |sep: char, s: &str| -> Option<Vec<String>> { dec_list(sep, s).iter().map(|x| dec_str(x)).collect() };
        let mut loggers = vec![];
        for l in dec_list(',', f[3]) {
            let p: Vec<&str> = l.split(';').collect();
            if p.len() != 4 {
                return None;
            }
            loggers.push(LCfg {
                name: dec_str(p[0])?,
                level: p[1].parse().ok()?,
                additive: match p[2] {
                    "1" => true,
                    "0" => false,
                    _ => return None,
                },
                refs: names('|', p[3])?,
            });
        }
        Some(Cfg { appenders: names(',', f[0])?, root_level: f[1].parse().ok()?, root_refs: names(',', f[2])?, loggers })
    }
}

#[derive(Debug)]
pub struct Capture {
    pub name: String,
    pub sink: Arc<Mutex<Vec<String>>>,
    pub fail: bool,
}

impl Append for Capture {
    fn append(&self, _record: &Record) -> anyhow::Result<()> {
        self.sink.lock().unwrap().push(self.name.clone());
        if self.fail {
            return Err(anyhow::anyhow!("{}", enc_str(&self.name)));
        }
        Ok(())
    }
    fn flush(&self) {}
}

/// `Config::builder()…build(root)` with capturing appenders; Err = the builder rejected it
pub fn build_config(c: &Cfg, sink: &Arc<Mutex<Vec<String>>>) -> Result<Config, String> {
    build_config_f(c, sink, &[])
}

/// … where the appenders named in `failing` return Err from `append` (after recording the call)
pub fn build_config_f(c: &Cfg, sink: &Arc<Mutex<Vec<String>>>, failing: &[String]) -> Result<Config, String> {
    let mut b = Config::builder();
    // A third of the configurations (decided by content) put a filter that answers Neutral to every record on
    // every appender, so that the filter loop of `Appender::append` (lib.rs) is executed under C01 as well;
    // filters that decide anything are C03's subject.
    let with_filter = (c.loggers.len() + c.root_refs.len()) % 3 == 0;
    for a in &c.appenders {
        let cap = Capture { name: a.clone(), sink: sink.clone(), fail: failing.contains(a) };
        let mut ab = Appender::builder();
        if with_filter {
            ab = ab.filter(Box::new(log4rs::filter::threshold::ThresholdFilter::new(LevelFilter::Trace)));
        }
        b = b.appender(ab.build(a.clone(), Box::new(cap)));
    }
    for l in &c.loggers {
        b = b.logger(
            Logger::builder()
                .appenders(l.refs.iter().cloned())
                .additive(l.additive)
                .build(l.name.clone(), level_filter(l.level)),
        );
    }
    // Every other configuration (decided by its content, so a case replays identically) is built with a
    // different root level first and brought to the wanted one through the public mutator
    // `Config::root_mut().set_level(..)` — the resulting `Config` is the same logical configuration.
    let via_mutator = (c.root_level as usize + c.loggers.len() + c.appenders.len()) % 2 == 1;
    let build_level = if via_mutator { if c.root_level == 0 { 5 } else { 0 } } else { c.root_level };
    let mut config = b
        .build(Root::builder().appenders(c.root_refs.iter().cloned()).build(level_filter(build_level)))
        .map_err(|e| format!("{:?}", e))?;
    if via_mutator {
        config.root_mut().set_level(level_filter(c.root_level));
    }
    Ok(config)
}

pub fn render_names(ns: &[String]) -> String {
    let v: Vec<String> = ns.iter().map(|n| enc_str(n)).collect();
    enc_list(";", &v)
}

// ------------------------------------------------------------------------------------------------
// generator
// ------------------------------------------------------------------------------------------------
const COMPS: &[&str] = &["a", "b", "ab", "bb", "a", "b", "é", "日本", "a_b", "B", "😀", "a b"];
const APPS: &[&str] = &["x", "y", "z", "ω", "v", "😀w"];
pub const SPECIAL_TARGETS: &[&str] = &[
    "", ":", "a:::b", "a::", "::", "::a", "a::::b", "a:b", "a::b:", ":a::b", "a::b::", "::::", "é", "a::é::日本",
    " a", "a ", "a ::b", "a\t", "a:: b", "😀", "a::😀", "a::b\u{0}", "a\n::b",
];

fn odd_targets(rng: &mut Rng, c: &Cfg) -> Vec<String> {
    let mut t = vec![];
    // twelve and more components, below a configured name when there is one
    let base = if c.loggers.is_empty() { "a".to_string() } else { rng.pick(&c.loggers).name.clone() };
    let d = rng.range(12, 20);
    let tail: Vec<&str> = (0..d).map(|_| *rng.pick(COMPS)).collect();
    t.push(format!("{}::{}", base, tail.join("::")));
    // one very long component
    t.push(format!("{}::{}", base, "ab".repeat(150 + rng.below(40) as usize)));
    t.push(format!("{}{}", base, "b".repeat(300)));
    // white space and an astral character around a configured name
    t.push(format!(" {}", base));
    t.push(format!("{} ", base));
    t.push(format!("{}::😀", base));
    t
}

fn rand_name(rng: &mut Rng, existing: &[String], max_depth: usize) -> String {
    let depth_of = |s: &str| s.split("::").count();
    if !existing.is_empty() && rng.chance(1, 2) {
        let base = rng.pick(existing).clone();
        if rng.chance(2, 3) && depth_of(&base) < max_depth {
            // extend by one or two components (two ⇒ implied intermediate)
            let mut s = base;
            for _ in 0..(if rng.chance(1, 3) { 2 } else { 1 }) {
                if depth_of(&s) < max_depth {
                    s = format!("{}::{}", s, rng.pick(COMPS));
                }
            }
            return s;
        }
        // a component prefix of an existing name, or a textual variation of it
        let parts: Vec<&str> = base.split("::").collect();
        if parts.len() > 1 && rng.chance(1, 2) {
            let k = rng.range(1, parts.len() as u64 - 1) as usize;
            let p = parts[..k].join("::");
            if !p.is_empty() {
                return p;
            }
        }
        return format!("{}{}", base, rng.pick(&["b", "a", "bb"]));
    }
    let depth = rng.range(1, max_depth as u64) as usize;
    let mut parts: Vec<String> = (0..depth).map(|_| rng.pick(COMPS).to_string()).collect();
    if depth >= 2 && rng.chance(1, 12) {
        parts[0] = String::new(); // "::a" passes check_logger_name
    }
    parts.join("::")
}

pub fn rand_cfg(rng: &mut Rng, max_loggers: u64, max_depth: usize) -> Cfg {
    let napps = rng.range(1, APPS.len() as u64) as usize;
    let mut appenders: Vec<String> = APPS[..napps].iter().map(|s| s.to_string()).collect();
    rng.shuffle(&mut appenders);
    let refs = |rng: &mut Rng, max: u64| -> Vec<String> {
        let k = rng.range(0, max);
        (0..k).map(|_| rng.pick(&appenders).clone()).collect()
    };
    let root_level = rng.range(0, 5) as u8;
    let root_refs = refs(rng, 3);
    let nlog = rng.range(0, max_loggers);
    let mut names: Vec<String> = vec![];
    let mut guard = 0;
    while (names.len() as u64) < nlog && guard < 100 {
        guard += 1;
        let n = rand_name(rng, &names, max_depth);
        if !n.is_empty() && !names.contains(&n) {
            names.push(n);
        }
    }
    rng.shuffle(&mut names);
    let loggers = names
        .into_iter()
        .map(|name| LCfg { name, level: rng.range(0, 5) as u8, additive: !rng.chance(1, 4), refs: refs(rng, 4) })
        .collect();
    Cfg { appenders, root_level, root_refs, loggers }
}

pub fn targets_for(rng: &mut Rng, c: &Cfg, max: usize) -> Vec<String> {
    let mut t: Vec<String> = vec![];
    for l in &c.loggers {
        let n = &l.name;
        t.push(n.clone());
        let parts: Vec<&str> = n.split("::").collect();
        for k in 1..parts.len() {
            t.push(parts[..k].join("::"));
        }
        t.push(format!("{}::{}", n, rng.pick(COMPS)));
        t.push(format!("{}::{}::{}", n, rng.pick(COMPS), rng.pick(COMPS)));
        t.push(format!("{}{}", n, rng.pick(&["b", "a", ":", "::", ":::b"])));
        let mut cs: Vec<char> = n.chars().collect();
        cs.pop();
        t.push(cs.into_iter().collect());
    }
    for s in SPECIAL_TARGETS {
        t.push(s.to_string());
    }
    let odd = odd_targets(rng, c);
    for _ in 0..3 {
        let d = rng.range(1, 5);
        let parts: Vec<&str> = (0..d).map(|_| *rng.pick(COMPS)).collect();
        t.push(parts.join("::"));
    }
    t.sort();
    t.dedup();
    rng.shuffle(&mut t);
    // configured names and the special targets first in line when truncating
    let mut keep: Vec<String> = c.loggers.iter().take(max / 2).map(|l| l.name.clone()).collect();
    // two of the odd targets (deep, long, white space, astral) in every case
    let mut odd = odd;
    rng.shuffle(&mut odd);
    keep.extend(odd.into_iter().take(2));
    for x in t {
        if keep.len() >= max {
            break;
        }
        if !keep.contains(&x) {
            keep.push(x);
        }
    }
    keep
}

fn enc_probes(probes: &[(String, u8)]) -> String {
    let ps: Vec<String> = probes.iter().map(|(t, l)| format!("{};{}", enc_str(t), l)).collect();
    enc_list(",", &ps)
}

fn enc_failing(failing: &[String]) -> String {
    let fs: Vec<String> = failing.iter().map(|a| enc_str(a)).collect();
    enc_list(",", &fs)
}

fn emit_case(c: &Cfg, probes: &[(String, u8)], emit: &mut dyn FnMut(String)) {
    emit(format!("{}\t{}", c.encode(), enc_probes(probes)));
}

fn emit_case_f(c: &Cfg, probes: &[(String, u8)], failing: &[String], emit: &mut dyn FnMut(String)) {
    emit(format!("{}\t{}\t{}", c.encode(), enc_probes(probes), enc_failing(failing)));
}

/// one case with two declarations of the same configuration (second = loggers / appender table reordered)
fn emit_twin(c: &Cfg, d: &Cfg, probes: &[(String, u8)], failing: Option<&[String]>, emit: &mut dyn FnMut(String)) {
    let f = match failing {
        Some(f) => enc_failing(f),
        None => "-".to_string(),
    };
    emit(format!("{}\t{}\t{}\t{}", c.encode(), enc_probes(probes), f, d.encode()));
}

pub fn shuffled(rng: &mut Rng, c: &Cfg) -> Cfg {
    let mut d = c.clone();
    rng.shuffle(&mut d.loggers);
    rng.shuffle(&mut d.appenders);
    d
}

/// the first seven are the quick tier's pool for pairs
const POOL: &[&str] = &["a", "a::b", "a::bb", "a::b::a", "a::b::a::b", "::a", "b", "ab", "a::a", "b::a"];
const EX_TARGETS: &[&str] = &[
    "a", "b", "a::b", "a::bb", "a::b::a", "a::b::a::b", "a::b::a::b::a", "ab", "a::a", "b::a", "", "a::", "::a", "a:::b",
];

#[derive(Clone, Copy, PartialEq)]
enum Scope {
    /// 2 thresholds × additive × attachment [x] | [y]                                  (8 per logger)
    Narrow,
    /// 2 thresholds × additive × attachments [] [x] [y] [r] [x,x] [x,r]                 (24 per logger)
    Medium,
    /// thresholds Off Error Debug Trace × additive × the same six attachment lists     (48 per logger)
    Wide,
}

fn logger_options(scope: Scope) -> Vec<(u8, bool, Vec<String>)> {
    let levels: &[u8] = if scope == Scope::Wide { &[0, 1, 4, 5] } else { &[1, 4] };
    let atts: Vec<Vec<&str>> = if scope == Scope::Narrow {
        vec![vec!["x"], vec!["y"]]
    } else {
        vec![vec![], vec!["x"], vec!["y"], vec!["r"], vec!["x", "x"], vec!["x", "r"]]
    };
    let mut v = vec![];
    for l in levels {
        for additive in [true, false] {
            for a in &atts {
                v.push((*l, additive, a.iter().map(|s| s.to_string()).collect()));
            }
        }
    }
    v
}

fn subsets(n: usize, size: usize) -> Vec<Vec<usize>> {
    let mut out = vec![];
    if size == 0 {
        return vec![vec![]];
    }
    if size > n {
        return out;
    }
    let mut idx: Vec<usize> = (0..size).collect();
    loop {
        out.push(idx.clone());
        let mut i = size;
        while i > 0 && idx[i - 1] == n - size + i - 1 {
            i -= 1;
        }
        if i == 0 {
            break;
        }
        idx[i - 1] += 1;
        for j in i..size {
            idx[j] = idx[j - 1] + 1;
        }
    }
    out
}

/// every configuration with exactly `size` loggers from the first `pool` names × the per-logger options of
/// `scope`, root = (Info, [r]), appender table r x y; probed on 14 targets × the five levels.
/// `both_orders`: declared longest name first (a missing sort shows) and also shortest first.
fn exhaustive(size: usize, pool: usize, scope: Scope, both_orders: bool, failing: &[String], emit: &mut dyn FnMut(String)) {
    let probes: Vec<(String, u8)> = EX_TARGETS.iter().flat_map(|t| (1u8..=5).map(move |l| (t.to_string(), l))).collect();
    let opts = logger_options(scope);
    let k = opts.len();
    for s in subsets(pool.min(POOL.len()), size) {
        let mut names: Vec<&str> = s.iter().map(|i| POOL[*i]).collect();
        names.sort_by_key(|x| std::cmp::Reverse(x.len()));
        for code in 0..k.pow(size as u32) {
            let mut loggers: Vec<LCfg> = names
                .iter()
                .enumerate()
                .map(|(i, name)| {
                    let o = &opts[(code / k.pow(i as u32)) % k];
                    LCfg { name: name.to_string(), level: o.0, additive: o.1, refs: o.2.clone() }
                })
                .collect();
            for order in 0..(if both_orders && size >= 2 { 2 } else { 1 }) {
                if order == 1 {
                    loggers.reverse();
                }
                let c = Cfg {
                    appenders: vec!["r".into(), "x".into(), "y".into()],
                    root_level: 3,
                    root_refs: vec!["r".into()],
                    loggers: loggers.clone(),
                };
                if failing.is_empty() {
                    emit_case(&c, &probes, emit);
                } else {
                    emit_case_f(&c, &probes, failing, emit);
                }
            }
        }
    }
}

pub fn gen(rng: &mut Rng, n: usize, thorough: bool, emit: &mut dyn FnMut(String)) {
    // exhaustive small-scope blocks
    exhaustive(0, 10, Scope::Wide, false, &[], emit);
    exhaustive(1, 10, Scope::Wide, false, &[], emit);
    if thorough {
        exhaustive(2, 10, Scope::Wide, true, &[], emit);
        exhaustive(3, 10, Scope::Narrow, false, &[], emit);
    } else {
        exhaustive(2, 7, Scope::Medium, true, &[], emit);
    }
    // small scope with a failing appender in front of / behind the healthy ones
    let fx = ["x".to_string()];
    let fry = ["r".to_string(), "y".to_string()];
    exhaustive(1, 10, Scope::Wide, false, &fx, emit);
    exhaustive(1, 10, Scope::Wide, false, &fry, emit);
    exhaustive(2, if thorough { 10 } else { 7 }, Scope::Narrow, false, &fx, emit);
    if thorough {
        exhaustive(2, 10, Scope::Medium, false, &fry, emit);
    }
    // random stream: each configuration in two declarations (as generated, and loggers / appender table shuffled)
    for i in 0..n {
        let (max_loggers, max_depth) = if thorough && i % 16 == 5 {
            (40, 10)
        } else if thorough && i % 4 == 0 {
            (12, 6)
        } else {
            (6, 4)
        };
        let c = rand_cfg(rng, max_loggers, max_depth);
        let targets = targets_for(rng, &c, if thorough { 26 } else { 16 });
        let mut probes: Vec<(String, u8)> = vec![];
        for t in &targets {
            for l in 1..=5u8 {
                probes.push((t.clone(), l));
            }
        }
        let d = shuffled(rng, &c);
        if i % 3 == 2 {
            // some appenders return Err: the others must still be called, the failures reported
            let mut failing: Vec<String> = c.appenders.iter().filter(|_| rng.chance(1, 2)).cloned().collect();
            if failing.is_empty() {
                failing.push(c.appenders[0].clone());
            }
            emit_twin(&c, &d, &probes, Some(&failing), emit);
        } else {
            emit_twin(&c, &d, &probes, None, emit);
        }
    }
    // System slice (harness/src/sys.rs): the whole pipeline with real file appenders, pattern encoders
    // and threshold filters over histories of records; cases whose first field is the literal `sys`
    crate::sys::gen(rng, if thorough { 3000 } else { 300 }, thorough, emit);
    // stage 2 (A): histories with runtime reconfigurations (`sys2`)
    crate::sys::gen2(rng, if thorough { 2000 } else { 200 }, thorough, emit);
}

// ------------------------------------------------------------------------------------------------
// execution on the real code
// ------------------------------------------------------------------------------------------------
pub fn exec(fields: &[&str]) -> String {
    if fields.first() == Some(&"sys") {
        return crate::sys::exec(fields);
    }
    if fields.first() == Some(&"sys2") {
        return crate::sys::exec2(fields);
    }
    if fields.len() != 5 && fields.len() != 6 && fields.len() != 10 {
        return "bad-case".to_owned();
    }
    let failing: Option<Vec<String>> = if fields.len() >= 6 && fields[5] != "-" {
        match dec_list(',', fields[5]).iter().map(|x| dec_str(x)).collect::<Option<Vec<String>>>() {
            Some(f) => Some(f),
            None => return "bad-case".to_owned(),
        }
    } else {
        None
    };
    let cfg = match Cfg::decode(&fields[..4]) {
        Some(c) => c,
        None => return "bad-case".to_owned(),
    };
    let mut probes: Vec<(String, u8)> = vec![];
    for p in dec_list(',', fields[4]) {
        let q: Vec<&str> = p.split(';').collect();
        if q.len() != 2 {
            return "bad-case".to_owned();
        }
        match (dec_str(q[0]), q[1].parse::<u8>()) {
            (Some(t), Ok(l)) if (1..=5).contains(&l) => probes.push((t, l)),
            _ => return "bad-case".to_owned(),
        }
    }
    let first = run_one(&cfg, &failing, &probes);
    if fields.len() == 10 {
        let twin = match Cfg::decode(&fields[6..10]) {
            Some(c) => c,
            None => return "bad-case".to_owned(),
        };
        return format!("{}#{}", first, run_one(&twin, &failing, &probes));
    }
    first
}

/// one `Logger` built from `cfg`, all probes logged through it in order
fn run_one(cfg: &Cfg, failing: &Option<Vec<String>>, probes: &[(String, u8)]) -> String {
    let sink = Arc::new(Mutex::new(Vec::<String>::new()));
    let errs = Arc::new(Mutex::new(Vec::<String>::new()));
    let config = match build_config_f(cfg, &sink, failing.as_deref().unwrap_or(&[])) {
        Ok(c) => c,
        Err(_) => return "INVALID".to_owned(),
    };
    let sink2 = sink.clone();
    let errs2 = errs.clone();
    let with_errs = failing.is_some();
    let r = guarded(std::panic::AssertUnwindSafe(move || {
        let logger = if with_errs {
            let e3 = errs2.clone();
            log4rs::Logger::new_with_err_handler(
                config,
                Box::new(move |e: &anyhow::Error| {
                    let m = e.to_string();
                    e3.lock().unwrap().push(dec_str(&m).unwrap_or(format!("?{}", m)));
                }),
            )
        } else {
            log4rs::Logger::new(config)
        };
        let mut out: Vec<String> = vec![];
        for (t, l) in probes {
            sink2.lock().unwrap().clear();
            errs2.lock().unwrap().clear();
            logger.log(&Record::builder().target(t).level(level_of(*l)).args(format_args!("x")).build());
            if with_errs {
                out.push(format!("{}!{}", render_names(&sink2.lock().unwrap()), render_names(&errs2.lock().unwrap())));
            } else {
                out.push(render_names(&sink2.lock().unwrap()));
            }
        }
        enc_list(",", &out)
    }));
    match r {
        Ok(s) => s,
        Err(_) => "PANIC".to_owned(),
    }
}

/// child-process entry point (unused by C01)
pub fn child(_args: &[String]) -> i32 {
    2
}
