//! C15 — runtime reconfiguration is atomic; the file reloader keeps the last good config.
//!
//! Real code driven here: `log4rs::Logger::new`, `Log::log`, `Handle::set_config` (through the
//! `verif_handle` hook, on a logger that is *not* installed globally) and the private
//! `ConfigReloader::run_once` (through `verif_hooks::VerifReloader`).
//!
//! Case kinds (first field), see `lean/Driver/C15.lean` for the encodings:
//!   swap    <cfgs> <scripts> <ops>
//!   stress  <cfgs> <nLog> <nReconf> <iters> <probes>
//!   reload  <docs> <init d:m:forget> <steps>
use crate::proto::*;
use crate::rng::Rng;
use log::Log;
use std::cell::RefCell;
use std::collections::BTreeSet;
use std::path::{Path, PathBuf};
use std::sync::atomic::{AtomicBool, AtomicUsize, Ordering};
use std::sync::{Arc, Mutex};
use std::time::{Duration, Instant, SystemTime};

// ---------------------------------------------------------------------------------------------
// configurations of the swap scenarios
// ---------------------------------------------------------------------------------------------
#[derive(Clone, Debug)]
struct MiniCfg {
    table: Vec<u64>,
    root_level: u64,
    root_apps: Vec<u64>,
    loggers: Vec<(u64, u64, Vec<u64>)>,
}

#[derive(Clone, Debug, PartialEq)]
enum Act {
    Log(u64, u64),
    Swap(usize),
}

fn dec_nats(sep: char, s: &str) -> Option<Vec<u64>> {
    dec_list(sep, s).iter().map(|x| x.parse().ok()).collect()
}

fn dec_cfg(s: &str) -> Option<MiniCfg> {
    let parts: Vec<&str> = s.split(';').collect();
    if parts.len() < 3 {
        return None;
    }
    let mut loggers = vec![];
    for l in &parts[3..] {
        let f: Vec<&str> = l.split(':').collect();
        if f.len() != 3 {
            return None;
        }
        loggers.push((f[0].parse().ok()?, f[1].parse().ok()?, dec_nats('+', f[2])?));
    }
    Some(MiniCfg {
        table: dec_nats(',', parts[0])?,
        root_level: parts[1].parse().ok()?,
        root_apps: dec_nats(',', parts[2])?,
        loggers,
    })
}

fn dec_cfgs(s: &str) -> Option<Vec<MiniCfg>> {
    s.split('|').map(dec_cfg).collect()
}

fn dec_act(s: &str) -> Option<Act> {
    if let Some(r) = s.strip_prefix('s') {
        return r.parse().ok().map(Act::Swap);
    }
    if let Some(r) = s.strip_prefix('l') {
        let f: Vec<&str> = r.split('.').collect();
        if f.len() == 2 {
            return Some(Act::Log(f[0].parse().ok()?, f[1].parse().ok()?));
        }
    }
    None
}

fn level_filter(n: u64) -> log::LevelFilter {
    match n {
        0 => log::LevelFilter::Off,
        1 => log::LevelFilter::Error,
        2 => log::LevelFilter::Warn,
        3 => log::LevelFilter::Info,
        4 => log::LevelFilter::Debug,
        _ => log::LevelFilter::Trace,
    }
}

fn level(n: u64) -> log::Level {
    match n {
        1 => log::Level::Error,
        2 => log::Level::Warn,
        3 => log::Level::Info,
        4 => log::Level::Debug,
        _ => log::Level::Trace,
    }
}

// ---------------------------------------------------------------------------------------------
// the observing side: everything is thread-local, so concurrent records never mix their captures
// ---------------------------------------------------------------------------------------------
thread_local! {
    static TRACE: RefCell<Vec<String>> = RefCell::new(Vec::new());
    static STACK: RefCell<Vec<usize>> = RefCell::new(Vec::new());   // record ids being processed
    static NEXT_TID: RefCell<usize> = RefCell::new(0);
    static RTAGS: RefCell<Vec<(u64, usize)>> = RefCell::new(Vec::new());
}

fn trace_push(s: String) {
    TRACE.with(|t| t.borrow_mut().push(s));
}

struct Ctx {
    cfgs: Vec<MiniCfg>,
    scripts: Vec<(usize, u64, Vec<Act>)>,
    logger: Mutex<Option<Arc<log4rs::Logger>>>,
    handle: Mutex<Option<log4rs::Handle>>,
}

impl Ctx {
    fn logger(&self) -> Arc<log4rs::Logger> {
        self.logger.lock().unwrap().as_ref().unwrap().clone()
    }
    fn handle(&self) -> log4rs::Handle {
        self.handle.lock().unwrap().as_ref().unwrap().clone()
    }
}

/// a capturing appender that knows which configuration it was built for
struct Tagged {
    tag: usize,
    name: u64,
    ctx: Arc<Ctx>,
}

impl std::fmt::Debug for Tagged {
    fn fmt(&self, f: &mut std::fmt::Formatter<'_>) -> std::fmt::Result {
        write!(f, "Tagged({}:{})", self.tag, self.name)
    }
}

impl log4rs::append::Append for Tagged {
    fn append(&self, _record: &log::Record) -> anyhow::Result<()> {
        let (tid, depth) = STACK.with(|s| {
            let s = s.borrow();
            (s.last().copied().unwrap_or(0), s.len())
        });
        trace_push(format!("D:{}:{}:{}", tid, self.tag, self.name));
        if depth == 1 {
            // scripts fire for top-level records only
            let acts: Vec<Act> = self
                .ctx
                .scripts
                .iter()
                .find(|(c, a, _)| *c == self.tag && *a == self.name)
                .map(|e| e.2.clone())
                .unwrap_or_default();
            for a in acts {
                perform(&self.ctx, &a);
            }
        }
        if self.name % 10 == 9 {
            // an appender that fails: `ConfiguredLogger::log` collects the error, the fan-out goes
            // on, and the error loop of `Logger::log` runs with the handler of the loaded snapshot
            return Err(anyhow::anyhow!("appender a{} of configuration {} fails", self.name, self.tag));
        }
        Ok(())
    }
    fn flush(&self) {}
}

fn build_config(ctx: &Arc<Ctx>, k: usize) -> log4rs::Config {
    let c = &ctx.cfgs[k];
    let mut b = log4rs::Config::builder();
    for name in &c.table {
        b = b.appender(log4rs::config::Appender::builder().build(
            format!("a{}", name),
            Box::new(Tagged { tag: k, name: *name, ctx: ctx.clone() }),
        ));
    }
    for (t, lv, apps) in &c.loggers {
        b = b.logger(
            log4rs::config::Logger::builder()
                .appenders(apps.iter().map(|a| format!("a{}", a)))
                .additive(false)
                .build(format!("t{}", t), level_filter(*lv)),
        );
    }
    b.build(
        log4rs::config::Root::builder()
            .appenders(c.root_apps.iter().map(|a| format!("a{}", a)))
            .build(level_filter(c.root_level)),
    )
    .expect("generated configurations are valid")
}

fn do_log(logger: &log4rs::Logger, t: u64, l: u64) {
    let tid = NEXT_TID.with(|n| {
        let mut n = n.borrow_mut();
        let v = *n;
        *n += 1;
        v
    });
    trace_push(format!("B:{}:{}:{}", tid, t, l));
    STACK.with(|s| s.borrow_mut().push(tid));
    let target = format!("t{}", t);
    logger.log(&log::Record::builder().target(&target).level(level(l)).args(format_args!("probe")).build());
    STACK.with(|s| s.borrow_mut().pop());
    trace_push(format!("E:{}", tid));
}

fn perform(ctx: &Arc<Ctx>, a: &Act) {
    match a {
        Act::Log(t, l) => {
            let logger = ctx.logger();
            do_log(&logger, *t, *l);
        }
        Act::Swap(k) => {
            let cfg = build_config(ctx, *k);
            ctx.handle().set_config(cfg);
            // set_config has returned
            trace_push(format!("S:{}", k));
        }
    }
}

fn reset_thread_state() {
    TRACE.with(|t| t.borrow_mut().clear());
    STACK.with(|s| s.borrow_mut().clear());
    NEXT_TID.with(|n| *n.borrow_mut() = 0);
}

fn new_ctx(cfgs: Vec<MiniCfg>, scripts: Vec<(usize, u64, Vec<Act>)>) -> Arc<Ctx> {
    let ctx = Arc::new(Ctx { cfgs, scripts, logger: Mutex::new(None), handle: Mutex::new(None) });
    let logger = Arc::new(log4rs::Logger::new(build_config(&ctx, 0)));
    *ctx.handle.lock().unwrap() = Some(logger.verif_handle());
    *ctx.logger.lock().unwrap() = Some(logger);
    ctx
}

fn drop_ctx(ctx: &Arc<Ctx>) {
    // break the Logger -> appender -> Ctx -> Logger cycle
    *ctx.handle.lock().unwrap() = None;
    *ctx.logger.lock().unwrap() = None;
}

fn exec_swap(cfgs: &str, scripts: &str, ops: &str) -> String {
    let cfgs = match dec_cfgs(cfgs) {
        Some(c) if !c.is_empty() => c,
        _ => return "bad-case".to_owned(),
    };
    let mut sc = vec![];
    for e in dec_list(';', scripts) {
        let f: Vec<&str> = e.split(':').collect();
        if f.len() != 3 {
            return "bad-case".to_owned();
        }
        let acts: Option<Vec<Act>> = dec_list(',', f[2]).iter().map(|a| dec_act(a)).collect();
        match (f[0].parse::<usize>(), f[1].parse::<u64>(), acts) {
            (Ok(c), Ok(a), Some(acts)) => sc.push((c, a, acts)),
            _ => return "bad-case".to_owned(),
        }
    }
    let ops: Vec<Act> = match dec_list(',', ops).iter().map(|a| dec_act(a)).collect() {
        Some(o) => o,
        None => return "bad-case".to_owned(),
    };
    reset_thread_state();
    let r = guarded(move || {
        let ctx = new_ctx(cfgs, sc);
        let res = std::panic::catch_unwind(std::panic::AssertUnwindSafe(|| {
            for op in &ops {
                perform(&ctx, op);
            }
        }));
        drop_ctx(&ctx);
        res.is_ok()
    });
    match r {
        Ok(true) => {
            let items = TRACE.with(|t| t.borrow().clone());
            enc_list(",", &items)
        }
        _ => "PANIC".to_owned(),
    }
}

// ---------------------------------------------------------------------------------------------
// multi-thread stress
// ---------------------------------------------------------------------------------------------
fn render_deliveries(items: &[String]) -> String {
    // items are "D:tid:tag:name"
    let ds: Vec<String> = items
        .iter()
        .filter(|s| s.starts_with("D:"))
        .map(|s| {
            let f: Vec<&str> = s.split(':').collect();
            format!("{}:{}", f[2], f[3])
        })
        .collect();
    if ds.is_empty() {
        "_".to_owned()
    } else {
        ds.join("+")
    }
}

/// log one probe on this thread and return the deliveries it produced
fn probe(logger: &log4rs::Logger, t: u64, l: u64) -> String {
    reset_thread_state();
    do_log(logger, t, l);
    let items = TRACE.with(|t| t.borrow().clone());
    render_deliveries(&items)
}

fn exec_stress(cfgs: &str, n_log: &str, n_rec: &str, iters: &str, probes: &str) -> String {
    let cfgs = match dec_cfgs(cfgs) {
        Some(c) if !c.is_empty() => c,
        _ => return "bad-case".to_owned(),
    };
    let (n_log, n_rec, iters) = match (n_log.parse::<usize>(), n_rec.parse::<usize>(), iters.parse::<usize>()) {
        (Ok(a), Ok(b), Ok(c)) if a > 0 && b > 0 => (a, b, c),
        _ => return "bad-case".to_owned(),
    };
    let probes: Vec<(u64, u64)> = match dec_list(',', probes)
        .iter()
        .map(|p| {
            let f: Vec<&str> = p.split('.').collect();
            if f.len() == 2 {
                Some((f[0].parse().ok()?, f[1].parse().ok()?))
            } else {
                None
            }
        })
        .collect()
    {
        Some(p) => p,
        None => return "bad-case".to_owned(),
    };
    let ncfg = cfgs.len();
    let r = guarded(move || {
        // sequential reference runs, one fresh logger per configuration: used only as the loggers'
        // stop criterion ("every configuration has been witnessed for every probe")
        let mut need: Vec<BTreeSet<String>> = vec![BTreeSet::new(); probes.len()];
        for k in 0..ncfg {
            let ctx = new_ctx(cfgs.clone(), vec![]);
            ctx.handle().set_config(build_config(&ctx, k));
            let logger = ctx.logger();
            for (i, (t, l)) in probes.iter().enumerate() {
                need[i].insert(probe(&logger, *t, *l));
            }
            drop_ctx(&ctx);
        }
        let ctx = new_ctx(cfgs.clone(), vec![]);
        let logger = ctx.logger();
        let stop = Arc::new(AtomicBool::new(false));
        let satisfied = Arc::new(AtomicUsize::new(0));
        let panics = Arc::new(AtomicUsize::new(0));
        let deadline = Instant::now() + Duration::from_secs(20);
        let mut log_threads = vec![];
        for li in 0..n_log {
            let (logger, stop, satisfied, panics) = (logger.clone(), stop.clone(), satisfied.clone(), panics.clone());
            let (probes, need) = (probes.clone(), need.clone());
            log_threads.push(std::thread::spawn(move || {
                let mut seen: Vec<BTreeSet<String>> = vec![BTreeSet::new(); probes.len()];
                let mut told = false;
                let mut i = li;
                while !stop.load(Ordering::Relaxed) {
                    let pi = i % probes.len();
                    i += 1;
                    let (t, l) = probes[pi];
                    match std::panic::catch_unwind(std::panic::AssertUnwindSafe(|| probe(&logger, t, l))) {
                        Ok(d) => {
                            seen[pi].insert(d);
                        }
                        Err(_) => {
                            panics.fetch_add(1, Ordering::Relaxed);
                        }
                    }
                    if !told && i % 64 == 0 && (0..probes.len()).all(|p| need[p].is_subset(&seen[p])) {
                        told = true;
                        satisfied.fetch_add(1, Ordering::Relaxed);
                    }
                }
                seen
            }));
        }
        let mut rec_threads = vec![];
        for ri in 0..n_rec {
            let (ctx, logger, satisfied, panics) = (ctx.clone(), logger.clone(), satisfied.clone(), panics.clone());
            let probes = probes.clone();
            rec_threads.push(std::thread::spawn(move || {
                let mut after: BTreeSet<String> = BTreeSet::new();
                let mut k = ri % ncfg;
                let mut done = 0usize;
                loop {
                    k = (k + 1) % ncfg;
                    let r = std::panic::catch_unwind(std::panic::AssertUnwindSafe(|| {
                        ctx.handle().set_config(build_config(&ctx, k));
                    }));
                    if r.is_err() {
                        panics.fetch_add(1, Ordering::Relaxed);
                    }
                    if n_rec == 1 {
                        // the only reconfigurer: what it logs now must be routed under `k`
                        for (t, l) in probes.iter() {
                            after.insert(format!("{}>{}.{}>{}", k, t, l, probe(&logger, *t, *l)));
                        }
                    } else if done % 7 == 0 {
                        std::thread::yield_now();
                    }
                    done += 1;
                    if done >= iters.max(ncfg) && (satisfied.load(Ordering::Relaxed) >= n_log || Instant::now() > deadline) {
                        break;
                    }
                }
                after
            }));
        }
        let mut after_all: BTreeSet<String> = BTreeSet::new();
        for t in rec_threads {
            match t.join() {
                Ok(a) => after_all.extend(a),
                Err(_) => {
                    panics.fetch_add(1, Ordering::Relaxed);
                }
            }
        }
        stop.store(true, Ordering::Relaxed);
        let mut seen_all: Vec<BTreeSet<String>> = vec![BTreeSet::new(); probes.len()];
        for t in log_threads {
            match t.join() {
                Ok(seen) => {
                    for (i, s) in seen.into_iter().enumerate() {
                        seen_all[i].extend(s);
                    }
                }
                Err(_) => {
                    panics.fetch_add(1, Ordering::Relaxed);
                }
            }
        }
        drop_ctx(&ctx);
        let mut parts = vec![];
        for (i, (t, l)) in probes.iter().enumerate() {
            parts.push(format!("{}.{}={}", t, l, seen_all[i].iter().cloned().collect::<Vec<_>>().join("/")));
        }
        if n_rec == 1 {
            parts.push(format!("after={}", after_all.iter().cloned().collect::<Vec<_>>().join("/")));
        } else {
            parts.push("after=-".to_owned());
        }
        parts.push(format!("panics={}", panics.load(Ordering::Relaxed)));
        parts.join(";")
    });
    r.unwrap_or_else(|_| "PANIC".to_owned())
}

// ---------------------------------------------------------------------------------------------
// the file reloader
// ---------------------------------------------------------------------------------------------
#[derive(Clone, Debug)]
struct Doc {
    kind: char,
    tag: u64,
    rate: Option<u64>,
    nonce: u64,
}

fn dec_doc(s: &str) -> Option<Doc> {
    let f: Vec<&str> = s.split(':').collect();
    if f.len() != 4 || f[0].len() != 1 || !"glycr".contains(f[0]) {
        return None;
    }
    Some(Doc {
        kind: f[0].chars().next()?,
        tag: f[1].parse().ok()?,
        rate: if f[2] == "-" { None } else { Some(f[2].parse().ok()?) },
        nonce: f[3].parse().ok()?,
    })
}

/// injective in (kind, tag, rate, nonce): the first line spells all four out
fn render_doc(d: &Doc) -> String {
    render_doc_unit(d, " seconds")
}

/// the same document as JSON (no comments: the nonce is the number of trailing newlines) or TOML;
/// injective in (kind, tag, rate, nonce) like the YAML rendering
fn render_doc_fmt(d: &Doc, fmt: char) -> String {
    match fmt {
        'j' => {
            if d.kind == 'y' {
                return format!("{{\"appenders\": [unclosed {} {:?} {}", d.tag, d.rate, d.nonce);
            }
            let mut parts = vec![];
            if d.kind == 'r' {
                // (the descriptor's own rate is spelled into the junk so that the rendering stays injective)
                parts.push(format!("\"refresh_rate\": \"banana {:?}\"", d.rate).replace("Some(", "").replace(')', ""));
            } else if let Some(r) = d.rate {
                parts.push(format!("\"refresh_rate\": \"{} seconds\"", r));
            }
            if d.kind == 'c' {
                parts.push("\"bogus_top_level_key\": 1".to_owned());
            }
            let broken = if d.kind == 'l' { ", \"broken\": {\"kind\": \"no_such_kind\"}" } else { "" };
            parts.push(format!("\"appenders\": {{\"t\": {{\"kind\": \"tagged\", \"tag\": {}}}{}}}", d.tag, broken));
            let apps = if d.kind == 'l' { "[\"t\", \"broken\"]" } else { "[\"t\"]" };
            parts.push(format!("\"root\": {{\"level\": \"info\", \"appenders\": {}}}", apps));
            format!("{{{}}}{}", parts.join(", "), "\n".repeat(1 + d.nonce as usize))
        }
        't' => {
            let mut s = format!("# kind={} tag={} rate={:?} nonce={}\n", d.kind, d.tag, d.rate, d.nonce);
            if d.kind == 'y' {
                s.push_str("[[[ not toml = = =\n");
                return s;
            }
            if d.kind == 'r' {
                s.push_str("refresh_rate = \"banana\"\n");
            } else if let Some(r) = d.rate {
                s.push_str(&format!("refresh_rate = \"{} seconds\"\n", r));
            }
            if d.kind == 'c' {
                s.push_str("bogus_top_level_key = 1\n");
            }
            s.push_str(&format!("[appenders.t]\nkind = \"tagged\"\ntag = {}\n", d.tag));
            if d.kind == 'l' {
                s.push_str("[appenders.broken]\nkind = \"no_such_kind\"\n");
                s.push_str("[root]\nlevel = \"info\"\nappenders = [\"t\", \"broken\"]\n");
            } else {
                s.push_str("[root]\nlevel = \"info\"\nappenders = [\"t\"]\n");
            }
            s
        }
        _ => render_doc(d),
    }
}

/// `unit`: " seconds" for the stepped reloader, "ms" for the real reloader thread
fn render_doc_unit(d: &Doc, unit: &str) -> String {
    let mut s = format!("# kind={} tag={} rate={:?} nonce={}\n", d.kind, d.tag, d.rate, d.nonce);
    if d.kind == 'y' {
        s.push_str("appenders: [unclosed\n  {{{ : : not yaml\n");
        return s;
    }
    if d.kind == 'r' {
        s.push_str("refresh_rate: banana\n");
    } else if let Some(r) = d.rate {
        s.push_str(&format!("refresh_rate: {}{}\n", r, unit));
    }
    if d.kind == 'c' {
        s.push_str("bogus_top_level_key: 1\n");
    }
    s.push_str(&format!("appenders:\n  t:\n    kind: tagged\n    tag: {}\n", d.tag));
    if d.kind == 'l' {
        s.push_str("  broken:\n    kind: no_such_kind\n");
        s.push_str("root:\n  level: info\n  appenders:\n    - t\n    - broken\n");
    } else {
        s.push_str("root:\n  level: info\n  appenders:\n    - t\n");
    }
    s
}

/// (tag from the file, serial number of this appender object: a new serial = a new configuration
/// object is active, i.e. `set_config` has been called)
#[derive(Debug)]
struct RTagged(u64, usize);

impl log4rs::append::Append for RTagged {
    fn append(&self, _record: &log::Record) -> anyhow::Result<()> {
        RTAGS.with(|t| t.borrow_mut().push((self.0, self.1)));
        Ok(())
    }
    fn flush(&self) {}
}

#[derive(serde::Deserialize)]
struct RTaggedConfig {
    tag: u64,
}

struct RTaggedDeserializer(Arc<AtomicUsize>);

impl log4rs::config::Deserialize for RTaggedDeserializer {
    type Trait = dyn log4rs::append::Append;
    type Config = RTaggedConfig;
    fn deserialize(
        &self,
        config: RTaggedConfig,
        _: &log4rs::config::Deserializers,
    ) -> anyhow::Result<Box<dyn log4rs::append::Append>> {
        Ok(Box::new(RTagged(config.tag, self.0.fetch_add(1, Ordering::Relaxed))))
    }
}

static SCRATCH_COUNTER: AtomicUsize = AtomicUsize::new(0);

fn scratch_dir() -> PathBuf {
    let base = std::env::var("VERIF_SCRATCH").unwrap_or_else(|_| "/tmp/verif_scratch".to_owned());
    let d = Path::new(&base).join(format!("c15_{}_{}", std::process::id(), SCRATCH_COUNTER.fetch_add(1, Ordering::Relaxed)));
    std::fs::create_dir_all(&d).unwrap();
    d
}

fn mtime_of(m: u64) -> SystemTime {
    SystemTime::UNIX_EPOCH + Duration::from_secs(1_600_000_000 + m)
}

fn clear_path(p: &Path) {
    if let Ok(md) = std::fs::symlink_metadata(p) {
        if md.is_dir() {
            let _ = std::fs::remove_dir_all(p);
        } else {
            let _ = std::fs::remove_file(p);
        }
    }
}

fn put_file(p: &Path, bytes: &[u8], m: u64) {
    clear_path(p);
    std::fs::write(p, bytes).unwrap();
    let f = std::fs::OpenOptions::new().write(true).open(p).unwrap();
    f.set_modified(mtime_of(m)).unwrap();
}

fn put_dir(p: &Path, m: u64) {
    clear_path(p);
    std::fs::create_dir(p).unwrap();
    let f = std::fs::File::open(p).unwrap();
    f.set_modified(mtime_of(m)).unwrap();
}

/// (rendered tags of the active configuration, serials of its appender objects)
fn active_tag(logger: &log4rs::Logger) -> (String, Vec<usize>) {
    RTAGS.with(|t| t.borrow_mut().clear());
    logger.log(&log::Record::builder().target("probe").level(log::Level::Error).args(format_args!("p")).build());
    let mut tags = RTAGS.with(|t| t.borrow().clone());
    tags.sort();
    let serials = tags.iter().map(|t| t.1).collect();
    if tags.is_empty() {
        ("none".to_owned(), serials)
    } else {
        (tags.iter().map(|t| t.0.to_string()).collect::<Vec<_>>().join("+"), serials)
    }
}

/// How the configuration path handed to log4rs reaches the file. Edits always go to the file the
/// path RESOLVES to; the model's FileView is that file (metadata follows links).
///   f  plain file                       <dir>/log4rs.yaml
///   l  the path is a symlink            <dir>/log4rs.yaml -> real_<n>.yaml
///   d  a directory component is a link  <dir>/cfg -> data_<n>/ ; path = <dir>/cfg/log4rs.yaml
struct Layout {
    kind: char,
    dir: PathBuf,
    gen: usize,
    atomic: bool, // replace by rename (a concurrently polling thread never sees a half-written file)
}

impl Layout {
    fn new(dir: &Path, kind: char, atomic: bool) -> Option<Layout> {
        if !"fldjt".contains(kind) {
            return None;
        }
        let l = Layout { kind, dir: dir.to_path_buf(), gen: 0, atomic };
        match kind {
            'l' => std::os::unix::fs::symlink("real_0.yaml", l.path()).ok()?,
            'd' => {
                std::fs::create_dir(dir.join("data_0")).ok()?;
                std::os::unix::fs::symlink("data_0", dir.join("cfg")).ok()?;
            }
            _ => {}
        }
        Some(l)
    }
    /// the path given to init_file / VerifReloader::new
    fn path(&self) -> PathBuf {
        match self.kind {
            'd' => self.dir.join("cfg").join("log4rs.yaml"),
            'j' => self.dir.join("log4rs.json"),
            't' => self.dir.join("log4rs.toml"),
            _ => self.dir.join("log4rs.yaml"),
        }
    }
    /// the file the path currently resolves to
    fn target(&self) -> PathBuf {
        self.target_of(self.gen)
    }
    fn target_of(&self, gen: usize) -> PathBuf {
        match self.kind {
            'l' => self.dir.join(format!("real_{}.yaml", gen)),
            'd' => self.dir.join(format!("data_{}", gen)).join("log4rs.yaml"),
            'j' => self.dir.join("log4rs.json"),
            't' => self.dir.join("log4rs.toml"),
            _ => self.dir.join("log4rs.yaml"),
        }
    }
    fn put_at(&self, p: &Path, bytes: &[u8], m: u64) {
        if self.atomic {
            put_file_atomic(p, bytes, m)
        } else {
            put_file(p, bytes, m)
        }
    }
    fn put(&self, bytes: &[u8], m: u64) {
        self.put_at(&self.target(), bytes, m)
    }
    fn clear(&self) {
        clear_path(&self.target())
    }
    fn put_dir(&self, m: u64) {
        put_dir(&self.target(), m)
    }
    /// the path is made to denote ANOTHER file (new content, new mtime): for the link kinds the
    /// link is re-pointed atomically (ConfigMap / `current -> releases/N` style), the final link
    /// of kind `l` resp. the directory link of kind `d` being replaced by rename
    fn repoint(&mut self, bytes: &[u8], m: u64) {
        match self.kind {
            'l' => {
                let new = self.target_of(self.gen + 1);
                self.put_at(&new, bytes, m);
                let tmp = self.dir.join("link.tmp");
                let _ = std::fs::remove_file(&tmp);
                std::os::unix::fs::symlink(format!("real_{}.yaml", self.gen + 1), &tmp).unwrap();
                std::fs::rename(&tmp, self.path()).unwrap();
                clear_path(&self.target());
                self.gen += 1;
            }
            'd' => {
                let newdir = self.dir.join(format!("data_{}", self.gen + 1));
                std::fs::create_dir(&newdir).unwrap();
                self.put_at(&newdir.join("log4rs.yaml"), bytes, m);
                let tmp = self.dir.join("link.tmp");
                let _ = std::fs::remove_file(&tmp);
                std::os::unix::fs::symlink(format!("data_{}", self.gen + 1), &tmp).unwrap();
                std::fs::rename(&tmp, self.dir.join("cfg")).unwrap();
                let _ = std::fs::remove_dir_all(self.dir.join(format!("data_{}", self.gen)));
                self.gen += 1;
            }
            _ => self.put(bytes, m),
        }
    }
}

fn exec_reload(docs: &str, init: &str, steps: &str) -> String {
    let docs: Vec<Doc> = match dec_list(';', docs).iter().map(|d| dec_doc(d)).collect() {
        Some(d) => d,
        None => return "bad-case".to_owned(),
    };
    let f: Vec<&str> = init.split(':').collect();
    if f.len() < 3 || f.len() > 5 {
        return "bad-case".to_owned();
    }
    // optional 5th component `e<doc>.<mtime>`: an edit that lands while the reloader is being
    // initialised, between its two looks at the file (hook point "init_file:between-read-and-stat")
    let init_edit: Option<(usize, u64)> = match f.get(4) {
        None => None,
        Some(e) => match e.strip_prefix('e').and_then(|r| r.split_once('.')) {
            Some((d, m)) => match (d.parse::<usize>(), m.parse::<u64>()) {
                (Ok(d), Ok(m)) if d < docs.len() => Some((d, m)),
                _ => return "bad-case".to_owned(),
            },
            None => return "bad-case".to_owned(),
        },
    };
    // optional 4th component: path kind (default: plain file)
    let pk = match f.get(3) {
        None => 'f',
        Some(k) if k.len() == 1 && "fldjt".contains(*k) => k.chars().next().unwrap(),
        _ => return "bad-case".to_owned(),
    };
    let (d0, m0, forget) = match (f[0].parse::<usize>(), f[1].parse::<u64>(), f[2]) {
        (Ok(d), Ok(m), "0") if d < docs.len() => (d, m, false),
        (Ok(d), Ok(m), "1") if d < docs.len() => (d, m, true),
        _ => return "bad-case".to_owned(),
    };
    enum Step {
        Write(usize, u64),
        Repoint(usize, u64),
        Missing,
        Dir(u64),
        NotUtf8(u64),
    }
    let mut sts = vec![];
    for s in dec_list(',', steps) {
        let f: Vec<&str> = s.split(':').collect();
        let st = match f.as_slice() {
            ["w", d, m] => match (d.parse::<usize>(), m.parse::<u64>()) {
                (Ok(d), Ok(m)) if d < docs.len() => Step::Write(d, m),
                _ => return "bad-case".to_owned(),
            },
            ["p", d, m] => match (d.parse::<usize>(), m.parse::<u64>()) {
                (Ok(d), Ok(m)) if d < docs.len() => Step::Repoint(d, m),
                _ => return "bad-case".to_owned(),
            },
            ["x"] => Step::Missing,
            ["d", m] => match m.parse() {
                Ok(m) => Step::Dir(m),
                _ => return "bad-case".to_owned(),
            },
            ["u", m] => match m.parse() {
                Ok(m) => Step::NotUtf8(m),
                _ => return "bad-case".to_owned(),
            },
            _ => return "bad-case".to_owned(),
        };
        sts.push(st);
    }
    let dir = scratch_dir();
    let dir2 = dir.clone();
    let r = guarded(move || {
        let mut lay = match Layout::new(&dir2, pk, false) {
            Some(l) => l,
            None => return "bad-case".to_owned(),
        };
        let path = lay.path();
        lay.put(render_doc_fmt(&docs[d0], pk).as_bytes(), m0);
        let mut des = log4rs::config::Deserializers::default();
        des.insert("tagged", RTaggedDeserializer(Arc::new(AtomicUsize::new(0))));
        // the logger starts with an empty configuration; `init_file` would create it from the
        // file's configuration, which is what the set_config below does
        let empty = log4rs::Config::builder()
            .build(log4rs::config::Root::builder().build(log::LevelFilter::Off))
            .unwrap();
        let logger = log4rs::Logger::new(empty);
        let handle = logger.verif_handle();
        if let Some((d, m)) = init_edit {
            let bytes = render_doc_fmt(&docs[d], pk).into_bytes();
            let target = lay.target();
            log4rs::verif_hooks::set_critical_section_point(Some(Arc::new(move |tag: &str| {
                if tag.starts_with("init_file:") {
                    put_file(&target, &bytes, m);
                }
            })));
        }
        let made = log4rs::verif_hooks::VerifReloader::new(&path, des, handle.clone());
        if init_edit.is_some() {
            log4rs::verif_hooks::set_critical_section_point(None);
        }
        let (config, rate0, mut rel) = match made {
            Ok(x) => x,
            Err(_) => return "init-err".to_owned(),
        };
        handle.set_config(config);
        if forget {
            rel.forget_mtime();
        }
        // mirror of `ConfigReloader::run` (without the sleep)
        let mut alive = rate0.is_some();
        let mut rate = rate0.unwrap_or(Duration::from_secs(0));
        let (tag0, mut serials) = active_tag(&logger);
        let mut out = vec![format!("init:{}:{}:{}", tag0, rate.as_secs(), enc_bool(alive))];
        for st in &sts {
            match st {
                Step::Write(d, m) => lay.put(render_doc_fmt(&docs[*d], pk).as_bytes(), *m),
                Step::Repoint(d, m) => lay.repoint(render_doc_fmt(&docs[*d], pk).as_bytes(), *m),
                Step::Missing => lay.clear(),
                Step::Dir(m) => lay.put_dir(*m),
                Step::NotUtf8(m) => lay.put(&[0x61, 0xff, 0xfe, 0x0a], *m),
            }
            // `run_once` does not say whether it called set_config; the logger does: a new
            // configuration has new appender objects (new serial numbers)
            let res = if !alive {
                "dead"
            } else {
                match rel.step(rate) {
                    Ok(Some(r)) => {
                        rate = r;
                        "ok"
                    }
                    Ok(None) => {
                        alive = false;
                        "ok"
                    }
                    Err(_) => "error",
                }
            };
            let (tag, now) = active_tag(&logger);
            let touched = now != serials;
            serials = now;
            let action = match (res, touched) {
                ("dead", false) => "dead",
                ("ok", true) => "applied",
                ("ok", false) => "unchanged",
                ("error", false) => "error",
                ("error", true) => "error-but-touched",
                _ => "dead-but-touched",
            };
            out.push(format!("{}:{}:{}:{}", action, tag, rate.as_secs(), enc_bool(alive)));
        }
        out.join(",")
    });
    let _ = std::fs::remove_dir_all(&dir);
    r.unwrap_or_else(|_| "PANIC".to_owned())
}

pub fn exec(fields: &[&str]) -> String {
    match fields {
        ["swap", cfgs, scripts, ops] => exec_swap(cfgs, scripts, ops),
        ["stress", cfgs, n_log, n_rec, iters, probes] => exec_stress(cfgs, n_log, n_rec, iters, probes),
        ["reload", docs, init, steps] => exec_reload(docs, init, steps),
        ["thread", docs, hists] => exec_thread(docs, hists),
        ["race", cfgs, sched, probes] => exec_race(cfgs, sched, probes),
        _ => "bad-case".to_owned(),
    }
}

// ---------------------------------------------------------------------------------------------
// generators
// ---------------------------------------------------------------------------------------------
fn enc_nats(sep: &str, xs: &[u64]) -> String {
    enc_list(sep, &xs.iter().map(|x| x.to_string()).collect::<Vec<_>>())
}

fn enc_cfg(c: &MiniCfg) -> String {
    let mut parts = vec![enc_nats(",", &c.table), c.root_level.to_string(), enc_nats(",", &c.root_apps)];
    for (t, lv, apps) in &c.loggers {
        parts.push(format!("{}:{}:{}", t, lv, enc_nats("+", apps)));
    }
    parts.join(";")
}

fn enc_act(a: &Act) -> String {
    match a {
        Act::Log(t, l) => format!("l{}.{}", t, l),
        Act::Swap(k) => format!("s{}", k),
    }
}

fn enc_acts(a: &[Act]) -> String {
    enc_list(",", &a.iter().map(enc_act).collect::<Vec<_>>())
}

fn swap_case(cfgs: &[MiniCfg], scripts: &[(usize, u64, Vec<Act>)], ops: &[Act]) -> String {
    let sc: Vec<String> = scripts.iter().map(|(c, a, acts)| format!("{}:{}:{}", c, a, enc_acts(acts))).collect();
    format!(
        "swap\t{}\t{}\t{}",
        cfgs.iter().map(enc_cfg).collect::<Vec<_>>().join("|"),
        enc_list(";", &sc),
        enc_acts(ops)
    )
}

fn family() -> Vec<MiniCfg> {
    vec![
        MiniCfg { table: vec![10, 11, 12], root_level: 5, root_apps: vec![10, 11, 12], loggers: vec![(7, 3, vec![12, 10])] },
        MiniCfg { table: vec![20], root_level: 5, root_apps: vec![20], loggers: vec![] },
        MiniCfg { table: vec![30, 31, 32, 33, 34], root_level: 4, root_apps: vec![34, 30], loggers: vec![(7, 5, vec![31, 32, 33, 31])] },
        MiniCfg { table: vec![], root_level: 5, root_apps: vec![], loggers: vec![] },
    ]
}

fn random_cfg(rng: &mut Rng, k: usize) -> MiniCfg {
    let size = rng.below(6) as usize;
    let mut table: Vec<u64> = (0..size as u64).map(|i| (k as u64 + 1) * 10 + i).collect();
    rng.shuffle(&mut table);
    let pick_apps = |rng: &mut Rng| -> Vec<u64> {
        if table.is_empty() {
            return vec![];
        }
        let n = rng.below(5) as usize;
        (0..n).map(|_| *rng.pick(&table)).collect()
    };
    let root_apps = pick_apps(rng);
    let root_level = if rng.chance(3, 4) { 5 } else { rng.below(6) };
    let mut targets = vec![1u64, 2, 7];
    rng.shuffle(&mut targets);
    let nl = rng.below(3) as usize;
    let loggers = targets[..nl]
        .iter()
        .map(|t| (*t, if rng.chance(2, 3) { 5 } else { rng.below(6) }, pick_apps(rng)))
        .collect();
    MiniCfg { table, root_level, root_apps, loggers }
}

fn random_act(rng: &mut Rng, ncfg: usize, swap_num: u64, swap_den: u64) -> Act {
    if rng.chance(swap_num, swap_den) {
        Act::Swap(rng.below(ncfg as u64) as usize)
    } else {
        Act::Log(*rng.pick(&[0u64, 1, 2, 7]), rng.range(1, 5))
    }
}

fn gen_swap_deterministic(emit: &mut dyn FnMut(String)) {
    let fam = family();
    // every position of the fan-out of (target 0) under cfg 0, every destination configuration
    for (pos, app) in [10u64, 11, 12].iter().enumerate() {
        for k in 1..4usize {
            emit(swap_case(&fam, &[(0, *app, vec![Act::Swap(k)])], &[Act::Log(0, 3), Act::Log(0, 3)]));
            emit(swap_case(&fam, &[(0, *app, vec![Act::Swap(k), Act::Log(0, 3), Act::Log(7, 2)])], &[Act::Log(0, 3), Act::Log(7, 4)]));
            // several swaps inside one record: A -> k -> (k+1) at a later position, and back-to-back
            for (pos2, app2) in [10u64, 11, 12].iter().enumerate() {
                if pos2 > pos {
                    let k2 = k % 3 + 1;
                    emit(swap_case(
                        &fam,
                        &[(0, *app, vec![Act::Swap(k)]), (0, *app2, vec![Act::Swap(k2), Act::Log(0, 1)])],
                        &[Act::Log(0, 3), Act::Log(0, 3)],
                    ));
                }
            }
            emit(swap_case(&fam, &[(0, *app, vec![Act::Swap(k), Act::Swap(k % 3 + 1), Act::Log(7, 1)])], &[Act::Log(0, 3), Act::Log(7, 1)]));
            emit(swap_case(&fam, &[(0, *app, vec![Act::Swap(k), Act::Swap(0)])], &[Act::Log(0, 3), Act::Log(0, 3)]));
        }
    }
    // the logger-specific route (t7: [12, 10]) and the level gate
    for app in [12u64, 10] {
        emit(swap_case(&fam, &[(0, app, vec![Act::Swap(2), Act::Log(7, 5)])], &[Act::Log(7, 3), Act::Log(7, 5), Act::Log(7, 4)]));
    }
    // chains: the new configuration's appender swaps again on the next record
    emit(swap_case(
        &fam,
        &[(0, 11, vec![Act::Swap(1)]), (1, 20, vec![Act::Swap(2)]), (2, 34, vec![Act::Swap(3)])],
        &[Act::Log(0, 1), Act::Log(0, 1), Act::Log(0, 1), Act::Log(0, 1), Act::Swap(0), Act::Log(0, 1)],
    ));
    // failing appenders (names ending in 9) while the swap happens: the error loop runs after a
    // re-entrant set_config, with every position of the failing appender
    let errfam = vec![
        MiniCfg { table: vec![10, 19, 12], root_level: 5, root_apps: vec![10, 19, 12], loggers: vec![(7, 5, vec![19])] },
        MiniCfg { table: vec![29], root_level: 5, root_apps: vec![29], loggers: vec![] },
        MiniCfg { table: vec![30, 31], root_level: 5, root_apps: vec![31, 30], loggers: vec![] },
    ];
    for app in [10u64, 19, 12] {
        for k in 1..3usize {
            emit(swap_case(&errfam, &[(0, app, vec![Act::Swap(k), Act::Log(0, 2)])], &[Act::Log(0, 3), Act::Log(7, 3), Act::Log(0, 3)]));
        }
    }
    emit(swap_case(&errfam, &[(0, 19, vec![Act::Swap(1)]), (1, 29, vec![Act::Swap(0), Act::Log(7, 1)])], &[Act::Log(7, 1), Act::Log(0, 1), Act::Log(0, 1)]));
    // swaps between records only
    emit(swap_case(&fam, &[], &[Act::Log(0, 3), Act::Swap(1), Act::Log(0, 3), Act::Swap(2), Act::Log(7, 2), Act::Swap(3), Act::Log(0, 1), Act::Swap(0), Act::Log(7, 3)]));
    emit(swap_case(&fam, &[], &[Act::Log(0, 3)]));
}

fn gen_swap_random(rng: &mut Rng, thorough: bool, emit: &mut dyn FnMut(String)) {
    let ncfg = rng.range(2, if thorough { 5 } else { 4 }) as usize;
    let cfgs: Vec<MiniCfg> = (0..ncfg).map(|k| random_cfg(rng, k)).collect();
    let mut scripts = vec![];
    for (k, c) in cfgs.iter().enumerate() {
        for a in &c.table {
            if rng.chance(1, 2) {
                let n = rng.range(1, 3);
                scripts.push((k, *a, (0..n).map(|_| random_act(rng, ncfg, 2, 3)).collect()));
            }
        }
    }
    let nops = rng.range(1, if thorough { 9 } else { 6 });
    let ops: Vec<Act> = (0..nops).map(|_| random_act(rng, ncfg, 1, 4)).collect();
    emit(swap_case(&cfgs, &scripts, &ops));
}

fn gen_stress(rng: &mut Rng, thorough: bool, emit: &mut dyn FnMut(String)) {
    let fam = family();
    let enc = |cs: &[MiniCfg]| cs.iter().map(enc_cfg).collect::<Vec<_>>().join("|");
    if thorough {
        for (nl, nr, it) in [(2, 1, 3000), (4, 1, 3000), (8, 1, 2000), (4, 2, 3000), (8, 3, 3000), (12, 4, 2000)] {
            emit(format!("stress\t{}\t{}\t{}\t{}\t0.3,7.3,7.5", enc(&fam[..2]), nl, nr, it));
            emit(format!("stress\t{}\t{}\t{}\t{}\t0.3,7.2", enc(&fam), nl, nr, it));
            let cfgs: Vec<MiniCfg> = (0..3).map(|k| random_cfg(rng, k)).collect();
            emit(format!("stress\t{}\t{}\t{}\t{}\t0.1,1.3,2.5,7.2", enc(&cfgs), nl, nr, it));
        }
    } else {
        emit(format!("stress\t{}\t2\t1\t2000\t0.3,7.3,7.5", enc(&fam[..2])));
        emit(format!("stress\t{}\t4\t2\t2000\t0.3,7.2", enc(&fam)));
        emit(format!("stress\t{}\t8\t3\t2000\t0.3,7.2,7.5", enc(&fam)));
        emit(format!("stress\t{}\t6\t1\t2000\t0.3,7.3", enc(&fam[..3])));
        for _ in 0..3 {
            let cfgs: Vec<MiniCfg> = (0..3).map(|k| random_cfg(rng, k)).collect();
            emit(format!("stress\t{}\t{}\t{}\t1500\t0.1,1.3,2.5,7.2", enc(&cfgs), rng.range(2, 6), rng.range(1, 3)));
        }
    }
}

fn enc_doc(d: &Doc) -> String {
    format!("{}:{}:{}:{}", d.kind, d.tag, enc_opt(d.rate, |r| r.to_string()), d.nonce)
}

fn gen_reload_deterministic(emit: &mut dyn FnMut(String)) {
    // docs: 0 = A(30s) 1 = B(60s) 2 = syntax error 3 = C without refresh_rate 4 = A again, other text
    // 5 = lossy D 6 = schema error 7 = bad refresh_rate 8 = A with another rate
    let docs = "g:1:30:0;g:2:60:0;y:9:-:0;g:3:-:0;g:1:30:1;l:4:5:0;c:5:5:0;r:6:5:0;g:1:5:0";
    let hist = [
        "w:1:11",                                 // valid change (+ rate change)
        "w:0:10,w:0:10",                          // no change
        "w:0:11,w:0:12",                          // touch without change
        "w:1:10,w:1:11",                          // same-mtime edit is missed; seen once the mtime moves
        "w:2:11,w:2:11,w:2:12,w:1:13",            // syntax error keeps A and keeps polling; then a good file
        "w:2:11,w:0:12",                          // syntax error, then the previous good text restored (re-applied)
        "x,x,w:1:11",                             // deletion keeps A and keeps polling; then a new file
        "x,w:0:10",                               // deleted and restored unchanged
        "d:11,d:11,w:1:12",                       // unreadable (directory)
        "u:11,w:1:12",                            // unreadable (not UTF-8)
        "d:11,w:1:11",                            // a failed read consumes the mtime: the edit is never applied
        "u:11,w:1:11,w:1:11,w:1:12",              // … until the mtime changes again
        "w:8:11,w:0:12",                          // refresh-rate change only
        "w:3:11,w:1:12,w:0:13",                   // refresh_rate removed: applied, loop ends, later edits ignored
        "w:4:11",                                 // same configuration, different text: applied again
        "w:5:11,w:6:12,w:7:13,w:0:14",            // lossy config is applied; schema error / bad rate keep it
        "w:1:9",                                  // mtime going backwards is a change
    ];
    for h in hist {
        emit(format!("reload\t{}\t0:10:0\t{}", docs, h));
        emit(format!("reload\t{}\t0:10:1\t{}", docs, h)); // mtime unavailable
        // the path is a symlink to the file / has a symlinked directory component: edits go to
        // the file the path resolves to
        emit(format!("reload\t{}\t0:10:0:l\t{}", docs, h));
        emit(format!("reload\t{}\t0:10:0:d\t{}", docs, h));
        // the same documents as JSON and as TOML (Format::Json / Format::Toml)
        emit(format!("reload\t{}\t0:10:0:j\t{}", docs, h));
        emit(format!("reload\t{}\t0:10:0:t\t{}", docs, h));
    }
    // an edit landing INSIDE the initialisation, between its two looks at the file
    for pk in ["f", "l"] {
        for (e, h) in [
            ("e1.11", "w:1:11"),               // B written (mtime 11) while A (mtime 10) is being loaded
            ("e1.11", "w:1:11,w:1:12,w:0:13"), // … picked up only when the mtime moves again
            ("e1.10", "w:1:10,w:1:11"),        // the racing edit keeps the mtime (a same-mtime edit)
            ("e2.11", "w:2:11,w:0:12"),        // racing edit to a broken file
            ("e4.11", "w:4:11,w:1:12"),        // same configuration, other text
            ("e0.11", "w:0:11,w:1:12"),        // racing touch
        ] {
            emit(format!("reload\t{}\t0:10:0:{}:{}\t{}", docs, pk, e, h));
            emit(format!("reload\t{}\t0:10:1:{}:{}\t{}", docs, pk, e, h)); // without mtimes nothing is missed
        }
    }
    // re-pointing the link (ConfigMap / current -> releases/N): the path denotes another file
    for pk in ["f", "l", "d"] {
        for h in ["p:1:11,w:4:12,p:0:13", "p:1:10,p:1:11", "w:1:11,p:1:12,w:0:12,w:0:13", "x,p:1:11,w:2:12,p:0:13", "d:11,p:1:12,w:0:13"] {
            emit(format!("reload\t{}\t0:10:0:{}\t{}", docs, pk, h));
        }
    }
    emit(format!("reload\t{}\t3:10:0\tw:1:11", docs)); // no refresh_rate at start: the reloader never runs
    emit(format!("reload\t{}\t2:10:0\tw:1:11", docs)); // init on a broken file fails
}

fn gen_reload_random(rng: &mut Rng, thorough: bool, emit: &mut dyn FnMut(String)) {
    let nd = rng.range(3, 6) as usize;
    let mut docs: Vec<Doc> = (0..nd)
        .map(|_| {
            let kind = match rng.below(100) {
                0..=59 => 'g',
                60..=67 => 'l',
                68..=79 => 'y',
                80..=89 => 'c',
                _ => 'r',
            };
            Doc {
                kind,
                tag: rng.range(1, 4),
                rate: if rng.chance(3, 20) { None } else { Some(*rng.pick(&[5u64, 30, 60])) },
                nonce: rng.below(3),
            }
        })
        .collect();
    if rng.chance(9, 10) {
        docs[0].kind = 'g';
        if rng.chance(9, 10) && docs[0].rate.is_none() {
            docs[0].rate = Some(30);
        }
    }
    let forget = rng.chance(1, 8);
    let mut m = 10u64;
    let mut cur = 0usize;
    let n = rng.range(1, if thorough { 20 } else { 12 });
    let mut steps = vec![];
    for _ in 0..n {
        match rng.below(20) {
            0..=1 => steps.push(format!("w:{}:{}", cur, m)),
            2..=3 => {
                m += 1;
                steps.push(format!("w:{}:{}", cur, m));
            }
            4..=10 => {
                cur = rng.below(nd as u64) as usize;
                m += rng.range(1, 2);
                steps.push(format!("w:{}:{}", cur, m));
            }
            11..=12 => {
                cur = rng.below(nd as u64) as usize;
                steps.push(format!("w:{}:{}", cur, m));
            }
            13..=14 => steps.push("x".to_owned()),
            15..=16 => {
                if rng.chance(1, 2) {
                    m += 1;
                }
                steps.push(format!("d:{}", m));
            }
            17 => {
                if rng.chance(1, 2) {
                    m += 1;
                }
                steps.push(format!("u:{}", m));
            }
            _ => {
                if m > 1 {
                    m -= 1;
                }
                cur = rng.below(nd as u64) as usize;
                steps.push(format!("w:{}:{}", cur, m));
            }
        }
    }
    let pk = *rng.pick(&["f", "f", "l", "l", "d", "j", "t"]);
    if rng.chance(1, 3) {
        // some edits re-point the path instead of rewriting the file in place
        for st in steps.iter_mut() {
            if st.starts_with("w:") && rng.chance(1, 3) {
                *st = format!("p:{}", &st[2..]);
            }
        }
    }
    let init_edit = if rng.chance(1, 10) {
        // the first step of the history repeats what the racing edit left behind, or not
        format!(":e{}.{}", rng.below(nd as u64), 10 + rng.below(2))
    } else {
        String::new()
    };
    emit(format!(
        "reload\t{}\t0:10:{}:{}{}\t{}",
        docs.iter().map(enc_doc).collect::<Vec<_>>().join(";"),
        enc_bool(forget),
        pk,
        init_edit,
        steps.join(",")
    ));
}

/// histories for the real reloader thread; refresh rates are milliseconds here
/// (`/`-separated: the generic shrinker of `check` must not renumber the documents)
const THREAD_DOCS: &str = "g:1:20:0/g:2:40:0/y:9:-:0/g:3:-:0/g:1:20:1/g:5:3000:0/c:6:20:0/g:7:20:0/r:8:20:0/l:4:40:0/g:6:0:0";

fn gen_thread_deterministic(emit: &mut dyn FnMut(String)) {
    // docs: 0 = A(20ms) 1 = B(40ms) 2 = syntax error 3 = C without refresh_rate 4 = A, other text
    // 5 = S(3000ms) 6 = schema error 7 = D(20ms) 8 = bad refresh_rate 9 = lossy E(40ms)
    let hist = [
        "0:10>w:1:11,w:7:12",                 // valid changes (rate 20 -> 40 -> 20)
        "0:10>w:0:10,w:0:11,w:1:12",          // no change, touch without change, then a change
        "0:10>w:2:11,w:2:11,w:0:12",          // syntax error keeps A and keeps polling; restore re-applies
        "0:10>w:2:11,w:1:12",                 // syntax error, then another good file
        "0:10>x,w:0:10,x,w:1:11",             // delete + recreate unchanged, delete + recreate changed
        "0:10>w:1:11,w:7:12,w:0:13,w:1:14",   // refresh-rate changes both ways, polling continues
        "0:10>w:3:11,w:1:12,w:0:13",          // refresh_rate removed: applied, thread ends, later edits ignored
        "0:10>w:1:10,w:1:11",                 // same-mtime edit missed, seen when the mtime moves
        "0:10>u:11,w:1:11,w:1:10",            // unreadable (not UTF-8), same mtime afterwards is still seen (fixed)
        "0:10>w:5:11,w:1:12,z,w:0:13",        // slow rate: next edit not seen before the long wait
        "0:10>w:6:11,w:8:12,w:9:13,w:0:14",   // schema error / bad rate keep A; lossy config applied
        "0:10>w:4:11,w:4:12",                 // same configuration, other text: applied again; then touch
        "3:10>w:1:11",                        // no refresh_rate at start: no thread
        "2:10>w:1:11",                        // init on a broken file fails
        "0:10>w:1:9,w:2:8,x,w:2:8,w:7:7",     // mtime going backwards; bad, deleted, bad again, good
        // path kinds (init part d:m:<path kind>:<stderr kind>): l = the path is a symlink to the file
        "0:10:l:n>w:1:11,w:7:12",             // edits of the link's target are seen
        "0:10:l:n>p:1:11,w:7:12,x,w:0:13",    // link re-pointed, new target edited, deleted, recreated
        "0:10:l:n>w:2:11,w:0:12,w:3:13,w:1:14", // syntax error + restore + rate removal through the link
        "0:10:l:n>w:0:11,w:1:11,w:1:12",      // touch, same-mtime edit, seen when the target's mtime moves
        // d = a directory component of the path is a symlink (ConfigMap layout)
        "0:10:d:n>w:1:11,w:0:11,w:0:12",
        "0:10:d:n>p:1:11,w:7:12,p:0:13,x,p:1:14",
        // stderr kinds: p = a pipe whose reading end is closed (every error report fails with EPIPE):
        // a reported poll failure must not end the loop - the later valid change is applied
        "0:10:f:p>w:2:11,w:1:12",             // syntax error, then a valid file
        "0:10:f:p>x,x,w:1:11",                // deleted, then a new file
        "0:10:f:p>u:11,w:1:12",               // unreadable, then a valid file
        "0:10:f:p>w:6:11,w:8:12,w:7:13",      // schema error, bad refresh rate, then a valid file
        "0:10:f:p>w:9:11,w:0:12",             // lossy config (reported, applied), then a change
        "0:10:l:p>w:2:11,p:1:12,x,w:7:13",    // both: link + closed stderr
        "0:10:f:p>w:1:11,w:7:12",             // control: nothing to report
        // refresh_rate 0: the loop polls without sleeping
        "0:10>w:10:11,w:1:12,w:10:13,w:2:14,w:0:15",
        // an edit landing inside init_file, between its two looks at the file
        "0:10:f:n:e1.11>w:1:11,w:7:12",
        "0:10:l:n:e7.11>w:7:11,w:7:12",
    ];
    emit(format!("thread\t{}\t{}", THREAD_DOCS, hist.join("|")));
}

fn gen_thread_random(rng: &mut Rng, emit: &mut dyn FnMut(String)) {
    // 15 histories per case line (they run in parallel children)
    let mut hs = vec![];
    for _ in 0..15 {
        let nd = 10u64;
        let mut m = 10u64;
        let mut cur = *rng.pick(&[0usize, 0, 0, 1, 7]);
        let start = cur;
        let n = rng.range(2, 7);
        let mut steps: Vec<String> = vec![];
        let mut slow_pending = false;
        for _ in 0..n {
            if slow_pending {
                // after the slow-rate document: one unseen edit, then the long wait
                cur = *rng.pick(&[0usize, 1, 7]);
                m += 1;
                steps.push(format!("w:{}:{}", cur, m));
                steps.push("z".to_owned());
                slow_pending = false;
                continue;
            }
            match rng.below(20) {
                0..=1 => steps.push(format!("w:{}:{}", cur, m)),
                2..=3 => {
                    m += 1;
                    steps.push(format!("w:{}:{}", cur, m));
                }
                4..=11 => {
                    cur = rng.below(nd) as usize;
                    if cur == 5 && rng.chance(2, 3) {
                        cur = 1;
                    }
                    m += rng.range(1, 2);
                    steps.push(format!("w:{}:{}", cur, m));
                    slow_pending = cur == 5;
                }
                12..=13 => {
                    cur = *rng.pick(&[0usize, 1, 2, 4, 7, 9]);
                    steps.push(format!("w:{}:{}", cur, m));
                }
                14..=16 => steps.push("x".to_owned()),
                17 => {
                    if rng.chance(1, 2) {
                        m += 1;
                    }
                    steps.push(format!("u:{}", m));
                }
                _ => {
                    if m > 1 {
                        m -= 1;
                    }
                    cur = *rng.pick(&[0usize, 1, 2, 3, 7]);
                    steps.push(format!("w:{}:{}", cur, m));
                }
            }
        }
        let pk = *rng.pick(&["f", "f", "l", "l", "d"]);
        let ek = if rng.chance(1, 3) { "p" } else { "n" };
        if rng.chance(1, 3) {
            for st in steps.iter_mut() {
                if st.starts_with("w:") && rng.chance(1, 3) {
                    *st = format!("p:{}", &st[2..]);
                }
            }
        }
        hs.push(format!("{}:10:{}:{}>{}", start, pk, ek, steps.join(",")));
    }
    emit(format!("thread\t{}\t{}", THREAD_DOCS, hs.join("|")));
}

/// all interleavings of the two writes (a<k> = set_max_level of call k, s<k> = its store)
fn race_interleavings(calls: &[usize]) -> Vec<Vec<String>> {
    fn go(pending: &mut Vec<(usize, u8)>, cur: &mut Vec<String>, out: &mut Vec<Vec<String>>) {
        if pending.iter().all(|p| p.1 == 2) {
            out.push(cur.clone());
            return;
        }
        for i in 0..pending.len() {
            let (k, st) = pending[i];
            if st < 2 {
                pending[i].1 += 1;
                cur.push(format!("{}{}", if st == 0 { "a" } else { "s" }, k));
                go(pending, cur, out);
                cur.pop();
                pending[i].1 -= 1;
            }
        }
    }
    let mut pending: Vec<(usize, u8)> = calls.iter().map(|k| (*k, 0)).collect();
    let mut out = vec![];
    go(&mut pending, &mut vec![], &mut out);
    out
}

fn gen_race(rng: &mut Rng, thorough: bool, emit: &mut dyn FnMut(String)) {
    // configurations differing in their max level: 0 = the installed one
    let sets: Vec<(Vec<MiniCfg>, &str)> = vec![
        (
            vec![
                MiniCfg { table: vec![10], root_level: 3, root_apps: vec![10], loggers: vec![] },
                MiniCfg { table: vec![20], root_level: 5, root_apps: vec![20], loggers: vec![] },
                MiniCfg { table: vec![30], root_level: 1, root_apps: vec![30], loggers: vec![] },
                MiniCfg { table: vec![40, 41], root_level: 2, root_apps: vec![41, 40], loggers: vec![] },
            ],
            "0.1,0.2,0.3,0.4,0.5",
        ),
        (
            vec![
                MiniCfg { table: vec![10, 11], root_level: 2, root_apps: vec![10], loggers: vec![(7, 5, vec![11])] },
                MiniCfg { table: vec![20], root_level: 1, root_apps: vec![20], loggers: vec![] },
                MiniCfg { table: vec![30, 31], root_level: 4, root_apps: vec![31], loggers: vec![(7, 0, vec![30])] },
                MiniCfg { table: vec![], root_level: 0, root_apps: vec![], loggers: vec![] },
            ],
            "0.1,0.3,0.5,7.1,7.3,7.5",
        ),
    ];
    for (cfgs, probes) in &sets {
        let enc3 = cfgs[..3].iter().map(enc_cfg).collect::<Vec<_>>().join("|");
        let enc4 = cfgs.iter().map(enc_cfg).collect::<Vec<_>>().join("|");
        // two calls: all 6 interleavings, both role assignments
        for il in race_interleavings(&[1, 2]) {
            emit(format!("race\t{}\t{}\t{}", enc3, il.join(","), probes));
        }
        for il in race_interleavings(&[2, 3]) {
            emit(format!("race\t{}\t{}\t{}", enc4, il.join(","), probes));
        }
        // three calls: 90 interleavings; a sample in the quick tier
        let mut all = race_interleavings(&[1, 2, 3]);
        if !thorough {
            rng.shuffle(&mut all);
            all.truncate(12);
        }
        for il in all {
            emit(format!("race\t{}\t{}\t{}", enc4, il.join(","), probes));
        }
    }
}

pub fn gen(rng: &mut Rng, n: usize, thorough: bool, emit: &mut dyn FnMut(String)) {
    gen_race(rng, thorough, emit);
    gen_swap_deterministic(emit);
    gen_reload_deterministic(emit);
    gen_stress(rng, thorough, emit);
    gen_thread_deterministic(emit);
    if thorough {
        for _ in 0..9 {
            gen_thread_random(rng, emit);
        }
    }
    for i in 0..n {
        if i % 5 < 3 {
            gen_swap_random(rng, thorough, emit);
        } else {
            gen_reload_random(rng, thorough, emit);
        }
    }
}

// ---------------------------------------------------------------------------------------------
// the real reloader thread: `init_file` in a child process (the global logger exists once per process)
// ---------------------------------------------------------------------------------------------
/// wait after every edit: 15 x the largest ordinary refresh rate (40 ms) the generators use
const THREAD_WAIT_MS: u64 = 600;
/// the `z` step: longer than the slow refresh rate (3000 ms) plus the same margin
const THREAD_LONG_WAIT_MS: u64 = 4000;

/// Histories are independent of each other, so the observation of a case line is the join of the
/// observations of its histories. Within ONE run of `./check` (same parent process, same harness
/// binary) a history that has already been executed is not executed again: the shrinker's
/// candidates are mostly subsets of the histories of the failing line, and every real execution
/// costs seconds of waiting. The first evaluation of a run always executes for real.
fn thread_cache_dir() -> Option<PathBuf> {
    let base = std::env::var("VERIF_SCRATCH").ok()?;
    let ppid = std::os::unix::process::parent_id();
    let stat = std::fs::read_to_string(format!("/proc/{}/stat", ppid)).ok()?;
    // field 22 (after the parenthesised command name) is the parent's start time
    let start = stat.rsplit_once(')')?.1.split_whitespace().nth(19)?.to_owned();
    let exe = std::env::current_exe().ok()?;
    let md = std::fs::metadata(&exe).ok()?;
    let mt = md.modified().ok()?.duration_since(SystemTime::UNIX_EPOCH).ok()?.as_nanos();
    // drop caches of runs whose parent is gone
    if let Ok(rd) = std::fs::read_dir(&base) {
        for e in rd.flatten() {
            let name = e.file_name().to_string_lossy().into_owned();
            if let Some(rest) = name.strip_prefix("c15_threadcache_") {
                let pid = rest.split('_').next().unwrap_or("");
                if !Path::new(&format!("/proc/{}", pid)).exists() {
                    let _ = std::fs::remove_dir_all(e.path());
                }
            }
        }
    }
    let d = Path::new(&base).join(format!("c15_threadcache_{}_{}_{}_{}", ppid, start, md.len(), mt));
    std::fs::create_dir_all(&d).ok()?;
    Some(d)
}

fn fnv(s: &str) -> String {
    let mut h: u64 = 0xcbf29ce484222325;
    for b in s.bytes() {
        h ^= b as u64;
        h = h.wrapping_mul(0x100000001b3);
    }
    format!("{:016x}", h)
}

fn exec_thread(docs: &str, hists: &str) -> String {
    let exe = match std::env::current_exe() {
        Ok(e) => e,
        Err(_) => return "ERROR:current_exe".to_owned(),
    };
    let cache = thread_cache_dir();
    enum Job {
        Cached(String),
        Run(std::io::Result<std::process::Child>, PathBuf, Option<PathBuf>),
    }
    let mut jobs = vec![];
    for h in hists.split('|') {
        let slot = cache.as_ref().map(|c| c.join(fnv(&format!("{}\t{}", docs, h))));
        if let Some(Ok(o)) = slot.as_ref().map(std::fs::read_to_string) {
            jobs.push(Job::Cached(o));
            continue;
        }
        let dir = scratch_dir();
        // stderr kind: 4th component of the history's init part; `p` = a pipe whose reading end is
        // closed before the child starts (every write to stderr fails with EPIPE), else /dev/null
        let ek = h.split('>').next().and_then(|i| i.split(':').nth(3)).unwrap_or("n");
        let stderr = if ek == "p" {
            match std::io::pipe() {
                Ok((r, w)) => {
                    drop(r);
                    std::process::Stdio::from(w)
                }
                Err(_) => std::process::Stdio::null(),
            }
        } else {
            std::process::Stdio::null()
        };
        let ch = {
            let mut cmd = std::process::Command::new(&exe);
            cmd.args(["child", "c15", "thread", docs, h])
                .arg(&dir)
                .stdin(std::process::Stdio::null())
                .stdout(std::process::Stdio::piped())
                .stderr(stderr);
            cmd.spawn()
            // `cmd` (and with it the parent's copy of the pipe's writing end) is dropped here
        };
        jobs.push(Job::Run(ch, dir, slot));
    }
    let deadline = Instant::now() + Duration::from_secs(90);
    let mut out = vec![];
    for job in jobs {
        let (ch, dir, slot) = match job {
            Job::Cached(o) => {
                out.push(o);
                continue;
            }
            Job::Run(ch, dir, slot) => (ch, dir, slot),
        };
        let obs = match ch {
            Err(_) => "ERROR:spawn".to_owned(),
            Ok(mut ch) => {
                // bounded wait
                let mut status = None;
                while Instant::now() < deadline {
                    match ch.try_wait() {
                        Ok(Some(st)) => {
                            status = Some(st);
                            break;
                        }
                        Ok(None) => std::thread::sleep(Duration::from_millis(20)),
                        Err(_) => break,
                    }
                }
                match status {
                    None => {
                        let _ = ch.kill();
                        let _ = ch.wait();
                        "TIMEOUT".to_owned()
                    }
                    Some(st) => {
                        let mut text = String::new();
                        if let Some(mut o) = ch.stdout.take() {
                            use std::io::Read;
                            let _ = o.read_to_string(&mut text);
                        }
                        let line = text.lines().next().unwrap_or("").trim().to_owned();
                        if !st.success() || line.is_empty() {
                            format!("ABORT:{:?}", st.code())
                        } else {
                            if let Some(slot) = slot {
                                let _ = std::fs::write(slot, &line);
                            }
                            line
                        }
                    }
                }
            }
        };
        let _ = std::fs::remove_dir_all(&dir);
        out.push(obs);
    }
    out.join("|")
}

/// atomic replacement of the configuration file: a poll sees the old or the new version, never a
/// half-written one
fn put_file_atomic(p: &Path, bytes: &[u8], m: u64) {
    let tmp = p.with_extension("tmp");
    put_file(&tmp, bytes, m);
    std::fs::rename(&tmp, p).unwrap();
}

/// is the thread `ConfigReloader::start` names "log4rs refresh" still there?
fn reloader_thread_alive() -> bool {
    if let Ok(rd) = std::fs::read_dir("/proc/self/task") {
        for e in rd.flatten() {
            if let Ok(c) = std::fs::read_to_string(e.path().join("comm")) {
                if c.trim_end() == "log4rs refresh" {
                    return true;
                }
            }
        }
    }
    false
}

fn probe_global() -> (String, Vec<usize>) {
    RTAGS.with(|t| t.borrow_mut().clear());
    log::error!(target: "probe", "p");
    let mut tags = RTAGS.with(|t| t.borrow().clone());
    tags.sort();
    let serials = tags.iter().map(|t| t.1).collect();
    if tags.is_empty() {
        ("none".to_owned(), serials)
    } else {
        (tags.iter().map(|t| t.0.to_string()).collect::<Vec<_>>().join("+"), serials)
    }
}

fn child_thread(docs: &str, hist: &str, dir: &str) -> Result<String, String> {
    let docs: Vec<Doc> = dec_list('/', docs).iter().map(|d| dec_doc(d)).collect::<Option<_>>().ok_or("docs")?;
    let (init, steps) = hist.split_once('>').ok_or("history")?;
    let f: Vec<&str> = init.split(':').collect();
    if f.len() != 2 && f.len() != 4 && f.len() != 5 {
        return Err("init".to_owned());
    }
    // optional 5th component `e<doc>.<mtime>`: an edit landing inside init_file, between its two
    // looks at the file
    let init_edit: Option<(usize, u64)> = match f.get(4) {
        None => None,
        Some(e) => {
            let (d, m) = e.strip_prefix('e').and_then(|r| r.split_once('.')).ok_or("init edit")?;
            let d: usize = d.parse().map_err(|_| "init edit")?;
            let m: u64 = m.parse().map_err(|_| "init edit")?;
            if d >= docs.len() {
                return Err("init edit".to_owned());
            }
            Some((d, m))
        }
    };
    let d0: usize = f[0].parse().map_err(|_| "init")?;
    let m0: u64 = f[1].parse().map_err(|_| "init")?;
    if d0 >= docs.len() {
        return Err("init".to_owned());
    }
    // optional: path kind, stderr kind (the latter is the parent's business)
    let pk = if f.len() >= 4 { f[2].chars().next().unwrap_or('?') } else { 'f' };
    let mut lay = Layout::new(Path::new(dir), pk, true).ok_or("path kind")?;
    let path = lay.path();
    lay.put(render_doc_unit(&docs[d0], "ms").as_bytes(), m0);
    let mut des = log4rs::config::Deserializers::default();
    des.insert("tagged", RTaggedDeserializer(Arc::new(AtomicUsize::new(0))));
    if let Some((d, m)) = init_edit {
        let bytes = render_doc_unit(&docs[d], "ms").into_bytes();
        let target = lay.target();
        log4rs::verif_hooks::set_critical_section_point(Some(Arc::new(move |tag: &str| {
            if tag.starts_with("init_file:") {
                put_file_atomic(&target, &bytes, m);
            }
        })));
    }
    let inited = log4rs::init_file(&path, des);
    log4rs::verif_hooks::set_critical_section_point(None);
    if inited.is_err() {
        return Ok("init-err".to_owned());
    }
    // give `thread::Builder::spawn` a moment to name the thread
    std::thread::sleep(Duration::from_millis(50));
    let (tag0, mut serials) = probe_global();
    let mut out = vec![format!("init:{}:{}", tag0, enc_bool(reloader_thread_alive()))];
    for s in dec_list(',', steps) {
        let f: Vec<&str> = s.split(':').collect();
        let mut wait = THREAD_WAIT_MS;
        match f.as_slice() {
            ["w", d, m] => {
                let d: usize = d.parse().map_err(|_| "step")?;
                let m: u64 = m.parse().map_err(|_| "step")?;
                if d >= docs.len() {
                    return Err("step".to_owned());
                }
                lay.put(render_doc_unit(&docs[d], "ms").as_bytes(), m);
            }
            ["p", d, m] => {
                let d: usize = d.parse().map_err(|_| "step")?;
                let m: u64 = m.parse().map_err(|_| "step")?;
                if d >= docs.len() {
                    return Err("step".to_owned());
                }
                lay.repoint(render_doc_unit(&docs[d], "ms").as_bytes(), m);
            }
            ["x"] => lay.clear(),
            ["u", m] => {
                let m: u64 = m.parse().map_err(|_| "step")?;
                lay.put(&[0x61, 0xff, 0xfe, 0x0a], m);
            }
            ["z"] => wait = THREAD_LONG_WAIT_MS,
            _ => return Err("step".to_owned()),
        }
        std::thread::sleep(Duration::from_millis(wait));
        let (tag, now) = probe_global();
        let touched = now != serials;
        serials = now;
        out.push(format!("{}:{}:{}", tag, enc_bool(touched), enc_bool(reloader_thread_alive())));
    }
    Ok(out.join(","))
}

/// child-process entry point: `verif-harness child c15 thread <docs> <history> <scratch dir>`
pub fn child(args: &[String]) -> i32 {
    if args.len() != 4 || (args[0] != "thread" && args[0] != "race") {
        return 2;
    }
    let r = guarded(std::panic::AssertUnwindSafe(|| {
        if args[0] == "thread" {
            child_thread(&args[1], &args[2], &args[3])
        } else {
            child_race(&args[1], &args[2], &args[3])
        }
    }));
    let obs = match r {
        Ok(Ok(s)) => s,
        Ok(Err(e)) => format!("ERROR:{}", e),
        Err(_) => "PANIC".to_owned(),
    };
    println!("{}", obs);
    0
}

// ---------------------------------------------------------------------------------------------
// racing `set_config` calls, observed through the `log` facade (child process: the logger is
// installed globally, records go through the `log!` macro and its `max_level()` gate)
// ---------------------------------------------------------------------------------------------
fn exec_race(cfgs: &str, sched: &str, probes: &str) -> String {
    let exe = match std::env::current_exe() {
        Ok(e) => e,
        Err(_) => return "ERROR:current_exe".to_owned(),
    };
    let ch = std::process::Command::new(&exe)
        .args(["child", "c15", "race", cfgs, sched, probes])
        .stdin(std::process::Stdio::null())
        .stdout(std::process::Stdio::piped())
        .stderr(std::process::Stdio::null())
        .spawn();
    let mut ch = match ch {
        Ok(c) => c,
        Err(_) => return "ERROR:spawn".to_owned(),
    };
    let deadline = Instant::now() + Duration::from_secs(60);
    loop {
        match ch.try_wait() {
            Ok(Some(st)) => {
                let mut text = String::new();
                if let Some(mut o) = ch.stdout.take() {
                    use std::io::Read;
                    let _ = o.read_to_string(&mut text);
                }
                let line = text.lines().next().unwrap_or("").trim().to_owned();
                return if !st.success() || line.is_empty() { format!("ABORT:{:?}", st.code()) } else { line };
            }
            Ok(None) => {
                if Instant::now() > deadline {
                    let _ = ch.kill();
                    let _ = ch.wait();
                    return "TIMEOUT".to_owned();
                }
                std::thread::sleep(Duration::from_millis(2));
            }
            Err(_) => return "ERROR:wait".to_owned(),
        }
    }
}

thread_local! {
    static RACE_ID: std::cell::Cell<usize> = std::cell::Cell::new(usize::MAX);
}

/// phases of one `set_config` call: 0 not started, 1 told to start, 5 inside `set_config` before the
/// hook point, 2 stopped at the hook point between `log::set_max_level` and `store`, 3 released
/// from it, 4 returned
struct RaceCtl {
    phase: Mutex<Vec<u8>>,
    tids: Mutex<Vec<i64>>,
    cv: std::sync::Condvar,
    drain: AtomicBool,
}

/// scheduler state of a thread of this process, from /proc (`R` running/runnable, `S` sleeping …)
fn task_state(tid: i64) -> Option<char> {
    let st = std::fs::read_to_string(format!("/proc/self/task/{}/stat", tid)).ok()?;
    st.rsplit_once(')')?.1.trim_start().chars().next()
}

/// Wait until every call that has entered `set_config` has either reached the hook point or is
/// BLOCKED (sleeping, three samples in a row, without having reached it - which only happens when
/// `set_config` is serialised by a lock that another call holds). No fixed time-out decides
/// this, so a starved but runnable thread is simply waited for.
fn race_settle(ctl: &RaceCtl) {
    let deadline = Instant::now() + Duration::from_secs(30);
    let mut asleep = 0;
    while Instant::now() < deadline {
        let entering: Vec<usize> = {
            let ph = ctl.phase.lock().unwrap();
            (0..ph.len()).filter(|k| ph[*k] == 1 || ph[*k] == 5).collect()
        };
        if entering.is_empty() {
            return;
        }
        let tids = ctl.tids.lock().unwrap().clone();
        let all_blocked = entering.iter().all(|k| {
            let ph = ctl.phase.lock().unwrap()[*k];
            ph == 5 && tids[*k] != 0 && task_state(tids[*k]) == Some('S')
        });
        if all_blocked {
            asleep += 1;
            if asleep >= 3 {
                return;
            }
        } else {
            asleep = 0;
        }
        std::thread::sleep(Duration::from_millis(4));
    }
}

fn child_race(cfgs: &str, sched: &str, probes: &str) -> Result<String, String> {
    let cfgs = dec_cfgs(cfgs).ok_or("cfgs")?;
    let ncfg = cfgs.len();
    let mut events: Vec<(char, usize)> = vec![];
    for e in dec_list(',', sched) {
        let (c, k) = e.split_at(1);
        let k: usize = k.parse().map_err(|_| "schedule")?;
        if !(c == "a" || c == "s") || k == 0 || k >= ncfg {
            return Err("schedule".to_owned());
        }
        events.push((c.chars().next().unwrap(), k));
    }
    let probes: Vec<(u64, u64)> = dec_list(',', probes)
        .iter()
        .map(|p| {
            let (t, l) = p.split_once('.')?;
            Some((t.parse().ok()?, l.parse().ok()?))
        })
        .collect::<Option<_>>()
        .ok_or("probes")?;
    let ctx = Arc::new(Ctx { cfgs, scripts: vec![], logger: Mutex::new(None), handle: Mutex::new(None) });
    let handle = log4rs::init_config(build_config(&ctx, 0)).map_err(|e| e.to_string())?;
    let ctl = Arc::new(RaceCtl {
        phase: Mutex::new(vec![0; ncfg]),
        tids: Mutex::new(vec![0; ncfg]),
        cv: std::sync::Condvar::new(),
        drain: AtomicBool::new(false),
    });
    {
        let ctl = ctl.clone();
        log4rs::verif_hooks::set_critical_section_point(Some(Arc::new(move |tag: &str| {
            if tag != "set_config:between-max-level-and-store" {
                return;
            }
            let k = RACE_ID.with(|c| c.get());
            if k == usize::MAX {
                return;
            }
            let mut ph = ctl.phase.lock().unwrap();
            ph[k] = 2;
            ctl.cv.notify_all();
            while ph[k] != 3 && !ctl.drain.load(Ordering::SeqCst) {
                ph = ctl.cv.wait(ph).unwrap();
            }
        })));
    }
    let mut threads = vec![];
    for k in 1..ncfg {
        let (ctl, ctx, handle) = (ctl.clone(), ctx.clone(), handle.clone());
        threads.push(std::thread::spawn(move || {
            let cfg = build_config(&ctx, k);
            {
                let mut ph = ctl.phase.lock().unwrap();
                while ph[k] != 1 && !ctl.drain.load(Ordering::SeqCst) {
                    ph = ctl.cv.wait(ph).unwrap();
                }
                if ph[k] != 1 {
                    return;
                }
                ctl.tids.lock().unwrap()[k] = unsafe { libc::syscall(libc::SYS_gettid) } as i64;
                ph[k] = 5;
            }
            RACE_ID.with(|c| c.set(k));
            handle.set_config(cfg);
            let mut ph = ctl.phase.lock().unwrap();
            ph[k] = 4;
            ctl.cv.notify_all();
        }));
    }
    let observe = |ctl: &RaceCtl| -> String {
        let ph = ctl.phase.lock().unwrap().clone();
        let list = |want: u8| -> String {
            let v: Vec<String> = (1..ncfg).filter(|k| ph[*k] == want).map(|k| k.to_string()).collect();
            if v.is_empty() { "~".to_owned() } else { v.join("+") }
        };
        let mut ds = vec![];
        for (t, l) in &probes {
            reset_thread_state();
            STACK.with(|s| s.borrow_mut().push(0));
            let target = format!("t{}", t);
            log::log!(target: &target, level(*l), "probe");
            STACK.with(|s| s.borrow_mut().pop());
            let items = TRACE.with(|t| t.borrow().clone());
            ds.push(render_deliveries(&items));
        }
        format!("{}:{}:{}:{}", log::max_level() as usize, list(2), list(4), ds.join("/"))
    };
    let wait_until = |ctl: &RaceCtl, ms: u64, pred: &dyn Fn(&Vec<u8>) -> bool| {
        let deadline = Instant::now() + Duration::from_millis(ms);
        let mut ph = ctl.phase.lock().unwrap();
        while !pred(&ph) {
            let now = Instant::now();
            if now >= deadline {
                break;
            }
            ph = ctl.cv.wait_timeout(ph, deadline - now).unwrap().0;
        }
    };
    let mut out = vec![observe(&ctl)];
    for (c, k) in events {
        if c == 'a' {
            let fresh = {
                let mut ph = ctl.phase.lock().unwrap();
                if ph[k] == 0 {
                    ph[k] = 1;
                    ctl.cv.notify_all();
                    true
                } else {
                    false
                }
            };
            if fresh {
                race_settle(&ctl);
            }
        } else {
            let at_hook = {
                let mut ph = ctl.phase.lock().unwrap();
                if ph[k] == 2 {
                    ph[k] = 3;
                    ctl.cv.notify_all();
                    true
                } else {
                    false
                }
            };
            if at_hook {
                wait_until(&ctl, 30000, &|ph| ph[k] == 4);
                // a call that was blocked behind this one (serialised set_config) now proceeds
                race_settle(&ctl);
            }
        }
        out.push(observe(&ctl));
    }
    // let everything finish
    ctl.drain.store(true, Ordering::SeqCst);
    {
        let _g = ctl.phase.lock().unwrap();
        ctl.cv.notify_all();
    }
    for t in threads {
        let _ = t.join();
    }
    log4rs::verif_hooks::set_critical_section_point(None);
    drop_ctx(&ctx);
    Ok(out.join(";"))
}
