//! C17 — on-start-up trigger rolls at most once, on the first record, if big enough.
//! Real code: `RollingFileAppender` + `CompoundPolicy(OnStartUpTrigger, roller)` over pre-populated
//! files; sequential histories with restarts, and 8 threads released by a barrier for the first
//! append with the critical-section amplifier. Case format and executor are those of C05.
use crate::c05::{self, Case, RollSpec, TrigChoice, TrigSpec};
use crate::c04::RecSpec;
use crate::proto::*;
use crate::rng::Rng;

const MINS: &[u64] = &[0, 1, 5, 4096];

pub fn gen(rng: &mut Rng, n: usize, thorough: bool, emit: &mut dyn FnMut(String)) {
    // deterministic block: min × {absent, 0, min-1, min, min+1} × mode × roller
    for &min in MINS {
        let mut pres = vec![None, Some(0), Some(min), Some(min + 1)];
        if min > 0 {
            pres.push(Some(min - 1));
        }
        for pre in pres {
            for append in [true, false] {
                for roll in [RollSpec::Delete, RollSpec::Fw { base: 1, count: 2, pat: 0 }, RollSpec::Fw { base: 0, count: 3, pat: 2 }] {
                    let pre_arch = match &roll {
                        RollSpec::Fw { base, .. } => vec![(*base, 3u64), (*base + 1, 4u64)],
                        RollSpec::Delete => vec![],
                    };
                    let case = Case {
                        append,
                        pre_active: pre,
                        pre_arch,
                        trig: TrigSpec::Startup(min),
                        roll: roll.clone(),
                        clock0: 1_700_000_000,
                    };
                    let ops = vec![
                        RecSpec::Bin { id: 1, sizes: vec![6] }.render(),
                        RecSpec::Bin { id: 2, sizes: vec![min.max(1)] }.render(),
                        RecSpec::Bin { id: 3, sizes: vec![0] }.render(),
                        "r".to_owned(),
                        RecSpec::Bin { id: 4, sizes: vec![2, 3] }.render(),
                        RecSpec::Bin { id: 5, sizes: vec![1] }.render(),
                        "r".to_owned(),
                        "r".to_owned(),
                        RecSpec::Text { id: 6, text: "héllo".to_owned() }.render(),
                    ];
                    emit(format!("seq\t{}\t{}", case.render(), enc_list(",", &ops)));
                    // the first records arrive simultaneously from 8 threads
                    let threads: Vec<String> = (0..8u64)
                        .map(|t| {
                            (0..2u64)
                                .map(|s| RecSpec::Bin { id: (t + 1) * 65536 + s, sizes: vec![8 + t, s * 1020] }.render())
                                .collect::<Vec<_>>()
                                .join(",")
                        })
                        .collect();
                    emit(format!("conc\t{}\t{}\t{}", case.render(), (min + pre.unwrap_or(0)) % 3, threads.join("|")));
                }
            }
        }
    }
    // min_size in the upper half of the u64 range: a small file is never big enough
    for min in [(1u64 << 63) - 1, 1 << 63, (1 << 63) + 1, u64::MAX] {
        for pre in [None, Some(0u64), Some(1), Some(32)] {
            for append in [true, false] {
                let case = Case {
                    append,
                    pre_active: pre,
                    pre_arch: vec![(1, 3), (2, 4)],
                    trig: TrigSpec::Startup(min),
                    roll: RollSpec::Fw { base: 1, count: 2, pat: 0 },
                    clock0: 1_700_000_000,
                };
                let ops = vec![
                    RecSpec::Bin { id: 1, sizes: vec![6] }.render(),
                    RecSpec::Bin { id: 2, sizes: vec![1] }.render(),
                    "r".to_owned(),
                    RecSpec::Bin { id: 3, sizes: vec![2] }.render(),
                ];
                emit(format!("seq\t{}\t{}", case.render(), enc_list(",", &ops)));
            }
        }
    }
    // the first (and/or second) record's encoder fails: the policy is consulted before the encoder,
    // so the start-up rotation belongs to the first record that ARRIVES
    for &min in &[0u64, 1, 5, 4096] {
        let mut pres = vec![None, Some(0u64), Some(min), Some(min + 1)];
        if min > 0 {
            pres.push(Some(min - 1));
        }
        for pre in pres {
            for append in [true, false] {
                for roll in [RollSpec::Delete, RollSpec::Fw { base: 1, count: 2, pat: 0 }] {
                    let pre_arch = match &roll {
                        RollSpec::Fw { base, .. } => vec![(*base, 3u64)],
                        RollSpec::Delete => vec![],
                    };
                    let case = Case {
                        append,
                        pre_active: pre,
                        pre_arch,
                        trig: TrigSpec::Startup(min),
                        roll: roll.clone(),
                        clock0: 1_700_000_000,
                    };
                    let ok = |id: u64, n: u64| RecSpec::Bin { id, sizes: vec![n] }.render();
                    for ops in [
                        vec![format!("e0!{}", ok(1, 4)), ok(2, 3), ok(3, 1)],
                        vec![format!("e1!{}", RecSpec::Bin { id: 1, sizes: vec![2, 2] }.render()), format!("e0!{}", ok(2, 3)), ok(3, 1), "r".to_owned(), format!("e1!{}", ok(4, 2)), ok(5, 1)],
                        vec![ok(1, 4), format!("e0!{}", ok(2, 3)), ok(3, 1)],
                    ] {
                        emit(format!("seq\t{}\t{}", case.render(), enc_list(",", &ops)));
                    }
                }
            }
        }
    }
    // the one rotation request: the roller does its work and reports Err on the first record
    for &min in &[0u64, 1, 5] {
        for append in [true, false] {
            for roll in [RollSpec::Delete, RollSpec::Fw { base: 1, count: 2, pat: 0 }, RollSpec::Fw { base: 0, count: 3, pat: 2 }] {
                let pre_arch = match &roll {
                    RollSpec::Fw { base, .. } => vec![(*base, 3u64), (*base + 1, 4u64)],
                    RollSpec::Delete => vec![],
                };
                let case = Case {
                    append,
                    pre_active: Some(6),
                    pre_arch,
                    trig: TrigSpec::Startup(min),
                    roll: roll.clone(),
                    clock0: 1_700_000_000,
                };
                let ops = vec![
                    format!("g!{}", RecSpec::Bin { id: 1, sizes: vec![6] }.render()),
                    RecSpec::Bin { id: 2, sizes: vec![2] }.render(),
                    format!("g!{}", RecSpec::Bin { id: 3, sizes: vec![1] }.render()),
                    "r".to_owned(),
                    format!("g!{}", RecSpec::Bin { id: 4, sizes: vec![2, 3] }.render()),
                    RecSpec::Bin { id: 5, sizes: vec![1] }.render(),
                ];
                emit(format!("seq\t{}\t{}", case.render(), enc_list(",", &ops)));
            }
        }
    }
    for _ in 0..n {
        emit(c05::gen_seq_case(rng, thorough, TrigChoice::Startup));
    }
    for _ in 0..(if thorough { n / 5 } else { n / 15 }).max(4) {
        emit(c05::gen_conc_case(rng, thorough, TrigChoice::Startup));
    }
}

pub fn exec(fields: &[&str]) -> String {
    c05::exec(fields)
}

/// child-process entry point (`verif-harness child c17 …`); not needed by this property
pub fn child(_args: &[String]) -> i32 {
    2
}
